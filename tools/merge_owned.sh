#!/bin/bash
# usage: merge_owned.sh <agent-dir> <ID> [<ID>...]  — copies only the files the agent owns for those properties
# (kitcheck/c<nn>*.go, kitcheck/prop_c<nn>*.go, kitcheck/fixtures/c<nn>*/, selftest/mutants/<ID>/), merges EXPECT.txt
# line-wise (agent's lines for its own files win), applies DOC; lists every other differing file without touching it.
D=$1; shift
cd /verif
for ID in "$@"; do lid=$(echo $ID | tr C c)
  for f in $(cd $D/kitcheck && ls ${lid}*.go prop_${lid}*.go 2>/dev/null); do cmp -s $D/kitcheck/$f kitcheck/$f || { cp $D/kitcheck/$f kitcheck/$f; echo "UPDATED kitcheck/$f"; }; done
  for fx in $(cd $D/kitcheck/fixtures && ls -d ${lid}* 2>/dev/null); do diff -rq $D/kitcheck/fixtures/$fx kitcheck/fixtures/$fx >/dev/null 2>&1 || { rsync -a $D/kitcheck/fixtures/$fx/ kitcheck/fixtures/$fx/; echo "UPDATED fixtures/$fx"; }; done
  n=$(diff -rq $D/selftest/mutants/$ID selftest/mutants/$ID 2>/dev/null | wc -l); rsync -a $D/selftest/mutants/$ID/ selftest/mutants/$ID/; echo "mutants/$ID: $n files new/changed"
  # EXPECT lines about this property's files
  grep -E "^${lid}-" $D/selftest/mutants/EXPECT.txt | while IFS= read -r line; do k=$(echo "$line" | awk '{print $1}'); cur=$(grep -E "^$k " selftest/mutants/EXPECT.txt | head -1); if [ "$cur" != "$line" ]; then grep -v -E "^$k " selftest/mutants/EXPECT.txt > /tmp/expect.$$; echo "$line" >> /tmp/expect.$$; mv /tmp/expect.$$ selftest/mutants/EXPECT.txt; echo "EXPECT: $line" | cut -c1-160; fi; done
  [ -f $D/DOC/$ID.design.md ] && python3 tools/apply_docs.py $ID $D/DOC | tail -1
done
echo "--- other differing files (NOT copied):"
diff -rq $D/kitcheck kitcheck 2>/dev/null | grep -v '/bin' | grep -v -E "$(for ID in "$@"; do lid=$(echo $ID | tr C c); printf '%s|' "/$lid" "prop_$lid" ; done)ZZZ"
