#!/bin/bash
# Runs dapr/kit's test suite (guard off) in DIR (default /repo) and compares the
# set of passing tests with /root/.vp/BASELINE.json stable_pass.
DIR=${1:-/repo}
export GOFLAGS=-mod=mod GOPROXY=off GOSUMDB=off GOTOOLCHAIN=local
OUT=$(mktemp)
(cd "$DIR" && go test -json -vet=off -count=1 -timeout 25m ./... > "$OUT" 2>/dev/null)
python3 - "$OUT" <<'PY'
import json,sys
passed=set(); failed=set()
for l in open(sys.argv[1]):
    try: e=json.loads(l)
    except Exception: continue
    if e.get('Test') and e.get('Action') in('pass','fail'):
        k=e['Package']+'::'+e['Test']
        (passed if e['Action']=='pass' else failed).add(k)
base=set(json.load(open('/root/.vp/BASELINE.json'))['stable_pass'])
missing=sorted(base-passed)
print(f"passed={len(passed)} failed={len(failed)} baseline={len(base)} baseline_not_passing={len(missing)}")
for m in missing[:40]: print("  MISSING", m)
sys.exit(1 if missing else 0)
PY
rc=$?
rm -f "$OUT"
exit $rc
