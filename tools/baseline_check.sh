#!/bin/bash
# Runs dapr/kit's test suite (guard off) in DIR (default /repo) and compares the
# set of passing tests with /root/.vp/BASELINE.json stable_pass. Timing-sensitive tests
# (cron TestChain*, spiffe trustanchors, …) flake under load: packages with a missing
# baseline test are re-run alone (up to 2 more times) before the test counts as not passing.
DIR=${1:-/repo}
export GOFLAGS=-mod=mod GOPROXY=off GOSUMDB=off GOTOOLCHAIN=local
OUT=$(mktemp)
(cd "$DIR" && go test -json -vet=off -count=1 -timeout 25m ./... > "$OUT" 2>/dev/null)
for try in 1 2; do
  pk=$(python3 - "$OUT" <<'PY'
import json,sys
passed=set()
for l in open(sys.argv[1]):
    try: e=json.loads(l)
    except Exception: continue
    if e.get('Test') and e.get('Action')=='pass': passed.add(e['Package']+'::'+e['Test'])
base=set(json.load(open('/root/.vp/BASELINE.json'))['stable_pass'])
print(' '.join(sorted({m.split('::')[0] for m in base-passed})))
PY
)
  [ -z "$pk" ] && break
  echo "re-running alone (try $try): $pk"
  (cd "$DIR" && go test -json -vet=off -count=1 -p 1 -timeout 25m $pk >> "$OUT" 2>/dev/null)
done
python3 - "$OUT" <<'PY'
import json,sys
passed=set(); failed=set()
for l in open(sys.argv[1]):
    try: e=json.loads(l)
    except Exception: continue
    if e.get('Test') and e.get('Action') in('pass','fail'):
        k=e['Package']+'::'+e['Test']
        (passed if e['Action']=='pass' else failed).add(k)
base=set(json.load(open('/root/.vp/BASELINE.json'))['stable_pass'])
missing=sorted(base-passed)
print(f"passed={len(passed)} failed_at_least_once={len(failed)} baseline={len(base)} baseline_not_passing={len(missing)}")
for m in missing[:40]: print("  MISSING", m)
sys.exit(1 if missing else 0)
PY
rc=$?
rm -f "$OUT"
exit $rc
