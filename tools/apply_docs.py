#!/usr/bin/env python3
# usage: apply_docs.py <ID> <dir-with-ID.design.md-and-ID.claim.json> — pastes an engineer's DESIGN bullet and claim text
import sys,json,re
id,d=sys.argv[1],sys.argv[2]
bullet=open(f'{d}/{id}.design.md').read().strip()+'\n'
claim=json.load(open(f'{d}/{id}.claim.json'))
p='/verif/DESIGN.md'; s=open(p).read()
start=s.find(f'* **{id}**')
if start<0: sys.exit(f'no bullet for {id} in DESIGN.md')
m=re.compile(r'\n(\* \*\*C\d\d\*\*|### |## |-{20,})').search(s,start+5)
end=m.start()+1
s=s[:start]+bullet+s[end:]
open(p,'w').write(s)
cp='/verif/tools/claims.json'; c=json.load(open(cp))
e=c['claimed'][id]
for k in ('text','note','technique'):
    if k in claim and claim[k].strip(): e[k]=claim[k].strip()
json.dump(c,open(cp,'w'),indent=1,ensure_ascii=False)
print(id,'design bullet',len(bullet.splitlines()),'lines; claim text',len(e['text']),'chars')
