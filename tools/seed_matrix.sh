#!/bin/bash
# Runs every confirmed seeded change under /verif/seeded/<prop>-<k>/ through the check of its property
# (on a scratch copy of /repo; /repo itself is never modified), ${SEEDJOBS:-6} at a time, and writes
# /verif/seeded/MATRIX.md plus a "check_result" entry into each meta.json.
cd /verif
out=seeded/MATRIX.md
tmp=$(mktemp -d /tmp/seedmx.XXXXXX)
one() {
  d=$1; n=$(basename $d); prop=${n%%-*}
  [ -f $d/patch.diff ] || exit 0
  res=$(MUTLINES=3 tools/mutrun.sh $PWD/$d/patch.diff $prop 2>&1)
  rc=$(echo "$res" | grep -o 'exit=[0-9]*' | head -1 | cut -d= -f2)
  rule=$(echo "$res" | grep -o 'rule=[^ ]*' | head -1 | cut -d= -f2)
  case "$rc" in 1) st="VIOLATION reported";; 2) st="UNDECIDED (non-zero exit, no VIOLATION line)";; 0) st="missed (exit 0)";; *) st="not applicable ($(echo $res | cut -c1-80))";; esac
  sum=$(python3 -c "import json;print(json.load(open('$d/meta.json'))['summary'].replace('|','/')[:160])")
  echo "| $n | $prop | $sum | $st | ${rule:--} |" > $2/$n.row
  python3 - "$d/meta.json" "$st" "${rule:-}" <<'PY'
import json,sys
p=sys.argv[1]; m=json.load(open(p)); m['check_result']={'status':sys.argv[2],'first_rule':sys.argv[3],'how':'tools/seed_matrix.sh: patch applied to a scratch copy of /repo, ./bin/kitcheck -prop <property> -repo <copy>'}
json.dump(m,open(p,'w'),indent=1)
PY
}
export -f one
ls -d seeded/*/ | sed 's#/$##' | xargs -P ${SEEDJOBS:-6} -I{} bash -c "one {} $tmp"
echo "| seed | property | what was changed | check result | first rule reporting it |" > $out
echo "|---|---|---|---|---|" >> $out
cat $(ls $tmp/*.row | sort -V) >> $out
rm -rf $tmp
echo "reported: $(grep -c 'VIOLATION reported' $out)  undecided: $(grep -c 'UNDECIDED' $out)  missed: $(grep -c 'missed (exit 0)' $out)  n/a: $(grep -c 'not applicable' $out)"
