#!/bin/bash
# usage: c19_validate.sh <script-or-diff>  — apply to a scratch copy, build, vet, run the package tests
export GOFLAGS=-mod=mod GOPROXY=off GOSUMDB=off GOTOOLCHAIN=local GOWORK=off
P=$1
D=$(mktemp -d /tmp/c19val.XXXXXX)
rsync -a --exclude .git /repo/ "$D/"
case "$P" in
  *.sh) (cd "$D" && bash "$P") ;;
  *) (cd "$D" && patch -s -p1 < "$P") ;;
esac || { echo "APPLY-FAILED"; rm -rf "$D"; exit 3; }
cd "$D"
gofmt -l crypto/spiffe concurrency/dir
go build -tags unit ./... && go vet -tags unit ./crypto/spiffe/... ./concurrency/dir/... && go test -count=1 -tags unit ./crypto/spiffe/... ./concurrency/dir/... 2>&1 | tail -5
rc=$?
cd /; rm -rf "$D"; exit $rc
