#!/bin/bash
# evaluates round-2 seeds under ${SEED_DIR:-/tmp/seed2}/<id>/m<k> against the current checks (first pass, before any strengthening)
for id in "$@"; do for m in m1 m2 m3; do d=${SEED_DIR:-/tmp/seed2}/$id/$m; [ -f $d/patch.diff ] || continue
  res=$(MUTLINES=3 /verif/tools/mutrun.sh $d/patch.diff $id 2>&1); rc=$(echo "$res" | grep -o 'exit=[0-9]*' | head -1 | cut -d= -f2); rule=$(echo "$res" | grep -o 'rule=[^ ]*' | head -1)
  [ -z "$rc" ] && rc="NA:$(echo $res | cut -c1-60)"
  echo "$id $m exit=$rc $rule :: $(python3 -c "import json;print(json.load(open('$d/meta.json'))['summary'][:90])")"
done; done
