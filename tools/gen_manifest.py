#!/usr/bin/env python3
"""Generates /verif/MANIFEST.json from the claims table in tools/claims.json.
Keeps the manifest valid by construction: every property id of
properties.jsonl is either claimed or listed under not_applicable."""
import json, os, sys
here = os.path.dirname(os.path.abspath(__file__))
root = os.path.dirname(here)
claims = json.load(open(os.path.join(here, "claims.json")))
ids = [json.loads(l)["id"] for l in open(os.path.join(root, "properties.jsonl")) if l.strip()]
ENV = "GOFLAGS=-mod=mod GOPROXY=off GOSUMDB=off GOTOOLCHAIN=local GOWORK=off"
checks, na = [], []
for pid in ids:
    c = claims["claimed"].get(pid)
    if c:
        checks.append({
            "property_id": pid,
            "quick_cmd": f"./bin/kitcheck -prop {pid} -tier quick",
            "thorough_cmd": f"./bin/kitcheck -prop {pid} -tier thorough",
            "evidence_file": f"/verif/evidence/{pid}.json",
            "replay_cmd_template": "./bin/kitcheck -explain {path}",
            "engine": "kitcheck",
            "level_claimed": {"category": "other", "text": c["text"], "design_ref": c.get("design_ref", f"DESIGN.md §4 {pid}")},
            "level_note": c["note"],
            "technique": c["technique"],
        })
    else:
        na.append({"property_id": pid, "reason": claims["not_applicable"].get(pid, "no check registered at this commit (static rules for this property are not implemented yet)")})
m = {
    "version": 1,
    "setup_cmd": f"cd /verif/kitcheck && {ENV} go build -o ../bin/kitcheck .",
    "hooks": {
        "guard": "verif",
        "enable": "none needed: the checks are static analyses of /repo's source (go/packages + go/ssa); no instrumentation is compiled into dapr/kit",
        "baseline_off_cmd": f"cd /repo && {ENV.replace(' GOWORK=off','')} go test -vet=off -count=1 -timeout 25m ./...",
        "source_commits": [],
        "add_only": True,
    },
    "engines": [{
        "name": "kitcheck",
        "path": "/verif/kitcheck",
        "serves_properties": [c["property_id"] for c in checks],
        "kind_free_text": "repository-specific static analyzer over the type-checked program and go/ssa (x/tools v0.29.0): must-hold locksets with call-site entry inference, guarded-by / critical-section rules, CFG path rules, may-write taint, lock-held-wait graph, constant-table and spec agreement, structural isomorphism",
    }],
    "checks": checks,
    "not_applicable": na,
    "notes": claims.get("notes", ""),
}
json.dump(m, open(os.path.join(root, "MANIFEST.json"), "w"), indent=1)
print(f"claimed={len(checks)} not_applicable={len(na)}")
