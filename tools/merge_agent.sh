#!/bin/bash
# usage: merge_agent.sh <agent-dir> <base-commit>  — merges an agent's private copy of /verif back (3-way per file)
D=$1; BASE=$2
cd /verif
( cd $D; find kitcheck selftest tools known_findings.json DESIGN.md -type f 2>/dev/null | grep -v -e '^kitcheck/kitcheck$' -e '/bin/' ) | sort | while read f; do
  basef=$(mktemp); git show $BASE:$f > $basef 2>/dev/null; hasbase=$?
  if [ $hasbase -eq 0 ] && cmp -s $basef $D/$f; then rm -f $basef; continue; fi   # agent did not change it
  if [ ! -e /verif/$f ]; then mkdir -p $(dirname /verif/$f); cp -p $D/$f /verif/$f; echo "NEW      $f"; rm -f $basef; continue; fi
  if cmp -s /verif/$f $D/$f; then rm -f $basef; continue; fi
  if [ $hasbase -ne 0 ]; then echo "BOTH-NEW $f (kept /verif version; agent version differs)"; rm -f $basef; continue; fi
  if cmp -s $basef /verif/$f; then cp -p $D/$f /verif/$f; echo "UPDATED  $f"; rm -f $basef; continue; fi
  case $f in selftest/mutants/EXPECT.txt) grep -vxFf /verif/$f $D/$f >> /verif/$f; echo "UNION    $f"; rm -f $basef; continue;; esac
  case $f in DESIGN.md|evidence/*) echo "SKIP     $f (merge by hand)"; rm -f $basef; continue;; esac
  tmp=$(mktemp); cp /verif/$f $tmp
  if git merge-file -q $tmp $basef $D/$f; then cp $tmp /verif/$f; echo "MERGED   $f"; else echo "CONFLICT $f (left untouched; see $tmp)"; fi
  rm -f $basef
done
