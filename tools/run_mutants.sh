#!/bin/bash
# usage: run_mutants.sh <prop>   — runs every selftest mutant of the property; prints a table.
# names containing "-r0" (refactors) must stay silent (exit 0); "-u0" may be UNDECIDED (2) but never VIOLATION; all others must be reported (exit 1).
P=$1
ok=0; bad=0
for m in /verif/selftest/mutants/$P/*; do
  out=$(MUTLINES=2 /verif/tools/mutrun.sh "$m" $P 2>&1); rc=$?
  b=$(basename $m)
  case "$b" in
    *-r0*) want="0";;
    *-u0*) want="0 2";;
    *m18-symlink-unchecked*) want="0";;
    *) want="1";;
  esac
  if echo " $want " | grep -q " $rc "; then ok=$((ok+1)); st=ok; else bad=$((bad+1)); st=UNEXPECTED; fi
  rule=$(echo "$out" | grep -o 'rule=[^ ]*' | head -1)
  printf "%-12s %-50s exit=%s %s\n" "$st" "$b" "$rc" "$rule"
done
echo "mutants of $P: as expected=$ok unexpected=$bad"
[ $bad -eq 0 ]
