#!/bin/bash
# usage: run_mutants.sh <prop> — runs every selftest mutant of the property and prints a table.
# Expectation by name: r<k> refactors must stay silent (0); u<k>/UNDECIDED may be UNDECIDED (0 or 2) but never VIOLATION;
# n<k>/NOTE-only silent; everything else must be reported (1). Overrides: selftest/mutants/EXPECT.txt ("<file> <exits> # why").
P=$1
ok=0; bad=0
for m in ${KC_VERIF:-/verif}/selftest/mutants/$P/*; do
  b=$(basename $m)
  out=$(MUTLINES=2 ${KC_VERIF:-/verif}/tools/mutrun.sh "$m" $P 2>&1); rc=$?
  want="1"
  if echo "$b" | grep -Eq '^(c[0-9]+-)?r[0-9]'; then want="0"; fi
  if echo "$b" | grep -Eq '^(c[0-9]+-)?u[0-9]|UNDECIDED'; then want="0 2"; fi
  if echo "$b" | grep -Eq '^(c[0-9]+-)?n[0-9]|NOTE-only'; then want="0"; fi
  ov=$(grep -E "^$b " ${KC_VERIF:-/verif}/selftest/mutants/EXPECT.txt 2>/dev/null | head -1 | sed 's/#.*//' | cut -d' ' -f2-)
  [ -n "$ov" ] && want="$ov"
  if echo " $want " | grep -q " $rc "; then ok=$((ok+1)); st=ok; else bad=$((bad+1)); st=UNEXPECTED; fi
  rule=$(echo "$out" | grep -o 'rule=[^ ]*' | head -1)
  printf "%-12s %-52s exit=%s want=%s %s\n" "$st" "$b" "$rc" "$(echo $want|tr ' ' '|')" "$rule"
done
echo "mutants of $P: as expected=$ok unexpected=$bad"
[ $bad -eq 0 ]
