#!/bin/bash
# usage: testref.sh <script-or-diff>  : applies on a scratch copy, builds, vets, tests ./context
export GOFLAGS=-mod=mod GOPROXY=off GOSUMDB=off GOTOOLCHAIN=local GOWORK=off
P=$1
D=$(mktemp -d /tmp/c20ref.XXXXXX)
rsync -a --exclude .git /repo/ "$D/"
case "$P" in
  *.sh) (cd "$D" && bash "$P") ;;
  *) (cd "$D" && patch -s -p1 < "$P") ;;
esac || { echo "APPLY-FAILED $P"; rm -rf "$D"; exit 3; }
cd "$D"
fm=$(gofmt -l context/)
go build -tags unit ./... && go vet -tags unit ./context/ && go test -count=${COUNT:-3} -race -tags unit ./context/... 2>&1 | tail -3
echo "gofmt-dirty: [$fm]"
rm -rf "$D"
