#!/bin/bash
# usage: mutrun.sh <patch-or-sed-script.sh> <prop> [prop...]
# Copies /repo to a scratch dir, applies the patch (git apply) or runs the
# script inside it, verifies it compiles, runs kitcheck on the copy, removes it.
set -u
P=$1; shift
# scratch verif dir (evidence of the runs on scratch copies must not overwrite /verif/evidence): created on demand
KV=${KC_VERIF:-/tmp/kcmut-verif}
if [ ! -d "$KV" ]; then mkdir -p "$KV/evidence"; ln -s /verif/kitcheck "$KV/kitcheck"; fi
cp /verif/known_findings.json "$KV/known_findings.json" 2>/dev/null
D=$(mktemp -d /tmp/kcmut.XXXXXX)
rsync -a --exclude .git /repo/ "$D/"
# optional: a fix not yet committed in /repo, applied to every scratch copy first (KC_PREFIX_PATCH=<diff>)
if [ -n "${KC_PREFIX_PATCH:-}" ]; then (cd "$D" && patch -s -p1 -N < "$KC_PREFIX_PATCH" >/dev/null 2>&1; find . -name "*.rej" -delete; find . -name "*.orig" -delete; true); fi
export GOFLAGS=-mod=mod GOPROXY=off GOSUMDB=off GOTOOLCHAIN=local
case "$P" in
  *.sh) (cd "$D" && bash "$P") ;;
  *) (cd "$D" && git apply --unsafe-paths -p1 "$P" 2>/dev/null || patch -s -p1 < "$P") ;;
esac || { echo "APPLY-FAILED"; rm -rf "$D"; exit 3; }
if diff -rq --exclude .git /repo "$D" >/dev/null; then echo "NO-CHANGE: the mutant did not modify anything"; rm -rf "$D"; exit 3; fi
(cd "$D" && go build -trimpath -tags unit ./... ) || { echo "BUILD-FAILED"; rm -rf "$D"; exit 3; }
rc=0
for prop in "$@"; do
  out=$(${KC_BIN:-/verif/bin/kitcheck} -prop "$prop" -repo "$D" -verif ${KC_VERIF:-/tmp/kcmut-verif} 2>&1); r=$?
  echo "[$prop] exit=$r"; echo "$out" | grep -v '^NOTE' | head -${MUTLINES:-6}
  [ $r -ne 0 ] && rc=$r
done
rm -rf "$D"
exit $rc
