#!/bin/bash
# development aid: does a refactoring script/patch keep `go build`, `go vet` and the cron tests green? (KC_PREFIX_PATCH applied first)
export GOFLAGS=-mod=mod GOPROXY=off GOSUMDB=off GOTOOLCHAIN=local GOWORK=off
for f in "$@"; do
  D=$(mktemp -d /tmp/kcrt.XXXXXX); rsync -a --exclude .git /repo/ $D/
  if [ -n "${KC_PREFIX_PATCH:-}" ]; then (cd $D && patch -s -p1 -N < "$KC_PREFIX_PATCH" >/dev/null 2>&1; true); fi
  case "$f" in
   *.sh) (cd $D && bash $f) >/dev/null 2>$D/.err || { echo "$(basename $f) APPLY-FAILED: $(cat $D/.err | tail -2)"; rm -rf $D; continue; } ;;
   *) (cd $D && patch -s -p1 < $f) || { echo "$(basename $f) APPLY-FAILED"; rm -rf $D; continue; } ;;
  esac
  if (cd $D && go build -tags unit ./... && go vet -tags unit ./cron/ && go test -count=1 -tags unit ./cron/... ) >$D/.out 2>&1; then echo "$(basename $f) build+vet+tests PASS"; else echo "$(basename $f) FAIL"; tail -15 $D/.out; fi
  rm -rf $D
done
