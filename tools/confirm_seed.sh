#!/bin/bash
# usage: confirm_seed.sh <seed-dir> <name>
# Confirms a seeded change in a scratch worktree of /repo HEAD: patch applies, builds,
# the existing suite still passes with it, the demo fails with it and passes without it.
# On success copies it to /verif/seeded/<name>/ with a 'confirmed' record.
set -u
SD=$1; NAME=$2
export GOFLAGS=-mod=mod GOPROXY=off GOSUMDB=off GOTOOLCHAIN=local
WT=$(mktemp -d /tmp/seedwt.XXXXXX); rmdir "$WT"
git -C /repo worktree add -q --detach "$WT" HEAD || exit 3
cleanup() { git -C /repo worktree remove --force "$WT" 2>/dev/null; rm -rf "$WT"; }
trap cleanup EXIT
meta="$SD/meta.json"
pkgdir=$(python3 -c "import json;print(json.load(open('$meta'))['demo_pkg_dir'])")
democmd=$(python3 -c "import json;print(json.load(open('$meta'))['demo_cmd'])")
cd "$WT"
git apply "$SD/patch.diff" || { echo "RESULT $NAME: patch does not apply"; exit 1; }
go build -tags unit ./... || { echo "RESULT $NAME: does not build"; exit 1; }
suite=$(/verif/tools/baseline_check.sh "$WT" 2>&1 | tail -3)
echo "suite with change: $suite"
echo "$suite" | grep -q "baseline_not_passing=0" || { echo "RESULT $NAME: suite fails with change"; exit 1; }
# demo files: everything in the seed dir except patch/meta
case "$democmd" in cp\ *) ;; *) for f in "$SD"/*; do case "$(basename $f)" in patch.diff|meta.json) ;; *) cp -r "$f" "$WT/$pkgdir/";; esac; done;; esac
echo "demo cmd: $democmd"
timeout 600 bash -c "$democmd" > /tmp/seed_with.log 2>&1; with=$?
git apply -R "$SD/patch.diff"
timeout 600 bash -c "$democmd" > /tmp/seed_without.log 2>&1; without=$?
echo "demo exit with change=$with without=$without"
if [ $with -ne 0 ] && [ $without -eq 0 ]; then
  mkdir -p /verif/seeded/$NAME
  cp -r "$SD"/* /verif/seeded/$NAME/
  python3 - "$meta" /verif/seeded/$NAME/meta.json "$with" <<'PY'
import json,sys
m=json.load(open(sys.argv[1]))
m['confirmed']={'by':'tools/confirm_seed.sh in a scratch worktree of /repo HEAD','ran':['git apply patch.diff','go build -tags unit ./...','tools/baseline_check.sh (all 1063 baseline tests still pass with the change)',m['demo_cmd']+' (fails with the change, exit %s; passes without it)'%sys.argv[3]]}
json.dump(m,open(sys.argv[2],'w'),indent=1)
PY
  echo "RESULT $NAME: CONFIRMED"
else
  tail -5 /tmp/seed_with.log; echo ---; tail -5 /tmp/seed_without.log
  echo "RESULT $NAME: demo did not discriminate"
  exit 1
fi
