#!/bin/bash
# evaluates independently produced behaviour-preserving refactorings (/tmp/refac/<id>/r<k>) — every check must stay silent (exit 0)
for id in "$@"; do for k in r1 r2 r3 r4 r5; do d=${REFAC_DIR:-/tmp/refac}/$id/$k; [ -f $d/patch.diff ] || continue
  res=$(MUTLINES=4 /verif/tools/mutrun.sh $d/patch.diff $id 2>&1); rc=$(echo "$res" | grep -o 'exit=[0-9]*' | head -1 | cut -d= -f2)
  [ -z "$rc" ] && rc="NA:$(echo $res | cut -c1-80)"
  extra=""; [ "$rc" != "0" ] && extra=$(echo "$res" | grep -e "rule=" -e UNDECIDED | head -2 | cut -c1-330)
  echo "$id $k exit=$rc :: $(python3 -c "import json;print(json.load(open('$d/meta.json'))['summary'][:100])" 2>/dev/null)"; [ -n "$extra" ] && echo "      $extra"
done; done
