package main

// C02: the functions the rules talk about are found by ROLE, starting from
// the exported entry point Decrypt, not by their (unexported) names:
//
//	segment loop      a function reachable from Decrypt that handles an
//	                  *io.PipeWriter and calls a segment processor
//	segment processor a function reachable from Decrypt with the signature
//	                  func(io.Writer, []byte, uint32, bool) error
//	header reader     a function reachable from Decrypt (not through the loop)
//	                  that reads from a reader it was given
//
// plus summaries of the helpers those functions delegate to.

import (
	"fmt"
	"go/constant"
	"go/token"
	"go/types"
	"sort"

	"golang.org/x/tools/go/ssa"
)

// c02ProcSig: sig is func(io.Writer, []byte, uint32, bool) error (receiver not counted).
func c02ProcSig(sig *types.Signature) bool {
	if sig == nil || sig.Params().Len() != 4 || sig.Results().Len() != 1 {
		return false
	}
	ps := sig.Params()
	return c02IsIOWriter(ps.At(0).Type()) && c02IsByteSlice(ps.At(1).Type()) &&
		c02IsBasicKind(ps.At(2).Type(), types.Uint32) && c02IsBool(ps.At(3).Type()) &&
		types.Identical(sig.Results().At(0).Type(), types.Universe.Lookup("error").Type())
}

type c02Roles struct {
	entry   *ssa.Function
	reach   map[*ssa.Function]bool
	loops   []*ssa.Function
	procs   []*ssa.Function
	headers []*ssa.Function
}

// c02SamePkg: fn belongs to package pkg (closures and bound-method wrappers included).
func c02SamePkg(fn *ssa.Function, pkg *types.Package) bool {
	if fn == nil {
		return false
	}
	if fn.Pkg != nil {
		return fn.Pkg.Pkg == pkg
	}
	if o := fn.Object(); o != nil && o.Pkg() == pkg {
		return true
	}
	if par := fn.Parent(); par != nil {
		return c02SamePkg(par, pkg)
	}
	return false
}

// c02Callees: the same-package functions an instruction may transfer control
// to or create a value of: static callees, closures, bound methods, function
// values used as operands.
func c02Callees(in ssa.Instruction, pkg *types.Package) []*ssa.Function {
	var out []*ssa.Function
	add := func(f *ssa.Function) {
		if f == nil {
			return
		}
		f = origin(f)
		if c02SamePkg(f, pkg) && len(f.Blocks) > 0 {
			out = append(out, f)
		}
	}
	if mc, ok := in.(*ssa.MakeClosure); ok {
		if f, ok := mc.Fn.(*ssa.Function); ok {
			add(f)
		}
	}
	// a value of a package type converted to an interface: its methods become callable through the interface
	if mi, ok := in.(*ssa.MakeInterface); ok {
		for _, m := range c02MethodsOf(in.Parent().Prog, mi.X.Type(), pkg) {
			add(m)
		}
	}
	for _, op := range in.Operands(nil) {
		if op == nil || *op == nil {
			continue
		}
		if f, ok := (*op).(*ssa.Function); ok {
			add(f)
		}
	}
	return out
}

func c02Reach(from []*ssa.Function, pkg *types.Package) map[*ssa.Function]bool {
	seen := map[*ssa.Function]bool{}
	work := append([]*ssa.Function{}, from...)
	for len(work) > 0 {
		f := work[len(work)-1]
		work = work[:len(work)-1]
		if f == nil || seen[f] {
			continue
		}
		seen[f] = true
		allInstrs(f, func(in ssa.Instruction) {
			work = append(work, c02Callees(in, pkg)...)
		})
	}
	return seen
}

// c02HandlesPipe: fn has a value of type *io.PipeWriter (parameter, free
// variable, field load, io.Pipe result…).
func c02HandlesPipe(fn *ssa.Function) bool {
	for _, pa := range fn.Params {
		if c02IsPipeWriter(pa.Type()) {
			return true
		}
	}
	found := false
	allInstrs(fn, func(in ssa.Instruction) {
		if v, ok := in.(ssa.Value); ok && c02IsPipeWriter(v.Type()) {
			found = true
		}
	})
	return found
}

// c02ProcCall: the call hands a segment to a segment processor (dynamic call
// of a function value, or static call of a function/method, of that signature).
func c02ProcCall(ci ssa.CallInstruction) bool {
	cc := ci.Common()
	if cc.IsInvoke() {
		// through an interface method of the processor signature (an unexported seam with its implementations in the package)
		sig, _ := cc.Method.Type().(*types.Signature)
		return sig != nil && cc.Method.Pkg() != nil && c02ProcSig(sig)
	}
	return c02ProcSig(cc.Signature())
}

// c02MethodsOf: the methods (with bodies) of the package-local named type t.
func c02MethodsOf(prog *ssa.Program, t types.Type, pkg *types.Package) []*ssa.Function {
	var out []*ssa.Function
	n, ok := types.Unalias(deref(t)).(*types.Named)
	if !ok || n.Obj().Pkg() != pkg {
		return nil
	}
	for _, tt := range []types.Type{t, types.NewPointer(deref(t))} {
		ms := prog.MethodSets.MethodSet(tt)
		for i := 0; i < ms.Len(); i++ {
			if f := prog.MethodValue(ms.At(i)); f != nil && len(f.Blocks) > 0 {
				out = append(out, f)
			}
		}
	}
	return out
}

// c02ReadsGivenReader: fn reads (io.Reader.Read / io.ReadFull / ReadAtLeast)
// from a reader it received as a parameter.
func c02ReadsGivenReader(fn *ssa.Function) bool {
	return c02ReadsGivenReaderD(fn, 0, nil)
}

// exclude: functions that are not read helpers whatever they do with the reader (the segment loop and what it calls).
func c02ReadsGivenReaderD(fn *ssa.Function, depth int, exclude map[*ssa.Function]bool) bool {
	ptrs, vals := c02SrcRoots(fn)
	if len(ptrs)+len(vals) == 0 || depth > 3 {
		return false
	}
	found := false
	allInstrs(fn, func(in ssa.Instruction) {
		x, ok := in.(*ssa.Call)
		if !ok {
			return
		}
		cc := x.Common()
		// … or hands it to a same-package function that does
		if h := staticCallee(x); h != nil && h != fn && !exclude[h] && len(h.Blocks) > 0 && c02SamePkg(h, c02TopParent(fn).Pkg.Pkg) {
			for _, a := range cc.Args {
				isPtr := false
				for _, pa := range ptrs {
					if a == ssa.Value(pa) {
						isPtr = true
					}
				}
				if (isPtr || c02ContainsSrc(a, ptrs, vals, 0)) && c02ReadsGivenReaderD(h, depth+1, exclude) {
					found = true
				}
			}
		}
		switch {
		case cc.IsInvoke() && cc.Method.Name() == "Read" && c02ContainsSrc(cc.Value, ptrs, vals, 0):
			found = true
		case (callIs(x, "io", "", "ReadFull") || callIs(x, "io", "", "ReadAtLeast")) && len(cc.Args) > 0 && c02ContainsSrc(cc.Args[0], ptrs, vals, 0):
			found = true
		}
	})
	return found
}

func c02ResolveRoles(p *Prog, entry *ssa.Function) *c02Roles {
	pkg := entry.Pkg.Pkg
	ro := &c02Roles{entry: entry, reach: c02Reach([]*ssa.Function{entry}, pkg)}
	var fns []*ssa.Function
	for f := range ro.reach {
		fns = append(fns, f)
	}
	sort.Slice(fns, func(i, j int) bool { return FuncName(p, fns[i]) < FuncName(p, fns[j]) })
	for _, f := range fns {
		if f.Synthetic != "" {
			continue
		}
		hasProcCall := false
		allInstrs(f, func(in ssa.Instruction) {
			if ci, ok := in.(ssa.CallInstruction); ok && c02ProcCall(ci) {
				hasProcCall = true
			}
		})
		// the loop hands segments to a processor without being one itself, and it
		// holds the pipe or (when it reports to a caller that holds the pipe) the source
		if hasProcCall && !c02ProcSig(f.Signature) && (c02HandlesPipe(f) || c02HasGivenReader(f)) {
			ro.loops = append(ro.loops, f)
		}
		if c02ProcSig(f.Signature) {
			ro.procs = append(ro.procs, f)
		}
	}
	fromLoops := c02Reach(ro.loops, pkg)
	for _, f := range fns {
		if f.Synthetic != "" || fromLoops[f] {
			continue
		}
		if !c02ReadsGivenReaderD(f, 0, fromLoops) {
			continue
		}
		// a read helper of another header reader is judged through its caller
		ro.headers = append(ro.headers, f)
	}
	// drop header readers that are only read helpers of other header readers
	// (they receive the source from one and return an error to it)
	isHelper := map[*ssa.Function]bool{}
	for _, f := range ro.headers {
		ptrs, vals := c02SrcRoots(f)
		allInstrs(f, func(in ssa.Instruction) {
			x, ok := in.(*ssa.Call)
			if !ok {
				return
			}
			h := staticCallee(x)
			if h == nil || h == f {
				return
			}
			for _, a := range x.Call.Args {
				isPtr := false
				for _, pa := range ptrs {
					if a == ssa.Value(pa) {
						isPtr = true
					}
				}
				if isPtr || c02ContainsSrc(a, ptrs, vals, 0) {
					for _, g := range ro.headers {
						if g == h {
							isHelper[h] = true
						}
					}
				}
			}
		})
	}
	var hs []*ssa.Function
	for _, f := range ro.headers {
		if !isHelper[f] {
			hs = append(hs, f)
		}
	}
	ro.headers = hs
	return ro
}

// ---------------------------------------------------------------------------
// Summary of a helper that receives the pipe writer.

const (
	c02PipeNone    = iota // never closes it (a pure user: writes, passes it on as io.Writer)
	c02PipeErr            // on every path closes it with a non-nil error (by construction)
	c02PipeErrArg         // on every path closes it with its parameter #arg as the error
	c02PipeClean          // on every path closes it cleanly
	c02PipeUnknown        // anything else (closes on some paths only, …)
)

type c02PipeSummary struct {
	kind int
	arg  int
}

func c02SummarisePipeHelper(p *Prog, h *ssa.Function, depth int) c02PipeSummary {
	if depth > 2 || len(h.Blocks) == 0 {
		return c02PipeSummary{kind: c02PipeUnknown}
	}
	// states: bit0 open, bit1 closed(err by shape), bit2 closed clean, bit3 closed with parameter (one parameter only), bit4 unknown
	const (
		open = 1 << iota
		errShape
		clean
		byParam
		unknown
	)
	paramIdx := -1
	closeOf := func(in ssa.Instruction) (int, bool) {
		ci, ok := in.(ssa.CallInstruction)
		if !ok {
			return 0, false
		}
		cc := ci.Common()
		isClose := callIs(ci, "io", "PipeWriter", "Close")
		isCWE := callIs(ci, "io", "PipeWriter", "CloseWithError")
		if (isClose || isCWE) && len(cc.Args) > 0 && c02IsPipeWriter(cc.Args[0].Type()) {
			if isClose {
				return clean, true
			}
			arg := cc.Args[1]
			switch {
			case isNilConst(arg):
				return clean, true
			case c02ErrShapeNonNil(arg) || c02KnownNonNilAt(in.Block(), arg):
				return errShape, true
			}
			if pa, ok := arg.(*ssa.Parameter); ok {
				i := c02ParamIndex(h, pa)
				if paramIdx == -1 || paramIdx == i {
					paramIdx = i
					return byParam, true
				}
			}
			return unknown, true
		}
		// handed on to another same-package helper
		if callee := staticCallee(ci); callee != nil && p.InModule(callee) {
			for _, a := range cc.Args {
				if c02IsPipeWriter(a.Type()) {
					sub := c02SummarisePipeHelper(p, callee, depth+1)
					switch sub.kind {
					case c02PipeNone:
						return 0, false
					case c02PipeErr:
						return errShape, true
					case c02PipeClean:
						return clean, true
					case c02PipeErrArg:
						if sub.arg < len(cc.Args) {
							v := cc.Args[sub.arg]
							if c02ErrShapeNonNil(v) {
								return errShape, true
							}
							if pa, ok := v.(*ssa.Parameter); ok {
								i := c02ParamIndex(h, pa)
								if paramIdx == -1 || paramIdx == i {
									paramIdx = i
									return byParam, true
								}
							}
						}
					}
					return unknown, true
				}
			}
		}
		return 0, false
	}
	ff := &FlagFlow{Fn: h, Must: false, Entry: open}
	ff.Transfer = func(in ssa.Instruction, st uint64) uint64 {
		if _, isDefer := in.(*ssa.Defer); isDefer && !ff.Replaying {
			return st
		}
		k, ok := closeOf(in)
		if !ok {
			return st
		}
		// first close wins: only the open state moves
		if st&open != 0 {
			st = (st &^ open) | uint64(k)
		}
		return st
	}
	ff.Run()
	var all uint64
	n := 0
	ff.AtReturns(func(ret *ssa.Return, st uint64) {
		n++
		all |= st
	})
	switch {
	case n == 0:
		return c02PipeSummary{kind: c02PipeUnknown}
	case all == open:
		return c02PipeSummary{kind: c02PipeNone}
	case all == errShape:
		return c02PipeSummary{kind: c02PipeErr}
	case all == clean:
		return c02PipeSummary{kind: c02PipeClean}
	case all == byParam && paramIdx >= 0:
		return c02PipeSummary{kind: c02PipeErrArg, arg: paramIdx}
	}
	return c02PipeSummary{kind: c02PipeUnknown}
}

// c02Labels gives the functions found by role a name that does not depend on
// their (unexported, renameable) identifiers; obligation keys are built from
// it so that the same obligation keeps the same key across renames. The real
// name is still visible through the reported position.
var c02Labels = map[*ssa.Function]string{}

// c02LabelProg: the program whose functions are labelled (the repository; fixtures keep real names).
var c02LabelProg *Prog

func c02Name(p *Prog, fn *ssa.Function) string {
	if l, ok := c02Labels[origin(fn)]; ok && p == c02LabelProg {
		return l
	}
	return FuncName(p, fn)
}

// c02Label assigns role labels (numbered when a role has several functions).
func c02Label(p *Prog, fns []*ssa.Function, pkgRel, role string) {
	for i, f := range fns {
		if _, ok := c02Labels[origin(f)]; ok {
			continue
		}
		l := pkgRel + " " + role
		if i > 0 {
			l += fmt.Sprintf(" #%d", i+1)
		}
		c02Labels[origin(f)] = l
	}
}

// c02LabelHelper labels a helper discovered while following a rule, unless it already has a role.
func c02LabelHelper(p *Prog, fn *ssa.Function, role string) {
	if p != c02LabelProg {
		return // fixtures: keep real names
	}
	f := origin(fn)
	if _, ok := c02Labels[f]; ok {
		return
	}
	rel := ""
	if f.Pkg != nil {
		rel = p.RelPath(f.Pkg.Pkg.Path())
	} else if par := f.Parent(); par != nil && par.Pkg != nil {
		rel = p.RelPath(par.Pkg.Pkg.Path())
	}
	base := rel + " " + role
	l := base
	for n := 2; ; n++ {
		used := false
		for _, x := range c02Labels {
			if x == l {
				used = true
			}
		}
		if !used {
			break
		}
		l = fmt.Sprintf("%s #%d", base, n)
	}
	c02Labels[f] = l
}

// c02HasGivenReader: fn has an io.Reader it was given (parameter, free variable, field).
func c02HasGivenReader(fn *ssa.Function) bool {
	for _, pa := range fn.Params {
		if c02IsIOReader(pa.Type()) {
			return true
		}
	}
	for _, fv := range fn.FreeVars {
		t := fv.Type()
		if pt, ok := t.Underlying().(*types.Pointer); ok {
			t = pt.Elem()
		}
		if c02IsIOReader(t) {
			return true
		}
	}
	found := false
	allInstrs(fn, func(in ssa.Instruction) {
		if v, ok := in.(ssa.Value); ok && c02IsIOReader(v.Type()) && c02GivenReader(v, 0) {
			found = true
		}
	})
	return found
}

// ---------------------------------------------------------------------------
// Error-classification helpers: func(err error) bool extracted from a
// condition such as `err != nil && !errors.Is(err, io.EOF)`.

type c02PredSummary struct {
	ok          bool
	falseBenign bool // result false  =>  err is nil or io.EOF
	trueBenign  bool // result true   =>  err is nil or io.EOF
	falseNil    bool // result false  =>  err is nil
	trueNil     bool // result true   =>  err is nil
	falseNonNil bool // result false  =>  err is not nil
	trueNonNil  bool // result true   =>  err is not nil
}

var c02PredCache = map[*ssa.Function]c02PredSummary{}

// c02SummarisePredicate analyses a same-package func(error) bool.
func c02SummarisePredicate(p *Prog, h *ssa.Function) c02PredSummary {
	if s, ok := c02PredCache[h]; ok {
		return s
	}
	var out c02PredSummary
	c02PredCache[h] = out
	errT := types.Universe.Lookup("error").Type()
	if h == nil || len(h.Blocks) == 0 || len(h.Params) != 1 || !types.Identical(h.Params[0].Type(), errT) ||
		h.Signature.Results().Len() != 1 || !c02IsBool(h.Signature.Results().At(0).Type()) {
		return out
	}
	pa := ssa.Value(h.Params[0])
	// facts established by dominating edges at a block: 0 unknown, 1 nil, 2 nil-or-EOF
	factAt := func(b *ssa.BasicBlock, viaFrom *ssa.BasicBlock) int {
		best := 0
		check := func(from, to *ssa.BasicBlock) {
			if v, isNil, ok := c02NilTest(from, to); ok && isNil && v == pa {
				best = max(best, 3) // nil (strongest)
			}
			if v, sent, ok := c02SentinelTest(from, to); ok && v == pa && sent == "io.EOF" {
				best = max(best, 2)
			}
		}
		if viaFrom != nil {
			check(viaFrom, b)
			b = viaFrom
		}
		for s := b; s != nil; s = s.Idom() {
			if len(s.Preds) == 1 {
				check(s.Preds[0], s)
			}
		}
		return best
	}
	// implies(v, val, b, via): "v == val" implies (kind 3: nil, kind 2: nil or EOF), given the facts at block b (entered via edge via->b)
	var implies func(v ssa.Value, val bool, b, via *ssa.BasicBlock, depth int) int
	implies = func(v ssa.Value, val bool, b, via *ssa.BasicBlock, depth int) int {
		if depth > 6 {
			return 0
		}
		f := factAt(b, via)
		if f > 0 {
			// whatever v is, the path already establishes the fact
			if f == 3 {
				return 3
			}
		}
		res := 0
		switch x := v.(type) {
		case *ssa.Const:
			if x.Value != nil && x.Value.Kind() == constant.Bool {
				if constant.BoolVal(x.Value) != val {
					return 3 // this alternative never yields val: vacuous
				}
			}
		case *ssa.UnOp:
			if x.Op == token.NOT {
				res = implies(x.X, !val, b, via, depth+1)
			}
		case *ssa.BinOp:
			if (x.Op == token.EQL || x.Op == token.NEQ) && (x.X == pa && isNilConst(x.Y) || x.Y == pa && isNilConst(x.X)) {
				if (x.Op == token.EQL) == val {
					res = 3
				}
			}
			if x.Op == token.EQL || x.Op == token.NEQ {
				if name, g := c02IsGlobalLoad(x.Y); g && x.X == pa && name == "io.EOF" && (x.Op == token.EQL) == val {
					res = 2
				}
				if name, g := c02IsGlobalLoad(x.X); g && x.Y == pa && name == "io.EOF" && (x.Op == token.EQL) == val {
					res = 2
				}
			}
		case *ssa.Call:
			if callIs(x, "errors", "", "Is") && len(x.Call.Args) == 2 && x.Call.Args[0] == pa && val {
				if name, g := c02IsGlobalLoad(x.Call.Args[1]); g && name == "io.EOF" {
					res = 2
				}
			}
		case *ssa.Phi:
			res = 3
			for i, e := range x.Edges {
				r := implies(e, val, x.Block().Preds[i], nil, depth+1)
				// the edge into the phi block may itself establish a fact
				if fr := factAt(x.Block(), x.Block().Preds[i]); fr > r {
					r = fr
				}
				if r < res {
					res = r
				}
			}
		}
		if f > res {
			res = f
		}
		return res
	}
	// the mirror image: "v == val" implies err != nil
	nonNilFactAt := func(b *ssa.BasicBlock, viaFrom *ssa.BasicBlock) bool {
		found := false
		check := func(from, to *ssa.BasicBlock) {
			if v, isNil, ok := c02NilTest(from, to); ok && !isNil && v == pa {
				found = true
			}
			if v, _, ok := c02SentinelTest(from, to); ok && v == pa {
				found = true // it is some sentinel, hence not nil
			}
		}
		if viaFrom != nil {
			check(viaFrom, b)
			b = viaFrom
		}
		for s := b; s != nil; s = s.Idom() {
			if len(s.Preds) == 1 {
				check(s.Preds[0], s)
			}
		}
		return found
	}
	var impliesNonNil func(v ssa.Value, val bool, b, via *ssa.BasicBlock, depth int) bool
	impliesNonNil = func(v ssa.Value, val bool, b, via *ssa.BasicBlock, depth int) bool {
		if depth > 6 {
			return false
		}
		if nonNilFactAt(b, via) {
			return true
		}
		switch x := v.(type) {
		case *ssa.Const:
			if x.Value != nil && x.Value.Kind() == constant.Bool && constant.BoolVal(x.Value) != val {
				return true // vacuous
			}
		case *ssa.UnOp:
			if x.Op == token.NOT {
				return impliesNonNil(x.X, !val, b, via, depth+1)
			}
		case *ssa.BinOp:
			if (x.Op == token.EQL || x.Op == token.NEQ) && (x.X == pa && isNilConst(x.Y) || x.Y == pa && isNilConst(x.X)) {
				return (x.Op == token.NEQ) == val
			}
		case *ssa.Call:
			if callIs(x, "errors", "", "Is") && len(x.Call.Args) == 2 && x.Call.Args[0] == pa && val {
				return true
			}
		case *ssa.Phi:
			for i, e := range x.Edges {
				if !impliesNonNil(e, val, x.Block().Preds[i], nil, depth+1) && !nonNilFactAt(x.Block(), x.Block().Preds[i]) {
					return false
				}
			}
			return len(x.Edges) > 0
		}
		return false
	}
	falseK, trueK := 3, 3
	falseNN, trueNN := true, true
	n := 0
	allInstrs(h, func(in ssa.Instruction) {
		ret, ok := in.(*ssa.Return)
		if !ok || len(ret.Results) != 1 || (len(ret.Block().Preds) == 0 && ret.Block().Index != 0) {
			return
		}
		n++
		v := c02Ret(ret, 0)
		falseK = min(falseK, implies(v, false, ret.Block(), nil, 0))
		trueK = min(trueK, implies(v, true, ret.Block(), nil, 0))
		falseNN = falseNN && impliesNonNil(v, false, ret.Block(), nil, 0)
		trueNN = trueNN && impliesNonNil(v, true, ret.Block(), nil, 0)
	})
	if n == 0 {
		return out
	}
	out = c02PredSummary{ok: true, falseBenign: falseK >= 2, trueBenign: trueK >= 2, falseNil: falseK == 3, trueNil: trueK == 3, falseNonNil: falseNN, trueNonNil: trueNN}
	c02PredCache[h] = out
	return out
}

// c02PredTest decodes a CFG edge taken on the result of an error-classifying
// helper: returns the error value and what the edge establishes about it
// (kind 3: it is nil; kind 2: it is nil or io.EOF).
func c02PredTest(p *Prog, from, to *ssa.BasicBlock) (v ssa.Value, kind int, ok bool) {
	if len(from.Instrs) == 0 || len(from.Succs) != 2 || from.Succs[0] == from.Succs[1] {
		return nil, 0, false
	}
	ifi, isIf := from.Instrs[len(from.Instrs)-1].(*ssa.If)
	if !isIf {
		return nil, 0, false
	}
	call, truth, isCall := boolCallCond(ifi.Cond, from.Succs[0] == to)
	if !isCall || call.Call.IsInvoke() || len(call.Call.Args) != 1 {
		return nil, 0, false
	}
	h := staticCallee(call)
	if h == nil || !p.InModule(h) {
		return nil, 0, false
	}
	s := c02SummarisePredicate(p, h)
	if !s.ok {
		return nil, 0, false
	}
	switch {
	case truth && s.trueNil, !truth && s.falseNil:
		return call.Call.Args[0], 3, true
	case truth && s.trueBenign, !truth && s.falseBenign:
		return call.Call.Args[0], 2, true
	}
	return nil, 0, false
}

// c02KnownNonNilAtP: c02KnownNonNilAt, plus dominating edges taken on the
// result of an error-classifying helper that implies "not nil".
func c02KnownNonNilAtP(p *Prog, b *ssa.BasicBlock, v ssa.Value) bool {
	if c02KnownNonNilAt(b, v) || c02CarrierKnownNonNil(b, v) {
		return true
	}
	for s := b; s != nil; s = s.Idom() {
		if len(s.Preds) != 1 {
			continue
		}
		from := s.Preds[0]
		if len(from.Instrs) == 0 || len(from.Succs) != 2 || from.Succs[0] == from.Succs[1] {
			continue
		}
		ifi, isIf := from.Instrs[len(from.Instrs)-1].(*ssa.If)
		if !isIf {
			continue
		}
		call, truth, isCall := boolCallCond(ifi.Cond, from.Succs[0] == s)
		if !isCall || call.Call.IsInvoke() || len(call.Call.Args) != 1 || call.Call.Args[0] != v {
			continue
		}
		h := staticCallee(call)
		if h == nil || !p.InModule(h) {
			continue
		}
		sum := c02SummarisePredicate(p, h)
		if sum.ok && (truth && sum.trueNonNil || !truth && sum.falseNonNil) {
			return true
		}
	}
	return false
}

// ---------------------------------------------------------------------------
// Error-filter helpers: func(..., err error, ...) error to which a read error
// is handed and whose own result is then tested, e.g.
//	err = checkComplete(lines, manifest, mac, err); if err != nil { return err }

var c02FilterCache = map[string]bool{}

// c02FilterLax: functions for which c02ErrFilterOK failed because a return of
// the nil constant is positively reachable without the parameter having been
// found nil or io.EOF (as opposed to: could not be analysed).
var c02FilterLax = map[string]bool{}

// c02ErrFilterOK: for parameter #idx (an error) of the same-package function
// h, a nil result of h implies that the parameter is nil or io.EOF: every
// return of a nil error lies behind an edge that established that, the
// parameter itself may be returned, anything non-nil by construction may be
// returned.
func c02ErrFilterOK(p *Prog, h *ssa.Function, idx int) bool {
	key := fmt.Sprintf("%p/%d", h, idx)
	if v, ok := c02FilterCache[key]; ok {
		return v
	}
	c02FilterCache[key] = false
	errT := types.Universe.Lookup("error").Type()
	res := h.Signature.Results()
	if h == nil || len(h.Blocks) == 0 || idx < 0 || idx >= len(h.Params) || !types.Identical(h.Params[idx].Type(), errT) ||
		res.Len() == 0 || !types.Identical(res.At(res.Len()-1).Type(), errT) {
		return false
	}
	pa := ssa.Value(h.Params[idx])
	const benign = 1
	ff := &FlagFlow{Fn: h, Must: true,
		Transfer: func(in ssa.Instruction, st uint64) uint64 { return st },
		EdgeTransfer: func(from, to *ssa.BasicBlock, st uint64) uint64 {
			if v, isNil, ok := c02NilTest(from, to); ok && isNil && v == pa {
				return st | benign
			}
			if v, sent, ok := c02SentinelTest(from, to); ok && v == pa && sent == "io.EOF" {
				return st | benign
			}
			if v, kind, ok := c02PredTest(p, from, to); ok && v == pa && kind >= 2 {
				return st | benign
			}
			return st
		}}
	ff.Run()
	ok := true
	lax, unknown := false, false
	n := 0
	var judge func(v ssa.Value, b *ssa.BasicBlock, to *ssa.BasicBlock, st uint64, depth int)
	judge = func(v ssa.Value, b, to *ssa.BasicBlock, st uint64, depth int) {
		if st&benign != 0 || v == pa || c02ErrShapeNonNil(v) {
			return
		}
		if phi, isPhi := v.(*ssa.Phi); isPhi && depth < 4 {
			for i, e := range phi.Edges {
				pred := phi.Block().Preds[i]
				o, vis := ff.Out(pred)
				if !vis {
					continue
				}
				judge(e, pred, phi.Block(), ff.EdgeTransfer(pred, phi.Block(), o), depth+1)
			}
			return
		}
		ok = false
		if isNilConst(v) {
			lax = true
		} else {
			unknown = true
		}
	}
	ff.AtReturns(func(ret *ssa.Return, st uint64) {
		if len(ret.Results) == 0 {
			return
		}
		n++
		judge(c02Ret(ret, len(ret.Results)-1), ret.Block(), nil, st, 0)
	})
	c02FilterCache[key] = ok && n > 0
	c02FilterLax[key] = lax && !unknown
	return ok && n > 0
}

// c02FilteredErrors: the error results of calls in fn that hand a carrier of
// one of errs to an error-filter helper (see c02ErrFilterOK); escapes = the
// first call that hands such a carrier to a same-package function that is
// neither a filter nor a classification predicate (where it cannot be followed).
func c02FilteredErrors(p *Prog, fn *ssa.Function, carries func(v ssa.Value) bool) (filtered []ssa.Value, escapes string) {
	allInstrs(fn, func(in ssa.Instruction) {
		call, ok := in.(*ssa.Call)
		if !ok || call.Call.IsInvoke() {
			return
		}
		h := staticCallee(call)
		if h == nil || !p.InModule(h) || len(h.Blocks) == 0 {
			return
		}
		for j, a := range call.Call.Args {
			if !carries(a) {
				continue
			}
			n := call.Call.Signature().Results().Len()
			if c02ErrFilterOK(p, h, j) {
				if e := callResult(call, n-1); e != nil {
					filtered = append(filtered, e)
				}
				continue
			}
			if c02FilterLax[fmt.Sprintf("%p/%d", h, j)] {
				continue // analysed: it can return nil although the error is neither nil nor io.EOF — its result proves nothing, and the error is not lost track of
			}
			if s := c02SummarisePredicate(p, h); s.ok {
				continue
			}
			if c02ErrShapeNonNil(call) {
				continue // an error-wrapping helper
			}
			if escapes == "" {
				escapes = FuncName(p, h)
			}
		}
	})
	return
}
