package main

// c12x: a small path explorer over go/ssa with virtual inlining, used by the
// C12 rules. It walks every path of a root function, entering same-package
// callees (static calls, closures, bound-method values, deferred calls) as if
// they were inlined, keeps exact values for what the rules need to be
// shape-independent — integers derived from constants and from the length of a
// "stable" slice field (fixed to a small concrete n per exploration), the
// incoming value chosen at each phi, the operands returned by an inlined
// callee, the contents of local variable cells and of small local arrays, the
// stack of registered defers, the case taken by a select — and reports events
// to a client that carries a small bit-vector state along each path.
// Conditions whose value is not known fork the path. Identical states are
// merged (memo), integers are clipped, so the exploration is finite.
//
// It never executes dapr/kit code: it interprets SSA abstractly.

import (
	"fmt"
	"go/constant"
	"go/token"
	"go/types"
	"os"
	"sort"
	"strings"

	"golang.org/x/tools/go/ssa"
)

type xKind uint8

const (
	xUnknown xKind = iota // nothing known (V/F say where it came from, if anything)
	xInt
	xBool
	xNil
	xAtom  // the SSA value V as evaluated in frame F (a root: parameter, call result, alloc, closure, …)
	xField // load of field Fld of Base
	xElem  // load of element Idx of Base
	xCmp   // undecided comparison X Op Y
	xTuple
	xAddr // address of a cell: V (Alloc) in frame F
)

// xVal is an abstract value.
type xVal struct {
	K     xKind
	I     int64
	B     bool
	V     ssa.Value
	F     *xFrame
	Fld   FieldID
	Base  *xVal
	Idx   *xVal
	Op    token.Token
	X, Y  *xVal
	Tuple []xVal
	// NonNil: known not to be nil (closure, interface made from a value, result of errors.New …)
	NonNil bool
	// Stale: set by a client on a value (typically a field load) that was
	// obtained at a moment when it was not yet stable; everything computed from
	// it (len, arithmetic, comparisons) carries the mark and is not given a
	// concrete value
	Stale bool
	// HasLen/Len: a slice value of known length
	HasLen bool
	Len    int64
	// Elems: the elements of a slice value whose content is known (len == len(Elems))
	Elems []xVal
	// for the result of append(a, b...): a, and b's elements when known
	AppendOf   *xVal
	Appended   []xVal
	AppendedOK bool
}

func (v xVal) String() string {
	switch v.K {
	case xInt:
		return fmt.Sprintf("%d", v.I)
	case xBool:
		return fmt.Sprintf("%v", v.B)
	case xNil:
		return "nil"
	case xAtom, xAddr:
		s := "?"
		if v.V != nil {
			s = fmt.Sprintf("%s@%p", v.V.Name(), v.V)
		}
		fid := 0
		if v.F != nil {
			fid = v.F.id
		}
		if v.K == xAddr {
			s = "&" + s
		}
		if v.Stale {
			s += "/stale"
		}
		if v.HasLen {
			s += fmt.Sprintf("/len%d", v.Len)
		}
		for _, e := range v.Elems {
			s += "," + e.String()
		}
		return fmt.Sprintf("%s#%d", s, fid)
	case xField:
		if v.Stale {
			return "(" + v.Base.String() + ")." + v.Fld.Field + "/stale"
		}
		return "(" + v.Base.String() + ")." + v.Fld.Field
	case xElem:
		return "(" + v.Base.String() + ")[" + v.Idx.String() + "]"
	case xCmp:
		return "(" + v.X.String() + v.Op.String() + v.Y.String() + ")"
	case xTuple:
		var s []string
		for _, t := range v.Tuple {
			s = append(s, t.String())
		}
		return "<" + strings.Join(s, ",") + ">"
	}
	if v.V != nil {
		return fmt.Sprintf("unk:%s@%p", v.V.Name(), v.V)
	}
	return "unk"
}

// IsAtomOf: the value is exactly SSA value v (any frame).
func (v xVal) IsAtomOf(w ssa.Value) bool { return v.K == xAtom && v.V == w }

// xFrame is one activation of a function in the virtual inlining.
type xFrame struct {
	id      int
	parent  *xFrame
	fn      *ssa.Function
	site    ssa.CallInstruction
	closure *xVal // closure value being called (for free variables)
	depth   int
	// static: the frame's parameters/free variables are bound to values of a
	// function that is NOT being explored (the spawner of a goroutine)
	staticBind c12Bind
}

type xCell struct {
	f *xFrame
	v ssa.Value // Alloc (or FieldAddr key holder: nil with fld set)
	// fld: type-based cell for a struct field (all objects of the type merged)
	fld FieldID
	idx int // element of a local array, -1 otherwise
}

type xDefer struct {
	d      *ssa.Defer
	f      *xFrame
	callee xVal
	args   []xVal
}

type xCont struct {
	frame  *xFrame
	blk    *ssa.BasicBlock
	pc     int // index of the call instruction in blk (resume after it)
	call   ssa.Value
	defers bool // resume the RunDefers replay of frame (call == nil)
	prev   *ssa.BasicBlock
}

// xState is one path state.
type xState struct {
	fr     *xFrame
	blk    *ssa.BasicBlock
	prev   *ssa.BasicBlock
	pc     int
	env    map[xKeyT]xVal
	cells  map[xCell]xVal
	defers map[int][]xDefer
	conts  []xCont
	Client uint64
	// decided: outcome of undecidable comparisons between path-invariant
	// operands (parameters, globals, constants) already branched on, so that a
	// second test of the same condition (e.g. through a flag variable) agrees
	decided map[string]bool
	// Trail: positions of the branch decisions taken (for witnesses), bounded
	trail []string
	x     *xplorer
	steps int
}

type xKeyT struct {
	f int
	v ssa.Value
}

func (s *xState) clone() *xState {
	n := *s
	n.env = make(map[xKeyT]xVal, len(s.env)+4)
	for k, v := range s.env {
		n.env[k] = v
	}
	n.cells = make(map[xCell]xVal, len(s.cells)+2)
	for k, v := range s.cells {
		n.cells[k] = v
	}
	n.defers = make(map[int][]xDefer, len(s.defers))
	for k, v := range s.defers {
		n.defers[k] = append([]xDefer(nil), v...)
	}
	n.conts = append([]xCont(nil), s.conts...)
	if s.decided != nil {
		n.decided = make(map[string]bool, len(s.decided))
		for k, v := range s.decided {
			n.decided[k] = v
		}
	}
	n.trail = append([]string(nil), s.trail...)
	return &n
}

// Frame returns the current frame; Root reports whether it is the root frame.
func (s *xState) Frame() *xFrame { return s.fr }
func (s *xState) InRoot() bool   { return s.fr.parent == nil }

// Trail renders the branch decisions of the path.
func (s *xState) Trail() string { return strings.Join(s.trail, " → ") }

// xClient receives the events.
type xClient struct {
	// Lens: slice fields whose length is fixed to a concrete value.
	Lens map[FieldID]int
	// ParamLen: length assumed for slice-typed parameters of the root function
	// (0 = unknown). Bounds loops over a variadic argument.
	ParamLen int
	// NoInline: functions that are never entered (analysed on their own).
	NoInline func(fn *ssa.Function) bool
	// OnInstr is called before an instruction takes effect. replay=true when a
	// deferred call is being executed (in is the *ssa.Defer). Return false to
	// abandon the path.
	OnInstr func(st *xState, in ssa.Instruction, replay bool) bool
	// OnBranch is called when a conditional branch is taken. cond is the
	// evaluated condition with negations stripped, truth its value on the
	// branch taken. Return false to abandon the path (infeasible).
	OnBranch func(st *xState, ifi *ssa.If, cond xVal, truth bool) bool
	// OnSelect is called after choosing case k (-1 = default) of a select.
	OnSelect func(st *xState, sel *ssa.Select, k int) bool
	// OnReturn is called when the root function returns.
	OnReturn func(st *xState, ret *ssa.Return, results []xVal)
	// OnPanic is called when a path ends in a panic (optional).
	OnPanic func(st *xState, in ssa.Instruction)
	// Outer (optional, goroutine bodies): what a value of the function that
	// started this goroutine (an argument of the go statement, a captured
	// variable, a parameter of the launcher helper the go statement sits in)
	// is on the starter's path at the go statement.
	Outer func(v ssa.Value) (xVal, bool)
	// OnOnce is called for (*sync.Once).Do(f): entered=true on the path that
	// runs f (the first Do), false on the path that skips it (optional; without
	// it Do(f) is opaque).
	OnOnce func(st *xState, call *ssa.Call, entered bool) bool
	// OnEnter is called when an inlined callee is entered (optional).
	OnEnter func(st *xState, callee *ssa.Function, site ssa.CallInstruction)
	// OnUninlined is called for a same-package static callee with a body that
	// was not entered (depth/recursion); optional.
	OnUninlined func(st *xState, callee *ssa.Function, site ssa.CallInstruction)
}

type xplorer struct {
	p        *Prog
	pkg      *ssa.Package
	cl       *xClient
	memo     map[string]bool
	frames   map[string]*xFrame
	nframes  int
	States   int
	Limit    int
	Overflow bool
	maxDepth int
	fieldFn  map[FieldID][]ssa.Value
	globals  map[*ssa.Global]bool
	cur      *xState // state being stepped (for resolutions that need it)
	impls    map[*types.Interface]*ssa.Function
}

// c12xOnOverflow is called when an exploration exceeds its budget (the
// checker must then not conclude anything from it).
var c12xOnOverflow func(root *ssa.Function)

// c12xOnUninlined is called when a same-package callee with a body could not
// be entered (depth limit or recursion) and the client has no handler.
var c12xOnUninlined func(root, callee *ssa.Function)

// c12xStats accumulates exploration statistics of one run (evidence).
var c12xStats struct{ Explorations, States int }

func newXplorer(p *Prog, pkg *ssa.Package, cl *xClient) *xplorer {
	c12xStats.Explorations++
	return &xplorer{p: p, pkg: pkg, cl: cl, memo: map[string]bool{}, frames: map[string]*xFrame{}, Limit: 400000, maxDepth: 6}
}

func (x *xplorer) frame(parent *xFrame, fn *ssa.Function, site ssa.CallInstruction, tag string) *xFrame {
	pid := 0
	depth := 0
	if parent != nil {
		pid = parent.id
		depth = parent.depth + 1
	}
	key := fmt.Sprintf("%d|%p|%p|%s", pid, fn, site, tag)
	if f, ok := x.frames[key]; ok {
		return f
	}
	x.nframes++
	f := &xFrame{id: x.nframes, parent: parent, fn: fn, site: site, depth: depth}
	x.frames[key] = f
	return f
}

// Explore walks all paths of root. bind (optional) gives static bindings for
// the root's parameters (a goroutine body: the arguments of the go statement).
func (x *xplorer) Explore(root *ssa.Function, bind c12Bind, client uint64) {
	if len(root.Blocks) == 0 {
		return
	}
	fr := x.frame(nil, root, nil, "root")
	fr.staticBind = bind
	st := &xState{fr: fr, blk: root.Blocks[0], env: map[xKeyT]xVal{}, cells: map[xCell]xVal{}, defers: map[int][]xDefer{}, Client: client, x: x}
	x.run(st)
	if x.Overflow && c12xOnOverflow != nil {
		c12xOnOverflow(root)
	}
	if os.Getenv("C12X_DEBUG") != "" {
		fmt.Fprintf(os.Stderr, "explore %s lens=%v states=%d overflow=%v\n", root.String(), x.cl.Lens, x.States, x.Overflow)
	}
}

// ---------------------------------------------------------------- evaluation

func xIntVal(i int64) xVal {
	if i > 9 || i < -9 {
		return xVal{K: xUnknown}
	}
	return xVal{K: xInt, I: i}
}

func (s *xState) lookup(f *xFrame, v ssa.Value) (xVal, bool) {
	r, ok := s.env[xKeyT{f.id, v}]
	return r, ok
}

func (s *xState) set(f *xFrame, v ssa.Value, val xVal) { s.env[xKeyT{f.id, v}] = val }

// Eval evaluates v in the current frame.
func (s *xState) Eval(v ssa.Value) xVal { return s.eval(s.fr, v, 0) }

// EvalIn evaluates v in frame f.
func (s *xState) EvalIn(f *xFrame, v ssa.Value) xVal { return s.eval(f, v, 0) }

func (s *xState) eval(f *xFrame, v ssa.Value, depth int) xVal {
	if v == nil || depth > 40 {
		return xVal{K: xUnknown}
	}
	if r, ok := s.lookup(f, v); ok {
		return r
	}
	switch t := v.(type) {
	case *ssa.Const:
		if t.IsNil() {
			return xVal{K: xNil}
		}
		if t.Value != nil {
			switch t.Value.Kind() {
			case constant.Int:
				if i, ok := constant.Int64Val(t.Value); ok {
					if b, isB := t.Type().Underlying().(*types.Basic); isB && b.Info()&types.IsInteger != 0 {
						return xIntVal(i)
					}
				}
			case constant.Bool:
				return xVal{K: xBool, B: constant.BoolVal(t.Value)}
			}
		}
		return xVal{K: xAtom, V: v, F: nil, NonNil: true}
	case *ssa.Parameter:
		if f.staticBind != nil {
			if b, ok := f.staticBind[t]; ok {
				return xVal{K: xAtom, V: b, F: nil}
			}
		}
		return xVal{K: xAtom, V: v, F: f}
	case *ssa.FreeVar:
		if f.closure != nil && f.closure.K == xAtom {
			if mc, ok := f.closure.V.(*ssa.MakeClosure); ok {
				for i, fv := range f.fn.FreeVars {
					if fv == t && i < len(mc.Bindings) {
						if f.closure.F == nil {
							return xVal{K: xAtom, V: mc.Bindings[i], F: nil}
						}
						return s.eval(f.closure.F, mc.Bindings[i], depth+1)
					}
				}
			}
		}
		if b := resolveFreeVar(t); b != nil {
			// lexical parent on the frame chain?
			for a := f.parent; a != nil; a = a.parent {
				if a.fn == t.Parent().Parent() {
					return s.eval(a, b, depth+1)
				}
			}
			return xVal{K: xAtom, V: b, F: nil}
		}
		return xVal{K: xAtom, V: v, F: f}
	case *ssa.Alloc:
		return xVal{K: xAddr, V: v, F: f, NonNil: true}
	case *ssa.Global, *ssa.Function, *ssa.Builtin:
		return xVal{K: xAtom, V: v, F: nil, NonNil: true}
	case *ssa.MakeClosure:
		return xVal{K: xAtom, V: v, F: f, NonNil: true}
	case *ssa.MakeSlice:
		r := xVal{K: xAtom, V: v, F: f, NonNil: true}
		if l := s.eval(f, t.Len, depth+1); l.K == xInt {
			r.HasLen, r.Len = true, l.I
		}
		return r
	case *ssa.MakeChan, *ssa.MakeMap:
		return xVal{K: xAtom, V: v, F: f, NonNil: true}
	case *ssa.ChangeType:
		return s.eval(f, t.X, depth+1)
	case *ssa.ChangeInterface:
		return s.eval(f, t.X, depth+1)
	case *ssa.Convert:
		return s.eval(f, t.X, depth+1)
	case *ssa.MakeInterface:
		r := s.eval(f, t.X, depth+1)
		if r.K == xNil {
			// a typed nil in an interface is not the nil interface
			return xVal{K: xAtom, V: v, F: f, NonNil: true}
		}
		if _, isPtr := t.X.Type().Underlying().(*types.Pointer); !isPtr {
			if _, isSig := t.X.Type().Underlying().(*types.Signature); !isSig {
				r.NonNil = true
			}
		}
		return r
	case *ssa.Extract:
		tu := s.eval(f, t.Tuple, depth+1)
		if tu.K == xTuple && t.Index < len(tu.Tuple) {
			return tu.Tuple[t.Index]
		}
		if sel, ok := t.Tuple.(*ssa.Select); ok && t.Index == 0 {
			if r, ok := s.lookup(f, sel); ok {
				return r
			}
		}
		return xVal{K: xAtom, V: v, F: f}
	case *ssa.UnOp:
		switch t.Op {
		case token.NOT:
			r := s.eval(f, t.X, depth+1)
			if r.K == xBool {
				return xVal{K: xBool, B: !r.B}
			}
			return xVal{K: xAtom, V: v, F: f}
		case token.SUB:
			r := s.eval(f, t.X, depth+1)
			if r.K == xInt {
				return xIntVal(-r.I)
			}
		case token.MUL:
			return s.load(f, t, depth)
		}
		return xVal{K: xAtom, V: v, F: f}
	case *ssa.BinOp:
		a, b := s.eval(f, t.X, depth+1), s.eval(f, t.Y, depth+1)
		if a.K == xInt && b.K == xInt {
			switch t.Op {
			case token.ADD:
				return xIntVal(a.I + b.I)
			case token.SUB:
				return xIntVal(a.I - b.I)
			case token.MUL:
				return xIntVal(a.I * b.I)
			case token.QUO:
				if b.I != 0 {
					return xIntVal(a.I / b.I)
				}
			case token.REM:
				if b.I != 0 {
					return xIntVal(a.I % b.I)
				}
			case token.EQL:
				return xVal{K: xBool, B: a.I == b.I}
			case token.NEQ:
				return xVal{K: xBool, B: a.I != b.I}
			case token.LSS:
				return xVal{K: xBool, B: a.I < b.I}
			case token.LEQ:
				return xVal{K: xBool, B: a.I <= b.I}
			case token.GTR:
				return xVal{K: xBool, B: a.I > b.I}
			case token.GEQ:
				return xVal{K: xBool, B: a.I >= b.I}
			}
		}
		if a.K == xBool && b.K == xBool {
			switch t.Op {
			case token.EQL:
				return xVal{K: xBool, B: a.B == b.B}
			case token.NEQ:
				return xVal{K: xBool, B: a.B != b.B}
			}
		}
		switch t.Op {
		case token.EQL, token.NEQ:
			// nil tests on values of known nil-ness
			nilOf := func(z xVal) (known, isNil bool) {
				if z.K == xNil {
					return true, true
				}
				if z.NonNil {
					return true, false
				}
				return false, false
			}
			ka, na := nilOf(a)
			kb, nb := nilOf(b)
			if ka && kb && (na || nb) {
				eq := na == nb
				if t.Op == token.NEQ {
					eq = !eq
				}
				return xVal{K: xBool, B: eq}
			}
			fallthrough
		case token.LSS, token.LEQ, token.GTR, token.GEQ:
			return xVal{K: xCmp, Op: t.Op, X: &a, Y: &b, V: v, F: f, Stale: a.Stale || b.Stale}
		}
		return xVal{K: xAtom, V: v, F: f, Stale: a.Stale || b.Stale}
	case *ssa.Call:
		if builtinName(t) == "len" && len(t.Call.Args) == 1 {
			a := s.eval(f, t.Call.Args[0], depth+1)
			if a.Stale {
				return xVal{K: xAtom, V: v, F: f, Stale: true}
			}
			if a.K == xField {
				if n, ok := s.x.cl.Lens[a.Fld]; ok {
					return xIntVal(int64(n))
				}
			}
			if a.K == xNil {
				return xIntVal(0)
			}
			if a.HasLen {
				return xIntVal(a.Len)
			}
			if pa, ok := a.V.(*ssa.Parameter); ok && a.K == xAtom && a.F != nil && a.F.parent == nil && s.x.cl.ParamLen > 0 && pa.Parent() == a.F.fn {
				return xIntVal(int64(s.x.cl.ParamLen))
			}
			return xVal{K: xAtom, V: v, F: f}
		}
		if bn := builtinName(t); (bn == "min" || bn == "max") && len(t.Call.Args) >= 1 {
			var best int64
			all := true
			stale := false
			for i, a := range t.Call.Args {
				av := s.eval(f, a, depth+1)
				stale = stale || av.Stale
				if av.K != xInt {
					all = false
					continue
				}
				if i == 0 || (bn == "min" && av.I < best) || (bn == "max" && av.I > best) {
					best = av.I
				}
			}
			if all {
				return xIntVal(best)
			}
			return xVal{K: xAtom, V: v, F: f, Stale: stale}
		}
		if builtinName(t) == "append" && len(t.Call.Args) == 2 {
			r := xVal{K: xAtom, V: v, F: f}
			a, b := s.eval(f, t.Call.Args[0], depth+1), s.eval(f, t.Call.Args[1], depth+1)
			la, oka := a.Len, a.HasLen
			if a.K == xNil {
				la, oka = 0, true
			}
			lb, okb := b.Len, b.HasLen
			if b.K == xNil {
				lb, okb = 0, true
			}
			if oka && okb && la+lb <= 9 {
				r.HasLen, r.Len = true, la+lb
				if int64(len(a.Elems)) == la && int64(len(b.Elems)) == lb {
					r.Elems = append(append([]xVal(nil), a.Elems...), b.Elems...)
				}
			}
			r.AppendOf = &a
			if okb && int64(len(b.Elems)) == lb {
				r.Appended = append([]xVal(nil), b.Elems...)
				r.AppendedOK = true
			}
			return r
		}
		r := xVal{K: xAtom, V: v, F: f}
		if callIs(t, "errors", "", "New") || callIs(t, "fmt", "", "Errorf") {
			r.NonNil = true
		}
		return r
	case *ssa.FieldAddr, *ssa.IndexAddr:
		return xVal{K: xAtom, V: v, F: f, NonNil: true}
	case *ssa.Slice:
		r := xVal{K: xAtom, V: v, F: f}
		lo, hi := int64(0), int64(-1)
		okLo, okHi := true, false
		if t.Low != nil {
			l := s.eval(f, t.Low, depth+1)
			lo, okLo = l.I, l.K == xInt
		}
		if t.High != nil {
			h := s.eval(f, t.High, depth+1)
			hi, okHi = h.I, h.K == xInt
		} else {
			if pt, ok := t.X.Type().Underlying().(*types.Pointer); ok {
				if at, ok := pt.Elem().Underlying().(*types.Array); ok {
					hi, okHi = at.Len(), true
				}
			} else if b := s.eval(f, t.X, depth+1); b.HasLen {
				hi, okHi = b.Len, true
			}
		}
		if okLo && okHi && hi >= lo {
			r.HasLen, r.Len = true, hi-lo
			// content: a slice of a local array whose cells are known
			if base := s.eval(f, t.X, depth+1); base.K == xAddr && hi-lo <= 9 {
				var el []xVal
				for i := lo; i < hi; i++ {
					c, ok := s.cells[xCell{f: base.F, v: base.V, idx: int(i)}]
					if !ok {
						el = nil
						break
					}
					el = append(el, c)
				}
				if int64(len(el)) == hi-lo {
					r.Elems = el
				}
			} else if len(base.Elems) > 0 && int64(len(base.Elems)) == base.Len && base.HasLen && hi <= base.Len {
				r.Elems = append([]xVal(nil), base.Elems[lo:hi]...)
			}
		}
		return r
	case *ssa.Phi:
		// not yet assigned on this path (should not happen)
		return xVal{K: xAtom, V: v, F: f}
	}
	return xVal{K: xAtom, V: v, F: f}
}

// load evaluates *addr.
func (s *xState) load(f *xFrame, u *ssa.UnOp, depth int) xVal {
	switch a := u.X.(type) {
	case *ssa.FieldAddr:
		id := fieldIDOfAddr(a)
		if r, ok := s.cells[xCell{fld: id, idx: -1}]; ok {
			return r
		}
		base := s.eval(f, a.X, depth+1)
		return xVal{K: xField, Fld: id, Base: &base, V: u, F: f}
	case *ssa.IndexAddr:
		base := s.eval(f, a.X, depth+1)
		idx := s.eval(f, a.Index, depth+1)
		if base.K == xAddr && idx.K == xInt {
			if r, ok := s.cells[xCell{f: base.F, v: base.V, idx: int(idx.I)}]; ok {
				return r
			}
		}
		if idx.K == xInt && base.HasLen && int64(len(base.Elems)) == base.Len && idx.I >= 0 && idx.I < base.Len {
			return base.Elems[idx.I] // element of a small slice whose content is known (e.g. a literal)
		}
		return xVal{K: xElem, Base: &base, Idx: &idx, V: u, F: f, Stale: base.Stale}
	case *ssa.Global:
		return xVal{K: xAtom, V: u, F: nil, NonNil: s.x.globalNonNil(a)}
	}
	addr := s.eval(f, u.X, depth+1)
	if addr.K == xAddr {
		if r, ok := s.cells[xCell{f: addr.F, v: addr.V, idx: -1}]; ok {
			return r
		}
		// never stored on this path: zero value / static
		if addr.F == nil {
			return xVal{K: xAtom, V: u, F: nil}
		}
		if b, ok := u.Type().Underlying().(*types.Basic); ok {
			// a local of basic type that has not been assigned on this path still
			// holds its zero value (e.g. the state variable of a range-over-func body)
			switch {
			case b.Info()&types.IsInteger != 0:
				return xIntVal(0)
			case b.Info()&types.IsBoolean != 0:
				return xVal{K: xBool, B: false}
			}
		}
		if al, ok := addr.V.(*ssa.Alloc); ok && !al.Heap {
			// a stack local (e.g. a named result) of nilable type never assigned
			// on this path is still nil
			switch u.Type().Underlying().(type) {
			case *types.Interface, *types.Pointer, *types.Slice, *types.Map, *types.Chan, *types.Signature:
				return xVal{K: xNil}
			}
		}
		return xVal{K: xAtom, V: u, F: f}
	}
	if addr.K == xAtom && addr.F == nil {
		// a cell of a function that is not being explored (spawner): static
		return xVal{K: xAtom, V: u, F: nil, Base: &addr}
	}
	return xVal{K: xAtom, V: u, F: f}
}

// Static resolves an abstract value to the SSA roots it may stem from,
// flow-insensitively through cells of functions that are not explored.
func (s *xState) Static(v xVal) []ssa.Value {
	switch v.K {
	case xAtom, xAddr:
		if v.V == nil {
			return nil
		}
		if u, ok := v.V.(*ssa.UnOp); ok && u.Op == token.MUL && v.Base != nil && v.Base.K == xAtom {
			// load through a statically bound address
			if cell := c12CellOf(v.Base.V); cell != nil {
				if vals := c12CellStores(cell); len(vals) > 0 {
					var out []ssa.Value
					for _, w := range vals {
						out = append(out, c12Roots(w, nil)...)
					}
					return out
				}
			}
		}
		return c12Roots(v.V, nil)
	case xField, xElem:
		if v.V != nil {
			return []ssa.Value{v.V}
		}
	}
	return nil
}

// ------------------------------------------------------------------- running

func (x *xplorer) key(s *xState) string {
	var b strings.Builder
	fmt.Fprintf(&b, "%d|%d|%d|%x|", s.fr.id, s.blk.Index, s.pc, s.Client)
	if s.prev != nil {
		fmt.Fprintf(&b, "p%d|", s.prev.Index)
	}
	for _, c := range s.conts {
		fmt.Fprintf(&b, "c%d.%d.%d.%v;", c.frame.id, c.blk.Index, c.pc, c.defers)
	}
	var ks []string
	for k, v := range s.env {
		ks = append(ks, fmt.Sprintf("%d.%p=%s", k.f, k.v, v.String()))
	}
	for k, v := range s.cells {
		ks = append(ks, fmt.Sprintf("C%p.%p.%s.%d=%s", k.f, k.v, k.fld.Field, k.idx, v.String()))
	}
	for k, v := range s.defers {
		var ds []string
		for _, d := range v {
			ds = append(ds, fmt.Sprintf("%p", d.d))
		}
		ks = append(ks, fmt.Sprintf("D%d=%s", k, strings.Join(ds, ",")))
	}
	for k, v := range s.decided {
		ks = append(ks, fmt.Sprintf("Q%s=%v", k, v))
	}
	sort.Strings(ks)
	b.WriteString(strings.Join(ks, ";"))
	return b.String()
}

func (x *xplorer) run(start *xState) {
	work := []*xState{start}
	for len(work) > 0 {
		s := work[len(work)-1]
		work = work[:len(work)-1]
		for s != nil {
			if x.States > x.Limit {
				x.Overflow = true
				return
			}
			// memoise at block entries and call returns
			if s.pc == 0 {
				k := x.key(s)
				if x.memo[k] {
					break
				}
				x.memo[k] = true
			}
			x.States++
			c12xStats.States++
			var forks []*xState
			s, forks = x.step(s)
			work = append(work, forks...)
		}
	}
}

// enterBlock moves s to block to (from s.blk), assigning phis.
func (x *xplorer) enterBlock(s *xState, to *ssa.BasicBlock) {
	from := s.blk
	pi := -1
	for i, p := range to.Preds {
		if p == from {
			pi = i
		}
	}
	// evaluate all phis with the old environment, then assign
	type asg struct {
		phi *ssa.Phi
		val xVal
	}
	var as []asg
	for _, in := range to.Instrs {
		phi, ok := in.(*ssa.Phi)
		if !ok {
			break
		}
		if pi >= 0 && pi < len(phi.Edges) {
			as = append(as, asg{phi, s.eval(s.fr, phi.Edges[pi], 0)})
		}
	}
	for _, a := range as {
		s.set(s.fr, a.phi, a.val)
	}
	s.prev = from
	s.blk = to
	s.pc = 0
	// liveness: an SSA value (and the local cell an Alloc denotes) whose
	// defining block does not dominate the block being entered can no longer
	// be referenced; dropping it keeps the state space small (loops).
	fid := s.fr.id
	for k := range s.env {
		if k.f != fid {
			continue
		}
		if in, ok := k.v.(ssa.Instruction); ok && in.Block() != nil && in.Parent() == s.fr.fn && !in.Block().Dominates(to) {
			delete(s.env, k)
		}
	}
	for k := range s.cells {
		if k.f != s.fr || k.v == nil {
			continue
		}
		if in, ok := k.v.(ssa.Instruction); ok && in.Block() != nil && in.Parent() == s.fr.fn && !in.Block().Dominates(to) {
			delete(s.cells, k)
		}
	}
}

func (x *xplorer) inlinable(s *xState, callee *ssa.Function) bool {
	if callee == nil || len(callee.Blocks) == 0 {
		return false
	}
	pk := callee.Pkg
	if pk == nil && callee.Parent() != nil {
		pk = callee.Parent().Pkg
	}
	if pk == nil {
		// synthetic wrappers (bound methods, thunks) have no package: follow them
		if callee.Synthetic == "" {
			return false
		}
	} else if pk != x.pkg {
		// small pure iterator / slice helpers of the standard library are
		// followed too (range-over-func over slices.Values, slices.All, maps.Keys …)
		switch pk.Pkg.Path() {
		case "slices", "maps", "iter":
			res := callee.Signature.Results()
			isIter := callee.Parent() != nil // the iterator closure itself
			if res.Len() == 1 && strings.HasPrefix(namedKey(res.At(0).Type()), "iter.Seq") {
				isIter = true
			}
			if !isIter {
				return false
			}
		default:
			return false
		}
	}
	if x.cl.NoInline != nil && x.cl.NoInline(callee) {
		return false
	}
	if s.fr.depth >= x.maxDepth {
		return false
	}
	for a := s.fr; a != nil; a = a.parent {
		if a.fn == callee {
			return false
		}
	}
	return true
}

// calleeOf resolves the function a call instruction invokes on this path.
func (x *xplorer) calleeOf(s *xState, f *xFrame, cc *ssa.CallCommon) (*ssa.Function, *xVal) {
	if cc.IsInvoke() {
		return x.soleImplementation(cc), nil
	}
	switch v := cc.Value.(type) {
	case *ssa.Function:
		return v, nil
	case *ssa.Builtin:
		return nil, nil
	}
	cv := s.eval(f, cc.Value, 0)
	return x.funcOf(cv)
}

// globalNonNil: a package-level error variable that is assigned exactly once,
// in its package's initialiser, from errors.New / fmt.Errorf (a sentinel such
// as ErrManagerAlreadyStarted or context.Canceled's like) is never nil.
func (x *xplorer) globalNonNil(g *ssa.Global) bool {
	if x.globals == nil {
		x.globals = map[*ssa.Global]bool{}
	}
	if v, ok := x.globals[g]; ok {
		return v
	}
	res := false
	if g.Pkg != nil {
		n, good := 0, true
		for _, m := range g.Pkg.Members {
			fn, ok := m.(*ssa.Function)
			if !ok {
				continue
			}
			var visit func(f *ssa.Function)
			visit = func(f *ssa.Function) {
				allInstrs(f, func(in ssa.Instruction) {
					st, ok := in.(*ssa.Store)
					if !ok || st.Addr != ssa.Value(g) {
						return
					}
					n++
					c, isCall := st.Val.(*ssa.Call)
					if f.Name() != "init" || !isCall || !(callIs(c, "errors", "", "New") || callIs(c, "fmt", "", "Errorf")) {
						good = false
					}
				})
				for _, a := range f.AnonFuncs {
					visit(a)
				}
			}
			visit(fn)
		}
		// stores in methods of the analysed module (not package members)
		for _, f := range x.p.Funcs {
			if f.Signature.Recv() == nil {
				continue
			}
			allInstrs(f, func(in ssa.Instruction) {
				if st, ok := in.(*ssa.Store); ok && st.Addr == ssa.Value(g) {
					good = false
				}
			})
		}
		res = n == 1 && good
	}
	x.globals[g] = res
	return res
}

// soleImplementation: for a method call on an interface declared in the
// analysed package that exactly one named type of the package implements (a
// single-implementation seam), the method of that type.
func (x *xplorer) soleImplementation(cc *ssa.CallCommon) *ssa.Function {
	named, ok := types.Unalias(cc.Value.Type()).(*types.Named)
	if !ok || named.Obj().Pkg() == nil || x.pkg == nil || named.Obj().Pkg() != x.pkg.Pkg {
		return nil
	}
	iface, ok := named.Underlying().(*types.Interface)
	if !ok {
		return nil
	}
	var impl types.Type
	n := 0
	for _, m := range x.pkg.Members {
		tn, ok := m.(*ssa.Type)
		if !ok {
			continue
		}
		t := tn.Type()
		if _, isIface := t.Underlying().(*types.Interface); isIface {
			continue
		}
		switch {
		case types.Implements(t, iface):
			impl = t
			n++
		case types.Implements(types.NewPointer(t), iface):
			impl = types.NewPointer(t)
			n++
		}
	}
	if n != 1 {
		return nil
	}
	sel := x.p.SSA.MethodSets.MethodSet(impl).Lookup(cc.Method.Pkg(), cc.Method.Name())
	if sel == nil {
		return nil
	}
	return x.p.SSA.MethodValue(sel)
}

// funcOf: the function an abstract value denotes: a closure, a function, or a
// load of a func-typed struct field into which the package only ever stores
// one function (then free variables are resolved statically).
func (x *xplorer) funcOf(cv xVal) (*ssa.Function, *xVal) {
	if cv.K == xAtom {
		switch v := cv.V.(type) {
		case *ssa.MakeClosure:
			if fn, ok := v.Fn.(*ssa.Function); ok {
				return fn, &cv
			}
		case *ssa.Function:
			return v, nil
		}
	}
	if cv.K == xAtom && cv.V != nil {
		// a value that belongs to a function not being explored (captured by a
		// goroutine body, bound at a go statement): all its roots must be one
		// function value
		if st := x.cur; st != nil {
			var only ssa.Value
			ok := true
			roots := st.Static(cv)
			for i, r := range roots {
				if x.cl.Outer != nil {
					// a parameter / variable of the starter: ask what it holds there
					if ov, ok := x.cl.Outer(r); ok && ov.K == xAtom {
						switch ov.V.(type) {
						case *ssa.MakeClosure, *ssa.Function:
							roots[i] = ov.V
							r = ov.V
						}
					}
				}
				switch r.(type) {
				case *ssa.MakeClosure, *ssa.Function:
				default:
					ok = false
				}
				if only != nil && only != r {
					ok = false
				}
				only = r
			}
			if ok && only != nil && only != cv.V {
				switch v := only.(type) {
				case *ssa.MakeClosure:
					if fn, isFn := v.Fn.(*ssa.Function); isFn {
						c := xVal{K: xAtom, V: v, F: nil}
						return fn, &c
					}
				case *ssa.Function:
					return v, nil
				}
			}
		}
	}
	if cv.K == xField {
		if x.fieldFn == nil {
			x.fieldFn = map[FieldID][]ssa.Value{}
		}
		targets, ok := x.fieldFn[cv.Fld]
		if !ok {
			for _, fn := range x.p.Funcs {
				if fn.Pkg != x.pkg && !(fn.Parent() != nil) {
					continue
				}
				allInstrs(fn, func(in ssa.Instruction) {
					if st, ok := in.(*ssa.Store); ok {
						if fa, ok := st.Addr.(*ssa.FieldAddr); ok && fieldIDOfAddr(fa) == cv.Fld {
							targets = append(targets, c12Roots(st.Val, nil)...)
						}
					}
				})
			}
			x.fieldFn[cv.Fld] = targets
		}
		var only ssa.Value
		for _, t := range targets {
			if only != nil && only != t {
				return nil, nil
			}
			only = t
		}
		switch v := only.(type) {
		case *ssa.MakeClosure:
			if fn, ok := v.Fn.(*ssa.Function); ok {
				c := xVal{K: xAtom, V: v, F: nil}
				return fn, &c
			}
		case *ssa.Function:
			return v, nil
		}
	}
	return nil, nil
}

func (x *xplorer) enterCall(s *xState, callee *ssa.Function, closure *xVal, site ssa.CallInstruction, args []xVal, cont xCont) {
	nf := x.frame(s.fr, callee, site, "")
	nf.closure = closure
	if os.Getenv("C12X_DEBUG") == "2" {
		fmt.Fprintf(os.Stderr, "  enter %s (depth %d) from %s\n", callee.String(), nf.depth, s.fr.fn.String())
	}
	if x.cl.OnEnter != nil {
		x.cl.OnEnter(s, callee, site)
	}
	// a re-entered frame starts clean
	for k := range s.env {
		if k.f == nf.id {
			delete(s.env, k)
		}
	}
	for k := range s.cells {
		if k.f == nf {
			delete(s.cells, k)
		}
	}
	delete(s.defers, nf.id)
	for i, pa := range callee.Params {
		if i < len(args) {
			s.set(nf, pa, args[i])
		}
	}
	s.conts = append(s.conts, cont)
	s.fr = nf
	s.prev = nil
	s.blk = callee.Blocks[0]
	s.pc = 0
}

func (x *xplorer) evalArgs(s *xState, f *xFrame, cc *ssa.CallCommon) []xVal {
	var out []xVal
	if cc.IsInvoke() {
		out = append(out, s.eval(f, cc.Value, 0)) // the receiver
	}
	for _, a := range cc.Args {
		out = append(out, s.eval(f, a, 0))
	}
	return out
}

// step executes one instruction; returns the continued state (nil = path
// ended) and forks.
func (x *xplorer) step(s *xState) (*xState, []*xState) {
	x.cur = s
	if s.pc >= len(s.blk.Instrs) {
		return nil, nil
	}
	in := s.blk.Instrs[s.pc]
	if _, isPhi := in.(*ssa.Phi); isPhi {
		s.pc++
		return s, nil
	}
	if x.cl.OnInstr != nil {
		if !x.cl.OnInstr(s, in, false) {
			return nil, nil
		}
	}
	switch t := in.(type) {
	case *ssa.Jump:
		x.enterBlock(s, s.blk.Succs[0])
		return s, nil
	case *ssa.If:
		cond := s.eval(s.fr, t.Cond, 0)
		base, neg := x.stripNot(s, t.Cond)
		_ = base
		take := func(st *xState, truth bool) *xState {
			bc, bt := cond, truth
			if cond.K != xBool {
				bc = s.eval(s.fr, base, 0)
				bt = truth != neg
			}
			if x.cl.OnBranch != nil && !x.cl.OnBranch(st, t, bc, bt) {
				return nil
			}
			if len(st.trail) < 24 {
				st.trail = append(st.trail, fmt.Sprintf("%s:%v", x.p.Pos(instrPos(t)), truth))
			}
			idx := 0
			if !truth {
				idx = 1
			}
			x.enterBlock(st, st.blk.Succs[idx])
			return st
		}
		if cond.K == xBool {
			return take(s, cond.B), nil
		}
		// a comparison of path-invariant operands decided earlier on this path
		stableKey := ""
		if bc := s.eval(s.fr, base, 0); bc.K == xCmp && xStable(*bc.X) && xStable(*bc.Y) {
			stableKey = bc.String()
			if prev, ok := s.decided[stableKey]; ok {
				return take(s, prev != neg), nil
			}
		}
		other := s.clone()
		if stableKey != "" {
			if s.decided == nil {
				s.decided = map[string]bool{}
			}
			if other.decided == nil {
				other.decided = map[string]bool{}
			}
			s.decided[stableKey] = true != neg
			other.decided[stableKey] = false != neg
		}
		a := take(s, true)
		b := take(other, false)
		if a == nil {
			return b, nil
		}
		if b == nil {
			return a, nil
		}
		return a, []*xState{b}
	case *ssa.Return:
		var results []xVal
		for _, r := range t.Results {
			results = append(results, s.eval(s.fr, r, 0))
		}
		return x.doReturn(s, t, results), nil
	case *ssa.Panic:
		if x.cl.OnPanic != nil {
			x.cl.OnPanic(s, in)
		}
		return nil, nil
	case *ssa.RunDefers:
		s.pc++
		return x.runDefers(s), nil
	case *ssa.Defer:
		callee := s.eval(s.fr, t.Call.Value, 0)
		s.defers[s.fr.id] = append(s.defers[s.fr.id], xDefer{d: t, f: s.fr, callee: callee, args: x.evalArgs(s, s.fr, &t.Call)})
		s.pc++
		return s, nil
	case *ssa.Go:
		s.pc++
		return s, nil
	case *ssa.Store:
		val := s.eval(s.fr, t.Val, 0)
		switch a := t.Addr.(type) {
		case *ssa.FieldAddr:
			s.cells[xCell{fld: fieldIDOfAddr(a), idx: -1}] = val
		case *ssa.IndexAddr:
			base := s.eval(s.fr, a.X, 0)
			idx := s.eval(s.fr, a.Index, 0)
			if base.K == xAddr && idx.K == xInt {
				s.cells[xCell{f: base.F, v: base.V, idx: int(idx.I)}] = val
			}
		default:
			addr := s.eval(s.fr, t.Addr, 0)
			if addr.K == xAddr {
				s.cells[xCell{f: addr.F, v: addr.V, idx: -1}] = val
			}
		}
		s.pc++
		return s, nil
	case *ssa.Select:
		var forks []*xState
		n := len(t.States)
		choices := []int{}
		for k := 0; k < n; k++ {
			choices = append(choices, k)
		}
		if !t.Blocking {
			choices = append(choices, -1)
		}
		var first *xState
		for i, k := range choices {
			st := s
			if i < len(choices)-1 {
				st = s.clone()
			}
			st.set(st.fr, t, xIntVal(int64(k)))
			if x.cl.OnSelect != nil && !x.cl.OnSelect(st, t, k) {
				continue
			}
			st.pc++
			if first == nil {
				first = st
			} else {
				forks = append(forks, st)
			}
		}
		return first, forks
	case *ssa.Call:
		if x.cl.OnOnce != nil && callIs(t, "sync", "Once", "Do") && len(t.Call.Args) == 2 {
			fv := s.eval(s.fr, t.Call.Args[1], 0)
			var body *ssa.Function
			var clo *xVal
			if fv.K == xAtom {
				switch w := fv.V.(type) {
				case *ssa.MakeClosure:
					body, _ = w.Fn.(*ssa.Function)
					clo = &fv
				case *ssa.Function:
					body = w
				}
			}
			if body != nil && x.inlinable(s, body) {
				skip := s.clone()
				var forks []*xState
				if x.cl.OnOnce(skip, t, false) {
					skip.pc++
					forks = append(forks, skip)
				}
				if !x.cl.OnOnce(s, t, true) {
					return nil, forks
				}
				cont := xCont{frame: s.fr, blk: s.blk, pc: s.pc, call: t, prev: s.prev}
				x.enterCall(s, body, clo, t, nil, cont)
				return s, forks
			}
		}
		callee, closure := x.calleeOf(s, s.fr, &t.Call)
		if callee != nil && x.inlinable(s, callee) {
			args := x.evalArgs(s, s.fr, &t.Call)
			cont := xCont{frame: s.fr, blk: s.blk, pc: s.pc, call: t, prev: s.prev}
			x.enterCall(s, callee, closure, t, args, cont)
			return s, nil
		}
		if callee != nil && len(callee.Blocks) > 0 && callee.Pkg == x.pkg && !(x.cl.NoInline != nil && x.cl.NoInline(callee)) {
			// a same-package callee that was not entered (depth / recursion): what
			// it does is unknown to the client
			if x.cl.OnUninlined != nil {
				x.cl.OnUninlined(s, callee, t)
			} else if c12xOnUninlined != nil {
				c12xOnUninlined(x.frames0().fn, callee)
			}
		}
		s.pc++
		return s, nil
	}
	s.pc++
	return s, nil
}

// xStable: a value that cannot change along a path of one call.
func xStable(v xVal) bool {
	switch v.K {
	case xNil, xInt, xBool:
		return true
	case xAtom:
		switch v.V.(type) {
		case *ssa.Parameter, *ssa.Global, *ssa.Const, *ssa.Function:
			return true
		}
	}
	return false
}

func (x *xplorer) stripNot(s *xState, v ssa.Value) (ssa.Value, bool) {
	neg := false
	for {
		u, ok := v.(*ssa.UnOp)
		if !ok || u.Op != token.NOT {
			return v, neg
		}
		v = u.X
		neg = !neg
	}
}

// runDefers executes the registered defers of the current frame (LIFO), then
// continues after the RunDefers instruction.
func (x *xplorer) runDefers(s *xState) *xState {
	for {
		ds := s.defers[s.fr.id]
		if len(ds) == 0 {
			return s
		}
		d := ds[len(ds)-1]
		s.defers[s.fr.id] = ds[:len(ds)-1]
		if x.cl.OnInstr != nil {
			if !x.cl.OnInstr(s, d.d, true) {
				return nil
			}
		}
		// inline the deferred callee
		var callee *ssa.Function
		var closure *xVal
		if !d.d.Call.IsInvoke() {
			switch v := d.d.Call.Value.(type) {
			case *ssa.Function:
				callee = v
			case *ssa.Builtin:
			default:
				callee, closure = x.funcOf(d.callee)
			}
		}
		if callee != nil && x.inlinable(s, callee) {
			cont := xCont{frame: s.fr, blk: s.blk, pc: s.pc, defers: true, prev: s.prev}
			x.enterCall(s, callee, closure, d.d, d.args, cont)
			return s
		}
	}
}

func (x *xplorer) doReturn(s *xState, ret *ssa.Return, results []xVal) *xState {
	if len(s.conts) == 0 {
		if x.cl.OnReturn != nil {
			x.cl.OnReturn(s, ret, results)
		}
		return nil
	}
	c := s.conts[len(s.conts)-1]
	s.conts = s.conts[:len(s.conts)-1]
	s.fr = c.frame
	s.blk = c.blk
	s.prev = c.prev
	if c.defers {
		s.pc = c.pc
		return x.runDefers(s)
	}
	if c.call != nil {
		var rv xVal
		switch len(results) {
		case 0:
			rv = xVal{K: xUnknown}
		case 1:
			rv = results[0]
		default:
			rv = xVal{K: xTuple, Tuple: results}
		}
		s.set(s.fr, c.call, rv)
	}
	s.pc = c.pc + 1
	return s
}
