package main

import (
	"fmt"
	"go/constant"
	"go/token"
	"go/types"
	"sort"
	"strings"

	"golang.org/x/tools/go/ssa"
)

// C19 — SPIFFE.
//
// Every construct is resolved by ROLE through types and dataflow; the only
// names used as anchors are exported ones (spiffe.SPIFFE, SPIFFE.Run,
// SPIFFE.Ready, GetX509SVID of the x509svid.Source interface, x509svid.SVID
// and its fields, dir.Dir.Write, pem.*, the standard library and
// k8s.io/utils/clock):
//
//	svid field    the struct field of the package whose type is *x509svid.SVID
//	lock          the mutex held at the stores of the svid field
//	ready channel the channel-typed struct field Ready waits on
//	fetcher       a function of the package returning (*x509svid.SVID, error)
//	request call  the dynamic call (ctx, []byte) ([]*x509.Certificate, error)
//	rotation code everything statically reachable from Run inside the package
//
// Rules follow same-package callees (static calls, closures, deferred calls)
// in both directions: summaries downwards, call-site inference upwards.

func init() { register("C19", checkC19) }

type c19 struct {
	c   *Ctx
	r   *Report
	p   *Prog
	e   *LockEngine
	pkg string
	fns []*ssa.Function

	inPkg      map[*ssa.Function]bool
	svid       FieldID
	ready      string // chanIdent of the readiness channel ("field:<type>.<name>")
	readyName  string
	lock       string
	run        *ssa.Function
	readyFn    *ssa.Function
	getters    []*ssa.Function
	fetchers   map[*ssa.Function]bool // return (*x509svid.SVID, error)
	fetchTouch map[*ssa.Function]bool // fetcher or (transitively) calls one
	reach      map[*ssa.Function]bool // statically reachable from Run inside the package
	underFetch map[*ssa.Function]bool // reachable from a fetcher

	closeSum    map[*ssa.Function]uint64
	closeBusy   map[*ssa.Function]bool
	closeSeen   map[*ssa.Function]bool
	undSeen     map[string]bool
	busyTargets bool
	lateInstr   map[ssa.Instruction]bool // can execute after the readiness signal (set by checkOrder)
	lateFn      map[*ssa.Function]bool
	extTargets  bool
	aliasMemo   map[string]string
	onceID      string
	seamMemo    map[string]*ssa.Function
	paramFuncs  map[*ssa.Parameter][]*ssa.Function
	dynCallee   map[ssa.CallInstruction]*ssa.Function
	undList     []string
	instrIDs    map[ssa.Instruction]int
	certIDs     map[ssa.Value]int
	waitsReady  map[*ssa.Function]bool
}

func (x *c19) undecide(format string, args ...any) {
	s := fmt.Sprintf(format, args...)
	if x.undSeen[s] {
		return
	}
	x.undSeen[s] = true
	x.undList = append(x.undList, s)
}

// flushUndecided emits the collected reasons in a deterministic order.
func (x *c19) flushUndecided() {
	sort.Strings(x.undList)
	for _, s := range x.undList {
		x.r.Undecide("%s", s)
	}
	x.undList = nil
}

func (x *c19) pos(in ssa.Instruction) string { return x.p.Pos(instrPos(in)) }

func (x *c19) name(fn *ssa.Function) string { return FuncName(x.p, fn) }

func checkC19(c *Ctx) {
	r, p := c.R, c.P
	r.Explanation = "Decides structural necessary conditions of C19 on crypto/spiffe (and, through the C18 writer rules run as C19.DIR-*, on concurrency/dir.Dir.Write). " +
		"ROLES, resolved through types and dataflow from exported anchors only (SPIFFE.Run, SPIFFE.Ready, the GetX509SVID method, x509svid.SVID, dir.Dir.Write, crypto */GenerateKey, CurrentTrustAnchors, k8s.io/utils/clock, time, sync, sync/atomic): the served-SVID field is the package's struct field of type *x509svid.SVID (or x509svid.SVID by value next to a flag), its lock the mutex held for writing where it is stored, the readiness channel the channel field Ready waits on (a channel field that only ever receives that field's value is the same channel), a fetcher a function returning (*x509svid.SVID, error) that performs the issuer call or a key generation, the issuer call the dynamic call (ctx, []byte) ([]*x509.Certificate, error), the rotation code everything statically reachable from Run inside the package. " +
		"FOLLOWING: same-package static calls, closures and deferred calls by per-function summaries or call-string frames (depth <= 8), helpers' contexts by all their visible call sites; calls of function values when every possible target is a known package function (literals and bound method values in temporaries, captured variables, parameters, named func adapter types, unexported func-typed fields assigned in the package, local literal tables); invoke calls on an unexported interface with exactly one implementing type in the package; a literal handed to a helper that calls it runs with the locks the helper holds at that call (second lockset pass with handed-over entry locksets, including locks the helper takes on a sync.Locker / *sync.(RW)Mutex parameter, resolved per call site: &mu = write side, mu.RLocker() = read side) and its closes/fetches are counted at the helper's call of the parameter; Lock/Unlock invoked on a sync.Locker local or unexported field denoting one mutex in one mode are lock operations; closes inside sync.Once.Do take effect once per Once. " +
		"(X1) no wait for readiness (receive, or select whose other cases are only context cancellation, on the readiness channel; directly, through a callee, or through a helper given the channel as a parameter) happens while holding a lock in a mode conflicting with what every close of the channel needs (held at the close, or acquired on every path to it) — the GetX509SVID/Run deadlock. " +
		"(X2) on every path through Run on which the initial fetch was started the channel is closed exactly once (closes counted through callees, callbacks, deferred calls and sync.Once); a return without close is accepted only before the fetch, on the losing side of an atomic CompareAndSwap/Swap 'already running' guard; Ready waits in one select on exactly the readiness channel and its context. " +
		"(X3) the served-SVID field is written only under the write lock and read under the lock; every value stored is result 0 of a fetcher call whose error is known nil (or the value known non-nil) at the store, followed through helper parameters to all call sites, captured variables and variable cells; GetX509SVID returns a value loaded from the field during the call (a value captured earlier is a stale source). " +
		"(X4) inside each top-level fetcher, by backward value provenance: the CSR handed to the issuer call, the PrivateKey of the SVID built and the key material in the file map of the single dir.Write (map literal, loop over a table, maps.Copy/Clone, also reached through a function value) derive from ONE key-generation call site executed in this fetch, no key material comes from a field or global; the SVID's Certificates and the file map derive from this request's result, and the file map from CurrentTrustAnchors. " +
		"(X5/X6) time values are evaluated to linear forms over {NotBefore, NotAfter, now} through helpers, parameters and loop phis: every point in time the rotation code compares the clock with or sleeps towards is (1-a)*NotBefore + a*NotAfter of ONE certificate with a <= 1/2 and no positive offset; every clock wait in the rotation code is provably <= 1 minute (constant, min(), guarded clamp, helper result, parameter at all call sites); on every path from the non-nil side of a fetch-error test (followed out of phase helpers through their returns, carrying returned constants/flags/enums into the callers' branches) the first clock wait is exactly 10 s and no fetch comes first; no time.Now/After/Sleep/NewTimer/Tick/Since/Until in the rotation code (injected clock). " +
		"(X7) every return of GetX509SVID (followed through wrappers, func adapters and helpers forwarding the pair) with a nil error carries an SVID known non-nil there (tested against nil, implied by a flag from the same helper call or by an error variable set exactly on the nil side, or the address of a copy behind a flag-field test); (nil, nil), the SVID returned exactly when nil, or the served field returned untested with no related dominating condition is a VIOLATION, other shapes UNDECIDED. " +
		"(X8) in every function reachable from Run, no store of the served SVID can follow a close of the readiness channel without a new fetch in between, unless signal and store lie in one write-lock critical section (the SVID of the initial fetch is published before, or atomically with, the readiness signal). (X9) no fetcher / issuer call that can execute after the readiness signal runs with the write lock of the served SVID held (a renewal in flight must not block GetX509SVID). In X4 the CurrentTrustAnchors read that reaches the file map is ordered after the issuer request (read before it on every path = VIOLATION, unordered = UNDECIDED), and for a map built and written in one function no entry carrying this fetch's key can reach dir.Write on a path that skips every trust-anchor entry. In X5 the path search from the error of a fetch made after readiness also reports a return out of Run (before any wait) that is not behind evidence that a context is done (body of a select case on a Done channel, non-nil side of ctx.Err()): the rotation must not end on a failed renewal. " +
		"NOT decided: the renewal law over all validity windows and failure sequences (only its constants and wiring), that the certificate used for the renewal point is the leaf of the served SVID, that GetX509SVID waits for readiness at all before reading (only that something does), the private key's cryptographic quality."
	r.Assumptions = append(r.Assumptions, "type-based lock/channel identity (named type, field)", "crypto GenerateKey functions return a fresh key on every call (crypto/rand)",
		"unexported functions of crypto/spiffe are only called from the call sites visible in the package", "a helper that is handed a function literal and calls its parameter does so synchronously, before returning",
		"the served-SVID field is nil (flag false) until the first store; variables captured by a callback are not modified concurrently while it runs")
	r.Rule("C19.X1-ready-wait", "no wait on the readiness channel under a lock that every close of it needs", 2)
	r.Rule("C19.X2-ready-once", "Run closes the readiness channel exactly once on every path that started the fetch; Ready selects on it and ctx", 3)
	r.Rule("C19.X3-svid", "SVID field guarded; stores only of successful fetch results; GetX509SVID serves it", 4)
	r.Rule("C19.X4-fresh-key", "one key generated per fetch flows to CSR, SVID.PrivateKey and key file; one dir.Write with key+chain+anchors", 3)
	r.Rule("C19.X8-publish-before-ready", "the SVID of the initial fetch is stored before readiness is signalled, or in the same write-lock section", 1)
	r.Rule("C19.X9-renewal-unlocked", "fetches made after readiness do not hold the write lock of the served SVID", 1)
	r.Rule("C19.X7-svid-or-error", "GetX509SVID never returns a nil SVID together with a nil error", 1)
	r.Rule("C19.X6-renewal-args", "every renewal point is derived from NotBefore and NotAfter of one certificate", 1)
	r.Rule("C19.X5-constants", "renewal point at or before half-life; wake-up <= 1 minute; retry 10 s; injected clock", 3)

	x := &c19{c: c, r: r, p: p, e: c.Locks(), pkg: p.ModPath + "/crypto/spiffe", fns: p.FuncsOfPkg("crypto/spiffe"),
		inPkg: map[*ssa.Function]bool{}, undSeen: map[string]bool{}, instrIDs: map[ssa.Instruction]int{}, certIDs: map[ssa.Value]int{},
		dynCallee: map[ssa.CallInstruction]*ssa.Function{}, aliasMemo: map[string]string{}, seamMemo: map[string]*ssa.Function{}, closeSum: map[*ssa.Function]uint64{}, closeBusy: map[*ssa.Function]bool{}, closeSeen: map[*ssa.Function]bool{}}
	for _, fn := range x.fns {
		x.inPkg[fn] = true
	}
	defer x.flushUndecided()
	x.handOffCallbacks()
	if !x.resolveRoles() {
		return
	}
	x.checkX1()
	x.checkX2()
	x.checkX3()
	x.checkX4()
	x.checkOrder()
	x.checkX5()
	x.checkX7()
	x.flushUndecided()

	// the file set is published by dir.Write: its crash-consistency rules (shared with C18)
	c18RunWriterAs(c, "C19.DIR-")
}

// handOffCallbacks: a function literal handed to a same-package helper that
// calls it (withLock(func(){...})) runs with the locks the helper holds at that
// call. The lockset engine gives function values an empty entry lockset, so a
// second engine is run with those entry locksets handed over.
func (x *c19) handOffCallbacks() {
	e0 := x.e
	hand := map[*ssa.Function]LS{}
	bad := map[*ssa.Function]bool{}
	for _, fn := range x.fns {
		allInstrs(fn, func(in ssa.Instruction) {
			ci, ok := in.(ssa.CallInstruction)
			if !ok {
				return
			}
			// once.Do(func(){...}): the literal runs (if at all) right here
			if call, isCall := in.(*ssa.Call); isCall && callIs(ci, "sync", "Once", "Do") && len(ci.Common().Args) == 2 {
				if mc, ok := ci.Common().Args[1].(*ssa.MakeClosure); ok && len(refs(mc)) == 1 {
					if lit, _ := mc.Fn.(*ssa.Function); lit != nil && x.inPkg[lit] {
						ls := e0.At(call)
						if old, ok := hand[lit]; ok {
							hand[lit] = meetLS(old, ls)
						} else {
							hand[lit] = ls.clone()
						}
					}
				}
				return
			}
			h := x.pkgCalleeStatic(ci)
			if h == nil {
				return
			}
			for i, a := range ci.Common().Args {
				mc, ok := a.(*ssa.MakeClosure)
				if !ok || i >= len(h.Params) {
					continue
				}
				lit, _ := mc.Fn.(*ssa.Function)
				if lit == nil || !x.inPkg[lit] || len(refs(mc)) != 1 {
					continue // only literals whose single use is this argument
				}
				if _, isCall := in.(*ssa.Call); !isCall {
					bad[lit] = true
					continue
				}
				n := 0
				allInstrs(h, func(j ssa.Instruction) {
					cj, ok := j.(ssa.CallInstruction)
					if !ok || cj.Common().IsInvoke() || cj.Common().Value != ssa.Value(h.Params[i]) {
						return
					}
					if _, isCall := j.(*ssa.Call); !isCall {
						bad[lit] = true // deferred / spawned: not at this point
						return
					}
					n++
					ls := e0.At(j).clone()
					// locks the helper takes on a lock handed in as a PARAMETER (a
					// sync.Locker or a *sync.(RW)Mutex), resolved with this call's arguments
					for k, kind := range x.paramLocksAt(h, j) {
						if k >= len(ci.Common().Args) {
							continue
						}
						if id, mode, ok := c19LockArg(ci.Common().Args[k], kind); ok {
							if ls[id] < mode {
								ls[id] = mode
							}
						}
					}
					if old, ok := hand[lit]; ok {
						hand[lit] = meetLS(old, ls)
					} else {
						hand[lit] = ls
					}
				})
				// the parameter must not travel anywhere else
				for _, rr := range refs(h.Params[i]) {
					if cj, ok := rr.(ssa.CallInstruction); !ok || cj.Common().Value != ssa.Value(h.Params[i]) {
						bad[lit] = true
					}
				}
				if n == 0 {
					bad[lit] = true
				}
			}
		})
	}
	e := newKitLockEngine(x.p)
	n := 0
	for lit, ls := range hand {
		if bad[lit] || len(ls) == 0 {
			continue
		}
		e.Handoff[FuncName(x.p, lit)] = ls
		n++
	}
	// lock operations invoked on a sync.Locker VALUE of the package (a local, a
	// field assigned from &mu or mu.RLocker()) are resolved to the mutex behind it
	for _, fn := range x.fns {
		allInstrs(fn, func(in ssa.Instruction) {
			if ci, ok := in.(ssa.CallInstruction); ok {
				if _, _, ok := x.lockerOp(ci); ok {
					n++
				}
			}
		})
	}
	if n == 0 {
		return
	}
	e.LockOpHook = x.lockerOp
	e.Run()
	x.e = e
}

// lockerOp: Lock/Unlock invoked on an interface value (sync.Locker) that
// denotes one mutex of the package in one mode: &x.mu (Lock = write lock) or
// x.mu.RLocker() (Lock = read lock), through locals and unexported fields
// whose every store agrees.
func (x *c19) lockerOp(ci ssa.CallInstruction) (string, lockOpKind, bool) {
	cc := ci.Common()
	if !cc.IsInvoke() || cc.Method == nil || ci.Parent() == nil || !x.inPkg[origin(ci.Parent())] {
		return "", 0, false
	}
	name := cc.Method.Name()
	if name != "Lock" && name != "Unlock" {
		return "", 0, false
	}
	id, mode, ok := x.lockerValue(cc.Value, 0)
	if !ok {
		return "", 0, false
	}
	switch {
	case name == "Lock" && mode == ModeW:
		return id, opLock, true
	case name == "Lock":
		return id, opRLock, true
	case mode == ModeW:
		return id, opUnlock, true
	}
	return id, opRUnlock, true
}

func (x *c19) lockerValue(v ssa.Value, depth int) (string, Mode, bool) {
	if v == nil || depth > 6 {
		return "", 0, false
	}
	agree := func(vals []ssa.Value) (string, Mode, bool) {
		id0, m0 := "", ModeNone
		for i, a := range vals {
			id, m, ok := x.lockerValue(a, depth+1)
			if !ok || (i > 0 && (id != id0 || m != m0)) {
				return "", 0, false
			}
			id0, m0 = id, m
		}
		return id0, m0, id0 != ""
	}
	switch t := v.(type) {
	case *ssa.MakeInterface, *ssa.ChangeInterface:
		return c19LockArg(v, ModeW)
	case *ssa.Call:
		return c19LockArg(v, ModeW)
	case *ssa.Phi:
		return agree(t.Edges)
	case *ssa.FreeVar:
		if b := resolveFreeVar(t); b != nil {
			return x.lockerValue(b, depth+1)
		}
	case *ssa.UnOp:
		if t.Op != token.MUL {
			return "", 0, false
		}
		if cell := cellOf(t.X); cell != nil {
			var vals []ssa.Value
			for _, st := range c19CellStores(cell) {
				vals = append(vals, st.Val)
			}
			return agree(vals)
		}
		if fa, ok := t.X.(*ssa.FieldAddr); ok {
			id := fieldIDOfAddr(fa)
			if !strings.HasPrefix(id.Type, x.pkg+".") || token.IsExported(id.Field) {
				return "", 0, false
			}
			var vals []ssa.Value
			for _, fn := range x.fns {
				allInstrs(fn, func(in ssa.Instruction) {
					if st, ok := in.(*ssa.Store); ok {
						if f2, ok := st.Addr.(*ssa.FieldAddr); ok && fieldIDOfAddr(f2) == id {
							vals = append(vals, st.Val)
						}
					}
				})
			}
			return agree(vals)
		}
	}
	return "", 0, false
}

// paramLocksAt: which lock-typed PARAMETERS of helper h are certainly held
// (by h's own Lock/RLock calls on them, not yet released) just before
// instruction at. kind: ModeW = taken with Lock, ModeR = taken with RLock.
func (x *c19) paramLocksAt(h *ssa.Function, at ssa.Instruction) map[int]Mode {
	paramOf := func(v ssa.Value) int {
		for {
			switch t := v.(type) {
			case *ssa.ChangeInterface:
				v = t.X
				continue
			case *ssa.ChangeType:
				v = t.X
				continue
			}
			break
		}
		if pa, ok := v.(*ssa.Parameter); ok && pa.Parent() == h {
			return c19ParamIndex(pa)
		}
		return -1
	}
	op := func(ci ssa.CallInstruction) (int, string) {
		cc := ci.Common()
		name := ""
		var recv ssa.Value
		if cc.IsInvoke() {
			name, recv = cc.Method.Name(), cc.Value
		} else if obj := calleeObj(ci); obj != nil && obj.Pkg() != nil && obj.Pkg().Path() == "sync" && len(cc.Args) > 0 {
			name, recv = obj.Name(), cc.Args[0]
		}
		switch name {
		case "Lock", "RLock", "Unlock", "RUnlock":
			if k := paramOf(recv); k >= 0 && k < 16 {
				return k, name
			}
		}
		return -1, ""
	}
	any := false
	allInstrs(h, func(in ssa.Instruction) {
		if ci, ok := in.(ssa.CallInstruction); ok {
			if k, _ := op(ci); k >= 0 {
				any = true
			}
		}
	})
	if !any {
		return nil
	}
	var ff *FlagFlow
	ff = &FlagFlow{Fn: h, Must: true, Transfer: func(in ssa.Instruction, st uint64) uint64 {
		ci, ok := in.(ssa.CallInstruction)
		if !ok {
			return st
		}
		if _, isDefer := in.(*ssa.Defer); isDefer && !ff.Replaying {
			return st
		}
		if _, isGo := in.(*ssa.Go); isGo {
			return st
		}
		k, name := op(ci)
		if k < 0 {
			return st
		}
		w, r := uint64(1)<<uint(2*k), uint64(1)<<uint(2*k+1)
		switch name {
		case "Lock":
			st |= w
		case "RLock":
			st |= r
		case "Unlock":
			st &^= w
		case "RUnlock":
			st &^= r
		}
		return st
	}}
	ff.Run()
	st, ok := ff.Before(at)
	if !ok {
		return nil
	}
	out := map[int]Mode{}
	for k := 0; k < 16; k++ {
		switch {
		case st&(1<<uint(2*k)) != 0:
			out[k] = ModeW
		case st&(1<<uint(2*k+1)) != 0:
			out[k] = ModeR
		}
	}
	return out
}

// c19LockArg: the mutex (and mode) an argument bound to a lock-typed parameter
// denotes: &x.mu / x.mu as sync.Locker (Lock = write lock), x.mu.RLocker()
// (Lock = read lock), a *sync.RWMutex / *sync.Mutex.
func c19LockArg(a ssa.Value, kind Mode) (string, Mode, bool) {
	for {
		switch t := a.(type) {
		case *ssa.MakeInterface:
			a = t.X
			continue
		case *ssa.ChangeInterface:
			a = t.X
			continue
		}
		break
	}
	if call, ok := a.(*ssa.Call); ok && callIs(call, "sync", "RWMutex", "RLocker") && len(call.Call.Args) == 1 {
		if id, ok := lockIdent(call.Call.Args[0]); ok {
			return id, ModeR, true
		}
		return "", 0, false
	}
	if !c19IsMutex(a.Type()) {
		return "", 0, false
	}
	if id, ok := lockIdent(a); ok {
		return id, kind, true
	}
	return "", 0, false
}

// ---------------------------------------------------------------- roles

func c19IsSVIDPtr(t types.Type) bool {
	pt, ok := t.Underlying().(*types.Pointer)
	if !ok {
		return false
	}
	return strings.HasSuffix(namedKey(pt.Elem()), "/svid/x509svid.SVID")
}

func c19IsMutex(t types.Type) bool {
	k := namedKey(t)
	return k == "sync.RWMutex" || k == "sync.Mutex"
}

// pkgCallee: the statically known same-package callee of a call/defer/go.
func (x *c19) pkgCallee(ci ssa.CallInstruction) *ssa.Function {
	if f := x.pkgCalleeStatic(ci); f != nil {
		return f
	}
	// a dynamic call with exactly one possible target (func adapter type,
	// func-typed field set once, function literal in a local)
	if f, ok := x.dynCallee[ci]; ok {
		return f
	}
	var out *ssa.Function
	if fs := x.enter(ci, nil); len(fs) == 1 {
		out = fs[0].fn // (a bound method value: the arguments are shifted by the receiver — see argsAligned)
	}
	if !x.busyTargets {
		x.dynCallee[ci] = out
	}
	return out
}

// argsAligned: argument i of the call is parameter i of pkgCallee(ci) (not so
// for calls of bound method values, whose receiver is not an argument).
func (x *c19) argsAligned(ci ssa.CallInstruction) bool {
	if x.pkgCalleeStatic(ci) != nil {
		return true
	}
	fs := x.enter(ci, nil)
	return len(fs) == 1 && fs[0].args == nil
}

func (x *c19) pkgCalleeStatic(ci ssa.CallInstruction) *ssa.Function {
	f := staticCallee(ci)
	if f == nil || !x.inPkg[f] || len(f.Blocks) == 0 {
		return nil
	}
	return f
}

// callers: the call sites of fn when they are all visible (unexported, never
// used as a value).
func (x *c19) callers(fn *ssa.Function) ([]callSite, bool) {
	if fn == nil || isExportedFunc(fn) || x.e.addrTaken[fn] {
		return nil, false
	}
	s := x.e.sites[fn]
	return s, len(s) > 0
}

func (x *c19) resolveRoles() bool {
	p, r := x.p, x.r
	pkg := p.Pkg("crypto/spiffe")
	x.run = p.Func("crypto/spiffe", "SPIFFE.Run")
	x.readyFn = p.Func("crypto/spiffe", "SPIFFE.Ready")

	// struct fields of the package by type
	var svidFields []FieldID
	var chanFields []FieldID
	scope := pkg.Types.Scope()
	names := scope.Names()
	sort.Strings(names)
	for _, n := range names {
		tn, ok := scope.Lookup(n).(*types.TypeName)
		if !ok {
			continue
		}
		st, ok := tn.Type().Underlying().(*types.Struct)
		if !ok {
			continue
		}
		for i := 0; i < st.NumFields(); i++ {
			f := st.Field(i)
			id := FieldID{x.pkg + "." + n, f.Name()}
			if c19IsSVIDPtr(f.Type()) || strings.HasSuffix(namedKey(f.Type()), "/svid/x509svid.SVID") {
				svidFields = append(svidFields, id) // a pointer, or the value kept next to a flag
			}
			if _, ok := f.Type().Underlying().(*types.Chan); ok {
				chanFields = append(chanFields, id)
			}
		}
	}

	// GetX509SVID implementations
	for _, fn := range x.fns {
		if fn.Parent() == nil && fn.Name() == "GetX509SVID" && fn.Signature.Recv() != nil {
			x.getters = append(x.getters, fn)
		}
	}
	if len(x.getters) == 0 {
		undecided("anchor method GetX509SVID no longer resolves in crypto/spiffe")
	}

	// fetchers
	x.fetchers = map[*ssa.Function]bool{}
	for _, fn := range x.fns {
		res := fn.Signature.Results()
		if res.Len() == 2 && c19IsSVIDPtr(res.At(0).Type()) && isErrorType(res.At(1).Type()) && fn.Signature.Recv() != nil && fn.Name() == "GetX509SVID" {
			continue // the consumer side
		}
		if res.Len() == 2 && c19IsSVIDPtr(res.At(0).Type()) && isErrorType(res.At(1).Type()) {
			x.fetchers[fn] = true
		}
	}
	// ... that actually fetch (issuer call / key generation inside): a reader of the served SVID with the same signature is not one
	doesFetch := x.closure(x.startsFetchDirectly)
	for fn := range x.fetchers {
		if !doesFetch[fn] {
			delete(x.fetchers, fn)
		}
	}
	x.fetchTouch = x.closure(func(fn *ssa.Function) bool { return x.fetchers[fn] || x.startsFetchDirectly(fn) })
	x.reach = x.reachableFrom(x.run)
	x.underFetch = map[*ssa.Function]bool{}
	for f := range x.fetchers {
		for g := range x.reachableFrom(f) {
			x.underFetch[g] = true
		}
	}

	// SVID field
	switch len(svidFields) {
	case 0:
		undecided("no struct field of type *x509svid.SVID in crypto/spiffe: the store of the served SVID is not recognised")
	case 1:
		x.svid = svidFields[0]
	default:
		// the one GetX509SVID serves
		var cands []FieldID
		for _, f := range svidFields {
			x.svid = f
			for _, g := range x.getters {
				if x.returnsSVIDField(g) {
					cands = append(cands, f)
					break
				}
			}
		}
		if len(cands) != 1 {
			undecided("%d struct fields of type *x509svid.SVID in crypto/spiffe and GetX509SVID does not single one out", len(svidFields))
		}
		x.svid = cands[0]
	}

	// lock: the mutex held (W) at the stores of the SVID field
	held := map[string]int{}
	nStores := 0
	for _, st := range x.svidStores() {
		nStores++
		for id, m := range x.e.At(st) {
			if m == ModeW {
				held[id]++
			}
		}
	}
	if nStores == 0 {
		r.Violation("C19.X3-svid", "crypto/spiffe stores of "+x.svid.String(), "-", "the served SVID field "+x.svid.String()+" is never stored: GetX509SVID can never serve a fetched SVID")
		return false
	}
	best, bestN := "", 0
	var ids []string
	for id := range held {
		ids = append(ids, id)
	}
	sort.Strings(ids)
	for _, id := range ids {
		if held[id] > bestN {
			best, bestN = id, held[id]
		}
	}
	if best == "" {
		// no store is under any write lock: fall back to the mutex field next to the SVID field so that the guard rule reports the accesses
		if st := structOf(p.Named("crypto/spiffe", "SPIFFE")); st != nil {
			for i := 0; i < st.NumFields(); i++ {
				if c19IsMutex(st.Field(i).Type()) {
					best = x.pkg + ".SPIFFE." + st.Field(i).Name()
					break
				}
			}
		}
		if best == "" {
			undecided("no mutex guards the stores of %s: locking scheme not recognised", x.svid)
		}
	}
	x.lock = best

	// readiness channel: the channel field Ready waits on
	want := map[string]bool{}
	for _, f := range chanFields {
		want["field:"+f.Type+"."+f.Field] = true
	}
	found := map[string]bool{}
	for _, u := range x.awaitedFrom(x.readyFn) {
		if u.field != "" && want[u.field] {
			found[u.field] = true
		}
	}
	var fl []string
	for id := range found {
		fl = append(fl, id)
	}
	sort.Strings(fl)
	switch {
	case len(fl) == 1:
		x.ready = fl[0]
	case len(fl) > 1:
		undecided("Ready waits on %d channel fields: readiness channel not singled out", len(fl))
	default:
		// Ready waits on no channel field: take the channel field that Run closes
		closed := map[string]bool{}
		for fn := range x.reach {
			for _, cs := range closeSites(fn) {
				if id, ok := x.chanField(cs.Instr.(ssa.CallInstruction).Common().Args[0], 0); ok && want[id] {
					closed[id] = true
				}
			}
		}
		if len(closed) == 1 {
			for id := range closed {
				x.ready = id
			}
		} else if len(chanFields) == 1 {
			x.ready = "field:" + chanFields[0].Type + "." + chanFields[0].Field
		} else {
			undecided("readiness channel of SPIFFE not recognised (Ready waits on no channel field; %d channel fields)", len(chanFields))
		}
	}
	x.readyName = x.ready[strings.LastIndex(x.ready, "/")+1:]
	return true
}

// closure: the set of package functions satisfying base or (transitively)
// calling, deferring or spawning one that does.
func (x *c19) closure(base func(*ssa.Function) bool) map[*ssa.Function]bool {
	m := map[*ssa.Function]bool{}
	for _, fn := range x.fns {
		if base(fn) {
			m[fn] = true
		}
	}
	for changed := true; changed; {
		changed = false
		for _, fn := range x.fns {
			if m[fn] {
				continue
			}
			allInstrs(fn, func(in ssa.Instruction) {
				if ci, ok := in.(ssa.CallInstruction); ok && !m[fn] {
					if cal := x.pkgCallee(ci); cal != nil && m[cal] {
						m[fn] = true
						changed = true
					}
				}
			})
		}
	}
	return m
}

// reachableFrom: package functions statically reachable from fn (calls,
// defers, go statements, closures created there).
func (x *c19) reachableFrom(fn *ssa.Function) map[*ssa.Function]bool {
	m := map[*ssa.Function]bool{}
	var walk func(f *ssa.Function)
	walk = func(f *ssa.Function) {
		if f == nil || m[f] || !x.inPkg[f] {
			return
		}
		m[f] = true
		allInstrs(f, func(in ssa.Instruction) {
			if ci, ok := in.(ssa.CallInstruction); ok {
				walk(x.pkgCallee(ci))
			}
			if mc, ok := in.(*ssa.MakeClosure); ok {
				if g, ok := mc.Fn.(*ssa.Function); ok {
					walk(g)
				}
			}
			// bound methods / function values of the package used as values
			for _, op := range in.Operands(nil) {
				if op == nil || *op == nil {
					continue
				}
				if g, ok := (*op).(*ssa.Function); ok {
					walk(origin(g))
				}
			}
		})
	}
	walk(fn)
	return m
}

// c19IsRequestCall: the dynamic issuer call (ctx, csr []byte) ([]*x509.Certificate, error).
func c19IsRequestCall(ci ssa.CallInstruction) bool {
	cc := ci.Common()
	if cc.IsInvoke() || staticCallee(ci) != nil {
		return false
	}
	if _, ok := cc.Value.(*ssa.Builtin); ok {
		return false
	}
	sig, ok := cc.Value.Type().Underlying().(*types.Signature)
	if !ok || sig.Params().Len() != 2 || sig.Results().Len() != 2 {
		return false
	}
	if namedKey(sig.Params().At(0).Type()) != "context.Context" {
		return false
	}
	sl, ok := sig.Params().At(1).Type().Underlying().(*types.Slice)
	if !ok || !types.Identical(sl.Elem(), types.Typ[types.Byte]) {
		return false
	}
	rs, ok := sig.Results().At(0).Type().Underlying().(*types.Slice)
	if !ok || namedKey(rs.Elem()) != "crypto/x509.Certificate" {
		return false
	}
	return isErrorType(sig.Results().At(1).Type())
}

// c19IsKeyGen: a key-generation function of the standard library (crypto/*.GenerateKey).
func c19IsKeyGen(ci ssa.CallInstruction) bool {
	obj := calleeObj(ci)
	return obj != nil && obj.Pkg() != nil && strings.HasPrefix(obj.Pkg().Path(), "crypto/") && obj.Name() == "GenerateKey"
}

// startsFetchDirectly: fn itself performs part of a fetch (issuer call or key generation).
func (x *c19) startsFetchDirectly(fn *ssa.Function) bool {
	found := false
	allInstrs(fn, func(in ssa.Instruction) {
		if ci, ok := in.(ssa.CallInstruction); ok && (c19IsRequestCall(ci) || c19IsKeyGen(ci)) {
			found = true
		}
	})
	return found
}

// chanField resolves a channel value to the struct field it was loaded from,
// through temporaries, captured variables, accessor functions and parameters
// of helpers (all call sites must agree). ok=false: not a field / not resolved.
func (x *c19) chanField(v ssa.Value, depth int) (string, bool) {
	if v == nil || depth > 6 {
		return "", false
	}
	id := chanIdent(v)
	if strings.HasPrefix(id, "field:") {
		return x.fieldAlias(id, depth), true
	}
	agree := func(vals []ssa.Value) (string, bool) {
		first := ""
		for i, a := range vals {
			id, ok := x.chanField(a, depth+1)
			if !ok {
				return "", false
			}
			if i == 0 {
				first = id
			} else if id != first {
				return "", false
			}
		}
		return first, first != ""
	}
	switch t := v.(type) {
	case *ssa.ChangeType:
		return x.chanField(t.X, depth+1)
	case *ssa.Convert:
		return x.chanField(t.X, depth+1)
	case *ssa.Phi:
		return agree(t.Edges)
	case *ssa.UnOp:
		if cell := cellOf(t.X); cell != nil {
			var vals []ssa.Value
			for _, rr := range refs(cell) {
				if st, ok := rr.(*ssa.Store); ok && st.Addr == cell {
					vals = append(vals, st.Val)
				}
			}
			return agree(vals)
		}
	case *ssa.FreeVar:
		if b := resolveFreeVar(t); b != nil {
			return x.chanField(b, depth+1)
		}
	case *ssa.Call:
		if cal := x.pkgCallee(t); cal != nil && cal.Signature.Results().Len() == 1 {
			var vals []ssa.Value
			allInstrs(cal, func(in ssa.Instruction) {
				if ret, ok := in.(*ssa.Return); ok && len(ret.Results) == 1 {
					vals = append(vals, unspill(ret.Results[0])...)
				}
			})
			return agree(vals)
		}
	case *ssa.Parameter:
		fn := t.Parent()
		sites, ok := x.callers(fn)
		if !ok {
			return "", false
		}
		idx := -1
		for i, pa := range fn.Params {
			if pa == t {
				idx = i
			}
		}
		var vals []ssa.Value
		for _, s := range sites {
			args := s.instr.Common().Args
			if idx < 0 || idx >= len(args) {
				return "", false
			}
			vals = append(vals, args[idx])
		}
		return agree(vals)
	}
	return "", false
}

// fieldAlias: a channel field of the package that only ever receives the value
// of ONE other channel field (a copy kept by another struct, e.g. the source
// handed to consumers) denotes that field's channel.
func (x *c19) fieldAlias(id string, depth int) string {
	if a, ok := x.aliasMemo[id]; ok {
		return a
	}
	if !strings.HasPrefix(id, "field:"+x.pkg+".") || depth > 4 {
		return id
	}
	x.aliasMemo[id] = id // in progress: a cycle resolves to itself
	first, ok := "", true
	for _, fn := range x.fns {
		allInstrs(fn, func(in ssa.Instruction) {
			st, isSt := in.(*ssa.Store)
			if !isSt || !ok {
				return
			}
			fa, isFA := st.Addr.(*ssa.FieldAddr)
			if !isFA {
				return
			}
			fid := fieldIDOfAddr(fa)
			if "field:"+fid.Type+"."+fid.Field != id {
				return
			}
			src, res := x.chanField(st.Val, depth+1)
			if !res || src == id {
				ok = false
				return
			}
			if first == "" {
				first = src
			} else if first != src {
				ok = false
			}
		})
	}
	out := id
	if ok && first != "" {
		out = first
	}
	x.aliasMemo[id] = out
	return out
}

func (x *c19) isReady(v ssa.Value) bool {
	id, ok := x.chanField(v, 0)
	return ok && id == x.ready
}

// unresolvedChan: v is a channel of the readiness channel's element type whose
// origin could not be resolved (so it might be the readiness channel).
func (x *c19) unresolvedChan(v ssa.Value) bool {
	if _, ok := x.chanField(v, 0); ok {
		return false
	}
	id := chanIdent(v)
	if strings.HasPrefix(id, "done:") || strings.HasPrefix(id, "timer:") || strings.HasPrefix(id, "make:") || strings.HasPrefix(id, "call:") {
		return false
	}
	ch, ok := v.Type().Underlying().(*types.Chan)
	if !ok {
		return false
	}
	st, ok := ch.Elem().Underlying().(*types.Struct)
	return ok && st.NumFields() == 0
}

// ---------------------------------------------------------------- X1

type c19Wait struct {
	fn      *ssa.Function
	instr   ssa.Instruction
	kind    string // recv | select | call
	escapes bool   // a select with a case other than readiness / context cancellation
	desc    string
}

func (x *c19) waitSites() []c19Wait {
	var out []c19Wait
	direct := map[*ssa.Function]bool{}
	for _, fn := range x.fns {
		for _, op := range blockingOps(x.e, fn) {
			switch op.Kind {
			case "recv":
				ch := op.Instr.(*ssa.UnOp).X
				if x.isReady(ch) {
					out = append(out, c19Wait{fn: fn, instr: op.Instr, kind: "recv", desc: "receives from " + x.readyName})
					direct[fn] = true
				} else if _, isParam := c19StripChan(ch).(*ssa.Parameter); !isParam && x.unresolvedChan(ch) {
					x.undecide("%s receives from a channel whose origin is not resolved (%s): it may be the readiness channel", x.name(fn), chanIdent(ch))
				}
			case "select":
				has, esc := false, false
				for _, cs := range op.Sel.Cases {
					switch {
					case x.isReady(cs.ChanV):
						has = true
					case strings.HasPrefix(cs.Chan, "done:"):
					default:
						esc = true
					}
				}
				if has {
					out = append(out, c19Wait{fn: fn, instr: op.Instr, kind: "select", escapes: esc, desc: "selects on " + x.readyName})
					direct[fn] = true
				}
			}
		}
	}
	x.waitsReady = x.closure(func(fn *ssa.Function) bool { return direct[fn] })
	// helpers that wait on a channel handed in as a parameter: waitParam[fn][i]
	// (escapes: the select has cases other than that channel / a context)
	type pw struct{ escapes bool }
	waitParam := map[*ssa.Function]map[int]pw{}
	addPW := func(fn *ssa.Function, v ssa.Value, esc bool) bool {
		pa, ok := c19StripChan(v).(*ssa.Parameter)
		if !ok || pa.Parent() != fn {
			return false
		}
		i := c19ParamIndex(pa)
		if waitParam[fn] == nil {
			waitParam[fn] = map[int]pw{}
		}
		if old, ok := waitParam[fn][i]; ok && (old.escapes || !esc) {
			return false
		}
		waitParam[fn][i] = pw{esc}
		return true
	}
	for _, fn := range x.fns {
		for _, op := range blockingOps(x.e, fn) {
			switch op.Kind {
			case "recv":
				addPW(fn, op.Instr.(*ssa.UnOp).X, false)
			case "select":
				for i, cs := range op.Sel.Cases {
					esc := false
					for j, o := range op.Sel.Cases {
						if j != i && !strings.HasPrefix(o.Chan, "done:") {
							esc = true
						}
					}
					addPW(fn, cs.ChanV, esc)
				}
			}
		}
	}
	for changed := true; changed; {
		changed = false
		for _, fn := range x.fns {
			allInstrs(fn, func(in ssa.Instruction) {
				call, ok := in.(*ssa.Call)
				if !ok {
					return
				}
				cal := x.pkgCallee(call)
				if cal == nil || !x.argsAligned(call) {
					return
				}
				for i, w := range waitParam[cal] {
					if i < len(call.Call.Args) && addPW(fn, call.Call.Args[i], w.escapes) {
						changed = true
					}
				}
			})
		}
	}
	for _, fn := range x.fns {
		allInstrs(fn, func(in ssa.Instruction) {
			call, ok := in.(*ssa.Call)
			if !ok {
				return
			}
			cal := x.pkgCallee(call)
			if cal == nil {
				return
			}
			if x.waitsReady[cal] {
				out = append(out, c19Wait{fn: fn, instr: in, kind: "call", desc: "calls " + x.name(cal) + " (waits for " + x.readyName + ")"})
				return
			}
			for i, w := range waitParam[cal] {
				if x.argsAligned(call) && i < len(call.Call.Args) && x.isReady(call.Call.Args[i]) {
					out = append(out, c19Wait{fn: fn, instr: in, kind: "call", escapes: w.escapes, desc: "hands " + x.readyName + " to " + x.name(cal) + ", which waits on it,"})
					break
				}
			}
		})
	}
	return out
}

// c19StripChan removes channel direction conversions.
func c19StripChan(v ssa.Value) ssa.Value {
	for {
		switch t := v.(type) {
		case *ssa.ChangeType:
			v = t.X
		case *ssa.Convert:
			v = t.X
		default:
			return v
		}
	}
}

// closerNeeds: the close site can only be reached by a goroutine that holds,
// or has acquired on the way, lock id in a mode conflicting with waiterMode.
func (x *c19) closerNeeds(in ssa.Instruction, id string, waiterMode Mode, depth int) bool {
	conflicts := func(m Mode) bool { return m == ModeW || (m == ModeR && waiterMode == ModeW) }
	if conflicts(x.e.At(in)[id]) {
		return true
	}
	fn := in.Parent()
	acquired := false
	allInstrs(fn, func(j ssa.Instruction) {
		call, ok := j.(*ssa.Call)
		if !ok || acquired {
			return
		}
		if lid, kind, ok := x.e.lockOp(call); ok && lid == id && (kind == opLock || (kind == opRLock && waiterMode == ModeW)) && instrDominates(call, in) {
			acquired = true
		}
	})
	if acquired {
		return true
	}
	if depth > 4 {
		return false
	}
	sites, ok := x.callers(fn)
	if !ok {
		return false
	}
	for _, s := range sites {
		if _, isGo := s.instr.(*ssa.Go); isGo {
			return false
		}
		if !x.closerNeeds(s.instr, id, waiterMode, depth+1) {
			return false
		}
	}
	return true
}

func (x *c19) readyCloseSites() []BlockingOp {
	var out []BlockingOp
	for _, fn := range x.fns {
		for _, cs := range closeSites(fn) {
			arg := cs.Instr.(ssa.CallInstruction).Common().Args[0]
			if x.isReady(arg) {
				out = append(out, cs)
			} else if x.unresolvedChan(arg) {
				x.undecide("%s closes a channel whose origin is not resolved (%s): it may be the readiness channel", x.name(fn), chanIdent(arg))
			}
		}
	}
	return out
}

func (x *c19) checkX1() {
	r := x.r
	closers := x.readyCloseSites()
	sites := x.waitSites()
	for _, w := range sites {
		construct := x.name(w.fn) + " waits for " + x.readyName
		if w.kind == "call" {
			construct = x.name(w.fn) + " waits for " + x.readyName + " through " + x.name(x.pkgCallee(w.instr.(*ssa.Call)))
		}
		ls := x.e.At(w.instr)
		bad := ""
		var locks []string
		for lock := range ls {
			locks = append(locks, lock)
		}
		sort.Strings(locks)
		for _, lock := range locks {
			mode := ls[lock]
			all := len(closers) > 0
			for _, u := range closers {
				if !x.closerNeeds(u.Instr, lock, mode, 0) {
					all = false
				}
			}
			if all && !w.escapes {
				bad = w.desc + " holding " + shortID(lock) + "(" + mode.String() + ") while every close(" + x.readyName + ") needs that lock: a consumer that gets the lock before Run blocks Run — and itself — forever"
			}
		}
		r.Check(bad == "", "C19.X1-ready-wait", construct, x.pos(w.instr), "readiness is awaited without a lock that its signaller needs (held: "+ls.String()+")", bad)
	}
	if len(sites) == 0 {
		r.Violation("C19.X1-ready-wait", "crypto/spiffe waits for "+x.readyName, "-", "nothing waits for readiness any more: GetX509SVID/Ready would not block until the initial fetch finished")
	}
}

// ---------------------------------------------------------------- X2

// abstract state of the close-count flow: c = closes so far (0,1,2+),
// p = registered deferred closes (0,1,2+), f = the fetch has been started,
// o = the sync.Once guarding the close has fired.
const c19NStates = 36

func c19St(c, p, f int) int { return c + 3*p + 9*f }

func c19StO(c, p, f, o int) int { return c + 3*p + 9*f + 18*o }

func c19Un(s int) (c, p, f int) { return s % 3, (s / 3) % 3, (s / 9) % 2 }

func c19Once(s int) int { return s / 18 }

func c19Sat2(n int) int {
	if n > 2 {
		return 2
	}
	return n
}

// summary bits: (dc, df, do) -> bit dc + 3*df + 6*do; do = the closes happen
// inside a sync.Once (they only take effect while the Once has not fired)
func c19ApplySum(st uint64, sum uint64) uint64 {
	var out uint64
	for s := 0; s < c19NStates; s++ {
		if st&(1<<uint(s)) == 0 {
			continue
		}
		c, p, f := c19Un(s)
		o := c19Once(s)
		for d := 0; d < 12; d++ {
			if sum&(1<<uint(d)) == 0 {
				continue
			}
			dc, df, do := d%3, (d/3)%2, d/6
			nc, no := c19Sat2(c+dc), o
			if do == 1 {
				if o == 1 {
					nc = c
				}
				no = 1
			}
			out |= 1 << uint(c19StO(nc, p, f|df, no))
		}
	}
	return out
}

// callCloseSum: the (closes, fetch started) effects a call instruction can have.
func (x *c19) callCloseSum(ci ssa.CallInstruction) uint64 {
	if builtinName(ci) == "close" && len(ci.Common().Args) == 1 {
		if x.isReady(ci.Common().Args[0]) {
			return 1 << 1
		}
		return 1 << 0
	}
	if c19IsRequestCall(ci) || c19IsKeyGen(ci) {
		return 1 << 3
	}
	// once.Do(f): f's closes take effect only the first time this Once is used
	if callIs(ci, "sync", "Once", "Do") && len(ci.Common().Args) == 2 {
		ts, ok := x.funcTargets(ci.Common().Args[1], nil, 0)
		if !ok {
			return 1 << 0 // an unresolved function value: its closes, if any, are reported as not followed
		}
		var sum uint64
		for _, t := range ts {
			sum |= x.closeSummary(t.fn)
		}
		if sum == 0 {
			return 1 << 0
		}
		if sum&^(1<<0|1<<3) == 0 {
			return sum
		}
		id, _ := lockIdent(ci.Common().Args[0])
		if x.onceID == "" {
			x.onceID = id
		} else if x.onceID != id || id == "" {
			x.undecide("closes of %s are guarded by more than one sync.Once: not modelled", x.readyName)
		}
		var out uint64
		for d := 0; d < 6; d++ {
			if sum&(1<<uint(d)) != 0 {
				if d%3 > 0 {
					out |= 1 << uint(d+6)
				} else {
					out |= 1 << uint(d)
				}
			}
		}
		return out
	}
	// a call of a function-typed parameter whose targets are bound by the summary being computed
	if pa, ok := ci.Common().Value.(*ssa.Parameter); ok && !ci.Common().IsInvoke() {
		if ts, ok := x.paramFuncs[pa]; ok {
			var sum uint64
			for _, t := range ts {
				sum |= x.closeSummary(t)
			}
			return sum
		}
	}
	if cal := x.pkgCallee(ci); cal != nil {
		// callbacks: function values handed to the callee are bound to its parameters
		binds := map[*ssa.Parameter][]*ssa.Function{}
		args := ci.Common().Args
		for i, a := range args {
			if !x.argsAligned(ci) {
				break
			}
			if _, isSig := a.Type().Underlying().(*types.Signature); !isSig || i >= len(cal.Params) {
				continue
			}
			if ts, ok := x.funcTargets(a, nil, 0); ok {
				for _, t := range ts {
					binds[cal.Params[i]] = append(binds[cal.Params[i]], t.fn)
				}
			}
		}
		if len(binds) > 0 {
			saved := x.paramFuncs
			x.paramFuncs = map[*ssa.Parameter][]*ssa.Function{}
			for k, v := range saved {
				x.paramFuncs[k] = v
			}
			for k, v := range binds {
				x.paramFuncs[k] = v
			}
			savedSum, had := x.closeSum[cal]
			delete(x.closeSum, cal)
			sum := x.closeSummary(cal)
			if had {
				x.closeSum[cal] = savedSum
			} else {
				delete(x.closeSum, cal)
			}
			x.paramFuncs = saved
			return sum
		}
		return x.closeSummary(cal)
	}
	// any other dynamic call whose targets are known
	if fs := x.enter(ci, nil); len(fs) > 0 {
		var sum uint64
		for _, f := range fs {
			sum |= x.closeSummary(f.fn)
		}
		return sum
	}
	return 1 << 0
}

func (x *c19) closeSummary(fn *ssa.Function) uint64 {
	if s, ok := x.closeSum[fn]; ok {
		return s
	}
	if x.closeBusy[fn] {
		x.undecide("%s is recursive: closes of %s on its paths are not counted", x.name(fn), x.readyName)
		return 1 << 0
	}
	x.closeBusy[fn] = true
	defer func() { x.closeBusy[fn] = false }()
	x.closeSeen[fn] = true
	var sum uint64
	nret := 0
	ff := x.closeFlow(fn)
	ff.AtReturns(func(ret *ssa.Return, st uint64) {
		nret++
		for s := 0; s < c19NStates; s++ {
			if st&(1<<uint(s)) != 0 {
				c, _, f := c19Un(s)
				if x.fetchers[fn] {
					f = 1
				}
				sum |= 1 << uint(c+3*f+6*c19Once(s))
			}
		}
	})
	if nret == 0 {
		sum = 1 << 0 // never returns normally
	}
	x.closeSum[fn] = sum
	return sum
}

func (x *c19) closeFlow(fn *ssa.Function) *FlagFlow {
	var deferSum uint64
	var ff *FlagFlow
	ff = &FlagFlow{Fn: fn, Must: false, Entry: 1 << uint(c19St(0, 0, 0)), Transfer: func(in ssa.Instruction, st uint64) uint64 {
		switch t := in.(type) {
		case *ssa.Defer:
			if ff.Replaying {
				return st
			}
			sum := x.callCloseSum(t)
			if sum == 1<<0 {
				return st
			}
			if deferSum != 0 && deferSum != sum {
				x.undecide("%s defers several different calls that close %s / fetch: not modelled", x.name(fn), x.readyName)
			}
			deferSum = sum
			return mapStates(st, func(s int) int { c, p, f := c19Un(s); return c19StO(c, c19Sat2(p+1), f, c19Once(s)) })
		case *ssa.RunDefers:
			var out uint64
			for s := 0; s < c19NStates; s++ {
				if st&(1<<uint(s)) == 0 {
					continue
				}
				c, p, f := c19Un(s)
				cur := uint64(1) << uint(c19StO(c, 0, f, c19Once(s)))
				for i := 0; i < p; i++ {
					cur = c19ApplySum(cur, deferSum)
				}
				out |= cur
			}
			return out
		case *ssa.Go:
			if cal := x.pkgCallee(t); cal != nil {
				if s := x.closeSummary(cal); s&^(1<<0|1<<3) != 0 {
					x.undecide("%s closes %s in a goroutine started by %s: the order of closes is not decided", x.name(cal), x.readyName, x.name(fn))
				}
			}
			return st
		case *ssa.Call:
			sum := x.callCloseSum(t)
			if sum == 1<<0 {
				return st
			}
			return c19ApplySum(st, sum)
		}
		return st
	}}
	ff.Run()
	return ff
}

// onceGuard: block b is dominated by an edge of a test of an atomic
// compare-and-swap / swap. won tells which side (known only for direct tests).
func (x *c19) onceGuard(b *ssa.BasicBlock) (found, won, known bool) {
	for _, dc := range domConds(b) {
		call, val, ok := boolCallCond(dc.If.Cond, dc.Branch)
		if !ok {
			continue
		}
		obj := calleeObj(call)
		if obj == nil {
			continue
		}
		if obj.Pkg() != nil && obj.Pkg().Path() == "sync/atomic" {
			switch {
			case strings.HasPrefix(obj.Name(), "CompareAndSwap"):
				return true, val, true
			case strings.HasPrefix(obj.Name(), "Swap"):
				return true, !val, true // Swap(true) returns the old value: false = this caller won
			}
		}
		// a same-package helper whose result is such a test
		if cal := x.pkgCallee(call); cal != nil {
			isGuard := false
			allInstrs(cal, func(in ssa.Instruction) {
				if c2, ok := in.(*ssa.Call); ok {
					if o := calleeObj(c2); o != nil && o.Pkg() != nil && o.Pkg().Path() == "sync/atomic" && (strings.HasPrefix(o.Name(), "CompareAndSwap") || strings.HasPrefix(o.Name(), "Swap")) {
						isGuard = true
					}
				}
			})
			if isGuard {
				return true, false, false
			}
		}
	}
	return false, false, false
}

func (x *c19) checkX2() {
	r, p := x.r, x.p
	run := x.run
	ff := x.closeFlow(run)
	x.closeSeen[run] = true
	var bad, und []string
	nret, nGood := 0, 0
	uncounted := ""
	for _, cs := range x.readyCloseSites() {
		if !x.closeSeen[cs.Instr.Parent()] {
			uncounted = x.name(cs.Instr.Parent())
		}
	}
	ff.AtReturns(func(ret *ssa.Return, st uint64) {
		nret++
		found, won, known := x.onceGuard(ret.Block())
		for s := 0; s < c19NStates; s++ {
			if st&(1<<uint(s)) == 0 {
				continue
			}
			c, _, f := c19Un(s)
			at := p.Pos(instrPos(ret))
			switch {
			case c == 2:
				bad = append(bad, "a path through Run returning at "+at+" closes "+x.readyName+" more than once (the second close panics)")
			case c == 0 && f == 1 && uncounted != "":
				und = append(und, "Run returns at "+at+" without a counted close of "+x.readyName+", but "+uncounted+" closes it outside the statically followed calls")
			case c == 0 && f == 1:
				bad = append(bad, "a path through Run returns at "+at+" after the initial fetch was started without closing "+x.readyName+" (must be closed exactly once: otherwise Ready/GetX509SVID stay blocked forever)")
			case c == 0 && f == 0:
				if !found {
					und = append(und, "Run returns at "+at+" before fetching and without closing "+x.readyName+", not behind an atomic compare-and-swap guard: 'already running' path not recognised")
				} else if known && won {
					bad = append(bad, "the caller that won the 'running' guard returns at "+at+" without fetching and without closing "+x.readyName)
				}
			case c == 1:
				if found && known && !won {
					bad = append(bad, "the 'already running' path returning at "+at+" closes "+x.readyName+" (a second Run panics on the closed channel)")
				} else if f == 1 {
					nGood++
				}
			}
		}
	})
	// every close of the channel must have been counted
	for _, cs := range x.readyCloseSites() {
		if !x.closeSeen[cs.Instr.Parent()] {
			x.undecide("%s closes %s but is not on a statically followed call path from Run: the closes on Run's paths are not counted", x.name(cs.Instr.Parent()), x.readyName)
		}
	}
	for _, u := range und {
		x.undecide("%s", u)
	}
	sort.Strings(bad)
	why := strings.Join(bad, "; ")
	if len(bad) == 0 && nGood == 0 {
		if len(und) == 0 && nret > 0 {
			why = "no path through Run fetches the initial identity and then closes " + x.readyName
			bad = append(bad, why)
		}
	}
	r.Check(len(bad) == 0, "C19.X2-ready-once", "crypto/spiffe.SPIFFE.Run closes "+x.readyName, p.Pos(run.Pos()), x.readyName+" closed exactly once on every path that started the initial fetch (closes counted through callees and deferred calls)", why)
	r.OK("C19.X2-ready-once", "crypto/spiffe.SPIFFE.Run returns", p.Pos(run.Pos()), fmt.Sprintf("%d return paths examined", nret))

	// Ready: a select on {readiness, ctx.Done()} in Ready or a callee
	okR, sawWait, unres, other := false, false, false, ""
	bySel := map[int][]c19ChanUse{}
	var order []int
	for _, u := range x.awaitedFrom(x.readyFn) {
		if _, ok := bySel[u.sel]; !ok {
			order = append(order, u.sel)
		}
		bySel[u.sel] = append(bySel[u.sel], u)
	}
	for _, k := range order {
		us := bySel[k]
		hasR, hasC, extra := false, false, false
		for _, u := range us {
			switch {
			case u.field == x.ready:
				hasR = true
			case u.done:
				hasC = true
			default:
				extra = true
				if u.unres {
					unres = true
				}
			}
		}
		if !hasR {
			continue
		}
		sawWait = true
		switch {
		case hasC && !extra:
			okR = true
		case len(us) == 1:
			other = "plain receive (the caller's context is ignored)"
		default:
			other = "select with other cases"
		}
	}
	msg := "Ready no longer waits exactly on {" + x.readyName + ", ctx.Done()}"
	if sawWait && !okR {
		msg += " (" + other + ")"
	}
	if !okR && !sawWait && unres {
		r.OK("C19.X2-ready-once", "crypto/spiffe.SPIFFE.Ready", p.Pos(x.readyFn.Pos()), "Ready examined")
		x.undecide("Ready waits on a channel whose origin is not resolved: whether it is %s is not decided", x.readyName)
	} else {
		r.Check(okR, "C19.X2-ready-once", "crypto/spiffe.SPIFFE.Ready", p.Pos(x.readyFn.Pos()), "Ready waits on "+x.readyName+" or the caller's context", msg)
	}
}

// ---------------------------------------------------------------- X3

func (x *c19) svidStores() []*ssa.Store {
	var out []*ssa.Store
	for _, fn := range x.fns {
		allInstrs(fn, func(in ssa.Instruction) {
			st, ok := in.(*ssa.Store)
			if !ok {
				return
			}
			fa, ok := st.Addr.(*ssa.FieldAddr)
			if !ok || fieldIDOfAddr(fa) != x.svid || isFreshBase(fa.X) {
				return
			}
			out = append(out, st)
		})
	}
	return out
}

// c19InCell: v is stored into a local variable cell (named result / captured variable).
func c19InCell(v ssa.Value) bool {
	for _, rr := range refs(v) {
		if st, ok := rr.(*ssa.Store); ok && st.Val == v && c19IsCell(st.Addr) {
			return true
		}
	}
	return false
}

// c19IsCell: a local variable cell, or a captured variable of a closure.
func c19IsCell(addr ssa.Value) bool {
	switch addr.(type) {
	case *ssa.Alloc, *ssa.FreeVar:
		return true
	}
	return false
}

// c19ErrKnown: at block b the error value errv is known nil (wantNil) or
// non-nil, also when it travels through a variable cell: the test loads the
// cell, errv's store dominates that load and no other store of the cell can
// execute in between (stores by deferred closures run at function exit).
func c19ErrKnown(b *ssa.BasicBlock, errv ssa.Value, wantNil bool) bool {
	if (wantNil && errKnownNil(b, errv)) || (!wantNil && errKnownNonNil(b, errv)) {
		return true
	}
	wantOp := token.NEQ
	if wantNil {
		wantOp = token.EQL
	}
	after := func(a, c ssa.Instruction) bool { // c can execute after a
		if a.Block() == c.Block() && instrIndex(a) < instrIndex(c) {
			return true
		}
		for _, s := range a.Block().Succs {
			if reachableFrom(s, nil)[c.Block()] {
				return true
			}
		}
		return false
	}
	for _, rr := range refs(errv) {
		st, ok := rr.(*ssa.Store)
		if !ok || st.Val != errv {
			continue
		}
		cell := st.Addr
		if !c19IsCell(cell) {
			continue
		}
		for _, dc := range domConds(b) {
			cmp, ok := decodeCond(dc.If.Cond, dc.Branch)
			if !ok || cmp.Op != wantOp {
				continue
			}
			var o ssa.Value
			switch {
			case isNilConst(cmp.Y):
				o = cmp.X
			case isNilConst(cmp.X):
				o = cmp.Y
			default:
				continue
			}
			ld, ok := o.(*ssa.UnOp)
			if !ok || ld.Op != token.MUL || ld.X != cell || !instrDominates(st, ld) {
				continue
			}
			clean := true
			for _, r2 := range refs(cell) {
				s2, ok := r2.(*ssa.Store)
				if !ok || s2 == st || s2.Addr != cell {
					continue
				}
				if after(st, s2) && after(s2, ld) {
					clean = false
				}
			}
			if clean {
				return true
			}
		}
	}
	return false
}

func c19ValKnownNonNil(b *ssa.BasicBlock, v ssa.Value) bool {
	return errKnownNonNil(b, v)
}

// goodSVID: v (used in block at) is the first result of a fetcher call that is
// known to have succeeded. Returns ok, or a reason; definite=false when the
// provenance could not be followed (UNDECIDED rather than VIOLATION).
func (x *c19) goodSVID(v ssa.Value, at *ssa.BasicBlock, depth int, seen map[ssa.Value]bool) (ok bool, definite bool, why string) {
	if depth > 6 {
		return false, false, "provenance too deep"
	}
	if _, isPhi := v.(*ssa.Phi); isPhi {
		if seen[v] {
			return true, true, "" // a cycle through a loop variable: decided by the other edges
		}
		seen[v] = true
		defer func() {
			if !ok {
				delete(seen, v)
			}
		}()
	}
	switch t := v.(type) {
	case *ssa.Const:
		if t.IsNil() {
			return false, true, "nil is stored"
		}
	case *ssa.Extract:
		call, isCall := t.Tuple.(*ssa.Call)
		if !isCall {
			break
		}
		cal := x.pkgCallee(call)
		if cal == nil || !x.fetchers[cal] || t.Index != 0 {
			break
		}
		errv := callResult(call, 1)
		if errv != nil && c19ErrKnown(at, errv, true) {
			return true, true, ""
		}
		if c19ValKnownNonNil(at, v) && x.fetcherNilOnError(cal) {
			return true, true, ""
		}
		if errv != nil && c19InCell(errv) {
			return false, false, "the error of " + x.name(cal) + " is kept in a variable cell that is written at several places: its value at the store is not followed"
		}
		return false, true, "the result of " + x.name(cal) + " is stored without its error being known nil"
	case *ssa.Phi:
		for i, e := range t.Edges {
			blk := at
			if i < len(t.Block().Preds) {
				blk = t.Block().Preds[i]
			}
			// facts established after the phi (at the store) also hold
			if ok, _, _ := x.goodSVID(e, at, depth+1, seen); ok {
				continue
			}
			if ok, def, why := x.goodSVID(e, blk, depth+1, seen); !ok {
				return false, def, why
			}
		}
		return true, true, ""
	case *ssa.ChangeType:
		return x.goodSVID(t.X, at, depth+1, seen)
	case *ssa.UnOp:
		if cell, isCell := t.X.(*ssa.Alloc); isCell {
			n := 0
			for _, rr := range refs(cell) {
				if st, isSt := rr.(*ssa.Store); isSt && st.Addr == cell {
					n++
					if ok, _, _ := x.goodSVID(st.Val, at, depth+1, seen); ok {
						continue
					}
					if ok, def, why := x.goodSVID(st.Val, st.Block(), depth+1, seen); !ok {
						return false, def, why
					}
				}
			}
			if n > 0 {
				return true, true, ""
			}
		}
		if _, isNamed := types.Unalias(t.Type()).(*types.Named); isNamed && t.Op == token.MUL && c19IsSVIDPtr(t.X.Type()) {
			// the SVID copied by value out of the pointer a fetch returned
			return x.goodSVID(t.X, at, depth+1, seen)
		}
		if fv, isFV := t.X.(*ssa.FreeVar); isFV && t.Op == token.MUL {
			// a captured variable: the closure must be a literal that runs where it is
			// written (called directly or handed to a helper as a call argument), so
			// that the facts at its creation hold when it runs
			clo := fv.Parent()
			var mc *ssa.MakeClosure
			if par := clo.Parent(); par != nil {
				allInstrs(par, func(in ssa.Instruction) {
					if m, ok := in.(*ssa.MakeClosure); ok && m.Fn == ssa.Value(clo) {
						mc = m
					}
				})
			}
			cell, _ := resolveFreeVar(fv).(*ssa.Alloc)
			if mc == nil || cell == nil {
				return false, false, "captured variable " + fv.Name() + " not resolved"
			}
			for _, rr := range refs(mc) {
				if _, isCall := rr.(*ssa.Call); !isCall {
					return false, false, "the closure storing the SVID is not simply called where it is written"
				}
			}
			n := 0
			for _, rr := range refs(cell) {
				if st, isSt := rr.(*ssa.Store); isSt && st.Addr == ssa.Value(cell) {
					n++
					if ok, def, why := x.goodSVID(st.Val, mc.Block(), depth+1, seen); !ok {
						return false, def, why
					}
				}
			}
			for _, rr := range refs(fv) {
				if st, isSt := rr.(*ssa.Store); isSt && st.Addr == ssa.Value(fv) {
					n++
					if ok, def, why := x.goodSVID(st.Val, at, depth+1, seen); !ok {
						return false, def, why
					}
				}
			}
			if n > 0 {
				return true, true, ""
			}
		}
		if id, _, isField := fieldOfValue(t); isField {
			return false, false, "a value loaded from " + id.String() + " is stored"
		}
	case *ssa.Parameter:
		fn := t.Parent()
		sites, complete := x.callers(fn)
		if !complete {
			return false, false, "parameter " + t.Name() + " of " + x.name(fn) + " (callers not all visible)"
		}
		idx := -1
		for i, pa := range fn.Params {
			if pa == t {
				idx = i
			}
		}
		for _, s := range sites {
			args := s.instr.Common().Args
			if idx < 0 || idx >= len(args) {
				return false, false, "call site of " + x.name(fn) + " not understood"
			}
			if _, isCall := s.instr.(*ssa.Call); !isCall {
				return false, false, x.name(fn) + " is deferred or spawned: the facts at its execution are not those of the call site"
			}
			if ok, def, why := x.goodSVID(args[idx], s.instr.Block(), depth+1, map[ssa.Value]bool{}); !ok {
				return false, def, why + " (argument of " + x.name(fn) + " at " + x.pos(s.instr) + ")"
			}
		}
		return true, true, ""
	}
	return false, false, "a value of unrecognised provenance (" + v.String() + ") is stored"
}

// fetcherNilOnError: every return of the fetcher with a possibly non-nil error
// returns a nil SVID (so a non-nil SVID implies success).
func (x *c19) fetcherNilOnError(fn *ssa.Function) bool {
	ok := true
	allInstrs(fn, func(in ssa.Instruction) {
		ret, isRet := in.(*ssa.Return)
		if !isRet || len(ret.Results) != 2 {
			return
		}
		for _, e := range unspill(ret.Results[1]) {
			if isNilConst(e) {
				continue
			}
			for _, v := range unspill(ret.Results[0]) {
				if !isNilConst(v) {
					ok = false
				}
			}
		}
	})
	return ok
}

// returnsSVIDField: some return of fn yields a value loaded from the SVID
// field (directly, through the result spill of deferred functions, a phi, or
// a same-package helper returning it).
func (x *c19) returnsSVIDField(fn *ssa.Function) bool {
	var fromField func(v ssa.Value, depth int) bool
	fromField = func(v ssa.Value, depth int) bool {
		if depth > 5 {
			return false
		}
		for _, u := range unspill(v) {
			if id, _, ok := fieldOfValue(u); ok && id == x.svid {
				return true
			}
			switch t := u.(type) {
			case *ssa.Phi:
				for _, e := range t.Edges {
					if fromField(e, depth+1) {
						return true
					}
				}
			case *ssa.ChangeType:
				if fromField(t.X, depth+1) {
					return true
				}
			case *ssa.UnOp:
				if _, isCell := t.X.(*ssa.Alloc); isCell && u != v {
					if fromField(u, depth+1) {
						return true
					}
				}
			case *ssa.Extract:
				if call, ok := t.Tuple.(*ssa.Call); ok {
					if cal := x.pkgCallee(call); cal != nil {
						found := false
						allInstrs(cal, func(in ssa.Instruction) {
							if ret, ok := in.(*ssa.Return); ok && t.Index < len(ret.Results) && fromField(ret.Results[t.Index], depth+1) {
								found = true
							}
						})
						if found {
							return true
						}
					}
				}
			case *ssa.Call:
				if cal := x.pkgCallee(t); cal != nil && cal.Signature.Results().Len() == 1 {
					found := false
					allInstrs(cal, func(in ssa.Instruction) {
						if ret, ok := in.(*ssa.Return); ok && len(ret.Results) == 1 && fromField(ret.Results[0], depth+1) {
							found = true
						}
					})
					if found {
						return true
					}
				}
			}
		}
		return false
	}
	found := false
	allInstrs(fn, func(in ssa.Instruction) {
		if ret, ok := in.(*ssa.Return); ok && len(ret.Results) == 2 && fromField(ret.Results[0], 0) {
			found = true
		}
	})
	return found
}

func (x *c19) checkX3() {
	r, p := x.r, x.p
	CheckGuardedBy(p, x.e, r, "C19.X3-svid", []GuardSpec{{Field: x.svid, Lock: x.lock}})
	perFn := map[*ssa.Function]int{}
	for _, st := range x.svidStores() {
		fn := st.Parent()
		perFn[fn]++
		construct := x.name(fn) + " stores " + x.svid.Field
		if perFn[fn] > 1 {
			construct += fmt.Sprintf(" #%d", perFn[fn])
		}
		ok, def, why := x.goodSVID(st.Val, st.Block(), 0, map[ssa.Value]bool{})
		switch {
		case ok:
			r.OK("C19.X3-svid", construct, x.pos(st), "stores the SVID of a fetch whose error was checked nil")
		case def:
			r.Violation("C19.X3-svid", construct, x.pos(st), x.svid.Field+" is overwritten with something other than the result of a successful fetch ("+why+"): a failed renewal must not disturb the served SVID")
		default:
			r.OK("C19.X3-svid", construct, x.pos(st), "store examined")
			x.undecide("%s at %s: %s — whether only successful fetch results are served is not decided", construct, x.pos(st), why)
		}
	}
	for _, gx := range x.getters {
		serves, unknown, stale := x.returnsSVIDField(gx), "", ""
		if !serves {
			// the functions that run during a GetX509SVID call
			extent := map[*ssa.Function]bool{gx: true}
			x.explore(gx, nil, func(in ssa.Instruction, _ *c19Frame) { extent[in.Parent()] = true })
			allInstrs(gx, func(in ssa.Instruction) {
				ret, ok := in.(*ssa.Return)
				if !ok || len(ret.Results) != 2 {
					return
				}
				for _, u := range unspill(ret.Results[0]) {
					for _, o := range x.origins(u, nil) {
						switch {
						case o.kind == "field" && o.fid == x.svid:
							if ld, ok := o.v.(ssa.Instruction); ok && !extent[ld.Parent()] {
								stale = x.name(ld.Parent())
							} else {
								serves = true
							}
						case o.kind == "alloc" && !c19IsSVIDPtr(o.v.Type()):
							unknown = "variable " + o.v.Name()
						case o.kind == "alloc":
							// a copy of the value kept in the field
							for _, rr := range refs(o.v) {
								st, ok := rr.(*ssa.Store)
								if !ok || st.Addr != o.v {
									continue
								}
								for _, o2 := range x.origins(st.Val, o.fr) {
									if o2.kind == "field" && o2.fid == x.svid {
										if ld, ok := o2.v.(ssa.Instruction); ok && !extent[ld.Parent()] {
											stale = x.name(ld.Parent())
										} else {
											serves = true
										}
									}
								}
							}
						case o.kind == "nil" || o.kind == "alloc" || o.kind == "const" || o.kind == "field" || o.kind == "global":
						default:
							unknown = o.kind + " " + o.desc
						}
					}
				}
			})
		}
		if !serves && stale != "" {
			r.Violation("C19.X3-svid", x.name(gx)+" returns", p.Pos(gx.Pos()), "GetX509SVID returns an SVID that was read from "+x.svid.String()+" by "+stale+", not during the call: it keeps serving the identity that was current then instead of the most recently fetched one")
			continue
		}
		if !serves && unknown != "" {
			r.OK("C19.X3-svid", x.name(gx)+" returns", p.Pos(gx.Pos()), "returns examined")
			x.undecide("%s returns a value of unresolved provenance (%s): whether it serves %s is not decided", x.name(gx), unknown, x.svid)
			continue
		}
		r.Check(serves, "C19.X3-svid", x.name(gx)+" returns", p.Pos(gx.Pos()), "returns "+x.svid.String(), "GetX509SVID no longer returns the current SVID read from "+x.svid.String())
	}
}

// c18RunWriterAs runs the dir.Write rules of C18 under another property's rule prefix.
func c18RunWriterAs(c *Ctx, prefix string) {
	r, p := c.R, c.P
	R := c18RuleSet(prefix)
	r.Rule(R.Order, "dir.Write: one rename over target fed by this call's symlink; every step checked; version dir untouched after publish", 5)
	r.Rule(R.Complete, "dir.Write: every map entry written to join(version,key); rename only after the loop", 2)
	r.Rule(R.NilRet, "dir.Write: return nil only after the rename succeeded", 1)
	r.Rule(R.Prev, "dir.Write: RemoveAll(*prev) after successful rename and before prev is overwritten", 4)
	r.Rule(R.Paths, "dir.Write: every mutated path classified", 6)
	r.Rule(R.Fresh, "dir.Write: version directory name unique per call", 1)
	r.Rule(R.Leftover, "dir.Write: creation on a call-invariant path preceded by its removal", 1)
	write := p.Func("concurrency/dir", "Dir.Write")
	tkey := p.ModPath + "/concurrency/dir.Dir"
	fid := func(f string) string { return FieldID{tkey, f}.String() }
	// The field names below are only hints: c18CheckWriter resolves Dir's fields by ROLE (c18ResolveRoles:
	// construction-time path fields through what the constructor stores, the previous-version field by
	// type / who stores it) and follows Write's helpers, closures and seams (c18_graph.go), so renamed,
	// regrouped or re-typed unexported fields and extracted helpers in dir.go do not disturb C19.DIR-*.
	cfg := &c18Cfg{Target: fid("target"), Prev: fid("prev"), Base: fid("base"), TargetDir: fid("targetDir"),
		Frozen: map[string]bool{fid("target"): true, fid("base"): true, fid("targetDir"): true}, Rules: R}
	c18CheckWriter(p, r, write, FuncName(p, write), cfg)
}

// ---------------------------------------------------------------- X7

// c19RetValue: the value result i of ret has on the path through ret's block
// (functions with defers spill results into slots and reload them).
func c19RetValue(ret *ssa.Return, i int) ssa.Value {
	v := ret.Results[i]
	ld, ok := v.(*ssa.UnOp)
	if !ok || ld.Op != token.MUL {
		return v
	}
	slot, ok := ld.X.(*ssa.Alloc)
	if !ok {
		return v
	}
	// the store of this return statement: the last one in a dominating chain of blocks
	for b := ret.Block(); b != nil; b = b.Idom() {
		for j := len(b.Instrs) - 1; j >= 0; j-- {
			if st, ok := b.Instrs[j].(*ssa.Store); ok && st.Addr == ssa.Value(slot) {
				return st.Val
			}
		}
		if len(b.Preds) != 1 {
			break
		}
	}
	if vals := unspill(v); len(vals) == 1 {
		return vals[0]
	}
	return v
}

// sameSource: a and b denote the same variable: the same SSA value, loads of
// the same local cell / captured variable, or loads of the same struct field.
func c19SameSource(a, b ssa.Value) bool {
	if a == b {
		return true
	}
	la, ok1 := a.(*ssa.UnOp)
	lb, ok2 := b.(*ssa.UnOp)
	if !ok1 || !ok2 || la.Op != token.MUL || lb.Op != token.MUL {
		return false
	}
	if la.X == lb.X {
		return true
	}
	fa, ok1 := la.X.(*ssa.FieldAddr)
	fb, ok2 := lb.X.(*ssa.FieldAddr)
	return ok1 && ok2 && fieldIDOfAddr(fa) == fieldIDOfAddr(fb)
}

// nilFact: what the branches dominating block b say about v: +1 non-nil, -1 nil, 0 nothing.
func (x *c19) nilFact(b *ssa.BasicBlock, v ssa.Value, depth int) int {
	return x.nilFactConds(domConds(b), v, depth)
}

// edgeConds: the conditions known on the CFG edge from -> to.
func c19EdgeConds(from, to *ssa.BasicBlock) []DomCond {
	conds := append([]DomCond{}, domConds(from)...)
	if len(from.Instrs) > 0 && len(from.Succs) == 2 && from.Succs[0] != from.Succs[1] {
		if ifi, ok := from.Instrs[len(from.Instrs)-1].(*ssa.If); ok {
			if from.Succs[0] == to {
				conds = append(conds, DomCond{ifi, true})
			} else if from.Succs[1] == to {
				conds = append(conds, DomCond{ifi, false})
			}
		}
	}
	return conds
}

func (x *c19) nilFactConds(conds []DomCond, v ssa.Value, depth int) int {
	if depth > 4 {
		return 0
	}
	for _, dc := range conds {
		if cmp, ok := decodeCond(dc.If.Cond, dc.Branch); ok && (cmp.Op == token.EQL || cmp.Op == token.NEQ) {
			var o ssa.Value
			switch {
			case isNilConst(cmp.Y):
				o = cmp.X
			case isNilConst(cmp.X):
				o = cmp.Y
			}
			if o != nil && c19SameSource(o, v) {
				if cmp.Op == token.NEQ {
					return 1
				}
				return -1
			}
			// an error variable known nil that is only left nil where v is non-nil:
			// if <v is missing> { err = errors.New(..) } ... if err != nil { return } ... return v, nil
			if phi, ok := o.(*ssa.Phi); ok && cmp.Op == token.EQL {
				all := len(phi.Edges) > 0
				for i, ed := range phi.Edges {
					switch {
					case c19ErrCertain(ed):
					case isNilConst(ed) && i < len(phi.Block().Preds) && x.nilFactConds(c19EdgeConds(phi.Block().Preds[i], phi.Block()), v, depth+1) == 1:
					default:
						all = false
					}
				}
				if all {
					return 1
				}
			}
			continue
		}
		// a flag produced together with v by a helper: v, ok := lookup(); if ok {...}
		cond, want := dc.If.Cond, dc.Branch
		for {
			u, ok := cond.(*ssa.UnOp)
			if !ok || u.Op != token.NOT {
				break
			}
			cond, want = u.X, !want
		}
		fe, ok1 := cond.(*ssa.Extract)
		ve, ok2 := v.(*ssa.Extract)
		if !ok1 || !ok2 || fe.Tuple != ve.Tuple || !want || depth > 3 {
			continue
		}
		call, ok := fe.Tuple.(*ssa.Call)
		if !ok {
			continue
		}
		implies, n := true, 0
		for _, nf := range x.enter(call, nil) {
			allInstrs(nf.fn, func(in ssa.Instruction) {
				ret, ok := in.(*ssa.Return)
				if !ok || fe.Index >= len(ret.Results) || ve.Index >= len(ret.Results) {
					return
				}
				n++
				flag, val := c19RetValue(ret, fe.Index), c19RetValue(ret, ve.Index)
				if c, ok := flag.(*ssa.Const); ok && c.Value != nil && c.Value.Kind() == constant.Bool && !constant.BoolVal(c.Value) {
					return // flag false on this return
				}
				if bo, ok := flag.(*ssa.BinOp); ok && bo.Op == token.NEQ && ((isNilConst(bo.Y) && c19SameSource(bo.X, val)) || (isNilConst(bo.X) && c19SameSource(bo.Y, val))) {
					return // flag := val != nil
				}
				if x.nilFact(ret.Block(), val, depth+1) == 1 {
					return
				}
				implies = false
			})
		}
		if implies && n > 0 {
			return 1
		}
	}
	return 0
}

// errNonNil: e is certainly a non-nil error (a freshly made one).
func c19ErrCertain(e ssa.Value) bool {
	switch t := e.(type) {
	case *ssa.Call:
		if obj := calleeObj(t); obj != nil && obj.Pkg() != nil {
			switch obj.Pkg().Path() + "." + obj.Name() {
			case "errors.New", "fmt.Errorf", "errors.Join":
				return true
			}
		}
	case *ssa.MakeInterface:
		return true
	}
	return false
}

// checkPair examines one return of the getter (or of a function whose result
// pair it forwards). verdicts: bad (definite), und (not decided).
func (x *c19) svidOrError(fn *ssa.Function, fr *c19Frame, depth int, bad, und *[]string, n *int) {
	allInstrs(fn, func(in ssa.Instruction) {
		ret, ok := in.(*ssa.Return)
		if !ok || len(ret.Results) != 2 || ret.Block() == fn.Recover {
			return // (the recover block only runs after a recovered panic)
		}
		v, e := c19RetValue(ret, 0), c19RetValue(ret, 1)
		at := x.pos(ret)
		// the pair of another function forwarded unchanged
		if ve, ok := v.(*ssa.Extract); ok {
			if ee, ok := e.(*ssa.Extract); ok && ee.Tuple == ve.Tuple && ve.Index == 0 && ee.Index == 1 {
				if call, ok := ve.Tuple.(*ssa.Call); ok && depth < 5 {
					frames := x.enter(call, fr)
					if len(frames) == 0 {
						*und = append(*und, "the pair returned at "+at+" comes from a call that is not followed ("+callDesc(call)+")")
						return
					}
					for _, nf := range frames {
						x.svidOrError(nf.fn, nf, depth+1, bad, und, n)
					}
					return
				}
			}
		}
		*n++
		if c19ErrCertain(e) || x.nilFact(ret.Block(), e, 0) == 1 {
			return // an error is returned
		}
		if !isNilConst(e) && x.errorIffNil(ret, v, e) {
			return // the error variable is set exactly when the SVID is nil
		}
		if !isNilConst(e) && x.nilFact(ret.Block(), e, 0) == 0 {
			// an error variable of unknown nil-ness: the SVID must be non-nil for the nil case
			if isNilConst(v) || x.nilFact(ret.Block(), v, 0) != 1 {
				if _, isAlloc := v.(*ssa.Alloc); !isAlloc {
					*und = append(*und, "the return at "+at+" pairs an SVID not known non-nil with an error not known non-nil")
				}
			}
			return
		}
		// nil error: the SVID must be known non-nil
		switch {
		case isNilConst(v):
			*bad = append(*bad, "returns (nil, nil) at "+at)
		case x.nilFact(ret.Block(), v, 0) == 1:
		case x.nilFact(ret.Block(), v, 0) == -1:
			*bad = append(*bad, "returns the SVID with a nil error at "+at+" exactly when it is nil")
		default:
			if a, ok := v.(*ssa.Alloc); ok {
				// the address of a copy: never nil; meaningful only behind the flag kept next to the value
				flag := false
				for _, dc := range domConds(ret.Block()) {
					cond := dc.If.Cond
					for {
						u, ok := cond.(*ssa.UnOp)
						if !ok || u.Op != token.NOT {
							break
						}
						cond = u.X
					}
					if id, _, ok := fieldOfValue(cond); ok && strings.HasPrefix(id.Type, x.pkg+".") {
						flag = true
					}
				}
				if !flag && c19IsSVIDPtr(a.Type()) {
					*und = append(*und, "returns the address of a copy at "+at+" without a recognised 'has an SVID' test")
				}
				return
			}
			served := false
			for _, o := range x.origins(v, fr) {
				if o.kind == "field" && o.fid == x.svid {
					served = true
				}
			}
			if served && x.condsMayConcern(ret.Block(), v) {
				*und = append(*und, "the SVID returned with a nil error at "+at+" is guarded by a test whose relation to it is not understood")
			} else if served {
				*bad = append(*bad, "returns "+x.svid.String()+" with a nil error at "+at+" without testing it for nil: after a failed initial fetch (readiness is signalled, nothing stored) consumers get (nil, nil) instead of an error")
			} else {
				*und = append(*und, "the SVID returned with a nil error at "+at+" is not known non-nil")
			}
		}
	})
}

func (x *c19) checkX7() {
	r, p := x.r, x.p
	for _, gx := range x.getters {
		var bad, und []string
		n := 0
		x.svidOrError(gx, nil, 0, &bad, &und, &n)
		construct := x.name(gx) + " SVID or error"
		switch {
		case len(bad) > 0:
			r.Violation("C19.X7-svid-or-error", construct, p.Pos(gx.Pos()), "GetX509SVID "+strings.Join(c19Dedup(bad), "; "))
		default:
			r.OK("C19.X7-svid-or-error", construct, p.Pos(gx.Pos()), fmt.Sprintf("%d return(s): a nil error only with an SVID tested non-nil", n))
			for _, u := range c19Dedup(und) {
				x.undecide("%s: %s", construct, u)
			}
			if n == 0 && len(und) == 0 {
				x.undecide("%s: no return examined", construct)
			}
		}
	}
}

// errorIffNil: the error returned next to v is a variable that is assigned a
// fresh error on the nil side of a test `v == nil` which always runs (and is
// nil otherwise): `if svid == nil { err = errors.New(..) }; return svid, err`,
// with registers (phi of the two sides) or variable cells (named results of a
// function with defers, variables captured by a callback literal).
func (x *c19) errorIffNil(ret *ssa.Return, v, e ssa.Value) bool {
	// the nil-edge successor of a test of something denoting v
	nilSide := func(b *ssa.BasicBlock, same func(ssa.Value) bool) (*ssa.If, bool) {
		if len(b.Preds) != 1 {
			return nil, false
		}
		pb := b.Preds[0]
		if len(pb.Instrs) == 0 || len(pb.Succs) != 2 {
			return nil, false
		}
		ifi, ok := pb.Instrs[len(pb.Instrs)-1].(*ssa.If)
		if !ok {
			return nil, false
		}
		cmp, ok := decodeCond(ifi.Cond, pb.Succs[0] == b)
		if !ok || cmp.Op != token.EQL {
			return nil, false
		}
		switch {
		case isNilConst(cmp.Y) && same(cmp.X), isNilConst(cmp.X) && same(cmp.Y):
			return ifi, true
		}
		return nil, false
	}
	// registers: e = phi [nil on the non-nil side, fresh error on the nil side]
	if phi, ok := e.(*ssa.Phi); ok {
		for i, ed := range phi.Edges {
			if i >= len(phi.Block().Preds) {
				return false
			}
			pred := phi.Block().Preds[i]
			switch {
			case c19ErrCertain(ed):
			case isNilConst(ed):
				// on this edge v must be non-nil
				if x.nilFactConds(c19EdgeConds(pred, phi.Block()), v, 0) != 1 {
					return false
				}
			default:
				return false
			}
		}
		return len(phi.Edges) > 0
	}
	// cells
	le, ok := e.(*ssa.UnOp)
	if !ok || le.Op != token.MUL {
		return false
	}
	ce, ok := le.X.(*ssa.Alloc)
	if !ok {
		return false
	}
	var cv *ssa.Alloc
	if lv, ok := v.(*ssa.UnOp); ok && lv.Op == token.MUL {
		cv, _ = lv.X.(*ssa.Alloc)
	}
	// same: o denotes v — v itself, a load of v's cell (directly or as a captured
	// variable), or the value last stored into v's cell in that function
	sameIn := func(fn *ssa.Function) func(ssa.Value) bool {
		return func(o ssa.Value) bool {
			if c19SameSource(o, v) {
				return true
			}
			if cv == nil {
				return false
			}
			if lo, ok := o.(*ssa.UnOp); ok && lo.Op == token.MUL {
				if cellOf(lo.X) == cv {
					return true
				}
			}
			for _, st := range c19CellStores(cv) {
				if st.Parent() == fn && (st.Val == o || c19SameSource(st.Val, o)) {
					return true
				}
			}
			return false
		}
	}
	n := 0
	for _, st := range c19CellStores(ce) {
		if isNilConst(st.Val) {
			continue
		}
		if ld, ok := st.Val.(*ssa.UnOp); ok && ld.Op == token.MUL && cellOf(ld.X) == ce {
			continue // `return svid, err` of named results stores the variable into itself
		}
		if !c19ErrCertain(st.Val) {
			return false
		}
		fn := st.Parent()
		ifi, ok := nilSide(st.Block(), sameIn(fn))
		if !ok {
			return false
		}
		// the test always runs in its function ...
		for _, b := range fn.Blocks {
			if len(b.Instrs) == 0 || b == fn.Recover {
				continue
			}
			if r2, ok := b.Instrs[len(b.Instrs)-1].(*ssa.Return); ok && !ifi.Block().Dominates(r2.Block()) {
				return false
			}
		}
		// ... and that function runs before the return: it is the getter itself, or a
		// literal created (and handed to a call) on every path to the return
		if fn != ret.Parent() {
			okCall := false
			allInstrs(ret.Parent(), func(in ssa.Instruction) {
				if mc, ok := in.(*ssa.MakeClosure); ok && mc.Fn == ssa.Value(fn) {
					for _, rr := range refs(mc) {
						if call, ok := rr.(*ssa.Call); ok && instrDominates(call, ret) {
							okCall = true
						}
					}
				}
			})
			if !okCall {
				return false
			}
		} else if !ifi.Block().Dominates(ret.Block()) {
			return false
		}
		n++
	}
	return n > 0
}

// condsMayConcern: some branch condition dominating b is computed (through
// phis, comparisons, flags returned by the same call, loads of the same
// variables) from v or from something produced together with v — so a missing
// recognised nil test is not positively an untested return.
func (x *c19) condsMayConcern(b *ssa.BasicBlock, v ssa.Value) bool {
	related := func(o ssa.Value) bool {
		if c19SameSource(o, v) {
			return true
		}
		oe, ok1 := o.(*ssa.Extract)
		ve, ok2 := v.(*ssa.Extract)
		return ok1 && ok2 && oe.Tuple == ve.Tuple
	}
	seen := map[ssa.Value]bool{}
	var dep func(o ssa.Value, depth int) bool
	dep = func(o ssa.Value, depth int) bool {
		if o == nil || depth > 8 || seen[o] {
			return false
		}
		seen[o] = true
		if related(o) {
			return true
		}
		switch t := o.(type) {
		case *ssa.UnOp:
			if t.Op == token.MUL {
				if cell, ok := t.X.(*ssa.Alloc); ok {
					for _, st := range c19CellStores(cell) {
						if dep(st.Val, depth+1) {
							return true
						}
						// a variable assigned under a condition that concerns v
						if x.condsMayConcernAt(st.Block(), dep, depth+1) {
							return true
						}
					}
				}
				return false
			}
			return dep(t.X, depth+1)
		case *ssa.BinOp:
			return dep(t.X, depth+1) || dep(t.Y, depth+1)
		case *ssa.Phi:
			for i, e := range t.Edges {
				if dep(e, depth+1) {
					return true
				}
				// a value chosen by a branch that concerns v
				if i < len(t.Block().Preds) {
					for _, dc := range c19EdgeConds(t.Block().Preds[i], t.Block()) {
						if dep(dc.If.Cond, depth+1) {
							return true
						}
					}
				}
			}
		case *ssa.Extract:
			return dep(t.Tuple, depth+1)
		case *ssa.Call:
			for _, a := range t.Call.Args {
				if dep(a, depth+1) {
					return true
				}
			}
		case *ssa.ChangeType:
			return dep(t.X, depth+1)
		case *ssa.MakeInterface:
			return dep(t.X, depth+1)
		}
		return false
	}
	return x.condsMayConcernAt(b, dep, 0)
}

func (x *c19) condsMayConcernAt(b *ssa.BasicBlock, dep func(ssa.Value, int) bool, depth int) bool {
	for _, dc := range domConds(b) {
		if dep(dc.If.Cond, depth) {
			return true
		}
	}
	return false
}
