package main

// C13.OC — lock.OuterCancel: the request loop, the reader release function
// and the grace function, all found by role.

import (
	"fmt"
	"go/constant"
	"go/token"
	"go/types"
	"sort"
	"strings"

	"golang.org/x/tools/go/ssa"
)

const (
	c13ocHeld      = 1 << iota // the loop goroutine occupies the slot
	c13ocHanded                // the slot's release was handed out in a response
	c13ocWaited                // wg.Wait() returned while the slot was held (and it was not released since)
	c13ocFanout                // the registered reader cancel functions were invoked
	c13ocAdded                 // wg.Add(1) was executed while the slot was held
	c13ocErrSet                // a non-nil error was stored into the response being built
	c13ocCtxSet                // a reader context was stored into the response being built
	c13ocCancelRel             // a function that releases the slot was stored into the response being built
	c13ocCancelAny             // some function was stored into the response's release field
	c13ocWT                    // the request is known to be a writer's
	c13ocWF                    // the request is known to be a reader's
	c13ocIter                  // a request is being handled
	c13ocNoCtx                 // the request is known to carry no context (a writer's)
)

type c13OcAcc struct {
	nIterEnd             int
	slotBad              []string
	nRefusal             int
	refusalBad           []string
	nGrantW              int
	grantWBad            []string
	nGrantR              int
	grantRBad            []string
	releases             map[*ssa.Function][]ssa.Value // reader release functions found, with their closure bindings
	graces               map[*ssa.Function][]ssa.Value // functions registered in the reader table
	unresolved           []string
	unf                  c13Unf
	nReq                 int
	noStray              bool // fixture mode: only the given release functions are examined
	nSlotWaits           int
	waitBad, waitUnknown []string
	posWait              token.Pos
	posW, posR, posRefus token.Pos
}

func c13OuterCancel(c *Ctx, ro *c13Roles) {
	r, p := c.R, c.P
	slot, req, closeCh := c13ChanID(ro.ocSlot), c13ChanID(ro.ocReq), c13ChanID(ro.ocClose)
	respCh := c13ChanID(ro.holdResp)
	acc := &c13OcAcc{releases: map[*ssa.Function][]ssa.Value{}, graces: map[*ssa.Function][]ssa.Value{}}
	pos := func(in ssa.Instruction) string { return p.Pos(instrPos(in)) }

	// releasesSlot: calling the function value receives from the slot exactly once on every path
	releasesSlot := func(fn *ssa.Function, binds []ssa.Value) bool {
		if fn == nil {
			return false
		}
		okAll, n := true, 0
		ex := NewC13Explorer(p)
		ex.ExploreBound(fn, binds, 0, &C13Hooks{
			Instr: func(x *C13Ctx, in ssa.Instruction, st uint64) uint64 {
				if u, ok := in.(*ssa.UnOp); ok && u.Op == token.ARROW && c13ChanKey(x, u.X) == slot {
					return st + 1
				}
				return st
			},
			Return: func(x *C13Ctx, ret *ssa.Return, _ []ssa.Value, st uint64) {
				n++
				if st != 1 {
					okAll = false
				}
			},
		})
		return okAll && n > 0 && len(ex.Incomplete) == 0
	}

	iterEnd := func(st uint64, where string) {
		if st&c13ocIter == 0 {
			return
		}
		acc.nIterEnd++
		if st&c13ocHeld != 0 && st&c13ocHanded == 0 {
			acc.slotBad = append(acc.slotBad, "the request loop reaches "+where+" still occupying the hold slot without having handed its release to the caller: every later Lock/RLock blocks forever")
		}
	}
	// the loop goroutine takes a token out of the slot
	slotRecv := func(st uint64, in ssa.Instruction) uint64 {
		if st&c13ocIter != 0 && st&c13ocHeld == 0 {
			acc.slotBad = append(acc.slotBad, "the request loop receives from the slot at "+pos(in)+" on a path on which it does not occupy it: it takes the token of the current holder (a writer), so the next request is admitted while that writer still holds the lock")
		}
		return st &^ (c13ocHeld | c13ocWaited)
	}
	// slotWait: the loop blocks to take the slot on behalf of the current request.
	// A request that carries a context must be able to give up: the wait is a
	// select that also has the Done channel of the request's context.
	slotWait := func(x *C13Ctx, st uint64, in ssa.Instruction, sel *ssa.Select) {
		acc.nSlotWaits++
		if !acc.posWait.IsValid() {
			acc.posWait = instrPos(in)
		}
		if st&c13ocNoCtx != 0 {
			return
		}
		if sel != nil {
			for _, s := range sel.States {
				if s.Dir != types.RecvOnly {
					continue
				}
				if call, ok := c13StripConv(x.Resolve(s.Chan)).(*ssa.Call); ok && call.Call.IsInvoke() && call.Call.Method != nil && call.Call.Method.Name() == "Done" && namedKey(call.Call.Value.Type()) == "context.Context" {
					if id, ok := c13FieldOf(x, call.Call.Value); ok && ro.holdCtxInd[id] {
						return
					}
					acc.waitUnknown = append(acc.waitUnknown, "the context whose Done channel is waited for at "+pos(in)+" could not be traced to the request")
					return
				}
			}
		}
		acc.waitBad = append(acc.waitBad, "the request loop blocks on the slot at "+pos(in)+" for a request that may carry a context, without also waiting for that context's Done channel: a reader queued behind a writer keeps waiting (and keeps the loop stuck) after its context ended")
	}
	response := func(x *C13Ctx, st uint64, in ssa.Instruction) uint64 {
		at := pos(in)
		if st&c13ocErrSet != 0 {
			acc.nRefusal++
			if !acc.posRefus.IsValid() {
				acc.posRefus = instrPos(in)
			}
			if st&c13ocHeld != 0 {
				acc.refusalBad = append(acc.refusalBad, "the error response at "+at+" is sent while the slot may be held")
			}
		} else {
			writer := st&c13ocWT != 0
			if st&(c13ocWT|c13ocWF) == 0 {
				writer = st&c13ocCtxSet == 0
			}
			if writer {
				acc.nGrantW++
				if !acc.posW.IsValid() {
					acc.posW = instrPos(in)
				}
				switch {
				case st&c13ocHeld == 0:
					acc.grantWBad = append(acc.grantWBad, "the writer can be granted at "+at+" without holding the slot")
				case st&c13ocFanout == 0:
					acc.grantWBad = append(acc.grantWBad, "the writer can be granted at "+at+" without cancelling the current readers first")
				case st&c13ocWaited == 0:
					acc.grantWBad = append(acc.grantWBad, "the writer can be granted at "+at+" without having waited for the readers (wg.Wait) while holding the slot")
				}
				if st&c13ocCancelRel != 0 {
					st |= c13ocHanded
				}
			} else {
				acc.nGrantR++
				if !acc.posR.IsValid() {
					acc.posR = instrPos(in)
				}
				// what matters is that the reader was counted in (wg.Add) while the loop
				// occupied the slot; whether the response is sent before or after the
				// loop frees the slot again is immaterial (the loop is sequential)
				if st&c13ocAdded == 0 {
					acc.grantRBad = append(acc.grantRBad, "a reader can be admitted (response at "+at+") without having been counted into the WaitGroup while the loop occupied the slot: it does not pass through the slot a writer keeps occupied / a writer's wg.Wait would not wait for it")
				}
				if st&c13ocCancelAny == 0 {
					acc.unresolved = append(acc.unresolved, "reader response at "+at+" carries no release function")
				} else if fv := x.Fact("cancelFn"); fv != nil {
					if fn, binds := x.FuncTargetBinds(fv); fn != nil {
						acc.releases[fn] = binds
					} else {
						acc.unresolved = append(acc.unresolved, "the reader release function stored at "+at+" could not be resolved")
					}
				}
			}
		}
		x.DelFact("cancelFn")
		return st &^ (c13ocErrSet | c13ocCtxSet | c13ocCancelRel | c13ocCancelAny)
	}

	var hooks *C13Hooks
	spawned := map[*ssa.Function]bool{}
	var incomplete []string
	hooks = &C13Hooks{
		Instr: func(x *C13Ctx, in ssa.Instruction, st uint64) uint64 {
			switch v := in.(type) {
			case *ssa.Go:
				// a goroutine started while a request is handled runs unordered with
				// the loop: whatever it does is not done "while the loop occupies the
				// slot" (the loop may free the slot first)
				if st&c13ocIter != 0 {
					if fn, binds := x.FuncTargetBinds(v.Call.Value); fn != nil && p.InModule(fn) && !spawned[fn] {
						spawned[fn] = true
						sub := NewC13Explorer(p)
						sub.ExploreBound(fn, binds, st&(c13ocIter|c13ocWT|c13ocWF), hooks)
						incomplete = append(incomplete, sub.Incomplete...)
					}
				}
			case *ssa.Select:
				for _, s := range v.States {
					if s.Dir == types.RecvOnly && c13ChanKey(x, s.Chan) == req {
						iterEnd(st, "the next request receive")
					}
				}
			case *ssa.UnOp:
				if v.Op != token.ARROW {
					return st
				}
				switch c13ChanKey(x, v.X) {
				case req:
					iterEnd(st, "the next request receive")
					acc.nReq++
					x.DelFact("cancelFn")
					return c13ocIter
				case slot:
					return slotRecv(st, in)
				}
			case *ssa.Send:
				switch c13ChanKey(x, v.Chan) {
				case slot:
					if st&c13ocIter != 0 {
						slotWait(x, st, in, nil)
					}
					return st | c13ocHeld
				case respCh:
					return response(x, st, in)
				}
			case *ssa.Store:
				fa, ok := x.Resolve(v.Addr).(*ssa.FieldAddr)
				if !ok {
					return st
				}
				val := x.Resolve(v.Val)
				if isNilConst(c13StripConv(val)) {
					return st
				}
				switch fieldIDOfAddr(fa) {
				case ro.respErr:
					return st | c13ocErrSet
				case ro.respCtx:
					return st | c13ocCtxSet
				case ro.respCancel:
					st |= c13ocCancelAny
					x.SetFact("cancelFn", val)
					if releasesSlot(x.FuncTargetBinds(val)) {
						st |= c13ocCancelRel
					}
				}
			case *ssa.Range:
				if c13IsField(x, v.X, ro.ocTable) && (c13RangeInvokes(ro, v) || c13RangeYields(ro, x, v)) {
					return st | c13ocFanout
				}
			case *ssa.MapUpdate:
				if c13IsField(x, v.Map, ro.ocTable) {
					if fn, binds := x.FuncTargetBinds(v.Value); fn != nil {
						acc.graces[fn] = binds
					} else {
						acc.unresolved = append(acc.unresolved, "the function registered in the reader table at "+pos(in)+" could not be resolved")
					}
				}
			case *ssa.Call:
				switch {
				case callIs(v, "sync", "WaitGroup", "Wait"):
					if st&c13ocHeld != 0 {
						return st | c13ocWaited
					}
				case callIs(v, "sync", "WaitGroup", "Add"):
					if len(v.Call.Args) == 2 && c13IsConstInt(x.Resolve(v.Call.Args[1]), 1) && st&c13ocHeld != 0 {
						return st | c13ocAdded
					}
				}
			}
			return st
		},
		Branch: func(x *C13Ctx, ifi *ssa.If, taken bool, st uint64) uint64 {
			if sel, k, ok := C13SelectFired(ifi, taken); ok {
				s := sel.States[k]
				switch c13ChanKey(x, s.Chan) {
				case req:
					if s.Dir == types.RecvOnly {
						acc.nReq++
						x.DelFact("cancelFn")
						return c13ocIter
					}
				case slot:
					if s.Dir == types.SendOnly {
						if st&c13ocIter != 0 {
							slotWait(x, st, ifi, sel)
						}
						return st | c13ocHeld
					}
					return slotRecv(st, ifi)
				case respCh:
					if s.Dir == types.SendOnly {
						return response(x, st, ifi)
					}
				}
				return st
			}
			cond, pol := c13StripNot(x.Resolve(ifi.Cond), taken)
			cond, pol = c13StripNot(x.Resolve(cond), pol)
			if c13IsField(nil, cond, ro.holdWrite) {
				st &^= c13ocWT | c13ocWF
				if pol {
					return st | c13ocWT | c13ocNoCtx
				}
				return st | c13ocWF
			}
			// what the path knows about "this request carries a context"
			if id, ok := c13FieldOf(nil, cond); ok {
				if ro.holdCtxInd[id] && !pol || ro.holdWriterInd[id] && pol {
					return st | c13ocNoCtx
				}
			}
			if cmp, ok := decodeCond(cond, pol); ok && cmp.Op == token.EQL {
				for _, pr := range [][2]ssa.Value{{cmp.X, cmp.Y}, {cmp.Y, cmp.X}} {
					if isNilConst(c13StripConv(x.Resolve(pr[1]))) {
						if id, ok := c13FieldOf(x, pr[0]); ok && ro.holdCtxInd[id] {
							return st | c13ocNoCtx
						}
					}
				}
			}
			return st
		},
		RangeFunc: func(x *C13Ctx, call ssa.CallInstruction, ctor *ssa.Call, yield *ssa.Function, st uint64) uint64 {
			// for v := range maps.Values(table) { go v() } and its relatives
			for _, a := range ctor.Call.Args {
				if c13FromCollection(x, a, ro.ocTable, 0) && c13YieldInvokes(ro, yield) {
					return st | c13ocFanout
				}
			}
			return st
		},
		Return: func(x *C13Ctx, ret *ssa.Return, _ []ssa.Value, st uint64) {
			iterEnd(st, "its return at "+p.Pos(instrPos(ret)))
		},
		Unfollowed: func(x *C13Ctx, call ssa.CallInstruction, st uint64) {
			if st&c13ocIter != 0 {
				acc.unf.add(p, call)
			}
		},
		Opaque: func(fn *ssa.Function) bool {
			return fn.Signature.Recv() != nil && ro.isLockType(fn.Signature.Recv().Type())
		},
	}

	run := ro.methodFn(ro.oc, "Run")
	if run != nil {
		ex := NewC13Explorer(p)
		ex.Explore(run, 0, hooks)
		incomplete = append(incomplete, ex.Incomplete...)
	}
	rootDesc := "Run"
	if acc.nReq == 0 {
		// the request receive is not reachable from Run by followed calls:
		// examine every function that receives from the request channel
		rootDesc = ""
		for _, fn := range ro.pkgFuncs(ro.oc) {
			has := false
			allInstrs(fn, func(in ssa.Instruction) {
				switch v := in.(type) {
				case *ssa.UnOp:
					if v.Op == token.ARROW && c13IsField(nil, v.X, ro.ocReq) {
						has = true
					}
				case *ssa.Select:
					for _, s := range v.States {
						if s.Dir == types.RecvOnly && c13IsField(nil, s.Chan, ro.ocReq) {
							has = true
						}
					}
				}
			})
			if has {
				ex := NewC13Explorer(p)
				ex.Explore(fn, 0, hooks)
				incomplete = append(incomplete, ex.Incomplete...)
				rootDesc += " " + FuncName(p, fn)
			}
		}
	}
	if acc.nReq == 0 {
		undecided("OuterCancel: no receive from the request channel %s found (request loop not resolved)", ro.ocReq)
	}
	r.Stats["c13_oc_root"] = strings.TrimSpace(rootDesc)
	incompl := len(acc.unf.list) > 0 || len(incomplete) > 0 || len(acc.unresolved) > 0
	whyInc := strings.Join(append(append(acc.unf.list, incomplete...), acc.unresolved...), "; ")
	canon := "concurrency/lock.OuterCancel hold "
	runPos := p.Pos(token.NoPos)
	if run != nil {
		runPos = p.Pos(run.Pos())
	}

	check := func(bad []string, construct, pos, okMsg string) {
		if len(bad) > 0 && (len(acc.unf.list) > 0 || len(incomplete) > 0) {
			r.Undecide("%s: %s — but calls in the request loop could not be followed: %s", construct, bad[0], whyInc)
			return
		}
		r.Check(len(bad) == 0, "C13.OC-outercancel", construct, pos, okMsg, c13FirstOr(bad, ""), c13Uniq(c13Sorted(bad))...)
	}
	// (1) slot per path
	if acc.nIterEnd == 0 {
		r.Undecide("OuterCancel: no end of a request iteration reached (%s)", whyInc)
	} else {
		check(acc.slotBad, canon+"slot-per-path", runPos, "each request ends with the slot released or its release handed out")
	}
	// (2) responses
	if acc.nRefusal > 0 {
		check(acc.refusalBad, canon+"refusal", p.Pos(acc.posRefus), "an acquisition that reports an error holds nothing")
	}
	if acc.nGrantW > 0 {
		check(acc.grantWBad, canon+"writer grant", p.Pos(acc.posW), "writer is granted with the slot held, after the cancel fan-out and a wg.Wait() made while holding the slot")
	}
	if acc.nGrantR > 0 {
		check(acc.grantRBad, canon+"reader grant", p.Pos(acc.posR), "reader is counted in (wg.Add(1)) while the loop occupies the slot (so never while a writer holds it) before it is answered")
	}
	if acc.nGrantW == 0 || acc.nGrantR == 0 {
		r.Undecide("OuterCancel: writer/reader grant responses on %s not found (%d/%d) %s", ro.holdResp, acc.nGrantW, acc.nGrantR, whyInc)
	}

	// (2b) cancellable wait for the slot
	if acc.nSlotWaits > 0 {
		if len(acc.waitBad) == 0 && len(acc.waitUnknown) > 0 {
			r.Undecide("OuterCancel: %s", strings.Join(c13Uniq(c13Sorted(acc.waitUnknown)), "; "))
		} else {
			check(acc.waitBad, canon+"cancellable wait", p.Pos(acc.posWait), "the loop waits for the slot together with the Done channel of the request's context (requests without a context wait unconditionally)")
		}
	}
	// (2c) requester side: the reply is always collected
	c13CheckRequesters(c, ro)

	// (3) reader release: once, entry removed, configured cause
	rel := c13AnalyseReleases(c, ro, acc)
	// (4) grace function
	c13AnalyseGrace(c, ro, acc, rel)
	_ = closeCh
	_ = incompl
}

func c13FirstOr(s []string, d string) string {
	if len(s) > 0 {
		return s[0]
	}
	return d
}

// c13RangeInvokes: the loop over rg invokes (go or call, directly or through
// a spawned closure) every ranged value, or looks every ranged key up in the
// same table and invokes that.
func c13RangeInvokes(ro *c13Roles, rg *ssa.Range) bool {
	flows := c13InvocationFlow(ro)
	for _, r := range refs(rg) {
		nx, ok := r.(*ssa.Next)
		if !ok {
			continue
		}
		for _, r2 := range refs(nx) {
			ex, ok := r2.(*ssa.Extract)
			if !ok || ex.Index == 0 {
				continue
			}
			if flows(ex, 0) {
				return true
			}
		}
	}
	return false
}

// c13YieldInvokes: the body of a range-over-func loop (its yield function)
// invokes the element it is given (or looks the key it is given up in the
// reader table and invokes that).
func c13YieldInvokes(ro *c13Roles, yield *ssa.Function) bool {
	flows := c13InvocationFlow(ro)
	for _, pa := range yield.Params {
		if flows(pa, 0) {
			return true
		}
	}
	return false
}

// c13InvocationFlow returns the relation "v is invoked (go / call / defer),
// directly, through a variable, a spawned closure, a gathered collection or a
// look-up in the reader table".
func c13InvocationFlow(ro *c13Roles) func(v ssa.Value, depth int) bool {
	var flows func(v ssa.Value, depth int) bool
	visiting := map[ssa.Value]bool{}
	flows = func(v ssa.Value, depth int) bool {
		if depth > 10 || visiting[v] {
			return false
		}
		visiting[v] = true
		defer delete(visiting, v)
		for _, r := range refs(v) {
			switch x := r.(type) {
			case *ssa.Slice:
				if x.X == v && flows(x, depth+1) {
					return true
				}
			case *ssa.Phi:
				if flows(x, depth+1) {
					return true
				}
			case *ssa.IndexAddr:
				// an element of the collection the values were gathered into
				if x.X == v && flows(x, depth+1) {
					return true
				}
			case *ssa.Go:
				if x.Call.Value == v {
					return true
				}
			case *ssa.Call:
				if x.Call.Value == v {
					return true
				}
				// gathered with append(...) and invoked afterwards
				if b, ok := x.Call.Value.(*ssa.Builtin); ok && b.Name() == "append" && flows(x, depth+1) {
					return true
				}
			case *ssa.Defer:
				if x.Call.Value == v {
					return true
				}
			case *ssa.ChangeType:
				if flows(x, depth+1) {
					return true
				}
			case *ssa.Store:
				// copied into a variable cell (per-iteration copy / capture)
				if x.Val == v {
					if cell, ok := x.Addr.(*ssa.Alloc); ok && flows(cell, depth+1) {
						return true
					}
					if ia, ok := x.Addr.(*ssa.IndexAddr); ok && flows(ia.X, depth+1) {
						return true // stored into an array / slice element
					}
				}
			case *ssa.UnOp:
				if x.Op == token.MUL && x.X == v && flows(x, depth+1) {
					return true
				}
			case *ssa.MakeClosure:
				// bound into a closure that is invoked, and that invokes it
				fn, _ := x.Fn.(*ssa.Function)
				if fn == nil {
					continue
				}
				invoked := false
				for _, rr := range refs(x) {
					if ci, ok := rr.(ssa.CallInstruction); ok && ci.Common().Value == ssa.Value(x) {
						invoked = true
					}
				}
				if !invoked {
					continue
				}
				for i, b := range x.Bindings {
					if b == v && i < len(fn.FreeVars) && flows(fn.FreeVars[i], depth+1) {
						return true
					}
				}
			case *ssa.Lookup:
				if x.Index == v {
					if id, ok := c13FieldOf(nil, x.X); ok && id == ro.ocTable && flows(x, depth+1) {
						return true
					}
				}
			}
		}
		return false
	}
	return flows
}

// c13FromField: v is (a copy of) the value of field target: a load of it, or
// a load of another field / variable that is only ever assigned from it.
func c13FromField(p *Prog, x *C13Ctx, v ssa.Value, target FieldID, depth int) bool {
	if depth > 3 {
		return false
	}
	if x != nil {
		v = x.Resolve(v)
	}
	v = c13StripConv(v)
	// cmp.Or(x, zero...) is x
	if call, ok := v.(*ssa.Call); ok {
		if obj := calleeObj(call); obj != nil && obj.Pkg() != nil && obj.Pkg().Path() == "cmp" && obj.Name() == "Or" {
			n := 0
			for _, a := range c13VarArgs(call) {
				var ra ssa.Value = a
				if x != nil {
					ra = x.Resolve(a)
				}
				if isNilConst(c13StripConv(ra)) {
					continue
				}
				if !c13FromField(p, x, a, target, depth+1) {
					return false
				}
				n++
			}
			return n > 0
		}
	}
	id, ok := c13FieldOf(nil, v)
	if !ok {
		return false
	}
	if id == target {
		return true
	}
	// a copy kept in another field: every store to it copies the target
	n, all := 0, true
	for _, fn := range p.Funcs {
		allInstrs(fn, func(in ssa.Instruction) {
			st, ok := in.(*ssa.Store)
			if !ok {
				return
			}
			fa, ok := st.Addr.(*ssa.FieldAddr)
			if !ok || fieldIDOfAddr(fa) != id {
				return
			}
			n++
			if !c13FromField(p, nil, st.Val, target, depth+1) {
				all = false
			}
		})
	}
	return n > 0 && all
}

type c13RelInfo struct {
	fns    map[*ssa.Function]bool
	closed map[string]bool // channels closed by the release function
}

const (
	c13rlGuard   = 1 << iota // the reader-table lock is held
	c13rlGuarded             // "not released yet" was observed under this hold (or once/atomic)
	c13rlDone                // wg.Done was executed
	c13rlSet                 // the released-flag was set
	c13rlDel                 // the reader's table entry was removed
	c13rlCause               // the reader context was cancelled with the configured cause
)

func c13AnalyseReleases(c *Ctx, ro *c13Roles, acc *c13OcAcc) *c13RelInfo {
	r, p := c.R, c.P
	info := &c13RelInfo{fns: map[*ssa.Function]bool{}, closed: map[string]bool{}}
	visitedDone := map[ssa.Instruction]bool{}
	var onceBad, causeBad, causeUnknown []string
	nDonePaths := 0
	var unf c13Unf
	var incomplete []string
	var firstPos token.Pos
	locKey := func(x *C13Ctx, addr ssa.Value) string {
		switch a := x.Resolve(addr).(type) {
		case *ssa.Alloc:
			return "cell:" + c13ValueKey(a)
		case *ssa.FieldAddr:
			return "field:" + fieldIDOfAddr(a).String()
		case *ssa.Global:
			return "global:" + a.String()
		}
		return ""
	}
	analyse := func(fn *ssa.Function, binds []ssa.Value) {
		info.fns[fn] = true
		if !firstPos.IsValid() {
			firstPos = fn.Pos()
		}
		leave := func(x *C13Ctx, st uint64, where string) uint64 {
			if st&c13rlDone != 0 && st&c13rlSet == 0 {
				onceBad = append(onceBad, "wg.Done is executed but the released-flag is not set before "+where+": a second call repeats wg.Done (negative WaitGroup counter / writer admitted early)")
				st |= c13rlSet // reported once
			}
			if st&c13rlSet != 0 && st&c13rlGuarded != 0 {
				// this call observed "not released" and set the flag in one hold: it is
				// the unique releasing call, also after the lock is dropped
				return st &^ c13rlGuard
			}
			x.DelFactsWithPrefix("flag:")
			x.DelFactsWithPrefix("ldg:")
			return st &^ (c13rlGuard | c13rlGuarded)
		}
		ex := NewC13Explorer(p)
		ex.ExploreBound(fn, binds, 0, &C13Hooks{
			Instr: func(x *C13Ctx, in ssa.Instruction, st uint64) uint64 {
				switch v := in.(type) {
				case ssa.CallInstruction:
					if _, isGo := in.(*ssa.Go); isGo {
						return st
					}
					if kind, recv, ok := c13LockCallX(ro, x, v); ok && c13LockIs(x, recv, ro.ocGuard) {
						switch kind {
						case opLock:
							return st | c13rlGuard
						case opUnlock:
							return leave(x, st, "the table lock is released at "+p.Pos(instrPos(in)))
						}
						return st
					}
					switch {
					case callIs(v, "sync", "WaitGroup", "Done"):
						visitedDone[in] = true
						if x.InOnce() {
							st |= c13rlGuarded | c13rlSet
						}
						if st&c13rlDone != 0 {
							onceBad = append(onceBad, "wg.Done can run twice on one path (at "+p.Pos(instrPos(in))+")")
						}
						if st&c13rlGuarded == 0 {
							onceBad = append(onceBad, "wg.Done at "+p.Pos(instrPos(in))+" is not guarded by a 'not released yet' test made under the reader-table lock (nor by sync.Once / an atomic swap): the release is not idempotent, wg.Done can run twice (negative WaitGroup counter / writer admitted early)")
						}
						return st | c13rlDone
					case builtinName(v) == "delete" && len(v.Common().Args) > 0 && c13IsField(x, v.Common().Args[0], ro.ocTable):
						return st | c13rlDel
					case builtinName(v) == "close" && len(v.Common().Args) == 1:
						k := c13ChanKey(x, v.Common().Args[0])
						info.closed[k] = true
						if x.HasFact("flag:chan:" + k) {
							st |= c13rlSet
						}
						return st
					}
					if namedKey(v.Common().Value.Type()) == "context.CancelCauseFunc" && !v.Common().IsInvoke() && len(v.Common().Args) == 1 {
						// wg.Done is what lets a waiting writer go: the reader must have been
						// told to stop (its context cancelled) before that signal
						if st&c13rlDone != 0 && st&c13rlCause == 0 {
							causeBad = append(causeBad, "the reader's context is cancelled at "+p.Pos(instrPos(in))+" only after wg.Done has signalled the writer: the writer can be granted while the reader has neither released nor been told to stop")
						}
						if c13FromField(p, x, v.Common().Args[0], ro.ocCause, 0) {
							return st | c13rlCause
						}
						switch a := c13StripConv(x.Resolve(v.Common().Args[0])).(type) {
						case *ssa.Const, *ssa.Global:
							causeBad = append(causeBad, "the reader context is cancelled at "+p.Pos(instrPos(in))+" with "+a.Name()+", not OuterCancel's configured cause")
						default:
							if id, ok := c13FieldOf(nil, a); ok {
								causeBad = append(causeBad, "the reader context is cancelled at "+p.Pos(instrPos(in))+" with the value of "+id.String()+", which is not (a copy of) OuterCancel's configured cause")
							} else {
								causeUnknown = append(causeUnknown, "the cause passed at "+p.Pos(instrPos(in))+" could not be traced")
								return st | c13rlCause
							}
						}
					}
				case *ssa.UnOp:
					// loads made under the current hold of the table lock (a flag read
					// before the lock is a stale copy)
					if v.Op == token.MUL && st&c13rlGuard != 0 {
						x.SetFact("ldg:"+c13ValueKey(v), nil)
					}
				case *ssa.Store:
					// the state location observed under this hold is moved to another state
					if nv, ok := x.Resolve(v.Val).(*ssa.Const); ok && nv.Value != nil {
						if k := locKey(x, v.Addr); k != "" && x.HasFact("flag:"+k) {
							if old, ok := x.Fact("flag:" + k).(*ssa.Const); ok && old != nil && old.Value != nil && !constant.Compare(old.Value, token.EQL, nv.Value) {
								return st | c13rlSet
							}
						}
					}
				}
				return st
			},
			Branch: func(x *C13Ctx, ifi *ssa.If, taken bool, st uint64) uint64 {
				// default edge of a non-blocking select on a channel: "not closed yet"
				if bo, ok := ifi.Cond.(*ssa.BinOp); ok && !taken && bo.Op == token.EQL {
					if exr, ok := bo.X.(*ssa.Extract); ok && exr.Index == 0 {
						if sel, ok := exr.Tuple.(*ssa.Select); ok && !sel.Blocking {
							if k, ok := bo.Y.(*ssa.Const); ok && int(k.Int64()) == len(sel.States)-1 && st&c13rlGuard != 0 {
								for _, s := range sel.States {
									if s.Dir == types.RecvOnly {
										x.SetFact("flag:chan:"+c13ChanKey(x, s.Chan), nil)
										st |= c13rlGuarded
									}
								}
								return st
							}
						}
					}
				}
				cond, pol := c13StripNot(x.Resolve(ifi.Cond), taken)
				cond, pol = c13StripNot(x.Resolve(cond), pol)
				// a state location (bool flag of either polarity, enum) observed in one
				// state under the table lock: "this reader is still registered"
				if bo, ok := cond.(*ssa.BinOp); ok && (bo.Op == token.EQL || bo.Op == token.NEQ) && st&c13rlGuard != 0 {
					eq := (bo.Op == token.EQL) == pol
					for _, pr := range [][2]ssa.Value{{bo.X, bo.Y}, {bo.Y, bo.X}} {
						ld, isLd := x.Resolve(pr[0]).(*ssa.UnOp)
						k, isK := x.Resolve(pr[1]).(*ssa.Const)
						if !isLd || ld.Op != token.MUL || !isK || k.Value == nil || k.IsNil() || !x.HasFact("ldg:"+c13ValueKey(ld)) {
							continue
						}
						if key := locKey(x, ld.X); key != "" && eq {
							x.SetFact("flag:"+key, k)
							return st | c13rlGuarded
						}
					}
				}
				switch v := cond.(type) {
				case *ssa.UnOp:
					if v.Op == token.MUL && c13IsBoolT(v.Type()) && st&c13rlGuard != 0 && x.HasFact("ldg:"+c13ValueKey(v)) {
						if k := locKey(x, v.X); k != "" {
							x.SetFact("flag:"+k, ssa.NewConst(constant.MakeBool(pol), types.Typ[types.Bool]))
							return st | c13rlGuarded
						}
					}
				case *ssa.Call:
					// atomic once-forms
					if callIs(v, "sync/atomic", "Bool", "CompareAndSwap") && pol && len(v.Call.Args) == 3 && c13IsConstBool(x.Resolve(v.Call.Args[1]), false) && c13IsConstBool(x.Resolve(v.Call.Args[2]), true) {
						return st | c13rlGuarded | c13rlSet
					}
					if obj := calleeObj(v); obj != nil && obj.Pkg() != nil && obj.Pkg().Path() == "sync/atomic" && strings.HasPrefix(obj.Name(), "CompareAndSwap") && pol {
						// any compare-and-swap that succeeded: exactly one caller gets here per transition
						return st | c13rlGuarded | c13rlSet
					}
					if callIs(v, "sync/atomic", "Bool", "Swap") && !pol && len(v.Call.Args) == 2 && c13IsConstBool(x.Resolve(v.Call.Args[1]), true) {
						return st | c13rlGuarded | c13rlSet
					}
				}
				return st
			},
			Return: func(x *C13Ctx, ret *ssa.Return, _ []ssa.Value, st uint64) {
				st = leave(x, st, "the return at "+p.Pos(instrPos(ret)))
				if st&c13rlDone == 0 {
					return
				}
				nDonePaths++
				if st&c13rlDel == 0 {
					onceBad = append(onceBad, "the reader's entry in "+ro.ocTable.String()+" is not removed on the releasing path (return at "+p.Pos(instrPos(ret))+")")
				}
				if st&c13rlCause == 0 {
					causeBad = append(causeBad, "the releasing path (return at "+p.Pos(instrPos(ret))+") does not cancel the reader's context with the configured cause "+ro.ocCause.String())
				}
			},
			Unfollowed: func(x *C13Ctx, call ssa.CallInstruction, st uint64) {
				if namedKey(call.Common().Value.Type()) != "context.CancelCauseFunc" {
					unf.add(p, call)
				}
			},
			Opaque: func(fn *ssa.Function) bool {
				return fn.Signature.Recv() != nil && ro.isLockType(fn.Signature.Recv().Type())
			},
		})
		incomplete = append(incomplete, ex.Incomplete...)
	}
	var cands []*ssa.Function
	for fn := range acc.releases {
		cands = append(cands, fn)
	}
	sort.Slice(cands, func(i, j int) bool { return FuncName(p, cands[i]) < FuncName(p, cands[j]) })
	for _, fn := range cands {
		analyse(fn, acc.releases[fn])
	}
	// wg.Done on OuterCancel's WaitGroup anywhere else
	for _, fn := range ro.pkgFuncs(ro.oc) {
		if acc.noStray {
			break
		}
		stray := false
		allInstrs(fn, func(in ssa.Instruction) {
			if ci, ok := in.(ssa.CallInstruction); ok && callIs(ci, "sync", "WaitGroup", "Done") && !visitedDone[in] && len(ci.Common().Args) > 0 {
				if id, ok := c13FieldOf(nil, ci.Common().Args[0]); !ok || id == ro.ocWG {
					stray = true
				}
			}
		})
		if stray && !info.fns[fn] {
			if c13IsEntry(p, c.Locks(), fn) {
				analyse(fn, nil)
			} else {
				unf.list = append(unf.list, "a wg.Done in "+FuncName(p, fn)+" is not reached by the analysis of the reader release")
			}
		}
	}
	canon := "concurrency/lock.OuterCancel hold "
	if len(info.fns) == 0 || nDonePaths == 0 {
		r.Undecide("OuterCancel: the reader release function (stored in the reader response, doing wg.Done) was not found (%s)", strings.Join(append(append(acc.unresolved, unf.list...), incomplete...), "; "))
		return info
	}
	if (len(onceBad) > 0 || len(causeBad) > 0) && (len(unf.list) > 0 || len(incomplete) > 0) {
		r.Undecide("OuterCancel reader release: %s — but calls could not be followed: %s", c13FirstOr(append(onceBad, causeBad...), ""), strings.Join(append(unf.list, incomplete...), "; "))
		return info
	}
	r.Check(len(onceBad) == 0, "C13.OC-outercancel", canon+"release once", p.Pos(firstPos),
		"wg.Done and the removal of the table entry happen at most once per reader (once-guard set in the same critical section)", c13FirstOr(onceBad, ""), c13Uniq(c13Sorted(onceBad))...)
	if len(causeBad) == 0 && len(causeUnknown) > 0 {
		r.Undecide("OuterCancel reader release: %s", strings.Join(c13Uniq(c13Sorted(causeUnknown)), "; "))
		return info
	}
	r.Check(len(causeBad) == 0, "C13.OC-outercancel", canon+"release cause", p.Pos(firstPos),
		"reader context cancelled with OuterCancel's configured cause", c13FirstOr(causeBad, ""), c13Uniq(c13Sorted(causeBad))...)
	return info
}

func c13AnalyseGrace(c *Ctx, ro *c13Roles, acc *c13OcAcc, rel *c13RelInfo) {
	r, p := c.R, c.P
	closeCh := c13ChanID(ro.ocClose)
	var bad, unknown []string
	nCancel := 0
	var incomplete []string
	var unf c13Unf
	var firstPos token.Pos
	const gWaited = 1
	isGraceArg := func(x *C13Ctx, call *ssa.Call) bool {
		return len(call.Call.Args) == 1 && c13FromField(p, x, call.Call.Args[0], ro.ocGrace, 0)
	}
	// timerOf: v is the channel of a timer; returns the call that started it
	timerOf := func(x *C13Ctx, v ssa.Value) *ssa.Call {
		v = c13StripConv(x.Resolve(v))
		if call, ok := v.(*ssa.Call); ok && callIs(call, "time", "", "After") {
			return call
		}
		if u, ok := v.(*ssa.UnOp); ok && u.Op == token.MUL {
			if fa, ok := x.Resolve(u.X).(*ssa.FieldAddr); ok && namedKey(fa.X.Type()) == "time.Timer" {
				if call, ok := c13StripConv(x.Resolve(fa.X)).(*ssa.Call); ok && callIs(call, "time", "", "NewTimer") {
					return call
				}
			}
			// a timer channel (or timer) kept in a struct field: every store to the
			// field is a time.After / time.NewTimer made elsewhere
			if fa, ok := x.Resolve(u.X).(*ssa.FieldAddr); ok {
				id := fieldIDOfAddr(fa)
				var found *ssa.Call
				all := true
				for _, fn := range p.Funcs {
					allInstrs(fn, func(in ssa.Instruction) {
						st, ok := in.(*ssa.Store)
						if !ok {
							return
						}
						sfa, ok := st.Addr.(*ssa.FieldAddr)
						if !ok || fieldIDOfAddr(sfa) != id {
							return
						}
						if call, ok := c13StripConv(st.Val).(*ssa.Call); ok && (callIs(call, "time", "", "After") || callIs(call, "time", "", "NewTimer")) {
							found = call
						} else {
							all = false
						}
					})
				}
				if found != nil && all {
					return found
				}
			}
		}
		return nil
	}
	var cands []*ssa.Function
	for fn := range acc.graces {
		cands = append(cands, fn)
	}
	sort.Slice(cands, func(i, j int) bool { return FuncName(p, cands[i]) < FuncName(p, cands[j]) })
	for _, fn := range cands {
		if !firstPos.IsValid() {
			firstPos = fn.Pos()
		}
		cancelEvent := func(x *C13Ctx, st uint64, in ssa.Instruction, what string) {
			nCancel++
			if st&gWaited == 0 {
				bad = append(bad, "the function registered in the reader table reaches "+what+" at "+p.Pos(instrPos(in))+" without first waiting on {time.After(gracefulTimeout) started there, shutdown channel, channel closed by the reader's release}")
			}
		}
		ex := NewC13Explorer(p)
		ex.ExploreBound(fn, acc.graces[fn], 0, &C13Hooks{
			Instr: func(x *C13Ctx, in ssa.Instruction, st uint64) uint64 {
				switch v := in.(type) {
				case *ssa.Call:
					if callIs(v, "time", "", "After") || callIs(v, "time", "", "NewTimer") {
						x.MarkExecuted(v)
						return st
					}
					if callIs(v, "sync", "WaitGroup", "Done") {
						cancelEvent(x, st, in, "wg.Done")
						return st
					}
					if namedKey(v.Call.Value.Type()) == "context.CancelCauseFunc" {
						cancelEvent(x, st, in, "the cancellation of the reader's context")
						return st
					}
					if t := x.FuncTarget(v.Call.Value); t != nil && rel.fns[t] {
						cancelEvent(x, st, in, "the reader release")
					}
				case *ssa.Select:
					if !v.Blocking {
						return st
					}
					hasClose, hasDone, hasAfter := false, false, false
					for _, s := range v.States {
						if s.Dir != types.RecvOnly {
							continue
						}
						k := c13ChanKey(x, s.Chan)
						switch {
						case k == closeCh:
							hasClose = true
						case rel.closed[k]:
							hasDone = true
						default:
							if call := timerOf(x, s.Chan); call != nil {
								switch {
								case !isGraceArg(x, call):
									bad = append(bad, "the grace wait at "+p.Pos(v.Pos())+" uses a timer that is not set to "+ro.ocGrace.String())
								case !x.Executed(call):
									bad = append(bad, "the grace timer waited for at "+p.Pos(v.Pos())+" is started at "+p.Pos(call.Pos())+", before the writer's request runs this function: the reader can be cancelled before the grace period")
								default:
									hasAfter = true
								}
							} else if !strings.HasPrefix(chanIdent(c13StripConv(x.Resolve(s.Chan))), "done:") {
								unknown = append(unknown, "case on unrecognised channel "+k+" at "+p.Pos(v.Pos()))
							}
						}
					}
					if hasClose && hasDone && hasAfter {
						return st | gWaited
					}
				}
				return st
			},
			Unfollowed: func(x *C13Ctx, call ssa.CallInstruction, st uint64) {
				if namedKey(call.Common().Value.Type()) != "context.CancelCauseFunc" {
					unf.add(p, call)
				}
			},
			Opaque: func(fn *ssa.Function) bool {
				return fn.Signature.Recv() != nil && ro.isLockType(fn.Signature.Recv().Type())
			},
		})
		incomplete = append(incomplete, ex.Incomplete...)
	}
	why := strings.Join(append(append(append(acc.unresolved, unf.list...), incomplete...), unknown...), "; ")
	if len(cands) == 0 || nCancel == 0 {
		r.Undecide("OuterCancel: the function registered in the reader table (reaching the reader's cancellation) was not found (%s)", why)
		return
	}
	if len(bad) > 0 && len(unknown) > 0 && !strings.Contains(strings.Join(bad, " "), "before the writer's request") {
		// a wait exists but on a channel whose role is not recognised
		r.Undecide("OuterCancel: grace wait not recognised (%s)", why)
		return
	}
	if len(bad) > 0 && (len(unf.list) > 0 || len(incomplete) > 0) {
		r.Undecide("OuterCancel: %s — but calls could not be followed: %s", bad[0], why)
		return
	}
	r.Check(len(bad) == 0, "C13.OC-outercancel", "concurrency/lock.OuterCancel hold grace wait", p.Pos(firstPos),
		"reader cancelled by a writer only after gracefulTimeout, shutdown or its own release", c13FirstOr(bad, ""), c13Uniq(c13Sorted(bad))...)
	_ = fmt.Sprint
}

// c13VarArgs lists the arguments of a call, expanding a variadic slice
// literal built at the call site (new [n]T; &t[i] = v; slice).
func c13VarArgs(call *ssa.Call) []ssa.Value {
	var out []ssa.Value
	for _, a := range call.Call.Args {
		if sl, ok := a.(*ssa.Slice); ok {
			if arr, ok := sl.X.(*ssa.Alloc); ok {
				found := false
				for _, r := range refs(arr) {
					if ia, ok := r.(*ssa.IndexAddr); ok {
						for _, rr := range refs(ia) {
							if st, ok := rr.(*ssa.Store); ok && st.Addr == ssa.Value(ia) {
								out = append(out, st.Val)
								found = true
							}
						}
					}
				}
				if found {
					continue
				}
			}
		}
		out = append(out, a)
	}
	return out
}

// c13CheckRequesters: in every exported method that hands a request to the
// loop, once the hand-over succeeded each return is preceded by the receive of
// the reply (or by the shutdown case): a requester that gives up after the
// hand-over leaves a granted hold nobody owns (an acquisition that reports an
// error would hold something).
func c13CheckRequesters(c *Ctx, ro *c13Roles) {
	c13CheckRequestersNamed(c, ro, func(m *types.Func, fn *ssa.Function) string { return "concurrency/lock.OuterCancel." + m.Name() })
}

// c13CheckRequestersNamed: name gives the construct prefix of a requester (the
// fixture uses the function's own name).
func c13CheckRequestersNamed(c *Ctx, ro *c13Roles, name func(m *types.Func, fn *ssa.Function) string) {
	r, p := c.R, c.P
	req, reply, closeCh := c13ChanID(ro.ocReq), c13ChanID(ro.holdResp), c13ChanID(ro.ocClose)
	const (
		handed = 1 << iota
		replied
		closed
	)
	n := 0
	for i := 0; i < ro.oc.NumMethods(); i++ {
		m := ro.oc.Method(i)
		if !m.Exported() || m.Name() == "Run" {
			continue
		}
		fn := origin(p.SSA.FuncValue(m))
		if fn == nil || len(fn.Blocks) == 0 {
			continue
		}
		var bad []string
		var unf c13Unf
		sends := 0
		// a requester that is given a context must be able to give up while it
		// waits to hand its request over: that wait is a select which also has
		// the Done channel of the context parameter
		var ctxParam *ssa.Parameter
		for _, pa := range fn.Params {
			if namedKey(pa.Type()) == "context.Context" {
				ctxParam = pa
			}
		}
		var handBad, handUnknown []string
		handOver := func(x *C13Ctx, in ssa.Instruction, sel *ssa.Select) {
			if ctxParam == nil {
				return
			}
			if sel != nil {
				for _, s := range sel.States {
					if s.Dir != types.RecvOnly {
						continue
					}
					call, ok := c13StripConv(x.Resolve(s.Chan)).(*ssa.Call)
					if !ok || !call.Call.IsInvoke() || call.Call.Method == nil || call.Call.Method.Name() != "Done" || namedKey(call.Call.Value.Type()) != "context.Context" {
						continue
					}
					if c13StripConv(x.Resolve(call.Call.Value)) == ssa.Value(ctxParam) {
						return
					}
					handUnknown = append(handUnknown, "the context whose Done channel is waited for at "+p.Pos(instrPos(in))+" could not be traced to the context parameter")
					return
				}
			}
			handBad = append(handBad, "the request is handed to the loop at "+p.Pos(instrPos(in))+" by a wait that does not also watch the Done channel of the context parameter: a caller blocked there keeps waiting after its context ended")
		}
		ex := NewC13Explorer(p)
		ex.Explore(fn, 0, &C13Hooks{
			Instr: func(x *C13Ctx, in ssa.Instruction, st uint64) uint64 {
				switch v := in.(type) {
				case *ssa.Send:
					if c13ChanKey(x, v.Chan) == req {
						sends++
						handOver(x, in, nil)
						return st | handed
					}
				case *ssa.UnOp:
					if v.Op == token.ARROW && c13ChanKey(x, v.X) == reply {
						return st | replied
					}
				case *ssa.Go:
					// the reply is collected (and the grant undone) by a helper goroutine
					if t, binds := x.FuncTargetBinds(v.Call.Value); t != nil && st&handed != 0 && c13ReceivesFrom(p, t, binds, reply) {
						return st | replied
					}
				}
				return st
			},
			Branch: func(x *C13Ctx, ifi *ssa.If, taken bool, st uint64) uint64 {
				if sel, k, ok := C13SelectFired(ifi, taken); ok {
					s := sel.States[k]
					switch key := c13ChanKey(x, s.Chan); {
					case key == req && s.Dir == types.SendOnly:
						sends++
						handOver(x, ifi, sel)
						return st | handed
					case key == reply && s.Dir == types.RecvOnly:
						return st | replied
					case key == closeCh && s.Dir == types.RecvOnly:
						return st | closed
					}
				}
				return st
			},
			Return: func(x *C13Ctx, ret *ssa.Return, _ []ssa.Value, st uint64) {
				if st&handed != 0 && st&(replied|closed) == 0 {
					bad = append(bad, "return at "+p.Pos(instrPos(ret))+" after the request was handed to the loop, without having received the reply (the loop may have granted the hold meanwhile)")
				}
			},
			Unfollowed: func(x *C13Ctx, call ssa.CallInstruction, st uint64) {
				if st&handed != 0 {
					unf.add(p, call)
				}
			},
			Opaque: func(fn *ssa.Function) bool {
				return fn.Signature.Recv() != nil && ro.isLockType(fn.Signature.Recv().Type())
			},
		})
		if sends == 0 {
			continue
		}
		n++
		if ctxParam != nil {
			hc := name(m, fn) + " cancellable hand-over"
			switch {
			case len(handBad) > 0 && (len(unf.list) > 0 || len(ex.Incomplete) > 0):
				r.Undecide("%s: %s — but calls could not be followed", hc, handBad[0])
			case len(handBad) == 0 && len(handUnknown) > 0:
				r.Undecide("%s: %s", hc, handUnknown[0])
			default:
				r.Check(len(handBad) == 0, "C13.OC-outercancel", hc, p.Pos(fn.Pos()),
					"the wait that hands the request to the loop also watches the Done channel of the context parameter",
					"a waiter whose context ends does not stop waiting: "+c13FirstOr(handBad, ""), c13Uniq(c13Sorted(handBad))...)
			}
		}
		construct := name(m, fn) + " collects the reply"
		if len(bad) > 0 && (len(unf.list) > 0 || len(ex.Incomplete) > 0) {
			r.Undecide("%s: %s — but calls could not be followed: %s", construct, bad[0], strings.Join(append(unf.list, ex.Incomplete...), "; "))
			continue
		}
		r.Check(len(bad) == 0, "C13.OC-outercancel", construct, p.Pos(fn.Pos()),
			"after the hand-over every return is preceded by the receive of the reply (or the shutdown case)",
			"the requester can give up after its request was handed to the loop: the loop may admit it (reader counted in and registered, reply parked in the channel) while the caller is told it failed, so an acquisition that reports an error holds something nobody will release", c13Uniq(c13Sorted(bad))...)
	}
	if n == 0 {
		r.Undecide("OuterCancel: no exported method hands a request to %s (requester side not resolved)", ro.ocReq)
	}
}

// c13ReceivesFrom: every path of fn receives from the channel key.
func c13ReceivesFrom(p *Prog, fn *ssa.Function, binds []ssa.Value, key string) bool {
	okAll, n := true, 0
	ex := NewC13Explorer(p)
	ex.ExploreBound(fn, binds, 0, &C13Hooks{
		Instr: func(x *C13Ctx, in ssa.Instruction, st uint64) uint64 {
			if u, ok := in.(*ssa.UnOp); ok && u.Op == token.ARROW && c13ChanKey(x, u.X) == key {
				return st | 1
			}
			return st
		},
		Branch: func(x *C13Ctx, ifi *ssa.If, taken bool, st uint64) uint64 {
			if sel, k, ok := C13SelectFired(ifi, taken); ok && sel.States[k].Dir == types.RecvOnly && c13ChanKey(x, sel.States[k].Chan) == key {
				return st | 1
			}
			return st
		},
		Return: func(x *C13Ctx, ret *ssa.Return, _ []ssa.Value, st uint64) {
			n++
			if st&1 == 0 {
				okAll = false
			}
		},
	})
	return okAll && n > 0 && len(ex.Incomplete) == 0
}

// c13RangeYields: the loop over rg sits in an iterator of the module (a
// function handed a yield function) and hands every ranged value to the yield
// function, which on this path is a loop body that invokes what it is given.
func c13RangeYields(ro *c13Roles, x *C13Ctx, rg *ssa.Range) bool {
	for _, r := range refs(rg) {
		nx, ok := r.(*ssa.Next)
		if !ok {
			continue
		}
		for _, r2 := range refs(nx) {
			ex, ok := r2.(*ssa.Extract)
			if !ok || ex.Index == 0 {
				continue
			}
			for _, r3 := range refs(ex) {
				call, ok := r3.(*ssa.Call)
				if !ok || call.Call.IsInvoke() {
					continue
				}
				isArg := false
				for _, a := range call.Call.Args {
					if a == ssa.Value(ex) {
						isArg = true
					}
				}
				if !isArg {
					continue
				}
				if fn := x.FuncTarget(call.Call.Value); fn != nil && c13YieldInvokes(ro, fn) {
					return true
				}
			}
		}
	}
	return false
}

// c13FromCollection: v is the table field, or a collection / iterator the
// standard library (maps, slices) derived from it (maps.Values(t),
// slices.Collect(maps.Values(t)), slices.Sorted(maps.Keys(t)) ...).
func c13FromCollection(x *C13Ctx, v ssa.Value, table FieldID, depth int) bool {
	if depth > 4 {
		return false
	}
	if c13IsField(x, v, table) {
		return true
	}
	call, ok := c13StripConv(x.Resolve(v)).(*ssa.Call)
	if !ok {
		return false
	}
	obj := calleeObj(call)
	if obj == nil || obj.Pkg() == nil || (obj.Pkg().Path() != "maps" && obj.Pkg().Path() != "slices") {
		return false
	}
	for _, a := range call.Call.Args {
		if c13FromCollection(x, a, table, depth+1) {
			return true
		}
	}
	return false
}

// c13ReleaseFixture runs the reader-release rules on fixtures/c13rel: every
// Good*/Bad* method of the fixture's reader type is examined as a release function.
func c13ReleaseFixture(fp *Prog, fr *Report) {
	oc := fp.Named("", "owner")
	rd := fp.Named("", "reader")
	ro := &c13Roles{p: fp, oc: oc}
	ro.ocGuard, ro.ocTable, ro.ocWG, ro.ocCause = c13Fid(oc, "mu"), c13Fid(oc, "table"), c13Fid(oc, "wg"), c13Fid(oc, "cause")
	for i := 0; i < rd.NumMethods(); i++ {
		m := rd.Method(i)
		lower := strings.ToLower(m.Name())
		if !strings.HasPrefix(lower, "good") && !strings.HasPrefix(lower, "bad") {
			continue
		}
		fn := origin(fp.SSA.FuncValue(m))
		sub := NewReport("fixture:c13rel:"+m.Name(), fr.Tier)
		acc := &c13OcAcc{releases: map[*ssa.Function][]ssa.Value{fn: nil}, graces: map[*ssa.Function][]ssa.Value{}, noStray: true}
		c13AnalyseReleases(&Ctx{P: fp, R: sub}, ro, acc)
		var bad []string
		for _, o := range sub.Obs {
			if o.Status == StViolation {
				bad = append(bad, o.Message)
			}
		}
		bad = append(bad, sub.Undecided...)
		fr.Check(len(bad) == 0, "release", FuncName(fp, fn), fp.Pos(fn.Pos()), "clean", "release rule broken", bad...)
	}
}

// c13RequesterFixture runs the requester rules on fixtures/c13req.
func c13RequesterFixture(fp *Prog, fr *Report) {
	oc := fp.Named("", "Owner")
	hold := fp.Named("", "request")
	ro := &c13Roles{p: fp, oc: oc, hold: hold}
	ro.ocReq, ro.ocClose, ro.holdResp = c13Fid(oc, "req"), c13Fid(oc, "closed"), c13Fid(hold, "reply")
	sub := NewReport("fixture:c13req", fr.Tier)
	c13CheckRequestersNamed(&Ctx{P: fp, R: sub}, ro, func(m *types.Func, fn *ssa.Function) string { return FuncName(fp, fn) })
	for _, o := range sub.Obs {
		fn := strings.SplitN(o.Construct, " ", 2)[0]
		if o.Status == StViolation {
			fr.Violation("requester", fn, o.Pos, o.Message, o.Witness...)
		} else {
			fr.OK("requester", fn, o.Pos, o.Message)
		}
	}
	for _, u := range sub.Undecided {
		fr.Undecide("%s", u)
	}
}
