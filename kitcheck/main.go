// kitcheck: repository-specific static checks for dapr/kit properties C01–C20.
// It type-checks /repo's current working tree, lowers it to SSA and decides
// structural necessary conditions of each property. It never runs dapr/kit code.
package main

import (
	"encoding/json"
	"flag"
	"fmt"
	"os"
	"path/filepath"
	"runtime/debug"
	"sort"
	"strings"
	"time"

	"golang.org/x/tools/go/ssa"
)

const kitMod = "github.com/dapr/kit"

// Ctx is what a property check receives.
type Ctx struct {
	P        *Prog
	R        *Report
	Tier     string
	VerifDir string
	locks    *LockEngine
	fixtures []string
}

// Locks returns the (lazily computed) lockset engine for the repo program.
func (c *Ctx) Locks() *LockEngine {
	if c.locks == nil {
		c.locks = newKitLockEngine(c.P)
		c.locks.Run()
	}
	return c.locks
}

func newKitLockEngine(p *Prog) *LockEngine {
	e := NewLockEngine(p)
	e.ExtraLockTypes[p.ModPath+"/concurrency/fifo.Mutex"] = true
	return e
}

type propFunc func(c *Ctx)

var props = map[string]propFunc{}

func register(id string, f propFunc) { props[id] = f }

// Fixture loads kitcheck/fixtures/<name>, runs rule(fp, fr) on it and checks
// that every function whose name starts with Bad/bad is reported and every
// function whose name starts with Good/good is not. Failures make the whole
// check UNDECIDED (checker-dead), never a violation of /repo.
func (c *Ctx) Fixture(name string, rule func(fp *Prog, fr *Report)) {
	dir := filepath.Join(c.VerifDir, "kitcheck")
	mod := "kitcheck/fixtures/" + name
	fp, err := Load(dir, mod, "", "./fixtures/"+name)
	if err != nil {
		c.R.Undecide("fixture %s failed to load: %v", name, err)
		return
	}
	fr := NewReport("fixture:"+name, c.Tier)
	func() {
		defer func() {
			if x := recover(); x != nil {
				if u, ok := x.(*UndecidedError); ok {
					c.R.Undecide("fixture %s: %s", name, u.Reason)
					return
				}
				c.R.Undecide("fixture %s: analyzer panic: %v", name, x)
			}
		}()
		rule(fp, fr)
	}()
	flagged := func(fname string) bool {
		for _, o := range fr.Obs {
			if o.Status == StViolation && (strings.HasPrefix(o.Construct, fname+" ") || o.Construct == fname || strings.HasPrefix(o.Construct, fname+"$") || strings.Contains(o.Construct, " "+fname+" ") || strings.HasSuffix(o.Construct, " "+fname)) {
				return true
			}
		}
		return false
	}
	nBad, nGood := 0, 0
	for _, fn := range fp.Funcs {
		if fn.Parent() != nil || fn.Name() == "init" {
			continue
		}
		full := FuncName(fp, fn)
		base := fn.Name()
		lower := strings.ToLower(base)
		switch {
		case strings.HasPrefix(lower, "bad"):
			nBad++
			if !flagged(full) {
				c.R.Undecide("checker-dead: fixture %s: %s should be reported and is not", name, full)
			}
		case strings.HasPrefix(lower, "good"):
			nGood++
			if flagged(full) {
				c.R.Undecide("checker-dead: fixture %s: %s is clean and was reported", name, full)
			}
		}
	}
	if nBad == 0 {
		c.R.Undecide("fixture %s has no positive example", name)
	}
	c.fixtures = append(c.fixtures, fmt.Sprintf("%s: %d violating examples flagged, %d clean examples silent", name, nBad, nGood))
}

func main() {
	prop := flag.String("prop", "", "property id (C01..C20)")
	tier := flag.String("tier", "quick", "quick|thorough")
	repo := flag.String("repo", "/repo", "repository to analyse")
	verif := flag.String("verif", "", "verif directory (default: parent of the executable's directory)")
	explain := flag.String("explain", "", "replay file to explain")
	list := flag.Bool("list", false, "list properties")
	flag.Parse()
	if *verif == "" {
		exe, _ := os.Executable()
		*verif = filepath.Dir(filepath.Dir(exe))
	}
	if *list {
		var ids []string
		for id := range props {
			ids = append(ids, id)
		}
		sort.Strings(ids)
		fmt.Println(strings.Join(ids, " "))
		return
	}
	if env := os.Getenv("VERIF_TIER"); env != "" && !flagSet("tier") {
		*tier = env
	}
	if *explain != "" {
		os.Exit(doExplain(*explain, *repo, *verif))
	}
	f, ok := props[*prop]
	if !ok {
		fmt.Fprintf(os.Stderr, "unknown property %q\n", *prop)
		os.Exit(2)
	}
	os.Exit(runProp(*prop, f, *tier, *repo, *verif))
}

func flagSet(name string) bool {
	set := false
	flag.Visit(func(f *flag.Flag) {
		if f.Name == name {
			set = true
		}
	})
	return set
}

func runProp(id string, f propFunc, tier, repo, verif string) int {
	start := time.Now()
	r := NewReport(id, tier)
	tagSets := []string{"unit"}
	if tier == "thorough" {
		tagSets = []string{"unit", ""}
	}
	var stats []map[string]any
	var fixtures []string
	for i, tags := range tagSets {
		var p *Prog
		func() {
			defer func() {
				if x := recover(); x != nil {
					if u, ok := x.(*UndecidedError); ok {
						r.Undecide("%s", u.Reason)
						return
					}
					r.Undecide("analyzer panic: %v\n%s", x, debug.Stack())
				}
			}()
			var err error
			p, err = Load(repo, kitMod, tags)
			if err != nil {
				r.Undecide("%v", err)
				return
			}
			c := &Ctx{P: p, R: r, Tier: tier, VerifDir: verif}
			if i > 0 {
				// second tag set: same rules, obligations merge by key
				c.R = r
			}
			f(c)
			sharedLockBalance(id, c)
			fixtures = append(fixtures, c.fixtures...)
		}()
		if p != nil {
			nIn := 0
			for _, fn := range p.Funcs {
				allInstrs(fn, func(ssa.Instruction) { nIn++ })
			}
			stats = append(stats, map[string]any{"build_tags": tags, "packages": len(p.Pkgs), "packages_total": len(p.All), "functions_analysed": len(p.Funcs), "ssa_instructions": nIn})
		}
	}
	extra := map[string]any{"loads": stats, "fixtures": fixtures,
		"checker_cmd":  fmt.Sprintf("./bin/kitcheck -prop %s -tier %s", id, tier),
		"trusted_base": []string{"go/types and go/ssa of golang.org/x/tools v0.29.0", "the rule tables in kitcheck/prop_" + strings.ToLower(id) + ".go", "documented contracts of the standard library functions named in the rules"}}
	if tier == "thorough" && os.Getenv("KITCHECK_NO_SELFTEST") == "" {
		for k, v := range runSelfTest(id, repo, verif) {
			extra[k] = v
		}
	}
	return r.Finish(verif, start, extra)
}

func doExplain(path, repo, verif string) int {
	if !filepath.IsAbs(path) {
		path = filepath.Join(verif, path)
	}
	b, err := os.ReadFile(path)
	if err != nil {
		fmt.Fprintln(os.Stderr, err)
		return 2
	}
	var rep struct {
		Property  string   `json:"property"`
		Rule      string   `json:"rule"`
		RuleText  string   `json:"rule_text"`
		Construct string   `json:"construct"`
		Position  string   `json:"position"`
		Message   string   `json:"message"`
		Witness   []string `json:"witness"`
	}
	if err := json.Unmarshal(b, &rep); err != nil {
		fmt.Fprintln(os.Stderr, err)
		return 2
	}
	fmt.Printf("property  %s\nrule      %s — %s\nconstruct %s\nposition  %s\nmessage   %s\n", rep.Property, rep.Rule, rep.RuleText, rep.Construct, rep.Position, rep.Message)
	for _, w := range rep.Witness {
		fmt.Println("  witness: " + w)
	}
	// re-run the property on the current tree and report whether this rule
	// instance still fires
	f, ok := props[rep.Property]
	if !ok {
		return 2
	}
	p, err := Load(repo, kitMod, "unit")
	if err != nil {
		fmt.Println("UNDECIDED:", err)
		return 2
	}
	r := NewReport(rep.Property, "quick")
	func() {
		defer func() { recover() }()
		f(&Ctx{P: p, R: r, Tier: "quick", VerifDir: verif})
	}()
	for _, o := range r.Obs {
		if o.Rule == rep.Rule && o.Construct == rep.Construct {
			fmt.Printf("on the current tree: %s — %s\n", o.Status, o.Message)
			for _, w := range o.Witness {
				fmt.Println("  witness: " + w)
			}
			if o.Status == StViolation {
				return 1
			}
			return 0
		}
	}
	fmt.Println("on the current tree: this rule instance is no longer generated")
	return 0
}
