package main

import (
	"fmt"
	"go/token"
	"go/types"
	"sort"
	"strings"

	"golang.org/x/tools/go/ssa"
)

// C09 — coalescing rate limiter.
//
// Constructs are resolved by role (c09roles.go); the rules are evaluated on a
// path-sensitive exploration of Run / Add / Close / the goroutine bodies in
// which same-package callees are followed (c09flow.go, c09acct.go), so that
// extracting or inlining helpers, closure<->method, if<->switch, guard
// inversion, defer<->explicit call, renames and temporaries do not change the
// verdict.

func init() { register("C09", checkC09) }

func checkC09(c *Ctx) {
	r := c.R
	r.Explanation = "Decides structural necessary conditions of C09 on the limiter type that NewCoalescing builds (events/ratelimiting). The type, its Run/Add/Close and its fields are resolved by role (exported anchors, types, dataflow; fields also through grouped sub-structs held by value, pointer or embedding), unexported names only as a reported fallback. Every rule is evaluated on a path-sensitive exploration (one abstract state per path, deferred calls replayed) of Run, Add, Close, the other exported methods and every goroutine body (in the context of its go statement), with same-package callees followed as if inlined: static calls, closures, method values, func-typed fields assigned one function, single-implementation interfaces, closures handed to library functions, literal tables of steps (counted loops unrolled); constant/flag/enum/tuple results of helpers and flags written to captured variables stay correlated with the caller's branches. (L1) pending counter/timer/current window/back-off factor only under the limiter's lock (W for writes); (L2) no wg.Wait while holding a lock that a goroutine counted in the wait group needs to terminate — the Close/Run deadlock; (L3) signals never exceed Adds: a signal (goroutine sending on Run's event channel, at most one send per goroutine) is started only for a pending count known positive that is zeroed in the same write-lock section; (L4) every go statement is preceded by wg.Add on every path, every wg.Add is followed by its go statement or the function's own Done, every goroutine body reaches wg.Done on every exit, Close reaches wg.Wait on every path; (L6) Add counts the event and starts the token goroutine (blocking send on the token channel) in one write-lock section on every path that is not the closed early-return; (L7) the pending count is never zeroed unless a signal is started for it or it is known zero (no counted Add dropped); at a window expiry the pending events are fired; with no window open the token fires immediately, arms a timer of the initial delay and sets the window flag; reaching the cap fires immediately without re-arming or growing the open window, and the cap test is a >= (Add counts independently of the run loop, so == or a strict > misses counts that reach or pass the cap between two token handlings); (L8) timer.Reset only after Stop with the channel drained when Stop reported false; (L9) the back-off factor grows only under a strict current<max test and the current window is clamped to max before it is used or the lock released; (L10) the expiry section restores the idle state (current=initial, factor=1, flag=false, timer=nil); (L11) every signalling goroutine waits on a context derived in Run (not the caller's) and Run cancels it on every return. (L12) every wg.Add is made under the lock after the closed flag was found false in the same section (Close sets the flag, passes the lock as a barrier, then waits), or while the running entry point holds its own count. Shutdown cases in helper goroutines (L5) are reported as NOTE only. UNDECIDED when a role cannot be resolved, the run loop selects on a timer channel carried over from a previous iteration (freshness of a cached channel is not decided), a call inside the explored code cannot be followed (then would-be violations of that exploration are not reported as such), a store/comparison has an unrecognised shape, or a bound is exceeded. NOT decided: the window/back-off timeline values, 'first Add immediate', 'every Add followed by a signal in time' and 'no Add lost' over all interleavings."
	r.Assumptions = append(r.Assumptions, "type-based lock identity (one limiter instance per receiver)", "the event channel is the channel parameter of the exported Run, followed through calls, closures and go statements", "the pending counter is only ever incremented by one or zeroed (checked), hence never negative", "bounds: call depth 12, 2048 abstract states per block, 16 tracked reads of the pending counter, loop unrolling only for counted loops over literal tables, 4 remembered call results / 3 local flags / first 2 results of a helper per path")
	r.Rule("C09.L1-guard", "window state only under the limiter lock (W for writes)", 5)
	r.Rule("C09.L2-wait-under-lock", "wg.Wait is not called holding a lock a counted goroutine needs", 1)
	r.Rule("C09.L3-signals-le-adds", "a signal is started only for a positive pending count that is zeroed in the same write-lock section", 1)
	r.Rule("C09.L4-tracked", "goroutines tracked by wg; Close waits on every path", 3)
	r.Rule("C09.L6-add", "Add increments the pending count and hands a token to the loop in one write-lock section", 1)
	r.Rule("C09.L8-timer-rearm", "the window timer is re-armed (Reset) only after Stop, draining its channel when Stop reports it already fired", 1)
	r.Rule("C09.L9-backoff-bounded", "the back-off factor grows only under current < max (strict) and the current window is clamped to max", 1)
	r.Rule("C09.L10-reset-idle", "the expiry path restores the whole idle state: current=initial, factor=1, window flag=false, timer=nil (pending count 0 by L7)", 1)
	r.Rule("C09.L11-run-context", "signalling goroutines wait on the context derived in Run that Close cancels, not the caller's", 2)
	r.Rule("C09.L12-add-registered", "every wg.Add is made under the write lock after the closed flag was found false in that section, or while the running entry point holds its own count", 2)
	r.Rule("C09.L7-handlers", "pending count never dropped; expiry fires; first token fires immediately and opens initialDelay window; cap fires immediately", 4)

	k := c09Resolve(c)
	p, e := k.p, k.e
	for _, n := range k.roleNote {
		r.Note("C09 roles: %s", n)
	}
	r.Stats["roles"] = map[string]string{"type": k.tkey, "lock": k.fLock, "wg": k.fWG, "timer": k.fTimer, "windowFlag": k.fFlag, "pending": k.fPend, "current": k.fCur, "backoff": k.fBackoff, "initial": k.fInit, "max": k.fMax, "cap": k.fCap, "token": k.fInput, "shutdown": k.fCloseCh, "closed": k.fClosed}

	// L1
	var specs []GuardSpec
	guarded := []string{k.fPend, k.fTimer, k.fCur}
	if k.fBackoff != "" {
		guarded = append(guarded, k.fBackoff)
	}
	for _, f := range guarded {
		specs = append(specs, GuardSpec{Field: k.fieldID(f), Lock: k.lockID, CallNeedsW: false})
	}
	// L2
	wg := NewWaitGraph(p, e, k.fns)
	if wg.CheckLW2(r, "C09.L2-wait-under-lock") == 0 {
		r.Violation("C09.L2-wait-under-lock", k.fname(k.closeFn)+" wg.Wait", "-", "no wg.Wait found: Close does not wait for the helper goroutines")
	}
	wg.CheckLW1(r, "C09.L2-wait-under-lock")
	k.waitUnderLockTransitive()

	// flow A
	a := &c09Acct{k: k, loads: map[*ssa.UnOp]int{}, find: map[string]*c09Finding{}, seenCase: map[string]bool{}, diag: map[string]string{}, visited: map[ssa.Instruction]bool{}, capCmp: map[string]string{}, lockAt: map[ssa.Instruction]Mode{}, goDone: map[string]bool{}}
	var sites []ssa.Instruction // pending stores, go statements that must be explored
	for _, fn := range k.fns {
		if k.ctorOnly[fn] {
			continue
		}
		allInstrs(fn, func(in ssa.Instruction) {
			switch x := in.(type) {
			case *ssa.UnOp:
				if x.Op == token.MUL {
					if f, ok := k.addrFieldR(x.X); ok && f == k.fPend {
						a.loads[x] = len(a.loads)
					}
				}
			case *ssa.Store:
				for _, ss := range k.stateStores(in) {
					if ss.field == k.fPend {
						sites = append(sites, in)
					}
				}
			case *ssa.Go:
				sites = append(sites, in)
			}
		})
	}
	if len(a.loads) > 64/bPer {
		undecided("C09: %d reads of the pending counter, more than the accounting flow tracks", len(a.loads))
	}
	a.run(k.run, "run")
	a.run(k.add, "add")
	a.run(k.closeFn, "close")
	seenBody := map[*ssa.Function]bool{}
	for _, g := range goroutinesOf(k.fns) {
		if k.ctorOnly[g.Spawner] {
			continue
		}
		if g.Body != nil && k.follow(g.Body) && !seenBody[g.Body] {
			seenBody[g.Body] = true
		}
	}
	// entry points other than Run/Add/Close (exported methods such as WithTicker)
	for i := 0; i < k.T.NumMethods(); i++ {
		m := p.SSA.FuncValue(k.T.Method(i))
		if m != nil && m != k.run && m != k.add && m != k.closeFn && k.T.Method(i).Exported() {
			a.run(m, "other")
		}
	}
	k.guardedBy(a, specs, guarded)
	for _, s := range sites {
		if !a.visited[s] {
			r.Undecide("C09: %s in %s is not reached by the exploration of Run/Add/Close", c09DescribeInstr(s), k.fname(s.Parent()))
		}
	}
	for _, f := range a.sortedFindings() {
		if f.bad && len(a.problems) > 0 {
			// not everything relevant was followed: what looks wrong may be done by the code that was not followed
			r.Undecide("C09 (exploration incomplete) %s %s: %s", f.rule, f.construct, f.msg)
			r.OK(f.rule, f.construct, f.pos, "not decided: exploration incomplete")
			continue
		}
		r.Check(!f.bad, f.rule, f.construct, f.pos, f.msg, f.msg)
	}
	for _, pr := range a.problems {
		r.Undecide("C09 exploration: %s", pr)
	}
	// Add must count on some path
	if a.addOKs == 0 {
		r.Violation("C09.L6-add", k.fname(k.add), p.Pos(k.add.Pos()), "Add no longer counts the event and hands a token to the run loop within one write-lock critical section (an Add can be lost or counted without waking the loop)")
	} else {
		r.OK("C09.L6-add", k.fname(k.add), p.Pos(k.add.Pos()), "the pending count is incremented and the input token issued in one write-lock section")
	}
	k.tokenSendBlocking()
	// the three run-loop situations must have been found
	if !a.seenCase["exp"] {
		r.Undecide("C09: no run-loop path handling a window expiry (receive from the window timer's channel) was recognised")
	}
	if !a.seenCase["first"] {
		if k.windowTestExists() {
			r.Undecide("C09: the 'no window open' branch of the input handling was not recognised")
		} else {
			r.Violation("C09.L7-handlers", k.fname(k.run)+" first", p.Pos(k.run.Pos()), "the input handling never tests whether a window is open: the first Add after an idle period is no longer signalled immediately with a window of initialDelay opened")
		}
	}
	if !a.seenCase["cap"] {
		switch {
		case a.diag["capWrong"] != "":
			// already reported at the comparison
		case len(a.capCmp) == 0 && !k.fieldReadInLoop(k.fCap):
			r.Violation("C09.L7-handlers", k.fname(k.run)+" cap", p.Pos(k.run.Pos()), "the pending-events cap is never consulted by the run loop: reaching the pending-events cap no longer fires immediately")
		case a.capCmp[">"] != "" && a.capCmp[">="] == "":
			r.Violation("C09.L7-handlers", k.fname(k.run)+" cap", a.capCmp[">"], "the pending count is compared with the cap strictly (>), so reaching the pending-events cap no longer fires immediately (it fires one Add late)")
		default:
			r.Undecide("C09: the comparison of the pending count with the cap was not recognised")
		}
	}
	if len(a.find) == 0 {
		r.Undecide("C09: the accounting flow produced no obligation")
	}
	nSig := 0
	for _, f := range a.find {
		if f.rule == "C09.L3-signals-le-adds" && strings.HasSuffix(f.construct, "starts a signal") {
			nSig++
		}
	}
	if nSig == 0 {
		r.Violation("C09.L3-signals-le-adds", k.tkey+" sends on event channel", "-", "no send on the event channel found on any path of Run: Adds are never signalled")
	}
	k.signalOncePerGoroutine()

	// L5 (note only)
	var bodies []*ssa.Function
	for b := range seenBody {
		bodies = append(bodies, b)
	}
	sort.Slice(bodies, func(i, j int) bool { return k.fname(bodies[i]) < k.fname(bodies[j]) })
	CheckShutdownCases(p, e, r, "C09.L5-shutdown", bodies, []string{"field:" + k.lockKey(k.fCloseCh)}, false)

	k.expiryChannelFresh()
	k.timerRearm()
	k.backoffBounded()
	k.runContext()
	c09Fixture(c)
}

// guardedBy (L1): the shared guarded-by rule, whose lockset engine infers the
// entry lockset of a function from its static call sites; a function value
// that is called under the lock by a helper (`c.locked(func(){...})`) is
// invisible to it. Its violations are therefore re-examined with the lock
// state of the path exploration (which follows such calls): an access is
// accepted when it was explored and in every explored context the required
// lock mode was held.
func (k *c09) guardedBy(a *c09Acct, specs []GuardSpec, guarded []string) {
	r, p := k.r, k.p
	tmp := NewReport("C09", r.Tier)
	CheckGuardedBy(p, k.e, tmp, "C09.L1-guard", specs)
	byName := map[string]*ssa.Function{}
	for _, fn := range k.fns {
		byName[k.fname(fn)] = fn
	}
	for _, o := range tmp.Obs {
		if o.Status == StViolation {
			parts := strings.SplitN(o.Construct, " -> ", 2)
			fn := byName[parts[0]]
			okAll, n, nSeen := fn != nil && len(parts) == 2, 0, 0
			if okAll {
				for _, acc := range FieldAccesses(fn, func(id FieldID) bool { _, ok := k.stateTypes[id.Type]; return ok && id.String() == parts[1] }) {
					if acc.Fresh {
						continue
					}
					n++
					need := ModeR
					if acc.Kind == AccWrite {
						need = ModeW
					}
					got, seen := a.lockAt[acc.Instr]
					if seen {
						nSeen++
					}
					if !seen || got < need {
						okAll = false
					}
				}
			}
			if okAll && n > 0 {
				r.OK(o.Rule, o.Construct, o.Pos, fmt.Sprintf("%d accesses under %s in every explored calling context (calls through function values followed)", n, shortID(k.lockID)))
				continue
			}
			if fn != nil && n > 0 && nSeen == 0 {
				// never reached by the exploration: it only runs through function values that could not be followed
				r.Undecide("C09.L1-guard: the accesses of %s run in a context that was not followed (the shared lockset rule sees no lock)", o.Construct)
				r.OK(o.Rule, o.Construct, o.Pos, "not decided: context not followed")
				continue
			}
			r.Violation(o.Rule, o.Construct, o.Pos, o.Message, o.Witness...)
			continue
		}
		r.OK(o.Rule, o.Construct, o.Pos, o.Message)
	}
	for _, f := range guarded {
		n := 0
		for _, o := range r.Obs {
			if o.Rule == "C09.L1-guard" && strings.HasSuffix(o.Construct, "."+f) {
				n++
			}
		}
		if n == 0 {
			r.Undecide("C09.L1-guard found no access to %s.%s outside the constructor", k.tkey, f)
		}
	}
}

// c09Fixture runs the accounting flow on fixture c09reg (a miniature limiter with the same exported
// anchors whose extra exported methods Bad*/Good* carry the shapes) and reports the findings of the
// wg.Add registration rule (L12) and of the cap-comparison direction (part of L7).
func c09Fixture(c *Ctx) {
	c.Fixture("c09reg", func(fp *Prog, fr *Report) {
		e := NewLockEngine(fp)
		e.Run()
		k := c09ResolveIn(c, fp, fr, e, "")
		a := &c09Acct{k: k, loads: map[*ssa.UnOp]int{}, find: map[string]*c09Finding{}, seenCase: map[string]bool{}, diag: map[string]string{}, visited: map[ssa.Instruction]bool{}, capCmp: map[string]string{}, lockAt: map[ssa.Instruction]Mode{}, goDone: map[string]bool{}}
		for _, fn := range k.fns {
			allInstrs(fn, func(in ssa.Instruction) {
				if x, ok := in.(*ssa.UnOp); ok && x.Op == token.MUL {
					if f, ok := k.addrFieldR(x.X); ok && f == k.fPend {
						a.loads[x] = len(a.loads)
					}
				}
			})
		}
		for i := 0; i < k.T.NumMethods(); i++ {
			if m := fp.SSA.FuncValue(k.T.Method(i)); m != nil && k.T.Method(i).Exported() {
				kind := "other"
				if m == k.run {
					kind = "run"
				}
				a.run(m, kind)
			}
		}
		for _, f := range a.sortedFindings() {
			if f.rule == "C09.L12-add-registered" || strings.HasSuffix(f.construct, " cap comparison") || strings.HasSuffix(f.construct, " cap leaves window") {
				fr.Check(!f.bad, f.rule, f.construct, f.pos, f.msg, f.msg)
			}
		}
	})
}

// expiryChannelFresh: the rules assume that the run loop's select watches the channel of the CURRENT
// window timer. That is evident when the channel is looked up in the iteration that selects on it; when the
// channel value is carried from one iteration of the loop to the next (cached in a loop variable) its freshness
// depends on how the cache is invalidated when the timer is replaced, which is not decided: UNDECIDED.
func (k *c09) expiryChannelFresh() {
	for _, fn := range k.fns {
		if k.ctorOnly[fn] {
			continue
		}
		allInstrs(fn, func(in ssa.Instruction) {
			sel, ok := in.(*ssa.Select)
			if !ok || !k.isLoopSelect(nil, sel) {
				return
			}
			for _, st := range sel.States {
				if st.Dir != types.RecvOnly || k.isFieldChan(nil, st.Chan, k.fInput) {
					continue
				}
				if _, isChanOfTime := st.Chan.Type().Underlying().(*types.Chan); !isChanOfTime || !k.isTimerChan(nil, st.Chan) {
					continue
				}
				seen := map[ssa.Value]bool{}
				var carried func(v ssa.Value) bool
				carried = func(v ssa.Value) bool {
					phi, ok := v.(*ssa.Phi)
					if !ok || seen[v] {
						return false
					}
					seen[v] = true
					for i, e := range phi.Edges {
						pred := phi.Block().Preds[i]
						if phi.Block().Dominates(pred) {
							return true // a value arriving over a back edge: carried from the previous iteration
						}
						if carried(e) {
							return true
						}
					}
					return false
				}
				if carried(st.Chan) {
					k.r.Undecide("C09: the run loop selects on a timer channel that is carried over from a previous iteration (cached in a loop variable) in %s; whether it is still the channel of the current window timer after the timer was replaced is not decided", k.fname(fn))
				}
			}
		})
	}
}

func c09DescribeInstr(in ssa.Instruction) string {
	switch in.(type) {
	case *ssa.Go:
		return "a go statement"
	case *ssa.Store:
		return "a store to the pending counter"
	}
	return in.String()
}

// windowTestExists: some function reachable from Run tests the window flag or the timer for nil.
func (k *c09) windowTestExists() bool {
	hit := false
	WalkCalls(k.flow(), k.run, false, func(pf *PathFlow, in ssa.Instruction) {
		if v, ok := in.(ssa.Value); ok {
			if f, ok := k.flagLoad(v); ok && f == k.fFlag && k.fFlag != "" {
				hit = true
			}
		}
		if bo, ok := in.(*ssa.BinOp); ok && (bo.Op == token.EQL || bo.Op == token.NEQ) {
			if f, _, ok := k.loadField(bo.X); ok && f == k.fTimer && isNilConst(bo.Y) {
				hit = true
			}
		}
	})
	return hit
}

func (k *c09) fieldReadInLoop(field string) bool {
	hit := false
	WalkCalls(k.flow(), k.run, false, func(pf *PathFlow, in ssa.Instruction) {
		if u, ok := in.(*ssa.UnOp); ok && u.Op == token.MUL {
			if f, ok := k.addrFieldR(u.X); ok && f == field {
				hit = true
			}
		}
	})
	return hit
}

// tokenSendBlocking: the token is handed over with a blocking operation (a
// select with a default case could drop it).
func (k *c09) tokenSendBlocking() {
	WalkCalls(k.flow(), k.add, true, func(pf *PathFlow, in ssa.Instruction) {
		sel, ok := in.(*ssa.Select)
		if !ok {
			return
		}
		for _, st := range sel.States {
			if st.Dir == types.SendOnly && k.isFieldChan(pf, st.Chan, k.fInput) {
				k.r.Check(sel.Blocking, "C09.L6-add", k.fname(in.Parent())+" token send", k.p.Pos(instrPos(in)), "the token is handed to the run loop with a blocking send", "the token is sent with a non-blocking select (default case): when the run loop is busy the token is dropped and the counted Add is not signalled until another event arrives")
			}
		}
	})
}

// signalOncePerGoroutine: a signalling goroutine sends at most one signal.
func (k *c09) signalOncePerGoroutine() {
	for _, fn := range k.fns {
		if k.ctorOnly[fn] {
			continue
		}
		allInstrs(fn, func(in ssa.Instruction) {
			ev := false
			for _, ch := range c09SendChans(in) {
				if k.isEventChan(nil, ch) {
					ev = true
				}
			}
			if !ev {
				return
			}
			// can control come back to this send after the send was performed?
			b := in.Block()
			after := b.Succs
			if sel, ok := in.(*ssa.Select); ok {
				after = nil
				for _, cs := range decodeSelect(sel).Cases {
					if cs.Dir == types.SendOnly && k.isEventChan(nil, cs.ChanV) {
						if cs.Body == nil {
							after = b.Succs
							break
						}
						after = append(after, cs.Body)
					}
				}
			}
			cyc := false
			for _, s := range after {
				if reachableFrom(s, nil)[b] {
					cyc = true
				}
			}
			k.r.Check(!cyc, "C09.L3-signals-le-adds", k.fname(fn)+" sends once", k.p.Pos(instrPos(in)), "the signal send is not repeated in a loop", "the send on the event channel sits in a loop: one pending count can produce several signals")
		})
	}
}

// waitUnderLockTransitive complements CheckLW2: the goroutine entry points
// (go bodies and the exported Run) that reach wg.Done through callees/defers
// and reach an acquisition of a lock held across wg.Wait.
func (k *c09) waitUnderLockTransitive() {
	reaches := func(root *ssa.Function, pred func(ci ssa.CallInstruction) bool) bool {
		hit := false
		WalkCalls(k.flow(), root, false, func(pf *PathFlow, in ssa.Instruction) {
			if ci, ok := in.(ssa.CallInstruction); ok && pred(ci) {
				hit = true
			}
		})
		return hit
	}
	var entries []*ssa.Function
	seen := map[*ssa.Function]bool{}
	for _, g := range goroutinesOf(k.fns) {
		if g.Body != nil && k.follow(g.Body) && !seen[g.Body] {
			seen[g.Body] = true
			entries = append(entries, g.Body)
		}
	}
	entries = append(entries, k.run)
	for _, fn := range k.fns {
		if k.ctorOnly[fn] {
			continue
		}
		allInstrs(fn, func(in ssa.Instruction) {
			call, ok := in.(*ssa.Call)
			if !ok || !k.wgCall(call, "Wait") {
				return
			}
			held := k.e.At(call)
			var bad []string
			for lock, mode := range held {
				for _, g := range entries {
					if !reaches(g, func(ci ssa.CallInstruction) bool { return k.wgCall(ci, "Done") }) {
						continue
					}
					if reaches(g, func(ci ssa.CallInstruction) bool {
						id, kind, ok := k.e.lockOp(ci)
						return ok && id == lock && (kind == opLock || (kind == opRLock && mode == ModeW))
					}) {
						bad = append(bad, fmt.Sprintf("%s (counted in the wait group) acquires %s before it can finish", k.fname(g), shortID(lock)))
					}
				}
			}
			sort.Strings(bad)
			k.r.Check(len(bad) == 0, "C09.L2-wait-under-lock", k.fname(fn)+" wg.Wait vs counted goroutines", k.p.Pos(call.Pos()), "no counted goroutine (callees followed) needs a lock held across Wait (held: "+held.String()+")", "waits for the wait group while holding "+held.String()+"; a goroutine it waits for needs that lock to terminate: Wait never returns", bad...)
		})
	}
}
