package main

import (
	"go/token"
	"go/types"
	"strings"

	"golang.org/x/tools/go/ssa"
)

// C09 — coalescing rate limiter.

func init() { register("C09", checkC09) }

func checkC09(c *Ctx) {
	r, p := c.R, c.P
	r.Explanation = "Decides structural necessary conditions of C09 on events/ratelimiting/coalescing.go: (L1) pendingEvents/timer/currentDur/backoffFactor only under coalescing.lock (fireEvent/reset run under their callers' write lock); (L2) no wg.Wait while holding a lock that a goroutine counted in the wait group (Run) needs to terminate — the Close/Run deadlock; (L3) signals never exceed Adds: every send on the event channel happens in a goroutine spawned under pendingEvents > 0 with pendingEvents zeroed in the same critical section before the spawn; (L4) every goroutine is tracked (wg.Add before go, Done on exit) and Close reaches wg.Wait on every path; (L6) Add counts the event and hands a token to the run loop under one write-lock section; (L7) the timer-expiry handler fires pending events BEFORE resetting the state, and the first token (no window open) fires immediately and opens a window of initialDelay; the pending cap fires immediately. Shutdown cases in helper goroutines are reported as NOTE only. NOT decided: the window/back-off timeline, 'first Add immediate' and 'no Add lost' over all interleavings."
	r.Assumptions = append(r.Assumptions, "type-based lock identity", "the event channel is the chan<- struct{} parameter handed to Run and passed down to fireEvent")
	r.Rule("C09.L1-guard", "window state only under coalescing.lock (W for writes)", 8)
	r.Rule("C09.L2-wait-under-lock", "wg.Wait is not called holding a lock a counted goroutine needs", 1)
	r.Rule("C09.L3-signals-le-adds", "event-channel sends only in a goroutine spawned under pendingEvents>0, zeroed before the spawn", 1)
	r.Rule("C09.L4-tracked", "goroutines tracked by wg; Close waits on every path", 3)
	r.Rule("C09.L6-add", "Add increments pendingEvents and hands a token to the loop in one write-lock section", 1)
	r.Rule("C09.L8-timer-rearm", "the window timer is re-armed (Reset) only after Stop, draining its channel when Stop reports it already fired", 1)
	r.Rule("C09.L9-backoff-bounded", "backoffFactor grows only under currentDur < maxDelay (strict) and currentDur is clamped to maxDelay", 1)
	r.Rule("C09.L10-reset-idle", "reset() restores the whole idle state: pendingEvents=0, currentDur=initialDelay, backoffFactor=1, hasTimer=false, timer=nil", 1)
	r.Rule("C09.L11-run-context", "the handlers (and so every signalling goroutine) get the context derived in Run that Close cancels, not the caller's", 2)
	r.Rule("C09.L7-handlers", "expiry fires before reset; first token fires immediately and opens initialDelay window; cap fires immediately", 3)

	pkg := p.ModPath + "/events/ratelimiting"
	lockID := pkg + ".coalescing.lock"
	wgID := pkg + ".coalescing.wg"
	e := c.Locks()
	fns := []*ssa.Function{}
	for _, f := range p.FuncsOfPkg("events/ratelimiting") {
		if strings.Contains(FuncName(p, f), "coalescing.") || strings.Contains(FuncName(p, f), "NewCoalescing") {
			fns = append(fns, f)
		}
	}
	var specs []GuardSpec
	for _, f := range []string{"pendingEvents", "timer", "currentDur", "backoffFactor"} {
		specs = append(specs, GuardSpec{Field: FieldID{pkg + ".coalescing", f}, Lock: lockID, CallNeedsW: false})
	}
	CheckGuardedBy(p, e, r, "C09.L1-guard", specs)

	wg := NewWaitGraph(p, e, fns)
	if wg.CheckLW2(r, "C09.L2-wait-under-lock") == 0 {
		r.Violation("C09.L2-wait-under-lock", "events/ratelimiting.coalescing.Close wg.Wait", "-", "no wg.Wait found: Close does not wait for the helper goroutines")
	}
	wg.CheckLW1(r, "C09.L2-wait-under-lock")

	pend := FieldID{pkg + ".coalescing", "pendingEvents"}
	// L3
	nSend := 0
	for _, fn := range fns {
		allInstrs(fn, func(in ssa.Instruction) {
			var chv ssa.Value
			switch x := in.(type) {
			case *ssa.Send:
				chv = x.Chan
			case *ssa.Select:
				for _, st := range x.States {
					if st.Dir == types.SendOnly {
						chv = st.Chan
					}
				}
			}
			if chv == nil {
				return
			}
			id := chanIdent(chv)
			if !strings.HasPrefix(id, "param:") {
				return // inputCh etc.
			}
			nSend++
			construct := FuncName(p, fn) + " sends on event channel"
			// fn must be a closure started with go; spawn site dominated by pendingEvents > 0; zero store dominates go
			par := fn.Parent()
			ok, why := false, "the signal is sent outside a goroutine spawned under pendingEvents > 0: a window expiry with nothing pending (or a burst) produces more signals than Adds"
			if par != nil {
				allInstrs(par, func(j ssa.Instruction) {
					g, isGo := j.(*ssa.Go)
					if !isGo || staticCallee(g) != fn {
						return
					}
					gt := false
					for _, dc := range domConds(g.Block()) {
						if cmp, okc := decodeCond(dc.If.Cond, dc.Branch); okc {
							if idf, _, isF := fieldOfValue(cmp.X); isF && idf == pend {
								if k, isK := cmp.Y.(*ssa.Const); isK && k.Value != nil {
									if (cmp.Op == token.GTR && k.Int64() == 0) || (cmp.Op == token.GEQ && k.Int64() == 1) || (cmp.Op == token.NEQ && k.Int64() == 0) {
										gt = true
									}
								}
							}
						}
					}
					zeroed := false
					allInstrs(par, func(z ssa.Instruction) {
						if st, isSt := z.(*ssa.Store); isSt {
							if fa, isFA := st.Addr.(*ssa.FieldAddr); isFA && fieldIDOfAddr(fa) == pend {
								if k, isK := st.Val.(*ssa.Const); isK && k.Value != nil && k.Int64() == 0 && instrDominates(st, g) && e.At(st)[lockID] == ModeW {
									zeroed = true
								}
							}
						}
					})
					if gt && zeroed {
						ok = true
					} else if gt {
						why = "pendingEvents is not zeroed (under the write lock) before the signalling goroutine is spawned: the same Adds are signalled again at the next expiry"
					}
				})
			}
			r.Check(ok, "C09.L3-signals-le-adds", construct, p.Pos(instrPos(in)), "signal sent only for pending events, which are consumed before the spawn", why)
		})
	}
	if nSend == 0 {
		r.Violation("C09.L3-signals-le-adds", "events/ratelimiting.coalescing sends on event channel", "-", "no send on the event channel found: Adds are never signalled")
	}

	// L4
	CheckTracked(p, r, "C09.L4-tracked", fns, wgID, nil)
	var bodies []*ssa.Function
	for _, g := range goroutinesOf(fns) {
		if g.Body != nil {
			bodies = append(bodies, g.Body)
		}
	}
	CheckShutdownCases(p, e, r, "C09.L5-shutdown", bodies, []string{"field:" + pkg + ".coalescing.closeCh"}, false)
	closeFn := p.Func("events/ratelimiting", "coalescing.Close")
	ff := &FlagFlow{Fn: closeFn, Must: true, Transfer: func(in ssa.Instruction, st uint64) uint64 {
		if ci, ok := in.(ssa.CallInstruction); ok && callIs(ci, "sync", "WaitGroup", "Wait") {
			return st | 1
		}
		if d, ok := in.(*ssa.Defer); ok {
			if f := staticCallee(d); f != nil {
				hit := false
				allInstrs(f, func(j ssa.Instruction) {
					if cj, ok := j.(ssa.CallInstruction); ok && callIs(cj, "sync", "WaitGroup", "Wait") {
						hit = true
					}
				})
				if hit {
					return st | 1
				}
			}
		}
		return st
	}}
	ff.Run()
	okW := true
	ff.AtReturns(func(ret *ssa.Return, st uint64) {
		if st&1 == 0 {
			okW = false
		}
	})
	r.Check(okW, "C09.L4-tracked", "events/ratelimiting.coalescing.Close waits", p.Pos(closeFn.Pos()), "Close reaches wg.Wait on every path", "Close can return without waiting for the helper goroutines")

	// L6 Add
	add := p.Func("events/ratelimiting", "coalescing.Add")
	inc, tok := false, false
	allInstrs(add, func(in ssa.Instruction) {
		if st, ok := in.(*ssa.Store); ok && refDelta(st, pend) == 1 && e.At(st)[lockID] == ModeW {
			inc = true
		}
		if g, ok := in.(*ssa.Go); ok && e.At(g)[lockID] == ModeW {
			if body := staticCallee(g); body != nil {
				allInstrs(body, func(j ssa.Instruction) {
					if sel, ok := j.(*ssa.Select); ok {
						for _, st := range sel.States {
							if st.Dir == types.SendOnly && chanIdent(st.Chan) == "field:"+pkg+".coalescing.inputCh" {
								tok = true
							}
						}
					}
					if s, ok := j.(*ssa.Send); ok && chanIdent(s.Chan) == "field:"+pkg+".coalescing.inputCh" {
						tok = true
					}
				})
			}
		}
	})
	r.Check(inc && tok, "C09.L6-add", "events/ratelimiting.coalescing.Add", p.Pos(add.Pos()), "pendingEvents++ and the input token are issued in one write-lock section", "Add no longer counts the event and hands a token to the run loop within one write-lock critical section (an Add can be lost or counted without waking the loop)")

	// L7 handlers
	fire := p.Func("events/ratelimiting", "coalescing.fireEvent")
	reset := p.Func("events/ratelimiting", "coalescing.reset")
	htf := p.Func("events/ratelimiting", "coalescing.handleTimerFired")
	var fireCall, resetCall *ssa.Call
	allInstrs(htf, func(in ssa.Instruction) {
		if call, ok := in.(*ssa.Call); ok {
			switch staticCallee(call) {
			case fire:
				fireCall = call
			case reset:
				resetCall = call
			}
		}
	})
	okOrder := fireCall != nil && resetCall != nil && instrDominates(fireCall, resetCall)
	r.Check(okOrder, "C09.L7-handlers", "events/ratelimiting.coalescing.handleTimerFired order", p.Pos(htf.Pos()), "pending events are fired before the window state is reset", "the expiry handler resets the state (zeroing pendingEvents) before firing, or no longer does both: Adds of the closing window are lost")
	hic := p.Func("events/ratelimiting", "coalescing.handleInputCh")
	firstFires, firstArms, capFires := false, false, false
	allInstrs(hic, func(in ssa.Instruction) {
		call, ok := in.(*ssa.Call)
		if !ok {
			return
		}
		noTimer, capped := false, false
		for _, dc := range domConds(call.Block()) {
			if cl, val, okc := boolCallCond(dc.If.Cond, dc.Branch); okc && !val && calleeObj(cl) != nil && calleeObj(cl).Name() == "Load" {
				if id, _, isF := fieldOfValue(cl.Call.Args[0]); isF && id.Field == "hasTimer" {
					noTimer = true
				}
			}
			if cmp, okc := decodeCond(dc.If.Cond, dc.Branch); okc && (cmp.Op == token.GEQ || cmp.Op == token.GTR) {
				if id, _, isF := fieldOfValue(cmp.X); isF && id == pend {
					capped = true
				}
			}
		}
		if staticCallee(call) == fire && noTimer {
			firstFires = true
		}
		if staticCallee(call) == fire && capped {
			capFires = true
		}
		if obj := calleeObj(call); obj != nil && obj.Name() == "NewTimer" && noTimer && len(call.Call.Args) == 1 {
			if id, _, isF := fieldOfValue(call.Call.Args[0]); isF && id.Field == "initialDelay" {
				firstArms = true
			}
		}
	})
	r.Check(firstFires && firstArms, "C09.L7-handlers", "events/ratelimiting.coalescing.handleInputCh first", p.Pos(hic.Pos()), "with no window open the token fires immediately and opens a window of initialDelay", "the first Add after an idle period is no longer signalled immediately with a window of initialDelay opened")
	r.Check(capFires, "C09.L7-handlers", "events/ratelimiting.coalescing.handleInputCh cap", p.Pos(hic.Pos()), "reaching MaxPendingEvents fires immediately", "reaching the pending-events cap no longer fires immediately")

	c09TimerRearm(c, pkg, fns)
	c09Backoff(c, pkg, fns)
	c09ResetIdle(c, pkg)
	c09RunContext(c, pkg)
}

// c09ResetIdle: every return of reset() has stored the idle values.
func c09ResetIdle(c *Ctx, pkg string) {
	r, p := c.R, c.P
	fn := p.Func("events/ratelimiting", "coalescing.reset")
	const (
		fPending = 1 << iota
		fDur
		fFactor
		fHasTimer
		fTimer
	)
	ff := &FlagFlow{Fn: fn, Must: true, Transfer: func(in ssa.Instruction, st uint64) uint64 {
		switch x := in.(type) {
		case *ssa.Store:
			fa, ok := x.Addr.(*ssa.FieldAddr)
			if !ok || fieldIDOfAddr(fa).Type != pkg+".coalescing" {
				return st
			}
			k, isK := x.Val.(*ssa.Const)
			switch fieldIDOfAddr(fa).Field {
			case "pendingEvents":
				if isK && k.Value != nil && k.Int64() == 0 {
					return st | fPending
				}
				return st &^ fPending
			case "backoffFactor":
				if isK && k.Value != nil && k.Int64() == 1 {
					return st | fFactor
				}
				return st &^ fFactor
			case "currentDur":
				if id, _, ok := fieldOfValue(x.Val); ok && id.Field == "initialDelay" {
					return st | fDur
				}
				return st &^ fDur
			case "timer":
				if isNilConst(x.Val) {
					return st | fTimer
				}
				return st &^ fTimer
			}
		case *ssa.Call:
			if obj := calleeObj(x); obj != nil && obj.Name() == "Store" && len(x.Call.Args) == 2 {
				if id, _, ok := fieldOfValue(x.Call.Args[0]); ok && id.Field == "hasTimer" {
					if k, ok := x.Call.Args[1].(*ssa.Const); ok && k.Value != nil && k.Value.String() == "false" {
						return st | fHasTimer
					}
					return st &^ fHasTimer
				}
			}
		}
		return st
	}}
	ff.Run()
	missing := ""
	n := 0
	ff.AtReturns(func(ret *ssa.Return, st uint64) {
		n++
		for bit, name := range map[uint64]string{fPending: "pendingEvents=0", fDur: "currentDur=initialDelay", fFactor: "backoffFactor=1", fHasTimer: "hasTimer=false", fTimer: "timer=nil"} {
			if st&bit == 0 {
				missing += " " + name
			}
		}
	})
	r.Check(missing == "" && n > 0, "C09.L10-reset-idle", "events/ratelimiting.coalescing.reset", p.Pos(fn.Pos()), "window state fully restored when the limiter goes idle",
		"reset() does not restore the whole idle state (missing:"+missing+"): the next burst starts with stale window state (e.g. a stale back-off factor makes the second Add's window several times too long, so its signal arrives after the end of its quiet window)")
}

// c09RunContext: Run derives a cancellable context and passes THAT to the handlers.
func c09RunContext(c *Ctx, pkg string) {
	r, p := c.R, c.P
	run := p.Func("events/ratelimiting", "coalescing.Run")
	var derived ssa.Value
	allInstrs(run, func(in ssa.Instruction) {
		if call, ok := in.(*ssa.Call); ok && callIs(call, "context", "", "WithCancel") {
			derived = callResult(call, 0)
		}
	})
	if derived == nil {
		r.Violation("C09.L11-run-context", "events/ratelimiting.coalescing.Run derived context", p.Pos(run.Pos()), "Run no longer derives a cancellable context: Close cannot release signalling goroutines blocked on a slow consumer")
		return
	}
	// the derived ctx may be stored into the (shadowed) ctx cell; accept loads of a cell whose stores after entry are the derived value
	isDerived := func(v ssa.Value) bool {
		if v == derived {
			return true
		}
		if u, ok := v.(*ssa.UnOp); ok && u.Op == token.MUL {
			if cell, ok := u.X.(*ssa.Alloc); ok {
				okAll, n := true, 0
				for _, rr := range refs(cell) {
					if st, ok := rr.(*ssa.Store); ok && st.Addr == ssa.Value(cell) {
						n++
						if st.Val != derived {
							okAll = false
						}
					}
				}
				return okAll && n > 0
			}
		}
		return false
	}
	n := 0
	for _, name := range []string{"coalescing.handleInputCh", "coalescing.handleTimerFired"} {
		h := p.Func("events/ratelimiting", name)
		allInstrs(run, func(in ssa.Instruction) {
			call, ok := in.(*ssa.Call)
			if !ok || staticCallee(call) != h {
				return
			}
			n++
			okCtx := false
			for _, a := range call.Call.Args {
				if types.Identical(a.Type(), derived.Type()) && isDerived(a) {
					okCtx = true
				}
			}
			r.Check(okCtx, "C09.L11-run-context", "events/ratelimiting.coalescing.Run -> "+name, p.Pos(call.Pos()), "handler gets the context derived in Run (cancelled on Close)",
				"the handler is given a context other than the one Run derives and cancels when closeCh fires: a signalling goroutine blocked on a slow consumer is never released, so Close (which waits for all helper goroutines) never returns")
		})
	}
	if n == 0 {
		r.Violation("C09.L11-run-context", "events/ratelimiting.coalescing.Run handlers", p.Pos(run.Pos()), "Run no longer calls the input/timer handlers")
	}
	// and closeCh case cancels the derived context (or the deferred cancel runs on return)
}

// c09TimerRearm: every Reset of coalescing.timer is dominated by a Stop of it
// whose 'already fired' outcome (false) drains the timer channel; a stale tick
// left in the channel closes the re-armed window at once.
func c09TimerRearm(c *Ctx, pkg string, fns []*ssa.Function) {
	r, p := c.R, c.P
	isTimerCall := func(call *ssa.Call, name string) bool {
		if !call.Call.IsInvoke() || call.Call.Method == nil || call.Call.Method.Name() != name {
			return false
		}
		id, _, ok := fieldOfValue(call.Call.Value)
		return ok && id.Type == pkg+".coalescing" && id.Field == "timer"
	}
	n := 0
	for _, fn := range fns {
		allInstrs(fn, func(in ssa.Instruction) {
			reset, ok := in.(*ssa.Call)
			if !ok || !isTimerCall(reset, "Reset") {
				return
			}
			n++
			okDrain := false
			allInstrs(fn, func(j ssa.Instruction) {
				stop, ok := j.(*ssa.Call)
				if !ok || !isTimerCall(stop, "Stop") || !instrDominates(stop, reset) {
					return
				}
				// the If testing Stop's result
				for _, rr := range refs(stop) {
					var ifi *ssa.If
					neg := false
					switch x := rr.(type) {
					case *ssa.If:
						ifi = x
					case *ssa.UnOp:
						if x.Op == token.NOT {
							for _, r2 := range refs(x) {
								if i2, ok := r2.(*ssa.If); ok {
									ifi, neg = i2, true
								}
							}
						}
					}
					if ifi == nil {
						continue
					}
					falseSucc := ifi.Block().Succs[1]
					if neg {
						falseSucc = ifi.Block().Succs[0]
					}
					// a receive from the timer's channel in the region entered when Stop returned false, before the Reset
					for blk := range reachableFrom(falseSucc, map[*ssa.BasicBlock]bool{reset.Block(): true}) {
						if !edgeDominates(ifi.Block(), falseSucc, blk) {
							continue
						}
						for _, k := range blk.Instrs {
							switch y := k.(type) {
							case *ssa.UnOp:
								if y.Op == token.ARROW && strings.HasPrefix(chanIdent(y.X), "timer:") {
									okDrain = true
								}
							case *ssa.Select:
								for _, st := range y.States {
									if st.Dir == types.RecvOnly && strings.HasPrefix(chanIdent(st.Chan), "timer:") {
										okDrain = true
									}
								}
							}
						}
					}
				}
			})
			r.Check(okDrain, "C09.L8-timer-rearm", FuncName(p, fn)+" timer.Reset", p.Pos(reset.Pos()), "Stop, drain-if-fired, then Reset",
				"the window timer is re-armed without stopping it and draining its channel when it had already fired: a stale expiry left in the channel closes the freshly extended window at once, so a burst inside one window yields several signals and the back-off restarts")
		})
	}
	if n == 0 {
		r.Violation("C09.L8-timer-rearm", "events/ratelimiting.coalescing timer.Reset", "-", "the window timer is never re-armed: later Adds do not extend the quiet window")
	}
}

// c09Backoff: backoffFactor is multiplied only under a strict
// currentDur < maxDelay test, and currentDur > maxDelay is clamped.
func c09Backoff(c *Ctx, pkg string, fns []*ssa.Function) {
	r, p := c.R, c.P
	cur := FieldID{pkg + ".coalescing", "currentDur"}
	max := FieldID{pkg + ".coalescing", "maxDelay"}
	bf := FieldID{pkg + ".coalescing", "backoffFactor"}
	n := 0
	for _, fn := range fns {
		allInstrs(fn, func(in ssa.Instruction) {
			st, ok := in.(*ssa.Store)
			if !ok {
				return
			}
			fa, ok := st.Addr.(*ssa.FieldAddr)
			if !ok || fieldIDOfAddr(fa) != bf {
				return
			}
			bo, ok := st.Val.(*ssa.BinOp)
			if !ok || (bo.Op != token.MUL && bo.Op != token.SHL && bo.Op != token.ADD) {
				return // resets to a constant
			}
			n++
			strict := false
			for _, dc := range domConds(st.Block()) {
				if cmp, ok := decodeCond(dc.If.Cond, dc.Branch); ok {
					x, _, okx := fieldOfValue(cmp.X)
					y, _, oky := fieldOfValue(cmp.Y)
					if okx && oky && ((cmp.Op == token.LSS && x == cur && y == max) || (cmp.Op == token.GTR && x == max && y == cur)) {
						strict = true
					}
				}
			}
			// clamp: a store currentDur = load maxDelay dominated by currentDur > maxDelay
			clamp := false
			allInstrs(fn, func(j ssa.Instruction) {
				s2, ok := j.(*ssa.Store)
				if !ok {
					return
				}
				fa2, ok := s2.Addr.(*ssa.FieldAddr)
				if !ok || fieldIDOfAddr(fa2) != cur {
					return
				}
				if id, _, ok := fieldOfValue(s2.Val); ok && id == max {
					for _, dc := range domConds(s2.Block()) {
						if cmp, ok := decodeCond(dc.If.Cond, dc.Branch); ok {
							x, _, okx := fieldOfValue(cmp.X)
							y, _, oky := fieldOfValue(cmp.Y)
							if okx && oky && (((cmp.Op == token.GTR || cmp.Op == token.GEQ) && x == cur && y == max) || ((cmp.Op == token.LSS || cmp.Op == token.LEQ) && x == max && y == cur)) {
								clamp = true
							}
						}
					}
				}
			})
			r.Check(strict && clamp, "C09.L9-backoff-bounded", FuncName(p, fn)+" backoffFactor growth", p.Pos(st.Pos()), "factor grows only while currentDur < maxDelay; currentDur clamped to maxDelay",
				"backoffFactor keeps growing once the window has reached maxDelay (the guard is not the strict currentDur < maxDelay) or currentDur is not clamped: after a few dozen Adds in one extended window initialDelay*factor overflows and the window collapses to zero/negative, so a long burst is signalled immediately and repeatedly")
		})
	}
	if n == 0 {
		r.Violation("C09.L9-backoff-bounded", "events/ratelimiting.coalescing backoffFactor growth", "-", "the quiet window no longer grows while events keep arriving")
	}
}
