package main

// E10: path-sensitive exploration of a function with its same-package callees
// inlined ("events view"). Used by the events properties (C06, C10, C11).
//
// The rules of those properties are statements about the ORDER of a handful
// of events (lock/unlock of the component lock, operations on role-resolved
// channels, queue operations, wg operations, the callback) along every path
// of an entry point or goroutine. Where in the source these events live — in
// the anchor function, in a helper it calls, in a deferred closure or in a
// method started with `go` — is irrelevant to the property, so the explorer
// walks the control flow of a root function and descends into every static
// callee the rule allows (Inline), deferred calls included (replayed LIFO at
// rundefers). It is an explicit-state exploration: a path carries
//
//	abs : the rule's abstract state (a small comparable struct), and
//	env : what is known about boolean SSA values on this path (which branch of
//	      an `if` was taken, which constant a callee returned),
//
// so a decision taken inside a helper (`if !ok { <-token }; return ok`) stays
// correlated with the caller's branch on the helper's result. Values are
// identified as (frame, ssa.Value); frames are interned per static call path,
// parameters resolve to the caller's arguments, free variables to the
// closure's bindings, single-store cells to the stored value and results of
// inlined callees to the returned value (Resolve).

import (
	"fmt"
	"go/constant"
	"go/token"
	"go/types"
	"os"
	"sort"
	"strings"

	"golang.org/x/tools/go/ssa"
)

// evFrame is one static activation: fn entered through site in parent.
type evFrame struct {
	fn     *ssa.Function
	site   ssa.CallInstruction // *ssa.Call, *ssa.Defer or *ssa.Go (nil at a root)
	parent *evFrame
	// for closures: the MakeClosure that created the function value and the frame it executed in
	mc    *ssa.MakeClosure
	bindF *evFrame
	// bound: fn is a method entered through a bound method value (mc binds the receiver)
	bound bool
	// recv: fn is a method entered through an interface call; its receiver is this value
	recv evVal
	id   int
}

func (f *evFrame) within(g *evFrame) bool {
	for ; f != nil; f = f.parent {
		if f == g {
			return true
		}
	}
	return false
}

// evVal is a value in a frame.
type evVal struct {
	F *evFrame
	V ssa.Value
}

func (v evVal) IsZero() bool { return v.V == nil }

type evFrameKey struct {
	parent *evFrame
	site   ssa.Instruction
	fn     *ssa.Function
	bindF  *evFrame
}

// evFrames interns frames and resolves values across them.
type evFrames struct {
	P          *Prog
	Inline     func(fn *ssa.Function) bool
	frames     map[evFrameKey]*evFrame
	vids       map[ssa.Value]int
	all        []*evFrame
	rdepth     int
	cells      map[*ssa.Alloc]bool
	structs    map[*ssa.Alloc]map[int]*ssa.FieldAddr
	arrays     map[*ssa.Alloc]map[int64]*ssa.IndexAddr
	fieldFuncs map[FieldID][]*ssa.Store
	impls      map[*types.Func]*ssa.Function
	konsts     map[string]*ssa.Const
}

func newEvFrames(p *Prog, inline func(fn *ssa.Function) bool) *evFrames {
	return &evFrames{P: p, Inline: inline, frames: map[evFrameKey]*evFrame{}, vids: map[ssa.Value]int{}, cells: map[*ssa.Alloc]bool{}, structs: map[*ssa.Alloc]map[int]*ssa.FieldAddr{},
		arrays: map[*ssa.Alloc]map[int64]*ssa.IndexAddr{}, impls: map[*types.Func]*ssa.Function{}, konsts: map[string]*ssa.Const{}}
}

func (t *evFrames) frame(parent *evFrame, site ssa.CallInstruction, fn *ssa.Function, mc *ssa.MakeClosure, bindF *evFrame) *evFrame {
	var si ssa.Instruction
	if site != nil {
		si = site
	}
	k := evFrameKey{parent, si, fn, bindF}
	if f, ok := t.frames[k]; ok {
		return f
	}
	f := &evFrame{fn: fn, site: site, parent: parent, mc: mc, bindF: bindF, id: len(t.all)}
	t.frames[k] = f
	t.all = append(t.all, f)
	return f
}

// Root returns the root frame of fn.
func (t *evFrames) Root(fn *ssa.Function) *evFrame { return t.frame(nil, nil, origin(fn), nil, nil) }

// Callee returns the frame entered by call instruction site executed in f, or
// nil if the callee is dynamic, has no body, is excluded by Inline or is
// already active (recursion).
func (t *evFrames) Callee(f *evFrame, site ssa.CallInstruction) *evFrame {
	var rv evVal
	if cc := site.Common(); !cc.IsInvoke() {
		rv = t.Resolve(f, cc.Value)
	}
	return t.calleeVal(f, site, rv)
}

// calleeVal: like Callee, with the function value of a dynamic call already
// resolved (possibly through what a path knows) to rv. Followed are: static
// calls; closures and functions reached through parameters, variables, cells
// and elements of literal tables; bound method values; unexported func-typed
// fields assigned exactly once in the package to a known function; calls
// through an interface declared in the package that has exactly one
// implementation in it.
func (t *evFrames) calleeVal(f *evFrame, site ssa.CallInstruction, rv evVal) *evFrame {
	return t.calleeOf(f, site, rv, false)
}

// calleeOf: with valueOnly the callee is the function value rv, whatever the
// call instruction itself calls (used for fn in once.Do(fn)).
func (t *evFrames) calleeOf(f *evFrame, site ssa.CallInstruction, rv evVal, valueOnly bool) *evFrame {
	cal := staticCallee(site)
	if valueOnly {
		cal = nil
	}
	var mc *ssa.MakeClosure
	bindF := f
	var recv evVal
	cc := site.Common()
	switch {
	case cc.IsInvoke() && !valueOnly:
		if m := t.soleImpl(cc.Method); m != nil {
			cal = m
			recv = t.Resolve(f, cc.Value)
		}
	default:
		if m, ok := cc.Value.(*ssa.MakeClosure); ok && !valueOnly {
			mc = m
		} else if cal == nil {
			v := rv
			// a func-typed field assigned once
			if id, _, ok := fieldOfValue(v.V); ok {
				if tgt, ok := t.fieldFunc(id); ok {
					v = tgt
				}
			}
			switch fv := v.V.(type) {
			case *ssa.MakeClosure:
				if fn, ok := fv.Fn.(*ssa.Function); ok {
					cal, mc, bindF = origin(fn), fv, v.F
				}
			case *ssa.Function:
				cal = origin(fv)
			}
		}
	}
	// a bound method value is entered through its synthetic wrapper, whose free
	// variable is the receiver and whose body calls the method
	isBound := false
	if mc != nil && cal != nil && strings.HasSuffix(cal.Name(), "$bound") && cal.Synthetic != "" {
		isBound = true
	}
	if cal == nil || len(cal.Blocks) == 0 || (!t.P.funcSet[cal] && !isBound) {
		return nil
	}
	if t.Inline != nil && !isBound && !t.Inline(cal) {
		return nil
	}
	for g := f; g != nil; g = g.parent {
		if g.fn == cal {
			return nil
		}
		if _, isGo := g.site.(*ssa.Go); isGo {
			break // a goroutine has a stack of its own
		}
	}
	if mc == nil {
		bindF = nil
	}
	fr := t.frame(f, site, cal, mc, bindF)
	if !recv.IsZero() {
		fr.recv = recv
	}
	return fr
}

// fieldFunc: the function value an unexported func-typed struct field always
// holds: the field is stored exactly once in the module, with a function,
// closure or method value (typically in the constructor).
func (t *evFrames) fieldFunc(id FieldID) (evVal, bool) {
	if t.fieldFuncs == nil {
		t.fieldFuncs = map[FieldID][]*ssa.Store{}
		for _, fn := range t.P.Funcs {
			allInstrs(fn, func(in ssa.Instruction) {
				st, ok := in.(*ssa.Store)
				if !ok {
					return
				}
				if _, isSig := st.Val.Type().Underlying().(*types.Signature); !isSig {
					return
				}
				if fa, ok := st.Addr.(*ssa.FieldAddr); ok {
					k := fieldIDOfAddr(fa)
					t.fieldFuncs[k] = append(t.fieldFuncs[k], st)
				}
			})
		}
	}
	sts := t.fieldFuncs[id]
	if len(sts) != 1 || id.Field == "" || token.IsExported(id.Field) {
		return evVal{}, false
	}
	root := t.Root(sts[0].Parent())
	v := t.Resolve(root, sts[0].Val)
	switch v.V.(type) {
	case *ssa.MakeClosure, *ssa.Function:
		return v, true
	}
	return evVal{}, false
}

// soleImpl: m is a method of an interface declared in a module package that
// exactly one named type of that package implements; returns that type's method.
func (t *evFrames) soleImpl(m *types.Func) *ssa.Function {
	if m == nil || m.Pkg() == nil {
		return nil
	}
	if f, ok := t.impls[m]; ok {
		return f
	}
	t.impls[m] = nil
	pkg := t.P.All[m.Pkg().Path()]
	sig, _ := m.Type().(*types.Signature)
	if pkg == nil || sig == nil || sig.Recv() == nil || !strings.HasPrefix(m.Pkg().Path(), t.P.ModPath) {
		return nil
	}
	iface, _ := sig.Recv().Type().Underlying().(*types.Interface)
	if iface == nil {
		return nil
	}
	// the interface must be declared (as a named type) in that package
	declared := false
	scope := pkg.Types.Scope()
	for _, name := range scope.Names() {
		if tn, ok := scope.Lookup(name).(*types.TypeName); ok && !tn.Exported() {
			if it, ok := tn.Type().Underlying().(*types.Interface); ok && it == iface {
				declared = true
			}
		}
	}
	if !declared {
		return nil
	}
	var found *ssa.Function
	n := 0
	for _, name := range scope.Names() {
		tn, ok := scope.Lookup(name).(*types.TypeName)
		if !ok {
			continue
		}
		if _, isI := tn.Type().Underlying().(*types.Interface); isI {
			continue
		}
		if _, isTP := tn.Type().(*types.TypeParam); isTP {
			continue
		}
		for _, ty := range []types.Type{tn.Type(), types.NewPointer(tn.Type())} {
			ms := types.NewMethodSet(ty)
			sel := ms.Lookup(m.Pkg(), m.Name())
			if sel == nil {
				continue
			}
			ok := true
			for i := 0; i < iface.NumMethods(); i++ {
				if ms.Lookup(iface.Method(i).Pkg(), iface.Method(i).Name()) == nil {
					ok = false
				}
			}
			if !ok {
				continue
			}
			if mo, isF := sel.Obj().(*types.Func); isF {
				if fn := t.P.SSA.FuncValue(mo.Origin()); fn != nil {
					found = origin(fn)
					n++
				}
			}
			break
		}
	}
	if n == 1 {
		t.impls[m] = found
	}
	return t.impls[m]
}

func (t *evFrames) vid(v ssa.Value) int {
	if id, ok := t.vids[v]; ok {
		return id
	}
	id := len(t.vids) + 1
	t.vids[v] = id
	return id
}

// evCellStores returns the values stored into a local cell (directly or through
// closures that capture it) and whether the cell's address escapes otherwise.
func evCellStores(a ssa.Value, depth int) (vals []ssa.Value, inFn []*ssa.Function, escapes bool) {
	if depth > 10 {
		return nil, nil, true
	}
	for _, r := range refs(a) {
		switch x := r.(type) {
		case *ssa.Store:
			if x.Addr == a {
				vals = append(vals, x.Val)
				inFn = append(inFn, x.Parent())
			} else {
				escapes = true
			}
		case *ssa.UnOp:
			// load
		case *ssa.DebugRef:
		case *ssa.MakeClosure:
			fn, _ := x.Fn.(*ssa.Function)
			if fn == nil {
				escapes = true
				continue
			}
			for i, b := range x.Bindings {
				if b == a && i < len(fn.FreeVars) {
					v2, f2, e2 := evCellStores(fn.FreeVars[i], depth+1)
					vals = append(vals, v2...)
					inFn = append(inFn, f2...)
					if e2 {
						escapes = true
					}
				}
			}
		default:
			escapes = true
		}
	}
	return
}

// Resolve chases v (a value of frame f) to its origin.
func (t *evFrames) Resolve(f *evFrame, v ssa.Value) evVal {
	t.rdepth++
	defer func() { t.rdepth-- }()
	if t.rdepth > 24 {
		return evVal{f, v}
	}
	for i := 0; i < 64 && v != nil; i++ {
		switch x := v.(type) {
		case *ssa.Parameter:
			if f == nil || f.site == nil {
				return evVal{f, v}
			}
			idx := -1
			for k, pa := range f.fn.Params {
				if pa == x {
					idx = k
				}
			}
			args := f.site.Common().Args
			if !f.recv.IsZero() {
				if idx == 0 {
					f, v = f.recv.F, f.recv.V
					continue
				}
				idx--
			}
			if f.bound && f.mc != nil {
				if idx == 0 {
					f, v = f.bindF, f.mc.Bindings[0]
					continue
				}
				idx--
			}
			if idx < 0 || idx >= len(args) {
				return evVal{f, v}
			}
			f, v = f.parent, args[idx]
		case *ssa.FreeVar:
			if f == nil || f.mc == nil || f.bindF == nil {
				return evVal{f, v}
			}
			mc := f.mc
			idx := -1
			for k, fv := range f.fn.FreeVars {
				if fv == x {
					idx = k
				}
			}
			if idx < 0 || idx >= len(mc.Bindings) {
				return evVal{f, v}
			}
			f, v = f.bindF, mc.Bindings[idx]
		case *ssa.UnOp:
			if x.Op != token.MUL {
				return evVal{f, v}
			}
			addr := t.Resolve(f, x.X)
			a, ok := addr.V.(*ssa.Alloc)
			if !ok {
				return evVal{f, v}
			}
			vals, fns, esc := evCellStores(a, 0)
			if esc || len(vals) != 1 || fns[0] != a.Parent() {
				return evVal{f, v}
			}
			f, v = addr.F, vals[0]
		case *ssa.ChangeType:
			v = x.X
		case *ssa.ChangeInterface:
			v = x.X
		case *ssa.MakeInterface:
			v = x.X
		case *ssa.Extract:
			call, ok := x.Tuple.(*ssa.Call)
			if !ok {
				return evVal{f, v}
			}
			rv, ok := t.calleeResult(f, call, x.Index)
			if !ok {
				return evVal{f, v}
			}
			f, v = rv.F, rv.V
		case *ssa.Call:
			if x.Call.Signature().Results().Len() != 1 {
				return evVal{f, v}
			}
			rv, ok := t.calleeResult(f, x, 0)
			if !ok {
				return evVal{f, v}
			}
			f, v = rv.F, rv.V
		case *ssa.Phi:
			var first evVal
			for _, e := range x.Edges {
				if e == v {
					continue
				}
				r := t.Resolve(f, e)
				if first.IsZero() {
					first = r
				} else if r != first {
					return evVal{f, v}
				}
			}
			if first.IsZero() {
				return evVal{f, v}
			}
			return first
		default:
			return evVal{f, v}
		}
	}
	return evVal{f, v}
}

// calleeResult: the i-th result of an inlinable call, if all its return
// sites return the same value.
func (t *evFrames) calleeResult(f *evFrame, call *ssa.Call, i int) (evVal, bool) {
	cf := t.Callee(f, call)
	if cf == nil {
		return evVal{}, false
	}
	var first evVal
	n := 0
	for _, b := range cf.fn.Blocks {
		if b == cf.fn.Recover || len(b.Instrs) == 0 {
			continue
		}
		ret, ok := b.Instrs[len(b.Instrs)-1].(*ssa.Return)
		if !ok || i >= len(ret.Results) {
			continue
		}
		r := t.Resolve(cf, ret.Results[i])
		if n == 0 {
			first = r
		} else if r != first {
			return evVal{}, false
		}
		n++
	}
	if n == 0 {
		return evVal{}, false
	}
	// a returned constant is not an identity
	if _, isK := first.V.(*ssa.Const); isK && n > 1 {
		return evVal{}, false
	}
	return first, true
}

// ---- environment of known booleans

type evEnvEnt struct {
	k   evVal
	val bool
	to  evVal // non-zero: k is (on this path) the value `to` (negated if val) of another frame or instruction
}

// evEnv is an immutable, canonically ordered list of known booleans, encoded
// as a string so that paths are comparable.
type evEnv string

type evEnvTab struct {
	t    *evFrames
	dec  map[evEnv][]evEnvEnt
	zero evEnv
	// keepTarget (set temporarily) also filters alias entries by their target.
	keepTarget func(to evVal) bool
}

func (et *evEnvTab) encode(ents []evEnvEnt) evEnv {
	if len(ents) == 0 {
		return ""
	}
	sort.Slice(ents, func(i, j int) bool {
		if ents[i].k.F != ents[j].k.F {
			return evFrameID(ents[i].k.F) < evFrameID(ents[j].k.F)
		}
		return et.t.vid(ents[i].k.V) < et.t.vid(ents[j].k.V)
	})
	var sb strings.Builder
	for _, e := range ents {
		if !e.to.IsZero() {
			n := ""
			if e.val {
				n = "!"
			}
			fmt.Fprintf(&sb, "%d.%d>%s%d.%d;", evFrameID(e.k.F), et.t.vid(e.k.V), n, evFrameID(e.to.F), et.t.vid(e.to.V))
			continue
		}
		b := 0
		if e.val {
			b = 1
		}
		fmt.Fprintf(&sb, "%d.%d=%d;", evFrameID(e.k.F), et.t.vid(e.k.V), b)
	}
	k := evEnv(sb.String())
	if _, ok := et.dec[k]; !ok {
		et.dec[k] = append([]evEnvEnt(nil), ents...)
	}
	return k
}

func evFrameID(f *evFrame) int {
	if f == nil {
		return -1
	}
	return f.id
}

func (et *evEnvTab) get(e evEnv, k evVal) (bool, bool) {
	for _, x := range et.dec[e] {
		if x.k == k && x.to.IsZero() {
			return x.val, true
		}
	}
	return false, false
}

func (et *evEnvTab) alias(e evEnv, k evVal) (evVal, bool) {
	to, _, ok := et.aliasNeg(e, k)
	return to, ok
}

// aliasNeg: k is `to` (negated if neg) on this path.
func (et *evEnvTab) aliasNeg(e evEnv, k evVal) (to evVal, neg, ok bool) {
	for _, x := range et.dec[e] {
		if x.k == k && !x.to.IsZero() {
			return x.to, x.val, true
		}
	}
	return evVal{}, false, false
}

func (et *evEnvTab) setAlias(e evEnv, k, to evVal) evEnv { return et.setAliasNeg(e, k, to, false) }

func (et *evEnvTab) setAliasNeg(e evEnv, k, to evVal, neg bool) evEnv {
	old := et.dec[e]
	out := make([]evEnvEnt, 0, len(old)+1)
	for _, x := range old {
		if x.k != k {
			out = append(out, x)
		}
	}
	out = append(out, evEnvEnt{k: k, to: to, val: neg})
	return et.encode(out)
}

func (et *evEnvTab) set(e evEnv, k evVal, val bool) evEnv {
	old := et.dec[e]
	out := make([]evEnvEnt, 0, len(old)+1)
	for _, x := range old {
		if x.k != k {
			out = append(out, x)
		}
	}
	out = append(out, evEnvEnt{k: k, val: val})
	return et.encode(out)
}

// kill forgets everything known about, or in terms of, the values for which
// dead returns true.
func (et *evEnvTab) kill(e evEnv, dead func(k evVal) bool) evEnv {
	old := et.dec[e]
	if len(old) == 0 {
		return e
	}
	out := make([]evEnvEnt, 0, len(old))
	for _, x := range old {
		if dead(x.k) || (!x.to.IsZero() && dead(x.to)) {
			continue
		}
		out = append(out, x)
	}
	if len(out) == len(old) {
		return e
	}
	return et.encode(out)
}

func (et *evEnvTab) filter(e evEnv, keep func(k evVal) bool) evEnv {
	old := et.dec[e]
	if len(old) == 0 {
		return e
	}
	out := make([]evEnvEnt, 0, len(old))
	for _, x := range old {
		if keep(x.k) && (x.to.IsZero() || et.keepTarget == nil || et.keepTarget(x.to)) {
			out = append(out, x)
		}
	}
	if len(out) == len(old) {
		return e
	}
	return et.encode(out)
}

// ---- explorer

type evPath[S comparable] struct {
	abs S
	env evEnv
}

// evExit is a path leaving a frame through ret.
type evExit[S comparable] struct {
	Ret *ssa.Return
	P   evPath[S]
}

type evDeferNode struct {
	d    *ssa.Defer
	next *evDeferNode
}

// EvCtx is what a rule hook sees.
type EvCtx[S comparable] struct {
	X *EvExplorer[S]
	F *evFrame
	// Replaying: the instruction is a *ssa.Defer whose call is being executed at
	// a rundefers point.
	Replaying bool
	// Inlined: the call is about to be entered (the hook sees it before).
	Inlined bool
	env     evEnv
}

func (c *EvCtx[S]) Resolve(v ssa.Value) evVal { return c.ResolveIn(c.F, v) }

// ResolveIn resolves v of frame f, also through what this path knows about
// the values returned by callees with several return sites.
func (c *EvCtx[S]) ResolveIn(f *evFrame, v ssa.Value) evVal { return c.X.resolveEnv(c.env, f, v) }

func (x *EvExplorer[S]) resolveEnv(env evEnv, f *evFrame, v ssa.Value) evVal {
	r := x.T.Resolve(f, v)
	for i := 0; i < 8 && env != ""; i++ {
		to, ok := x.et.alias(env, r)
		if !ok {
			break
		}
		r = x.T.Resolve(to.F, to.V)
	}
	return r
}

// Known reports what the path knows about boolean value v.
func (c *EvCtx[S]) Known(v ssa.Value) (bool, bool) {
	k, neg := c.X.condKey(c.env, c.F, v)
	if kc, ok := k.V.(*ssa.Const); ok && kc.Value != nil && kc.Value.Kind() == constant.Bool {
		return constant.BoolVal(kc.Value) != neg, true
	}
	val, ok := c.X.et.get(c.env, k)
	return val != neg, ok
}

// EvExplorer runs the exploration for one rule.
type EvExplorer[S comparable] struct {
	T *evFrames
	// Instr is called for every executed instruction except phis, jumps, ifs,
	// returns, defer registrations and rundefers. Returning false drops the path.
	Instr func(c *EvCtx[S], in ssa.Instruction, s S) (S, bool)
	// Branch is called for every If edge taken (after the explorer has pruned
	// edges that contradict what the path knows).
	Branch func(c *EvCtx[S], ifi *ssa.If, taken bool, s S) (S, bool)
	// Select is called on the edge where case k of sel fired (k = -1: default).
	Select func(c *EvCtx[S], sel *ssa.Select, k int, s S) (S, bool)

	MaxSteps   int
	Steps      int
	Incomplete string
	// Dynamic: executed calls of function values whose target could not be
	// determined (with the value they resolve to); "X is never done" conclusions
	// are only positive when none of them could hide X.
	Dynamic []evDynCall

	et      *evEnvTab
	memo    map[evMemoKey[S]][]evExit[S]
	defTab  map[evDeferNode]*evDeferNode
	visited map[*ssa.Function]bool
}

type evDynCall struct {
	Site ssa.CallInstruction
	Val  evVal
}

type evMemoKey[S comparable] struct {
	f *evFrame
	p evPath[S]
}

func NewEvExplorer[S comparable](t *evFrames) *EvExplorer[S] {
	return &EvExplorer[S]{T: t, MaxSteps: 400000, et: &evEnvTab{t: t, dec: map[evEnv][]evEnvEnt{}},
		memo: map[evMemoKey[S]][]evExit[S]{}, defTab: map[evDeferNode]*evDeferNode{}, visited: map[*ssa.Function]bool{}}
}

// UnknownCalls describes the executed dynamic calls that are not known (by
// isKnown) to be harmless, e.g. "" if there are none.
func (x *EvExplorer[S]) UnknownCalls(isKnown func(d evDynCall) bool) string {
	seen := map[ssa.Instruction]bool{}
	var out []string
	for _, d := range x.Dynamic {
		in := d.Site.(ssa.Instruction)
		if seen[in] || (isKnown != nil && isKnown(d)) {
			continue
		}
		seen[in] = true
		out = append(out, "call of a function value at "+x.T.P.Pos(instrPos(in)))
	}
	sort.Strings(out)
	return strings.Join(out, ", ")
}

// Visited reports the functions whose bodies were entered.
func (x *EvExplorer[S]) Visited() []*ssa.Function {
	var out []*ssa.Function
	for f := range x.visited {
		out = append(out, f)
	}
	sort.Slice(out, func(i, j int) bool { return FuncName(x.T.P, out[i]) < FuncName(x.T.P, out[j]) })
	return out
}

// Explore runs root from abstract state init and returns the distinct exits.
func (x *EvExplorer[S]) Explore(root *evFrame, init S) []evExit[S] {
	return x.ExploreFrom(root, init, nil)
}

// EvSnapshot is what a path knew at some point (e.g. at a `go` statement), to
// start the exploration of the goroutine body with.
type EvSnapshot struct{ ents []evEnvEnt }

// Snapshot captures what the current path knows.
func (c *EvCtx[S]) Snapshot() *EvSnapshot {
	return &EvSnapshot{ents: append([]evEnvEnt(nil), c.X.et.dec[c.env]...)}
}

// ExploreFrom is Explore with the knowledge of a snapshot taken by another
// exploration over the same frames.
func (x *EvExplorer[S]) ExploreFrom(root *evFrame, init S, snap *EvSnapshot) []evExit[S] {
	start := evPath[S]{abs: init}
	if snap != nil && len(snap.ents) > 0 {
		start.env = x.et.encode(append([]evEnvEnt(nil), snap.ents...))
	}
	out := x.runFrame(root, start)
	if os.Getenv("KC_DEBUG") != "" {
		fmt.Fprintf(os.Stderr, "evx: %s steps=%d exits=%d envs=%d\n", FuncName(x.T.P, root.fn), x.Steps, len(out), len(x.et.dec))
	}
	return out
}

func (x *EvExplorer[S]) pushDefer(d *ssa.Defer, next *evDeferNode) *evDeferNode {
	k := evDeferNode{d, next}
	if n, ok := x.defTab[k]; ok {
		return n
	}
	n := &evDeferNode{d, next}
	x.defTab[k] = n
	return n
}

// condKey strips negations and resolves a boolean value, also through what
// the path (env) knows about cells and results of callees.
func (x *EvExplorer[S]) condKey(env evEnv, f *evFrame, v ssa.Value) (evVal, bool) {
	neg := false
	cur := evVal{f, v}
	for i := 0; i < 24; i++ {
		if u, ok := cur.V.(*ssa.UnOp); ok && u.Op == token.NOT {
			neg = !neg
			cur = evVal{cur.F, u.X}
			continue
		}
		r := x.T.Resolve(cur.F, cur.V)
		if r != cur {
			cur = r
			continue
		}
		// b == true, b != false, ...
		if bo, ok := cur.V.(*ssa.BinOp); ok && (bo.Op == token.EQL || bo.Op == token.NEQ) {
			other, k := bo.X, -1
			if kb := evConstBoolOf(bo.Y); kb >= 0 {
				k = kb
			} else if kb := evConstBoolOf(bo.X); kb >= 0 {
				other, k = bo.Y, kb
			}
			if k >= 0 && evIsBool(other.Type()) {
				if (bo.Op == token.EQL) != (k == 1) {
					neg = !neg
				}
				cur = evVal{cur.F, other}
				continue
			}
		}
		if env != "" {
			if to, n, ok := x.et.aliasNeg(env, cur); ok {
				cur = to
				if n {
					neg = !neg
				}
				continue
			}
		}
		break
	}
	return cur, neg
}

// foldCmp evaluates a comparison both of whose operands are (on this path)
// known constants, e.g. a code returned by a helper compared with a constant.
func (x *EvExplorer[S]) foldCmp(env evEnv, key evVal) (bool, bool) {
	bo, ok := key.V.(*ssa.BinOp)
	if !ok {
		return false, false
	}
	switch bo.Op {
	case token.EQL, token.NEQ, token.LSS, token.LEQ, token.GTR, token.GEQ:
	default:
		return false, false
	}
	a, isA := x.resolveEnv(env, key.F, bo.X).V.(*ssa.Const)
	b, isB := x.resolveEnv(env, key.F, bo.Y).V.(*ssa.Const)
	if !isA || !isB || a.Value == nil || b.Value == nil || a.Value.Kind() != b.Value.Kind() {
		return false, false
	}
	switch a.Value.Kind() {
	case constant.Int, constant.String:
		return constant.Compare(a.Value, bo.Op, b.Value), true
	}
	return false, false
}

func evConstBoolOf(v ssa.Value) int {
	k, ok := v.(*ssa.Const)
	if !ok || k.Value == nil || k.Value.Kind() != constant.Bool {
		return -1
	}
	if constant.BoolVal(k.Value) {
		return 1
	}
	return 0
}

// CondKey: the value a branch condition ultimately tests on this path, and
// whether it is negated.
func (c *EvCtx[S]) CondKey(v ssa.Value) (evVal, bool) { return c.X.condKey(c.env, c.F, v) }

type evPD[S comparable] struct {
	p evPath[S]
	d *evDeferNode
}

func (x *EvExplorer[S]) runFrame(f *evFrame, start evPath[S]) []evExit[S] {
	mk := evMemoKey[S]{f, start}
	if r, ok := x.memo[mk]; ok {
		return r
	}
	x.memo[mk] = nil
	x.visited[f.fn] = true
	type node struct {
		b *ssa.BasicBlock
		p evPath[S]
		d *evDeferNode
	}
	seen := map[node]bool{}
	var outs []evExit[S]
	outSeen := map[evExit[S]]bool{}
	if len(f.fn.Blocks) == 0 {
		return nil
	}
	work := []node{{f.fn.Blocks[0], start, nil}}
	for len(work) > 0 && x.Incomplete == "" {
		n := work[len(work)-1]
		work = work[:len(work)-1]
		if seen[n] {
			continue
		}
		seen[n] = true
		x.Steps++
		if x.Steps > x.MaxSteps {
			x.Incomplete = fmt.Sprintf("exploration of %s exceeded %d steps", FuncName(x.T.P, f.fn), x.MaxSteps)
			break
		}
		cur := []evPD[S]{{n.p, n.d}}
		for _, in := range n.b.Instrs {
			if len(cur) == 0 {
				break
			}
			switch t := in.(type) {
			case *ssa.Phi, *ssa.DebugRef, *ssa.Jump:
				continue
			case *ssa.Defer:
				for i := range cur {
					cur[i].d = x.pushDefer(t, cur[i].d)
				}
			case *ssa.RunDefers:
				var next []evPD[S]
				for _, pd := range cur {
					ps := []evPath[S]{pd.p}
					for d := pd.d; d != nil && len(ps) > 0; d = d.next {
						var ps2 []evPath[S]
						for _, p := range ps {
							ps2 = append(ps2, x.execCall(f, d.d, p, true)...)
						}
						ps = evDedupPaths(ps2)
					}
					for _, p := range ps {
						next = append(next, evPD[S]{p, nil})
					}
				}
				cur = evDedupPD(next)
			case *ssa.Call:
				var next []evPD[S]
				for _, pd := range cur {
					for _, p := range x.execCall(f, t, pd.p, false) {
						next = append(next, evPD[S]{p, pd.d})
					}
				}
				cur = evDedupPD(next)
			case *ssa.If:
				for _, pd := range cur {
					key, neg := x.condKey(pd.p.env, f, t.Cond)
					for _, taken := range []bool{true, false} {
						val := taken != neg // value of key on this edge
						p := pd.p
						if kc, ok := key.V.(*ssa.Const); ok && kc.Value != nil && kc.Value.Kind() == constant.Bool {
							if constant.BoolVal(kc.Value) != val {
								continue
							}
						} else if folded, ok := x.foldCmp(p.env, key); ok {
							if folded != val {
								continue
							}
						} else if known, ok := x.et.get(p.env, key); ok {
							if known != val {
								continue
							}
						} else {
							p.env = x.et.set(p.env, key, val)
						}
						succ := n.b.Succs[0]
						if !taken {
							succ = n.b.Succs[1]
						}
						c := &EvCtx[S]{X: x, F: f, env: p.env}
						keep := true
						if x.Branch != nil {
							p.abs, keep = x.Branch(c, t, taken, p.abs)
						}
						if !keep {
							continue
						}
						work = append(work, node{succ, x.enterBlock(f, n.b, succ, p), pd.d})
					}
				}
				cur = nil
			case *ssa.Select:
				// fork per case that can fire; the choice becomes knowledge about the
				// `index == k` tests that follow (some of which the SSA builder drops
				// when both arms lead to the same place)
				tests := evSelectTests(t)
				var next []evPD[S]
				for _, pd := range cur {
					p := pd.p
					keep := true
					if x.Instr != nil {
						c := &EvCtx[S]{X: x, F: f, env: p.env}
						p.abs, keep = x.Instr(c, in, p.abs)
					}
					if !keep {
						continue
					}
					lo := 0
					if !t.Blocking {
						lo = -1
					}
					for k := lo; k < len(t.States); k++ {
						q := p
						for bo, kk := range tests {
							q.env = x.et.set(q.env, evVal{f, bo}, kk == k)
						}
						ok := true
						if x.Select != nil {
							c := &EvCtx[S]{X: x, F: f, env: q.env}
							q.abs, ok = x.Select(c, t, k, q.abs)
						}
						if ok {
							next = append(next, evPD[S]{q, pd.d})
						}
					}
				}
				cur = evDedupPD(next)
			case *ssa.Return:
				for _, pd := range cur {
					ex := evExit[S]{t, pd.p}
					if !outSeen[ex] {
						outSeen[ex] = true
						outs = append(outs, ex)
					}
				}
				cur = nil
			case *ssa.Panic:
				cur = nil
			default:
				var next []evPD[S]
				for _, pd := range cur {
					p := pd.p
					if _, isEx := in.(*ssa.Extract); isEx {
						// a projection of a tuple: what is known about it dies with the tuple
					} else if evIsSelectTest(in) {
						// decided when the select fired
					} else if v, ok := in.(ssa.Value); ok && p.env != "" {
						kv := evVal{f, v}
						p.env = x.et.kill(p.env, func(k evVal) bool { return k == kv })
					}
					p.env = x.trackCell(f, in, p.env)
					keep := true
					if x.Instr != nil {
						c := &EvCtx[S]{X: x, F: f, env: p.env}
						p.abs, keep = x.Instr(c, in, p.abs)
					}
					if keep {
						next = append(next, evPD[S]{p, pd.d})
					}
				}
				cur = evDedupPD(next)
			}
		}
		// fallthrough to the single successor (Jump)
		if len(cur) > 0 && len(n.b.Succs) == 1 {
			for _, pd := range cur {
				work = append(work, node{n.b.Succs[0], x.enterBlock(f, n.b, n.b.Succs[0], pd.p), pd.d})
			}
		}
	}
	x.memo[mk] = outs
	return outs
}

// trackCell follows the contents of non-escaping local cells that are stored
// more than once (result slots of functions with defers, variables assigned
// on several paths): a store records what the cell holds on this path, a load
// snapshots it.
func (x *EvExplorer[S]) trackCell(f *evFrame, in ssa.Instruction, env evEnv) evEnv {
	switch v := in.(type) {
	case *ssa.BinOp:
		// small integer arithmetic on known constants (loop counters over literal tables)
		switch v.Op {
		case token.ADD, token.SUB:
			a, okA := x.resolveEnv(env, f, v.X).V.(*ssa.Const)
			b, okB := x.resolveEnv(env, f, v.Y).V.(*ssa.Const)
			if okA && okB && a.Value != nil && b.Value != nil && a.Value.Kind() == constant.Int && b.Value.Kind() == constant.Int {
				n := a.Int64() + b.Int64()
				if v.Op == token.SUB {
					n = a.Int64() - b.Int64()
				}
				if n >= -1 && n <= evMaxCount {
					return x.et.setAlias(env, evVal{f, v}, evVal{nil, x.T.konst(n, v.Type())})
				}
			}
		}
		return env
	case *ssa.Alloc:
		// a fresh variable holds its zero value
		if !x.T.simpleCell(v) {
			return env
		}
		cell := evVal{f, v}
		if pt, ok := v.Type().Underlying().(*types.Pointer); ok && evIsBool(pt.Elem()) {
			return x.et.set(env, cell, false)
		}
		return env
	case *ssa.Store:
		cell, ok := x.T.cellOfAddr(f, v.Addr)
		if !ok {
			cell, ok = x.arrayCell(env, f, v.Addr)
		}
		if !ok {
			return env
		}
		return x.bind(env, cell, f, v.Val)
	case *ssa.UnOp:
		if v.Op != token.MUL {
			return env
		}
		cell, ok := x.T.cellOfAddr(f, v.X)
		if !ok {
			cell, ok = x.arrayCell(env, f, v.X)
		}
		if !ok {
			return env
		}
		me := evVal{f, v}
		if evIsBool(v.Type()) {
			if val, ok := x.et.get(env, cell); ok {
				return x.et.set(env, me, val)
			}
		}
		if to, neg, ok := x.et.aliasNeg(env, cell); ok {
			return x.et.setAliasNeg(env, me, to, neg)
		}
	}
	return env
}

// evMaxCount bounds the integer constants that are tracked, so that counting
// loops stop being unrolled after a few iterations.
const evMaxCount = 8

// konst returns the canonical constant n of type typ.
func (t *evFrames) konst(n int64, typ types.Type) *ssa.Const {
	k := fmt.Sprintf("%s|%d", typ.String(), n)
	if c, ok := t.konsts[k]; ok {
		return c
	}
	c := ssa.NewConst(constant.MakeInt64(n), typ)
	t.konsts[k] = c
	return c
}

// constLen: v is a slice of a whole array literal (or the array itself).
func (t *evFrames) constLen(v evVal) (int64, bool) {
	switch x := v.V.(type) {
	case *ssa.Slice:
		if x.Low != nil || x.High != nil || x.Max != nil {
			return 0, false
		}
		if pt, ok := x.X.Type().Underlying().(*types.Pointer); ok {
			if at, ok := pt.Elem().Underlying().(*types.Array); ok {
				return at.Len(), true
			}
		}
	}
	return 0, false
}

// arrayCell: addr is &a[k] with k a known constant and a (a slice of) a local
// array literal that is only ever initialised element by element and sliced.
func (x *EvExplorer[S]) arrayCell(env evEnv, f *evFrame, addr ssa.Value) (evVal, bool) {
	ia, ok := addr.(*ssa.IndexAddr)
	if !ok {
		return evVal{}, false
	}
	base := x.resolveEnv(env, f, ia.X)
	if sl, ok := base.V.(*ssa.Slice); ok && sl.Low == nil && sl.High == nil && sl.Max == nil {
		base = x.resolveEnv(env, base.F, sl.X)
	}
	a, ok := base.V.(*ssa.Alloc)
	if !ok {
		return evVal{}, false
	}
	kc, ok := x.resolveEnv(env, f, ia.Index).V.(*ssa.Const)
	if !ok || kc.Value == nil || kc.Value.Kind() != constant.Int {
		return evVal{}, false
	}
	reps, seen := x.T.arrays[a]
	if !seen {
		reps = map[int64]*ssa.IndexAddr{}
		plain := true
		if pt, ok := a.Type().Underlying().(*types.Pointer); !ok {
			plain = false
		} else if _, isArr := pt.Elem().Underlying().(*types.Array); !isArr {
			plain = false
		}
		for _, r := range refs(a) {
			switch y := r.(type) {
			case *ssa.IndexAddr:
				k, isK := y.Index.(*ssa.Const)
				if !isK || k.Value == nil {
					plain = false
					continue
				}
				for _, u := range refs(y) {
					switch z := u.(type) {
					case *ssa.Store:
						if z.Addr != ssa.Value(y) {
							plain = false
						}
					case *ssa.UnOp, *ssa.DebugRef:
					default:
						plain = false
					}
				}
				if reps[k.Int64()] == nil {
					reps[k.Int64()] = y
				}
			case *ssa.Slice, *ssa.DebugRef:
			default:
				plain = false
			}
		}
		if !plain {
			reps = nil
		}
		x.T.arrays[a] = reps
	}
	if reps == nil || reps[kc.Int64()] == nil {
		return evVal{}, false
	}
	return evVal{base.F, reps[kc.Int64()]}, true
}

// cellOfAddr: addr (in frame f) is the address of a tracked local cell, also
// when reached through the free variable of an inlined closure.
func (t *evFrames) cellOfAddr(f *evFrame, addr ssa.Value) (evVal, bool) {
	switch a := addr.(type) {
	case *ssa.Alloc:
	case *ssa.FreeVar:
		r := t.Resolve(f, addr)
		f, addr = r.F, r.V
	case *ssa.FieldAddr:
		// a field of a local struct variable whose address is never taken
		st, ok := a.X.(*ssa.Alloc)
		if !ok {
			return evVal{}, false
		}
		if rep := t.structCell(st, a.Field); rep != nil {
			return evVal{f, rep}, true
		}
		return evVal{}, false
	default:
		return evVal{}, false
	}
	a, ok := addr.(*ssa.Alloc)
	if !ok || !t.simpleCell(a) {
		return evVal{}, false
	}
	return evVal{f, a}, true
}

// structCell: st is a local struct variable used only through stores to and
// loads from its fields; returns the canonical FieldAddr standing for field i.
func (t *evFrames) structCell(st *ssa.Alloc, field int) *ssa.FieldAddr {
	reps, ok := t.structs[st]
	if !ok {
		reps = map[int]*ssa.FieldAddr{}
		plain := true
		for _, r := range refs(st) {
			switch x := r.(type) {
			case *ssa.FieldAddr:
				for _, u := range refs(x) {
					switch y := u.(type) {
					case *ssa.Store:
						if y.Addr != ssa.Value(x) {
							plain = false
						}
					case *ssa.UnOp:
						if y.Op != token.MUL {
							plain = false
						}
					case *ssa.DebugRef:
					default:
						plain = false
					}
				}
				if reps[x.Field] == nil {
					reps[x.Field] = x
				}
			case *ssa.DebugRef:
			case *ssa.Store:
				// whole-struct (zero) initialisation only
				if k, isK := x.Val.(*ssa.Const); x.Addr != ssa.Value(st) || !isK || k.Value != nil {
					plain = false
				}
			default:
				plain = false
			}
		}
		if !plain {
			reps = nil
		}
		t.structs[st] = reps
	}
	if reps == nil {
		return nil
	}
	return reps[field]
}

// bind records that key holds (on this path) the value val of frame f.
func (x *EvExplorer[S]) bind(env evEnv, key evVal, f *evFrame, val ssa.Value) evEnv {
	env = x.et.kill(env, func(k evVal) bool { return k == key })
	if evIsBool(val.Type()) {
		rk, neg := x.condKey(env, f, val)
		if kc, ok := rk.V.(*ssa.Const); ok && kc.Value != nil && kc.Value.Kind() == constant.Bool {
			return x.et.set(env, key, constant.BoolVal(kc.Value) != neg)
		}
		if b, ok := x.et.get(env, rk); ok {
			return x.et.set(env, key, b != neg)
		}
		if rk != key {
			return x.et.setAliasNeg(env, key, rk, neg)
		}
		return env
	}
	to := x.resolveEnv(env, f, val)
	if to == key {
		return env
	}
	return x.et.setAlias(env, key, to)
}

// simpleCell: a local cell stored more than once (or stored inside closures)
// whose address does not escape: it is only loaded, stored, and captured by
// closures that are called or deferred on the spot (so that every store is
// seen by the exploration).
func (t *evFrames) simpleCell(a *ssa.Alloc) bool {
	if v, ok := t.cells[a]; ok {
		return v
	}
	vals, fns, esc := evCellStores(a, 0)
	ok := !esc && len(vals) > 0
	own := true
	for _, fn := range fns {
		if fn != a.Parent() {
			own = false
		}
	}
	if ok && own && len(vals) == 1 {
		ok = false // a single store in the own function: resolved statically
	}
	if ok && !evClosuresCalledOnSpot(a, 0) {
		ok = false
	}
	t.cells[a] = ok
	return ok
}

// evOnlyCallsParam: the closure mc is handed to a statically known function
// with a body that does nothing with the parameter but call it (or defer it).
func evOnlyCallsParam(c *ssa.Call, mc *ssa.MakeClosure) bool {
	cal := staticCallee(c)
	if cal == nil || len(cal.Blocks) == 0 {
		return false
	}
	for i, a := range c.Call.Args {
		if a != ssa.Value(mc) {
			continue
		}
		if i >= len(cal.Params) {
			return false
		}
		for _, u := range refs(cal.Params[i]) {
			switch cc := u.(type) {
			case *ssa.Call:
				if cc.Call.Value != ssa.Value(cal.Params[i]) {
					return false
				}
			case *ssa.Defer:
				if cc.Call.Value != ssa.Value(cal.Params[i]) {
					return false
				}
			case *ssa.DebugRef:
			default:
				return false
			}
		}
	}
	return true
}

// evClosuresCalledOnSpot: every closure capturing cell is only ever called or
// deferred directly (not started as a goroutine, stored or passed on).
func evClosuresCalledOnSpot(cell ssa.Value, depth int) bool {
	if depth > 10 {
		return false
	}
	for _, r := range refs(cell) {
		mc, ok := r.(*ssa.MakeClosure)
		if !ok {
			continue
		}
		for _, u := range refs(mc) {
			switch c := u.(type) {
			case *ssa.Call:
				if c.Call.Value != ssa.Value(mc) && !evOnlyCallsParam(c, mc) {
					return false
				}
			case *ssa.Defer:
				if c.Call.Value != ssa.Value(mc) {
					return false
				}
			case *ssa.DebugRef:
			default:
				return false
			}
		}
		fn, _ := mc.Fn.(*ssa.Function)
		if fn == nil {
			return false
		}
		for i, b := range mc.Bindings {
			if b == cell && i < len(fn.FreeVars) && !evClosuresCalledOnSpot(fn.FreeVars[i], depth+1) {
				return false
			}
		}
	}
	return true
}

func evDedupPD[S comparable](in []evPD[S]) []evPD[S] {
	if len(in) < 2 {
		return in
	}
	seen := map[evPD[S]]bool{}
	out := in[:0:0]
	for _, p := range in {
		if !seen[p] {
			seen[p] = true
			out = append(out, p)
		}
	}
	return out
}

func evDedupPaths[S comparable](in []evPath[S]) []evPath[S] {
	if len(in) < 2 {
		return in
	}
	seen := map[evPath[S]]bool{}
	out := in[:0:0]
	for _, p := range in {
		if !seen[p] {
			seen[p] = true
			out = append(out, p)
		}
	}
	return out
}

// enterBlock applies the phis of `to` for the edge from->to: what the path
// knew about a phi is forgotten, and a boolean phi whose incoming value on
// this edge is known becomes known.
func (x *EvExplorer[S]) enterBlock(f *evFrame, from, to *ssa.BasicBlock, p evPath[S]) evPath[S] {
	pi := -1
	for i, pr := range to.Preds {
		if pr == from {
			pi = i
		}
	}
	type upd struct {
		k     evVal
		val   bool
		ok    bool
		to    evVal
		toNeg bool
	}
	var ups []upd
	for _, in := range to.Instrs {
		phi, ok := in.(*ssa.Phi)
		if !ok {
			break
		}
		u := upd{k: evVal{f, phi}}
		if pi >= 0 && pi < len(phi.Edges) {
			if evIsBool(phi.Type()) {
				key, neg := x.condKey(p.env, f, phi.Edges[pi])
				if kc, ok := key.V.(*ssa.Const); ok && kc.Value != nil && kc.Value.Kind() == constant.Bool {
					u.val, u.ok = constant.BoolVal(kc.Value) != neg, true
				} else if v, ok := x.et.get(p.env, key); ok {
					u.val, u.ok = v != neg, true
				} else if key != u.k {
					u.to, u.toNeg = key, neg
				}
			} else if to := x.resolveEnv(p.env, f, phi.Edges[pi]); to != u.k {
				// on this path the phi is its incoming value
				u.to = to
			}
		}
		ups = append(ups, u)
	}
	if len(ups) == 0 {
		return p
	}
	if p.env != "" {
		p.env = x.et.kill(p.env, func(kk evVal) bool {
			for _, u := range ups {
				if kk == u.k {
					return true
				}
			}
			return false
		})
	}
	for _, u := range ups {
		switch {
		case u.ok:
			p.env = x.et.set(p.env, u.k, u.val)
		case !u.to.IsZero():
			// (an incoming value that is itself one of the phis just killed is stale)
			stale := false
			for _, w := range ups {
				if w.k == u.to {
					stale = true
				}
			}
			if !stale {
				p.env = x.et.setAliasNeg(p.env, u.k, u.to, u.toNeg)
			}
		}
	}
	return p
}

func evIsBool(t types.Type) bool {
	b, ok := t.Underlying().(*types.Basic)
	return ok && b.Info()&types.IsBoolean != 0
}

// evSelectTests returns the `index == k` comparisons of a select.
func evSelectTests(sel *ssa.Select) map[*ssa.BinOp]int {
	out := map[*ssa.BinOp]int{}
	for _, r := range refs(sel) {
		ex, ok := r.(*ssa.Extract)
		if !ok || ex.Index != 0 {
			continue
		}
		for _, rr := range refs(ex) {
			if bo, ok := rr.(*ssa.BinOp); ok && bo.Op == token.EQL && bo.X == ssa.Value(ex) {
				if kc, ok := bo.Y.(*ssa.Const); ok && kc.Value != nil {
					out[bo] = int(kc.Int64())
				}
			}
		}
	}
	return out
}

func evIsSelectTest(in ssa.Instruction) bool {
	bo, ok := in.(*ssa.BinOp)
	if !ok || bo.Op != token.EQL {
		return false
	}
	ex, ok := bo.X.(*ssa.Extract)
	if !ok || ex.Index != 0 {
		return false
	}
	_, ok = ex.Tuple.(*ssa.Select)
	return ok
}

// evSelectEdge: the If tests `index-of(select) == k`; on the true edge case k
// fired; on the false edge of the last test of a non-blocking select the
// default fired.
func evSelectEdge(ifi *ssa.If, taken bool) (*ssa.Select, int, bool) {
	bo, ok := ifi.Cond.(*ssa.BinOp)
	if !ok || bo.Op != token.EQL {
		return nil, 0, false
	}
	ex, ok := bo.X.(*ssa.Extract)
	if !ok || ex.Index != 0 {
		return nil, 0, false
	}
	sel, ok := ex.Tuple.(*ssa.Select)
	if !ok {
		return nil, 0, false
	}
	kc, ok := bo.Y.(*ssa.Const)
	if !ok || kc.Value == nil {
		return nil, 0, false
	}
	k := int(kc.Int64())
	if taken {
		return sel, k, true
	}
	if !sel.Blocking && k == len(sel.States)-1 {
		return sel, -1, true
	}
	return nil, 0, false
}

// execCall executes a call instruction (Call, or a Defer being replayed) on
// path p of frame f and returns the continuing paths.
func (x *EvExplorer[S]) execCall(f *evFrame, site ssa.CallInstruction, p evPath[S], replay bool) []evPath[S] {
	var fv evVal
	if cc := site.Common(); !cc.IsInvoke() {
		fv = x.resolveEnv(p.env, f, cc.Value)
	}
	cf := x.T.calleeVal(f, site, fv)
	once := false
	if cf == nil && callIs(site, "sync", "Once", "Do") && len(site.Common().Args) == 2 {
		// once.Do(fn) runs fn (here: as if this were the first call)
		if of := x.T.calleeOf(f, site, x.resolveEnv(p.env, f, site.Common().Args[1]), true); of != nil {
			cf, once = of, true
		}
	}
	// forget what was known about the previous execution of this call
	if p.env != "" {
		call, _ := site.(*ssa.Call)
		p.env = x.et.kill(p.env, func(k evVal) bool {
			if cf != nil && k.F.within(cf) {
				return true
			}
			if call != nil && k.F == f {
				if k.V == ssa.Value(call) {
					return true
				}
				if ex, ok := k.V.(*ssa.Extract); ok && ex.Tuple == ssa.Value(call) {
					return true
				}
			}
			return false
		})
	}
	if x.Instr != nil {
		c := &EvCtx[S]{X: x, F: f, Replaying: replay, Inlined: cf != nil, env: p.env}
		var keep bool
		p.abs, keep = x.Instr(c, site.(ssa.Instruction), p.abs)
		if !keep {
			return nil
		}
	}
	_ = once
	if cf == nil {
		if call, ok := site.(*ssa.Call); ok && builtinName(site) == "len" && len(call.Call.Args) == 1 {
			if n, ok := x.T.constLen(x.resolveEnv(p.env, f, call.Call.Args[0])); ok {
				p.env = x.et.setAlias(p.env, evVal{f, call}, evVal{nil, x.T.konst(n, call.Type())})
			}
		}
		if cc := site.Common(); !cc.IsInvoke() && (staticCallee(site) == nil || staticCallee(site).Synthetic != "") {
			if _, isB := cc.Value.(*ssa.Builtin); !isB {
				x.Dynamic = append(x.Dynamic, evDynCall{site, x.resolveEnv(p.env, f, cc.Value)})
			}
		}
		return []evPath[S]{p}
	}
	exits := x.runFrame(cf, p)
	call, _ := site.(*ssa.Call)
	var out []evPath[S]
	for _, ex := range exits {
		q := ex.P
		// keys through which the caller can see the results
		var keepKeys []evVal
		if call != nil {
			nres := call.Call.Signature().Results().Len()
			for i := 0; i < nres && i < len(ex.Ret.Results); i++ {
				var callerVals []ssa.Value
				if nres == 1 {
					callerVals = []ssa.Value{call}
				} else {
					for _, r := range refs(call) {
						if e, ok := r.(*ssa.Extract); ok && e.Index == i {
							callerVals = append(callerVals, e)
						}
					}
				}
				if !evIsBool(ex.Ret.Results[i].Type()) {
					for _, cv := range callerVals {
						ck := x.T.Resolve(f, cv)
						keepKeys = append(keepKeys, ck)
						if !ck.F.within(cf) {
							// several return sites: on this path the result is what this site returned
							to := x.resolveEnv(q.env, cf, ex.Ret.Results[i])
							q.env = x.et.setAlias(q.env, ck, to)
						}
					}
					continue
				}
				rk, neg := x.condKey(q.env, cf, ex.Ret.Results[i])
				val, known := false, false
				if kc, ok := rk.V.(*ssa.Const); ok && kc.Value != nil && kc.Value.Kind() == constant.Bool {
					val, known = constant.BoolVal(kc.Value) != neg, true
				} else if v, ok := x.et.get(q.env, rk); ok {
					val, known = v != neg, true
				}
				for _, cv := range callerVals {
					ck, cneg := x.condKey("", f, cv)
					keepKeys = append(keepKeys, ck)
					if ck.F.within(cf) {
						continue
					}
					if known {
						q.env = x.et.set(q.env, ck, val != cneg)
					} else if _, isK := rk.V.(*ssa.Const); !isK {
						// several return sites: on this path the result is this site's value
						q.env = x.et.setAliasNeg(q.env, ck, rk, neg != cneg)
						keepKeys = append(keepKeys, rk)
					}
				}
			}
		}
		// what the caller's cells and results refer to inside the callee stays known
		for _, en := range x.et.dec[q.env] {
			if !en.to.IsZero() && !en.k.F.within(cf) {
				keepKeys = append(keepKeys, en.to)
			}
		}
		q.env = x.et.filter(q.env, func(k evVal) bool {
			if !k.F.within(cf) {
				return true
			}
			for _, kk := range keepKeys {
				if kk == k {
					return true
				}
			}
			return false
		})
		out = append(out, q)
	}
	return evDedupPaths(out)
}

// GoFrame returns the frame of the goroutine body started by g in frame f
// (values of the body resolve into the spawner), or nil.
func (t *evFrames) GoFrame(f *evFrame, g *ssa.Go) *evFrame { return t.Callee(f, g) }

// evReachesCall reports whether fn, a closure it creates, or a same-module static
// callee (transitively, also through go/defer), contains a call instruction
// satisfying pred.
func evReachesCall(p *Prog, fn *ssa.Function, pred func(ci ssa.CallInstruction) bool) bool {
	return evReachesCallVia(nil, p, fn, pred)
}

// evReachesCallVia also walks through the seams t knows how to follow:
// func-typed fields assigned once and single-implementation interfaces.
func evReachesCallVia(t *evFrames, p *Prog, fn *ssa.Function, pred func(ci ssa.CallInstruction) bool) bool {
	seen := map[*ssa.Function]bool{}
	var walk func(f *ssa.Function) bool
	walk = func(f *ssa.Function) bool {
		f = origin(f)
		if f == nil || seen[f] {
			return false
		}
		seen[f] = true
		found := false
		for _, a := range f.AnonFuncs {
			// closures created here may be run through a function value
			if walk(a) {
				return true
			}
		}
		allInstrs(f, func(in ssa.Instruction) {
			if found {
				return
			}
			ci, ok := in.(ssa.CallInstruction)
			if !ok {
				return
			}
			if pred(ci) {
				found = true
				return
			}
			if cal := staticCallee(ci); cal != nil && p.funcSet[cal] && walk(cal) {
				found = true
			}
			if t != nil && !found {
				cc := ci.Common()
				if cc.IsInvoke() {
					if m := t.soleImpl(cc.Method); m != nil && walk(m) {
						found = true
					}
				} else if id, _, ok := fieldOfValue(cc.Value); ok {
					if v, ok := t.fieldFunc(id); ok {
						if tf := evFuncOfValue(p, v.V); tf != nil && walk(tf) {
							found = true
						}
					}
				}
			}
		})
		return found
	}
	return walk(fn)
}

// evCalleeClosure returns fn and every same-module function reachable from it
// through static calls, go and defer statements.
func evCalleeClosure(p *Prog, roots ...*ssa.Function) []*ssa.Function {
	seen := map[*ssa.Function]bool{}
	var out []*ssa.Function
	var walk func(f *ssa.Function)
	walk = func(f *ssa.Function) {
		f = origin(f)
		if f == nil || seen[f] || !p.funcSet[f] {
			return
		}
		seen[f] = true
		out = append(out, f)
		for _, a := range f.AnonFuncs {
			walk(a)
		}
		allInstrs(f, func(in ssa.Instruction) {
			if ci, ok := in.(ssa.CallInstruction); ok {
				if cal := staticCallee(ci); cal != nil {
					walk(cal)
				}
			}
		})
	}
	for _, r := range roots {
		walk(r)
	}
	return out
}

// ---- lock context of instructions, context-sensitively

const (
	evSeenHeldR  = 1 << iota // executed with the lock held for reading
	evSeenHeldW              // executed with the lock held for writing
	evSeenUnheld             // executed without the lock
)

type evHeldState struct{ mode Mode }

// evHeld explores the given root functions and every goroutine they start,
// with same-package callees inlined, and records for every executed
// instruction in which lock contexts (of lockID) it was seen. Unlike the
// summary-based lockset engine this is context-sensitive: a helper or closure
// that runs both with and without the lock is judged per call path.
func evHeld(p *Prog, e *LockEngine, t *evFrames, roots []*ssa.Function, lockID string) (map[ssa.Instruction]uint8, string) {
	seen := map[ssa.Instruction]uint8{}
	x := NewEvExplorer[evHeldState](t)
	var pending []*evFrame
	queued := map[*evFrame]bool{}
	snaps := map[*evFrame]*EvSnapshot{}
	x.Instr = func(c *EvCtx[evHeldState], in ssa.Instruction, s evHeldState) (evHeldState, bool) {
		switch s.mode {
		case ModeW:
			seen[in] |= evSeenHeldW
		case ModeR:
			seen[in] |= evSeenHeldR
		default:
			seen[in] |= evSeenUnheld
		}
		if g, ok := in.(*ssa.Go); ok {
			if gf := t.GoFrame(c.F, g); gf != nil && !queued[gf] {
				queued[gf] = true
				pending = append(pending, gf)
				snaps[gf] = c.Snapshot()
			}
			return s, true
		}
		if ci, ok := in.(ssa.CallInstruction); ok {
			if id, kind, ok := evLockOp(c, e, ci); ok && id == lockID {
				switch kind {
				case opLock:
					s.mode = ModeW
				case opRLock:
					s.mode = ModeR
				default:
					s.mode = ModeNone
				}
			}
		}
		return s, true
	}
	for _, r := range roots {
		x.Explore(t.Root(r), evHeldState{})
	}
	for len(pending) > 0 {
		gf := pending[0]
		pending = pending[1:]
		x.ExploreFrom(gf, evHeldState{}, snaps[gf])
	}
	return seen, x.Incomplete
}

// evGuarded is CheckGuardedBy with a second opinion: an access that the
// summary-based lockset engine cannot prove protected is accepted when the
// context-sensitive exploration reached it and only ever with the lock held
// in a sufficient mode.
func evGuarded(p *Prog, e *LockEngine, r *Report, rule string, fns []*ssa.Function, held map[ssa.Instruction]uint8, specs []GuardSpec) int {
	byField := map[FieldID]*GuardSpec{}
	for i := range specs {
		byField[specs[i].Field] = &specs[i]
	}
	total := 0
	perField := map[FieldID]int{}
	for _, fn := range fns {
		accs := FieldAccesses(fn, func(id FieldID) bool { return byField[id] != nil })
		if len(accs) == 0 {
			continue
		}
		fname := FuncName(p, fn)
		type agg struct {
			n   int
			bad []string
			pos token.Pos
		}
		per := map[FieldID]*agg{}
		var order []FieldID
		for _, a := range accs {
			spec := byField[a.ID]
			if a.Fresh {
				continue
			}
			hs, explored := held[a.Instr]
			if !e.Reachable(a.Instr) && !explored {
				continue
			}
			g := per[a.ID]
			if g == nil {
				g = &agg{}
				per[a.ID] = g
				order = append(order, a.ID)
			}
			g.n++
			total++
			perField[a.ID]++
			need := ModeR
			if a.Kind == AccWrite {
				need = ModeW
			}
			have := e.At(a.Instr)[spec.Lock]
			if have < need && explored && hs&evSeenUnheld == 0 && (need == ModeR || hs&evSeenHeldR == 0) {
				have = need
			}
			if have < need {
				if !g.pos.IsValid() {
					g.pos = instrPos(a.Instr)
				}
				g.bad = append(g.bad, fmt.Sprintf("%s (%s) at %s needs %s(%s), holds %s", a.Kind, a.What, p.Pos(instrPos(a.Instr)), shortID(spec.Lock), need, have))
			}
		}
		for _, id := range order {
			g := per[id]
			construct := fname + " -> " + id.String()
			if len(g.bad) > 0 {
				r.Violation(rule, construct, p.Pos(g.pos), fmt.Sprintf("%d of %d accesses to %s are not protected by %s", len(g.bad), g.n, id, shortID(byField[id].Lock)), g.bad...)
			} else {
				r.OK(rule, construct, p.Pos(fn.Pos()), fmt.Sprintf("%d accesses under %s", g.n, shortID(byField[id].Lock)))
			}
		}
	}
	for _, s := range specs {
		if perField[s.Field] == 0 {
			r.Undecide("guarded field %s has no access in the loaded program (anchor moved?)", s.Field)
		}
	}
	return total
}

// evExportedRoots: the functions of fns callable from outside the package.
func evExportedRoots(fns []*ssa.Function) []*ssa.Function {
	var out []*ssa.Function
	for _, fn := range fns {
		if isExportedFunc(fn) {
			out = append(out, fn)
		}
	}
	return out
}

// evDerivesFromParam reports whether v (in the hook's frame) is computed from a
// parameter of frame root: a bounded backward walk over operands, through
// Resolve at every step.
func evDerivesFromParam[S comparable](c *EvCtx[S], f *evFrame, v ssa.Value, root *evFrame) bool {
	seen := map[evVal]bool{}
	var walk func(cur evVal, depth int) bool
	walk = func(cur evVal, depth int) bool {
		if depth > 12 || cur.V == nil {
			return false
		}
		cur = c.ResolveIn(cur.F, cur.V)
		if seen[cur] {
			return false
		}
		seen[cur] = true
		if _, ok := cur.V.(*ssa.Parameter); ok {
			return cur.F == root
		}
		in, ok := cur.V.(ssa.Instruction)
		if !ok {
			return false
		}
		if _, isCall := in.(*ssa.Call); isCall {
			return false
		}
		for _, op := range in.Operands(nil) {
			if op != nil && *op != nil && walk(evVal{cur.F, *op}, depth+1) {
				return true
			}
		}
		return false
	}
	return walk(evVal{f, v}, 0)
}

// evField is a field of a component struct or of one of its sub-structs.
type evField struct {
	ID   FieldID
	Type types.Type
}

// evFieldsDeep lists the fields of the struct type t and, recursively, of the
// fields whose type is a named struct of package pkgPath held by value, by
// pointer or embedded (state grouped into sub-structs), unless leaf says the
// type is a unit of its own. Fields are identified by (immediate struct type,
// field name), which is what the SSA field accesses show.
func evFieldsDeep(pkgPath string, t types.Type, leaf func(named string) bool) []evField {
	var out []evField
	seen := map[string]bool{}
	var walk func(t types.Type, depth int)
	walk = func(t types.Type, depth int) {
		owner := namedKey(t)
		st := structOf(t)
		if st == nil || owner == "" || seen[owner] || depth > 4 {
			return
		}
		seen[owner] = true
		for i := 0; i < st.NumFields(); i++ {
			f := st.Field(i)
			out = append(out, evField{FieldID{owner, f.Name()}, f.Type()})
			nk := namedKey(f.Type())
			if strings.HasPrefix(nk, pkgPath+".") && structOf(f.Type()) != nil && (leaf == nil || !leaf(nk)) {
				if _, isSlice := f.Type().Underlying().(*types.Slice); !isSlice {
					walk(f.Type(), depth+1)
				}
			}
		}
	}
	walk(t, 0)
	return out
}

// evLockOp is LockEngine.lockOp with the receiver resolved along the path (a
// lock reached through a bound method value, a parameter, a local alias).
func evLockOp[S comparable](c *EvCtx[S], e *LockEngine, ci ssa.CallInstruction) (string, lockOpKind, bool) {
	if id, kind, ok := e.lockOp(ci); ok {
		// a pointer to the lock kept in a local or parameter: look through it
		if strings.HasPrefix(id, "local:") && len(ci.Common().Args) > 0 {
			if rid, ok := lockIdent(c.Resolve(ci.Common().Args[0]).V); ok && !strings.HasPrefix(rid, "local:") {
				return rid, kind, true
			}
		}
		return id, kind, true
	}
	if len(ci.Common().Args) == 0 || !isLockName(ci) {
		return "", 0, false
	}
	var kind lockOpKind
	switch calleeObj(ci).Name() {
	case "Lock":
		kind = opLock
	case "RLock":
		kind = opRLock
	case "Unlock":
		kind = opUnlock
	case "RUnlock":
		kind = opRUnlock
	}
	id, ok := lockIdent(c.Resolve(ci.Common().Args[0]).V)
	return id, kind, ok
}

// evWgIdent is wgIdent with the receiver resolved along the path.
func evWgIdent[S comparable](c *EvCtx[S], v ssa.Value) string {
	id := wgIdent(v)
	if id == "?" || strings.HasPrefix(id, "local:") {
		// a pointer to the wait group kept in a local or parameter: look through it
		if rid := wgIdent(c.Resolve(v).V); rid != "?" {
			return rid
		}
	}
	return id
}

// evWgArg: the WaitGroup a sync.WaitGroup method call operates on ("?" when the
// call is the entry into a bound method wrapper: the call inside it is seen next).
func evWgArg[S comparable](c *EvCtx[S], ci ssa.CallInstruction) string {
	if len(ci.Common().Args) == 0 {
		return "?"
	}
	return evWgIdent(c, ci.Common().Args[0])
}
