package main

// C18: the writer rules (W1/W2/W3), evaluated on the expanded graph of the
// writer function (c18_graph.go), with the writer's state resolved by role
// (c18_roles.go).

import (
	"fmt"
	"go/constant"
	"go/token"
	"go/types"
	"os"
	"sort"
	"strings"

	"golang.org/x/tools/go/ssa"
)

// c18CheckWriter runs the W1/W2/W3 rules on one writer function.
// name = position-free function name used as construct prefix.
func c18CheckWriter(p *Prog, r *Report, fn *ssa.Function, name string, cfg *c18Cfg) {
	tmp := NewReport(r.Prop, r.Tier)
	incomplete := c18CheckWriterCore(p, tmp, fn, name, cfg)
	for _, o := range tmp.Obs {
		switch {
		case !incomplete || o.Status != StViolation:
			r.add(o)
		case o.Rule == cfg.Rules.Paths || strings.HasSuffix(o.Construct, " after publish"):
			// a harmful step that is present stays a violation
			r.add(o)
		default:
			// The function has file-system effects the model does not see (*os.File, dynamic calls, …): a
			// "required step is missing" finding may be wrong (the step may sit there): UNDECIDED.
			r.Undecide("%s %s: %s — not reported as a violation because %s has file-system effects this check does not model", o.Rule, o.Construct, o.Message, name)
		}
	}
	r.Undecided = append(r.Undecided, tmp.Undecided...)
	r.Notes = append(r.Notes, tmp.Notes...)
}

// instrReaches: b is reachable from a (same function), including a later position in the same block.
func instrReaches(a, b ssa.Instruction) bool {
	if a.Block() == b.Block() && instrIndex(a) < instrIndex(b) {
		return true
	}
	for _, s := range a.Block().Succs {
		if reachableFrom(s, nil)[b.Block()] {
			return true
		}
	}
	return false
}

// c18WritesState: fn (or a static in-module callee, or a closure of it) stores to a field of the state type.
func c18WritesState(p *Prog, fn *ssa.Function, stypes map[string]bool, seen map[*ssa.Function]bool) bool {
	if seen[fn] {
		return false
	}
	seen[fn] = true
	found := false
	allInstrs(fn, func(in ssa.Instruction) {
		if found {
			return
		}
		switch x := in.(type) {
		case *ssa.Store:
			if fa, ok := x.Addr.(*ssa.FieldAddr); ok && stypes[fieldIDOfAddr(fa).Type] {
				found = true
			}
		case ssa.CallInstruction:
			if f := staticCallee(x); f != nil && p.InModule(f) && c18WritesState(p, f, stypes, seen) {
				found = true
			}
		}
	})
	for _, a := range fn.AnonFuncs {
		if c18WritesState(p, a, stypes, seen) {
			found = true
		}
	}
	return found
}

// c18CollectGraphOps enumerates the file-system mutations of all expanded frames.
func c18CollectGraphOps(g *c18Graph, cfg *c18Cfg) (ops []*c18Op, deferred []*c18Deferred, unknown []string) {
	p, tt := g.p, g.tt
	byInstr := map[*c18Frame]map[ssa.Instruction][]*c18Node{}
	for _, n := range g.nodes {
		if n.in == nil || n.post {
			continue
		}
		if byInstr[n.fr] == nil {
			byInstr[n.fr] = map[ssa.Instruction][]*c18Node{}
		}
		byInstr[n.fr][n.in] = append(byInstr[n.fr][n.in], n)
	}
	unknown = append(unknown, g.unknown...)
	for _, fr := range g.frames {
		tt.enter(fr)
		if fr.base == nil {
			ds, dunk := c18CollectDeferred(p, tt, fr.fn)
			for _, d := range ds {
				d.Fr = fr
				d.Op.cfg = cfg
			}
			deferred = append(deferred, ds...)
			unknown = append(unknown, dunk...)
		}
		allInstrs(fr.fn, func(in ssa.Instruction) {
			ci, ok := in.(ssa.CallInstruction)
			if !ok {
				return
			}
			nodes := byInstr[fr][in]
			if len(nodes) == 0 {
				return // not reachable in the expanded graph
			}
			if d, ok := in.(*ssa.Defer); ok && c18IsModelledDefer(fr.fn, d) {
				return
			}
			obj := calleeObj(ci)
			tgt, dynamic := g.target(fr, ci)
			if obj == nil && tgt != nil {
				obj, _ = tgt.Object().(*types.Func) // call through a construction-time func field
			}
			if dynamic {
				unknown = append(unknown, "a function value of unknown origin at "+p.Pos(instrPos(in)))
			}
			if ci.Common().IsInvoke() && ci.Common().Method != nil && tgt == nil {
				// interface call: if a module type implements it with file-system effects, they are not seen
				for _, f := range p.Funcs {
					if f.Signature.Recv() != nil && f.Name() == ci.Common().Method.Name() && c18TouchesFS(p, f, map[*ssa.Function]bool{}) {
						unknown = append(unknown, "interface method "+ci.Common().Method.Name()+", implemented by "+FuncName(p, f)+" with file-system operations")
						break
					}
				}
			}
			full := c18FullName(obj)
			if full != "" {
				pkg := obj.Pkg().Path()
				if m, ok := c18Mutators[full]; ok {
					call, isCall := in.(*ssa.Call)
					if !isCall {
						unknown = append(unknown, full+" in a go statement")
						return
					}
					// one op per distinct path the call acts on (the same instruction may be reached with
					// different return sites of an earlier helper remembered, i.e. with different values)
					var group []*c18Op
					for _, n := range nodes {
						tt.enterNode(n)
						path := tt.Term(call.Call.Args[m.path])
						var aux *c18T
						if m.aux >= 0 {
							aux = tt.Term(call.Call.Args[m.aux])
						}
						tt.leave()
						var op *c18Op
						for _, q := range group {
							if q.Path.String() == path.String() && (aux == nil || q.Aux.String() == aux.String()) {
								op = q
							}
						}
						if op == nil {
							op = &c18Op{Call: call, Fn: full, Kind: m.kind, Excl: c18OpKind(p, full, m.kind, call) == c18CreateExcl && m.kind != c18CreateExcl, Path: path, Aux: aux, Fr: fr, cfg: cfg}
							if m.data >= 0 {
								op.Data = call.Call.Args[m.data]
							}
							op.idx = len(ops)
							ops = append(ops, op)
							group = append(group, op)
						}
						op.Nodes = append(op.Nodes, n)
					}
					return
				}
				sig := obj.Type().(*types.Signature)
				switch {
				case pkg == "os" && sig.Recv() == nil && !c18ReadOnly[obj.Name()]:
					unknown = append(unknown, full)
				case pkg == "os" && sig.Recv() != nil && typeBaseName(sig.Recv().Type()) == "File" && !c18FileHarmless[obj.Name()]:
					unknown = append(unknown, full)
				case pkg == "syscall" || pkg == "golang.org/x/sys/unix" || pkg == "os/exec" || pkg == "io/ioutil":
					unknown = append(unknown, full)
				}
			}
			// calls that matter but are not expanded: go statements, unmodelled defers
			if _, isCall := in.(*ssa.Call); !isCall {
				if f := staticCallee(ci); f != nil && p.InModule(f) && c18TouchesFS(p, f, map[*ssa.Function]bool{}) {
					unknown = append(unknown, "go/defer of "+FuncName(p, f)+", which performs file-system operations")
				}
			}
		})
		tt.leave()
	}
	return
}

type c18EdgeBits struct{ succ, fail uint64 }

// c18OpEdges: for every graph edge, the ops whose error result is known nil (succ) / non-nil (fail) along it.
func c18OpEdges(g *c18Graph, ops []*c18Op) (map[*c18Edge]c18EdgeBits, map[*c18Op]string) {
	bits := map[*c18Edge]c18EdgeBits{}
	tested := map[*c18Op]bool{}
	errv := map[*c18Op]ssa.Value{}
	for _, o := range ops {
		errv[o] = c18ErrValue(o.Call)
	}
	for _, n := range g.nodes {
		for _, e := range n.succs {
			if !e.hasFact {
				continue
			}
			// cmp.Or(e1, e2, …) / errors.Join(e1, e2, …): nil exactly when every argument is nil
			vals := []ssa.Value{e.factVal}
			if parts := c18ErrCombinator(e.factVal); parts != nil {
				vals = parts
			}
			for _, o := range ops {
				for _, v := range vals {
					if o.Fr.rootF() == e.factFr.rootF() && errv[o] != nil && errv[o] == v {
						b := bits[e]
						if e.factNil {
							b.succ |= 1 << uint(o.idx)
						} else {
							b.fail |= 1 << uint(o.idx)
						}
						bits[e] = b
						tested[o] = true
					}
				}
			}
		}
	}
	unchecked := map[*c18Op]string{}
	for _, o := range ops {
		if tested[o] {
			continue
		}
		if errv[o] == nil || len(c18Refs(errv[o])) == 0 {
			unchecked[o] = "discarded"
		} else {
			unchecked[o] = "used-otherwise"
		}
	}
	return bits, unchecked
}

func c18CheckWriterCore(p *Prog, r *Report, fn *ssa.Function, name string, cfg *c18Cfg) (incomplete bool) {
	R := cfg.Rules
	tt := newC18Terms(p)
	c18ResolveRoles(p, tt, fn, cfg)
	tkey := ""
	if n := c18RecvNamed(fn); n != nil {
		tkey = namedKey(n)
	}
	cfg.prevIsString = c18FieldIsString(p, tkey, cfg.Prev)
	stateTypes := c18StateTypes(p, tkey)
	relMemo := map[*ssa.Function]bool{}
	relevant := func(f *ssa.Function) bool {
		if v, ok := relMemo[f]; ok {
			return v
		}
		v := c18TouchesFS(p, f, map[*ssa.Function]bool{}) || (tkey != "" && c18WritesState(p, f, stateTypes, map[*ssa.Function]bool{}))
		relMemo[f] = v
		return v
	}
	g := c18BuildGraph(p, tt, fn, relevant, c18FuncFields(p, tkey), c18IfaceFields(p, tkey), stateTypes)
	ops, deferred, unknown := c18CollectGraphOps(g, cfg)
	sort.Strings(unknown)
	for i, u := range unknown {
		if i > 0 && unknown[i-1] == u {
			continue
		}
		r.Undecide("%s calls %s: a file-system effect this check does not model", name, u)
	}
	incomplete = len(unknown) > 0
	if os.Getenv("KC_C18_DEBUG") == "ops" {
		for _, o := range ops {
			fmt.Printf("OP %s frame=%d iter=%v nodes=%d\n", o.desc(), o.Fr.id, len(o.Fr.iter), len(o.Nodes))
		}
	}
	pos := func(in ssa.Instruction) string { return p.Pos(instrPos(in)) }
	if len(g.frames) > 1 {
		var hs []string
		for _, fr := range g.frames[1:] {
			hs = append(hs, FuncName(p, fr.fn))
		}
		r.Stats["c18_expanded_callees"] = hs
	}

	// ---- roles -----------------------------------------------------------
	var publish []*c18Op
	for _, o := range ops {
		if o.Kind == c18Rename && cfg.isTarget(o.Path) {
			publish = append(publish, o)
		}
	}
	if len(publish) == 0 {
		r.Violation(R.Order, name+" publish: rename over target", p.Pos(fn.Pos()),
			"no os.Rename whose destination is the target path: the target is no longer switched atomically from one complete version to the next (any other way of replacing it has an instant where it is absent or half-made)")
	}
	if len(publish) > 1 {
		r.Undecide("%s renames over the target at %d places: shape not modelled", name, len(publish))
	}
	var pub, link, mk *c18Op
	var vdir *c18T
	if len(publish) >= 1 {
		pub = publish[0]
		for _, o := range ops {
			if o.Kind == c18CreateExcl && o.Fn == "os.Symlink" && o.Path.String() == pub.Aux.String() {
				link = o
			}
		}
		if link == nil {
			var other *c18Op
			for _, o := range ops {
				if o.Fn == "os.Symlink" {
					other = o
				}
			}
			if other != nil {
				r.Violation(R.Order, name+" publish: rename over target", pos(pub.Call),
					"the rename over the target takes "+pub.Aux.String()+" as its source but the symlink made in this call is at "+other.Path.String()+": the link to the new version is never what gets published (the rename fails, or publishes whatever an earlier call left at its source)")
			} else {
				r.Undecide("%s: the source of the publishing rename (%s) is not created by an os.Symlink in the same function: mechanism changed, not modelled", name, pub.Aux)
			}
		} else {
			vdir = link.Aux
			// a link whose content is the base name of the version directory, placed in the same
			// directory as the version directory, resolves to it
			if vdir.Op == "pathfn" && vdir.Lit == "Base" && len(vdir.Args) == 1 {
				if a, b := c18DirOf(link.Path), c18DirOf(vdir.Args[0]); a != nil && b != nil && a.String() == b.String() {
					vdir = vdir.Args[0]
				}
			}
			for _, o := range ops {
				o.vdir = vdir
			}
		}
	}

	vsrc := link
	if vdir == nil {
		// classification only: a symlink made directly onto the target still names the version directory
		for _, o := range ops {
			if o.Fn == "os.Symlink" && cfg.isTarget(o.Path) {
				vdir, vsrc = o.Aux, o
			}
		}
	}

	// ---- W2: provenance of every mutated path ---------------------------------
	for _, o := range ops {
		construct := name + " " + o.desc()
		var bad, why string
		switch {
		case cfg.isTarget(o.Path):
			if o.Kind != c18Rename {
				bad = "the target path itself is mutated by " + o.Fn + ", not by an atomic rename: a crash (or a reader) between this step and the next sees the target absent or half-replaced"
			} else {
				why = "target only replaced by rename"
			}
		case o.Kind == c18Rename && cfg.isTarget(o.Aux):
			bad = "the target is renamed away: from that instant the target is absent although a version was published"
		case cfg.isPrev(o.Path):
			if o.Kind != c18Remove {
				bad = "the previous version directory is modified by " + o.Fn + " (it may still be what the target resolves to)"
			} else {
				why = "previous version directory removed"
			}
		case cfg.isBase(o.Path):
			if o.Kind != c18MkdirIdem {
				bad = "the base directory (parent of the target and of every version) is changed by " + o.Fn
			} else {
				why = "base directory ensured (idempotent)"
			}
		case link != nil && o.Path.String() == link.Path.String():
			why = "temporary link path"
		case cfg.isSibling(o.Path):
			why = "auxiliary path next to the target (neither the target nor below a version directory)"
		case vdir != nil:
			if under, self := c18Under(o.Path, vdir); under {
				switch {
				case self && (o.Kind == c18MkdirIdem || o.Kind == c18CreateExcl):
					why = "version directory created"
				case !self && o.Kind == c18WriteKind:
					why = "file written below the version directory"
				case o.Kind == c18Remove:
					why = "cleanup of the unpublished version directory (position checked by " + R.Order + ")"
				default:
					why = "operation below the version directory"
				}
			}
		}
		if bad == "" && why == "" {
			r.Undecide("%s: cannot relate the path of %s to the target, the version directory, the temporary link or prev", name, o.desc())
			continue
		}
		r.Check(bad == "", R.Paths, construct, pos(o.Call), why, bad)
	}

	// ---- W2: freshness of the version directory ----------------------------------
	if vdir != nil {
		construct := name + " version directory name"
		switch c18Classify(vdir, cfg.Frozen) {
		case c18Invariant:
			r.Violation(R.Fresh, construct, pos(vsrc.Call),
				"the version directory has the same name on every call ("+vdir.String()+"): the second Write creates its files inside the directory the target currently resolves to, so readers see a mixed/partial set while it runs and after a crash")
		case c18Varying:
			r.Undecide("%s: cannot tell whether the version directory name %s is unique per call", name, vdir)
		case c18Fresh:
			coarse := ""
			unknownRes := false
			for _, ch := range c18TimeMethods(vdir) {
				last := ""
				for _, m := range ch {
					switch m {
					case "UTC", "Local", "In", "Round", "Truncate", "Add":
					default:
						last = m
					}
				}
				switch last {
				case "UnixNano", "UnixMicro":
				case "Unix", "UnixMilli", "Year", "Month", "Day", "Hour", "Minute", "Second", "YearDay", "Weekday":
					coarse = last
				default:
					unknownRes = true
				}
			}
			hasOther := false
			vdir.walk(func(x *c18T) {
				if x.Op == "fresh" {
					hasOther = true
				}
			})
			switch {
			case hasOther:
				r.OK(R.Fresh, construct, pos(vsrc.Call), "name contains a per-call unique component")
			case coarse != "":
				r.Violation(R.Fresh, construct, pos(vsrc.Call),
					"the only per-call component of the version directory name is time.Now()."+coarse+"(), coarser than the duration of a Write: two Writes within the same tick share a version directory, the second one overwrites files in the directory the target already resolves to (mixed set) and its RemoveAll(prev) then deletes the published directory")
			case unknownRes:
				r.Undecide("%s: resolution of the time component in %s not recognised", name, vdir)
			default:
				r.OK(R.Fresh, construct, pos(vsrc.Call), "name contains time.Now() at nano/microsecond resolution")
			}
		}
	}

	if link != nil && vdir.Op == "join" && len(vdir.Args) > 0 && cfg.isBase(vdir.Args[0]) {
		r.Note("%s: the link content %s is base-relative when the target was given as a relative path with a directory part (the OS resolves link contents relative to the link's own directory, so target \"certs/id\" yields a dangling link certs/id -> certs/<n>-id); not armed: the statement does not quantify over relative targets", name, vdir)
	}

	bits, unchecked := c18OpEdges(g, ops)

	// ---- W3: crash leftovers ------------------------------------------------------
	removedFirst := c18CheckLeftovers(g, r, name, cfg, ops, bits)

	if pub == nil || link == nil {
		if len(deferred) > 0 {
			r.Undecide("%s: deferred file-system operations are not judged because the publishing rename / link was not identified", name)
		}
		return
	}
	for _, o := range ops {
		if o.Kind == c18MkdirIdem || o.Kind == c18CreateExcl {
			if _, self := c18Under(o.Path, vdir); self {
				mk = o
			}
		}
	}
	if len(ops) > 20 {
		r.Undecide("%s performs %d file-system operations: too many for this check", name, len(ops))
		return
	}

	// ---- dataflow: success / failure facts --------------------------------------
	// must-bits: bit i = "op i was executed and its error result was seen nil"
	// may-bits : bit i = "op i failed (error seen non-nil) on some path to here"
	const (
		bPublished  = 40 + iota // the publishing rename was executed
		bPrevSet                // prev points at this call's version directory
		bPrevDone               // prev seen nil, or RemoveAll(*prev) executed
		bPrevStored             // prev was overwritten
		bLoopDone               // the loop over the file map ran to its end
		bPubOK                  // the publishing rename may have succeeded
		bFlagSet                // the "a previous version is recorded" flag was set
	)
	opAt := map[*c18Node]*c18Op{}
	for _, o := range ops {
		for _, n := range o.Nodes {
			opAt[n] = o
		}
	}
	prevKind := map[*c18Node]int{} // 0 none, 1 = this version dir, 2 = something else
	for _, n := range g.nodes {
		st, ok := n.in.(*ssa.Store)
		if !ok || n.post {
			continue
		}
		fa, ok := st.Addr.(*ssa.FieldAddr)
		if !ok || fieldIDOfAddr(fa).String() != cfg.Prev {
			continue
		}
		tt.enterNode(n)
		t := tt.Term(st.Val)
		tt.leave()
		if t.Op == "call" && t.Lit == "addr" && len(t.Args) == 1 && t.Args[0].String() == vdir.String() && !cfg.prevIsString {
			prevKind[n] = 1
		} else if cfg.prevIsString && t.String() == vdir.String() {
			prevKind[n] = 1
		} else {
			prevKind[n] = 2
		}
	}
	// value + flag instead of a pointer: when prev is a plain string, a bool field of the state that the
	// writer sets to true (and nothing but the constructor sets otherwise) says whether prev is recorded
	flagField := ""
	flagKind := map[*c18Node]int{} // 1 = set to true, 2 = set to something else
	if cfg.prevIsString && tkey != "" {
		cands := map[string]bool{}
		for _, n := range g.nodes {
			st, ok := n.in.(*ssa.Store)
			if !ok || n.post {
				continue
			}
			fa, ok := st.Addr.(*ssa.FieldAddr)
			if !ok {
				continue
			}
			id := fieldIDOfAddr(fa)
			if b, isB := st.Val.Type().Underlying().(*types.Basic); !isB || b.Kind() != types.Bool || !stateTypes[id.Type] {
				continue
			}
			cands[id.String()] = true
		}
		if len(cands) == 1 {
			for k := range cands {
				flagField = k
			}
		}
		for _, n := range g.nodes {
			st, ok := n.in.(*ssa.Store)
			if !ok || n.post || flagField == "" {
				continue
			}
			if fa, ok := st.Addr.(*ssa.FieldAddr); ok && fieldIDOfAddr(fa).String() == flagField {
				if k, ok := st.Val.(*ssa.Const); ok && k.Value != nil && k.Value.String() == "true" {
					flagKind[n] = 1
				} else {
					flagKind[n] = 2
				}
			}
		}
	}
	if os.Getenv("KC_C18_DEBUG") == "ops" {
		fmt.Printf("PREV %s string=%v flag=%q prevStores=%v flagStores=%v vdir=%s\n", cfg.Prev, cfg.prevIsString, flagField, len(prevKind), len(flagKind), vdir)
		for n, k := range prevKind {
			tt.enter(n.fr)
			fmt.Printf("  prev store kind=%d term=%s\n", k, tt.Term(n.in.(*ssa.Store).Val))
			tt.leave()
		}
	}
	prevNilEdge := func(e *c18Edge) bool {
		if flagField != "" {
			// the branch on which the flag is false
			if ifi, ok := e.from.in.(*ssa.If); ok && e.branch >= 0 {
				cond, truth := ifi.Cond, e.branch == 0
				for {
					if u, ok := cond.(*ssa.UnOp); ok && u.Op == token.NOT {
						cond, truth = u.X, !truth
						continue
					}
					break
				}
				cv, _ := g.callerValue(e.from.fr, cond)
				if id, _, ok := fieldOfValue(c18ThroughPureCall(c18Root(cv))); ok && id.String() == flagField && !truth {
					return true
				}
			}
		}
		if !e.hasFact || !e.factNil {
			return false
		}
		// the tested value may be the caller's prev handed down as an argument (`retire(d.prev)`)
		v, _ := g.callerValue(e.factFr, e.factVal)
		id, _, ok := fieldOfValue(c18ThroughPureCall(v))
		return ok && id.String() == cfg.Prev
	}
	// honesty: a nil / "" test on a value of prev's type that could not be attributed to the prev field
	// (it came through something the graph does not resolve) may be the "no previous version" test
	unattributed := ""
	for _, n := range g.nodes {
		for _, e := range n.succs {
			if !e.hasFact || !e.factNil || prevNilEdge(e) {
				continue
			}
			v, _ := g.callerValue(e.factFr, e.factVal)
			if _, _, isField := fieldOfValue(c18ThroughPureCall(v)); isField {
				continue
			}
			if _, isConst := v.(*ssa.Const); isConst {
				continue // fully traced: a constant, not the field
			}
			if pt := c18FieldType(p, tkey, cfg.Prev); pt != nil && types.Identical(v.Type(), pt) && e.from.in != nil {
				unattributed = p.Pos(instrPos(e.from.in))
			}
		}
	}
	loop := c18FindFileLoop(g, ops, vdir)
	must := &c18Flow{g: g, Must: true,
		Transfer: func(n *c18Node, st uint64) uint64 {
			if o := opAt[n]; o != nil {
				if o == pub {
					st |= 1 << bPublished
				}
				if o.Kind == c18Remove && cfg.isPrev(o.Path) {
					st |= 1 << bPrevDone
				}
			}
			switch prevKind[n] {
			case 1:
				st |= 1 << bPrevSet
			case 2:
				st &^= 1 << bPrevSet
			}
			switch flagKind[n] {
			case 1:
				st |= 1 << bFlagSet
			case 2:
				st &^= 1 << bFlagSet
			}
			return st
		},
		Edge: func(e *c18Edge, st uint64) uint64 {
			st |= bits[e].succ
			if prevNilEdge(e) {
				st |= 1 << bPrevDone
			}
			if loop != nil && e == loop.Exit {
				st |= 1 << bLoopDone
			}
			return st
		}}
	must.Run()
	may := &c18Flow{g: g, Must: false,
		Transfer: func(n *c18Node, st uint64) uint64 {
			if o := opAt[n]; o == pub && o != nil {
				st |= 1 << bPublished
				if unchecked[pub] != "" {
					st |= 1 << bPubOK
				}
			}
			if prevKind[n] != 0 {
				st |= 1 << bPrevStored
			}
			return st
		},
		Edge: func(e *c18Edge, st uint64) uint64 {
			if bits[e].succ&(1<<uint(pub.idx)) != 0 {
				st |= 1 << bPubOK
			}
			return st | bits[e].fail
		}}
	may.Run()
	bit := func(st uint64, b int) bool { return st&(1<<uint(b)) != 0 }
	// a failing path-dependent obligation located after a branch the graph could not correlate with
	// the path (an error variable merged from several calls) is not established: UNDECIDED
	shaky := g.downstreamOfImprecise()
	cfg.shaky = shaky
	saidShaky := map[string]bool{}
	pathCheck := func(nodes []*c18Node, cond bool, rule, construct, at, okMsg, badMsg string) {
		if !cond {
			for _, n := range nodes {
				if shaky[n] {
					if saidShaky[rule+construct] {
						return
					}
					saidShaky[rule+construct] = true
					r.Undecide("%s %s: %s — not established: the path passes a test of an error variable merged from several calls whose origin the check cannot tell", rule, construct, badMsg)
					return
				}
			}
		}
		r.Check(cond, rule, construct, at, okMsg, badMsg)
	}

	// ---- W1: order of the steps ---------------------------------------------------
	mustAtPub, _ := must.BeforeAll(pub.Nodes)
	mayAtPub, _ := may.BeforeAll(pub.Nodes)
	pubSet := map[*c18Node]bool{}
	for _, n := range pub.Nodes {
		pubSet[n] = true
	}
	reachesPub := func(o *c18Op) bool {
		for n := range g.reach(o.Nodes) {
			if pubSet[n] {
				return true
			}
		}
		return false
	}

	// every step that has to succeed before publishing
	for _, o := range ops {
		under, _ := c18Under(o.Path, vdir)
		isLink := o == link
		if !(isLink || (under && o.Kind != c18Remove)) {
			continue
		}
		if !reachesPub(o) {
			if isLink {
				r.Violation(R.Order, name+" "+o.desc()+" must succeed before publish", pos(o.Call),
					"the symlink that creates the source of the publishing rename is only made after that rename (no path leads from it to the rename): the rename has nothing to move — or moves a stale link left by an earlier call — and every Write fails or publishes the wrong directory")
			}
			continue // after the publish: handled below
		}
		construct := name + " " + o.desc() + " must succeed before publish"
		// A missing/failed link step is harmful only when a stale link of an earlier, crashed call can sit at
		// the link path (then the rename publishes that one); if the path is removed first the rename just fails.
		violate := func(msg string) {
			if isLink && !removedFirst[o] {
				// the outcome (stale link published / blocked forever / recovered) is decided by W3-leftover
				r.Trivial(R.Order, construct, pos(o.Call), "link path not removed first: failure handling judged by "+R.Leftover)
				return
			}
			if isLink && removedFirst[o] {
				r.Note("%s: %s (not armed: the link path is removed first, so the rename then fails instead of publishing something else)", construct, msg)
				r.Trivial(R.Order, construct, pos(o.Call), "NOTE only: "+msg)
				return
			}
			pathCheck(pub.Nodes, false, R.Order, construct, pos(o.Call), "", msg)
		}
		switch unchecked[o] {
		case "discarded":
			violate("the error result of " + o.Fn + " is discarded: when it fails the function goes on and renames a link to an incomplete (or missing, or stale) version directory over the target")
			continue
		case "used-otherwise":
			if isLink && !removedFirst[o] {
				violate("the error result of " + o.Fn + " is not tested against nil")
				continue
			}
			r.Undecide("%s: the error result of %s is not tested against nil directly; shape not modelled", name, o.desc())
			continue
		}
		if bit(mayAtPub, o.idx) {
			// the failure edge reaches the publish. Tolerant shapes (errors.Is / os.IsExist on the failure path) are not judged.
			if isLink {
				violate("a path on which " + o.Fn + " failed still reaches the rename over the target")
			} else if c18FailureIsInspected(o) {
				r.Undecide("%s: a failure of %s is inspected (errors.Is/os.IsExist…) and may be tolerated; shape not modelled", name, o.desc())
			} else {
				violate("a path on which " + o.Fn + " failed still reaches the rename over the target: an incomplete (or stale) version directory gets published")
			}
			continue
		}
		if o == link || o == mk {
			if bit(mustAtPub, o.idx) {
				r.OK(R.Order, construct, pos(o.Call), "every path to the publishing rename passes the success edge of this step")
			} else {
				violate("the publishing rename can be reached without " + o.Fn + " having been executed successfully")
			}
			continue
		}
		r.OK(R.Order, construct, pos(o.Call), "no path on which this step failed reaches the publishing rename")
	}
	if mk == nil {
		r.Violation(R.Order, name+" version directory created", pos(link.Call), "the version directory "+vdir.String()+" is never created in this function")
	} else {
		// files are written only once the directory exists
		for _, o := range ops {
			if under, self := c18Under(o.Path, vdir); under && !self && o.Kind == c18WriteKind {
				st, _ := must.BeforeAll(o.Nodes)
				pathCheck(o.Nodes, bit(st, mk.idx), R.Order, name+" "+o.desc()+" after version directory creation", pos(o.Call),
					"dominated by the success edge of the directory creation", "a file is written below the version directory on a path where the directory was not (successfully) created first")
			}
		}
	}
	// link points at the version dir that was filled in this call: by construction vdir = link.Aux; files must be under it
	nFiles := 0
	for _, o := range ops {
		if under, self := c18Under(o.Path, vdir); under && !self && o.Kind == c18WriteKind {
			nFiles++
		}
	}
	if nFiles == 0 {
		r.Violation(R.Complete, name+" files written below the linked directory", pos(link.Call), "no file is written below the directory the new link points to ("+vdir.String()+"): what gets published is not the set written by this call")
	}
	// nothing touches the published version after the rename
	for _, o := range ops {
		if under, _ := c18Under(o.Path, vdir); under && o != link {
			st, reach := may.BeforeAll(o.Nodes)
			if reach && bit(st, bPublished) {
				pathCheck(o.Nodes, false, R.Order, name+" "+o.desc()+" after publish", pos(o.Call), "", o.Fn+" acts on the version directory after it was renamed over the target: readers resolve the target to a directory that is still changing (partial set), or that is deleted")
			}
		}
	}
	r.Check(true, R.Order, name+" publish: rename over target", pos(pub.Call), "single rename whose destination is the target and whose source is the link created in this call", "")

	// ---- W1: complete set -----------------------------------------------------------
	c18CheckLoop(g, r, name, cfg, loop, ops, vdir, pub, bit(mustAtPub, bLoopDone), bits)

	// ---- W1: prev handling ---------------------------------------------------------
	nPrevRemove := 0
	for _, o := range ops {
		if o.Kind == c18Remove && cfg.isPrev(o.Path) {
			nPrevRemove++
			stMust, _ := must.BeforeAll(o.Nodes)
			stMay, _ := may.BeforeAll(o.Nodes)
			pathCheck(o.Nodes, bit(stMust, pub.idx), R.Prev, name+" "+o.desc()+" only after successful publish", pos(o.Call),
				"dominated by the success edge of the publishing rename",
				"the previous version directory can be removed before the target was switched away from it (or although the switch failed): the target then resolves to a deleted directory")
			pathCheck(o.Nodes, !bit(stMay, bPrevStored), R.Prev, name+" "+o.desc()+" before prev is overwritten", pos(o.Call),
				"prev still names the previous version when it is removed",
				"prev is overwritten before this removal: what gets deleted is the version directory that was just published, the target dangles")
		}
	}
	if nPrevRemove == 0 {
		r.Violation(R.Prev, name+" removes previous version", p.Pos(fn.Pos()), "no os.Remove/RemoveAll of the previous version directory (*prev): superseded version directories are never deleted (without crashes more than the current version remains)")
	}

	// ---- deferred clean-up ---------------------------------------------------------------
	c18CheckDeferred(g, r, name, cfg, deferred, vdir, link, func(n *c18Node) bool {
		st, ok := may.Before(n)
		return ok && bit(st, bPubOK)
	})

	// ---- returns ------------------------------------------------------------------------
	nNil := 0
	for _, n := range g.nodes {
		if n.exit != "nil" {
			continue
		}
		st, ok := must.Before(n)
		if !ok {
			continue
		}
		at := pos(n.ret.in)
		check := func(cond bool, rule, construct, okMsg, badMsg string) {
			if !cond && n.uncertain {
				r.Undecide("%s: %s — but whether the return at %s can yield nil is not established", construct, badMsg, at)
				return
			}
			pathCheck([]*c18Node{n}, cond, rule, construct, at, okMsg, badMsg)
		}
		if !n.uncertain {
			nNil++
		}
		check(bit(st, pub.idx), R.NilRet, name+" return nil => target renamed",
			"every nil return is dominated by the success edge of the publishing rename",
			"the function can return nil (at "+at+") although the rename over the target did not happen or failed: the caller is told the new set is in place while the target still shows the old one (or nothing)")
		if nPrevRemove > 0 {
			if !bit(st, bPrevDone) && unattributed != "" {
				r.Undecide("%s return nil => previous version removed or none: a nil return is reachable without a recognised removal of the previous version, but the test at %s compares a value of the previous-version field's type that the check could not trace to that field: it may be the 'no previous version' test", name, unattributed)
			} else {
				check(bit(st, bPrevDone), R.Prev, name+" return nil => previous version removed or none",
					"on every successful path prev was nil or was removed",
					"a successful return (at "+at+") is reachable without removing the previous version directory although prev was set: old versions accumulate")
			}
		}
		check(bit(st, bPrevSet) && (flagField == "" || bit(st, bFlagSet)), R.Prev, name+" return nil => prev = this version directory",
			"prev is set to the directory published by this call on every successful path",
			"a successful return (at "+at+") leaves prev not pointing at the directory just published: the next Write deletes the wrong directory or never deletes this one")
	}
	if nNil == 0 {
		r.Undecide("%s has no return that provably yields a nil error: success exits not recognised", name)
	}
	return
}

// ---- the loop over the file map ---------------------------------------------------

type c18Loop struct {
	Range  *ssa.Range
	Next   *c18Node // the node of the `next` instruction
	Head   *c18Node // first node of the header block
	Exit   *c18Edge // edge taken when the iteration is exhausted
	Nodes  map[*c18Node]bool
	Write  *c18Op
	RangeT *c18T
	// the loop walks a slice of names that was collected from the map with a filter / an early break
	Partial bool
}

// c18FindFileLoop finds the `for k, v := range <map parameter of the writer>` loop
// (in any expanded frame) whose body contains a write below the version directory.
func c18FindFileLoop(g *c18Graph, ops []*c18Op, vdir *c18T) *c18Loop {
	var out *c18Loop
	for _, n := range g.nodes {
		nx, ok := n.in.(*ssa.Next)
		if !ok || n.post {
			continue
		}
		rg, ok := nx.Iter.(*ssa.Range)
		if !ok {
			continue
		}
		if _, ok := rg.X.Type().Underlying().(*types.Map); !ok {
			continue
		}
		g.tt.enterNode(n)
		rt := g.tt.Term(rg.X)
		g.tt.leave()
		if rt.Op != "param" {
			continue
		}
		blk := nx.Block()
		heads := g.nodesOf(n.fr, blk.Instrs[0])
		if len(heads) != 1 {
			continue
		}
		l := &c18Loop{Range: rg, Next: n, Head: heads[0], Nodes: map[*c18Node]bool{}, RangeT: rt}
		// the If on `ok`
		var body *c18Node
		for _, m := range g.nodes {
			ifi, ok := m.in.(*ssa.If)
			if !ok || m.fr != n.fr || ifi.Block() != blk {
				continue
			}
			ex, ok := ifi.Cond.(*ssa.Extract)
			if !ok || ex.Tuple != ssa.Value(nx) || ex.Index != 0 {
				continue
			}
			for _, e := range m.succs {
				if e.branch == 1 {
					l.Exit = e
				} else if e.branch == 0 {
					body = e.to
				}
			}
		}
		if l.Exit == nil || body == nil {
			continue
		}
		fromBody := g.reach([]*c18Node{l.Head})
		back := g.reachBack(l.Head)
		for m := range fromBody {
			if back[m] {
				l.Nodes[m] = true
			}
		}
		l.Nodes[l.Head] = true
		for _, o := range ops {
			if o.Kind != c18WriteKind {
				continue
			}
			if under, self := c18Under(o.Path, vdir); !under || self {
				continue
			}
			for _, on := range o.Nodes {
				if l.Nodes[on] {
					l.Write = o
				}
			}
		}
		if out == nil && l.Write != nil {
			out = l
		}
	}
	if out != nil {
		return out
	}
	// a complete walk over a slice that holds exactly the keys of the map parameter
	for _, n := range g.nodes {
		u, ok := n.in.(*ssa.UnOp)
		if !ok || n.post {
			continue
		}
		m, ifi, exit, partial, ok := c18KeyElementP(u)
		if !ok {
			continue
		}
		g.tt.enterNode(n)
		rt := g.tt.Term(m)
		g.tt.leave()
		if rt.Op != "param" {
			continue
		}
		heads := g.nodesOf(n.fr, ifi.Block().Instrs[0])
		ifs := g.nodesOf(n.fr, ifi)
		if len(heads) != 1 || len(ifs) != 1 {
			continue
		}
		l := &c18Loop{Next: ifs[0], Head: heads[0], Nodes: map[*c18Node]bool{}, RangeT: rt, Partial: partial}
		for _, e := range ifs[0].succs {
			if e.branch == exit {
				l.Exit = e
			}
		}
		if l.Exit == nil {
			continue
		}
		fromBody := g.reach([]*c18Node{l.Head})
		back := g.reachBack(l.Head)
		for x := range fromBody {
			if back[x] {
				l.Nodes[x] = true
			}
		}
		l.Nodes[l.Head] = true
		for _, o := range ops {
			if o.Kind != c18WriteKind {
				continue
			}
			if under, self := c18Under(o.Path, vdir); !under || self {
				continue
			}
			for _, on := range o.Nodes {
				if l.Nodes[on] {
					l.Write = o
				}
			}
		}
		if l.Write != nil {
			return l
		}
	}
	return nil
}

func c18CheckLoop(g *c18Graph, r *Report, name string, cfg *c18Cfg, loop *c18Loop, ops []*c18Op, vdir *c18T, pub *c18Op, loopDoneAtPub bool, bits map[*c18Edge]c18EdgeBits) {
	p, tt := g.p, g.tt
	R := cfg.Rules
	construct := name + " every entry of the file map written before publish"
	if loop == nil {
		r.Undecide("%s: the files are not written inside a `for name, content := range <map parameter>` loop: how the file set is enumerated is not modelled", name)
		return
	}
	pos := p.Pos(instrPos(loop.Next.in))
	w := loop.Write
	// name and content come from the same iteration
	keyT := &c18T{Op: "key", Args: []*c18T{loop.RangeT}}
	valT := &c18T{Op: "val", Args: []*c18T{loop.RangeT}}
	nameOK := false
	if w.Path.Op == "join" && len(w.Path.Args) >= 1 && w.Path.Args[len(w.Path.Args)-1].String() == keyT.String() {
		nameOK = true
	}
	dataT := "?"
	if w.Data != nil {
		tt.enterNode(w.Nodes[0])
		dataT = tt.Term(w.Data).String()
		tt.leave()
	}
	dataOK := dataT == valT.String()
	if w.Data == nil {
		dataOK = true // content goes through the returned *os.File: what is written there is not decided
	}
	r.Check(nameOK && dataOK, R.Complete, name+" file name and content of the same map entry", p.Pos(instrPos(w.Call)),
		"path = join(version dir, key), data = value of the same iteration",
		"the file written in the loop is not <version dir>/<map key> with the map value of the same entry as content (path "+w.Path.String()+", data "+dataT+"): the published directory does not hold the set passed to Write")

	// every iteration writes: each back edge is preceded by the success edge of w on all paths from the loop head
	wbit := uint64(1) << uint(w.idx)
	tested := false
	for _, b := range bits {
		if b.succ&wbit != 0 {
			tested = true
		}
	}
	iterOK := tested
	why := ""
	iter := &c18Flow{g: g, Must: true,
		Transfer: func(n *c18Node, st uint64) uint64 {
			if n == loop.Head {
				return 0 // new iteration
			}
			return st
		},
		Edge: func(e *c18Edge, st uint64) uint64 {
			if bits[e].succ&wbit != 0 {
				st |= 1
			}
			return st
		}}
	iter.Run()
	for _, e := range loop.Head.preds {
		if !loop.Nodes[e.from] || !iter.seen[e.from] {
			continue
		}
		if st := iter.Edge(e, iter.Out(e.from)); st&1 == 0 {
			iterOK = false
			at := "-"
			if e.from.in != nil {
				at = p.Pos(instrPos(e.from.in))
			}
			why = "an iteration can end (back edge at " + at + ") without having written its file successfully: that entry is missing from the published directory"
		}
	}
	if !tested {
		why = "the result of the write in the loop is not tested"
	}
	if iterOK && loop.Partial {
		iterOK = false
		why = "the names that are written come from a slice collected from the file map with a filter (or an early break): the entries left out are never written, the published directory is not the set passed to Write"
	}
	// the loop is left only at its end on the way to the publish
	if iterOK && !loopDoneAtPub {
		pubSet := map[*c18Node]bool{}
		for _, n := range pub.Nodes {
			pubSet[n] = true
		}
		early := false
		var ns []*c18Node
		for n := range loop.Nodes {
			ns = append(ns, n)
		}
		sort.Slice(ns, func(i, j int) bool { return ns[i].id < ns[j].id })
		for _, n := range ns {
			for _, e := range n.succs {
				if loop.Nodes[e.to] || e == loop.Exit {
					continue
				}
				hits := pubSet[e.to]
				for m := range g.reach([]*c18Node{e.to}) {
					if pubSet[m] {
						hits = true
					}
				}
				if !hits {
					continue
				}
				// straight line to the publish?
				x := e.to
				for len(x.succs) == 1 && !pubSet[x] {
					x = x.succs[0].to
				}
				if pubSet[x] || len(x.succs) == 0 {
					early = true
				} else {
					r.Undecide("%s: the loop over the file map is left early and a later test decides whether to publish; shape not modelled", name)
					return
				}
			}
		}
		iterOK = false
		if early {
			why = "the loop over the file map can be left before all entries were written (break) and the publishing rename is still reached: a partial set gets published"
		} else {
			why = "the publishing rename can be reached without the loop over the file map having run to its end (publish before/inside the loop): the target shows a partial set"
		}
	}
	if !iterOK {
		for _, n := range pub.Nodes {
			if cfg.shaky[n] {
				r.Undecide("%s %s: %s — not established: the path passes a test of an error variable merged from several calls whose origin the check cannot tell", R.Complete, construct, why)
				return
			}
		}
	}
	r.Check(iterOK, R.Complete, construct, pos, "each iteration writes its entry successfully or leaves without publishing; the rename is reached only through the loop's end", why)
}

// c18CheckLeftovers (W3): a create-type operation that fails when its path
// exists, on a path that is the same on every call, is left behind by a crash
// between it and the step that consumes it; the next call then fails forever
// unless the path is removed first (or re-created after the failure).
func c18CheckLeftovers(g *c18Graph, r *Report, name string, cfg *c18Cfg, ops []*c18Op, bits map[*c18Edge]c18EdgeBits) map[*c18Op]bool {
	p := g.p
	R := cfg.Rules
	removedFirst := map[*c18Op]bool{}
	opAt := map[*c18Node]*c18Op{}
	for _, o := range ops {
		for _, n := range o.Nodes {
			opAt[n] = o
		}
	}
	for _, o := range ops {
		if o.Kind != c18CreateExcl && !o.Excl {
			continue
		}
		o := o
		construct := name + " " + o.desc() + " survives a leftover"
		at := p.Pos(instrPos(o.Call))
		switch c18Classify(o.Path, cfg.Frozen) {
		case c18Fresh:
			r.OK(R.Leftover, construct, at, "path is unique per call: a leftover of a crashed call cannot collide")
			continue
		case c18Varying:
			r.Undecide("%s: cannot tell whether the path of %s is the same on every call", name, o.desc())
			continue
		}
		// invariant path: must be removed before on every path
		want := o.Path.String()
		ff := &c18Flow{g: g, Must: true, Transfer: func(n *c18Node, st uint64) uint64 {
			q := opAt[n]
			if q == nil {
				return st
			}
			if q.Kind == c18Remove && q.Path.String() == want {
				st |= 1
			}
			if (q.Kind == c18CreateExcl || q.Kind == c18WriteKind || q.Kind == c18MkdirIdem) && q.Path.String() == want && q != o {
				st &^= 1
			}
			if q.Kind == c18Rename && q.Path.String() == want {
				st &^= 1
			}
			return st
		}}
		ff.Run()
		st, _ := ff.BeforeAll(o.Nodes)
		if st&1 != 0 {
			removedFirst[o] = true
			r.OK(R.Leftover, construct, at, "the path is removed on every path before it is created")
			continue
		}
		// a removal whose path the check cannot read may be the removal that is looked for
		unreadable := ""
		for _, q := range ops {
			if q.Kind == c18Remove && c18Classify(q.Path, cfg.Frozen) == c18Varying && !cfg.isPrev(q.Path) {
				unreadable = q.desc()
			}
		}
		if unreadable != "" {
			r.Undecide("%s: %s is created on a call-invariant path; whether it is removed first cannot be told because the path of %s is not understood", name, o.desc(), unreadable)
			continue
		}
		sa := c18StaleAnalysis(g, o, ops, bits)
		blocked := o.Fn + " fails with EEXIST when " + want + " already exists, the path is the same on every call and nothing removes it first: a process that dies after this step and before the step that consumes the path (rename) leaves it behind, and every later Write — also from a fresh instance — returns \"file exists\" forever"
		switch {
		case sa.Opaque != "":
			r.Undecide("%s: %s is created on a call-invariant path that is not removed first, and %s", name, o.desc(), sa.Opaque)
		case sa.Readlink:
			r.Undecide("%s: %s is created on a call-invariant path that is not removed first and the function reads a link back with os.Readlink: content comparison not modelled", name, o.desc())
		case sa.StaleAtUse:
			r.Violation(R.Leftover, construct, at,
				"when "+want+" already exists (left by a call that died between this step and the rename) the failure of "+o.Fn+" is ignored/tolerated and the path is consumed as it is (rename at "+sa.Where+"): what gets renamed over the target is the STALE link, whose content is the crashed call's version directory — the recovering Write returns nil while the target shows the crashed call's (possibly incomplete) files instead of the new set, the new version directory is orphaned and prev names a directory the target does not resolve to. Tolerating EEXIST is not a substitute for removing the leftover first")
		case sa.Recreated:
			r.OK(R.Leftover, construct, at, "after a failed creation the link is created again successfully before the path is consumed")
		default:
			// "blocked forever" needs every failure of the creation to abort the write: if a path on which
			// it failed still returns nil, the leftover is tolerated (and, not being consumed, harmless)
			if sa.Consumers == 0 && c18FailureReachesNilExit(g, o, bits) {
				r.OK(R.Leftover, construct, at, "a failure of the creation does not abort the write and the path is not consumed: a leftover cannot block later writes")
				continue
			}
			if sa.Consumers == 0 {
				blocked = o.Fn + " fails with EEXIST when " + want + " already exists, the path is the same on every call, nothing removes it before this step and every failure of the step aborts the write: a process that dies while the path exists (its later removal, deferred or explicit, never runs) leaves it behind, and every later Write — also from a fresh instance — fails with \"file exists\" forever"
			}
			r.Violation(R.Leftover, construct, at, blocked)
		}
	}
	return removedFirst
}

// c18CheckDeferred judges deferred operations: they run at every return of
// their frame that follows the defer statement. A deferred mutation of the
// version directory that can run at a return reachable after the successful
// rename destroys the published set.
func c18CheckDeferred(g *c18Graph, r *Report, name string, cfg *c18Cfg, deferred []*c18Deferred, vdir *c18T, link *c18Op,
	pubMayHaveSucceeded func(*c18Node) bool) {
	p := g.p
	R := cfg.Rules
	for _, d := range deferred {
		o := d.Op
		o.vdir = vdir
		fn := d.Fr.fn
		closureWrites := g.closureWrites(fn)
		construct := name + " deferred " + o.desc() + " after publish"
		at := p.Pos(instrPos(d.Where))
		under, _ := c18Under(o.Path, vdir)
		switch {
		case under:
		case cfg.isTarget(o.Path) || (o.Kind == c18Rename && cfg.isTarget(o.Aux)):
			r.Violation(R.Paths, name+" deferred "+o.desc(), at, "a deferred "+o.Fn+" acts on the target path itself: the target is not only replaced by the atomic rename")
			continue
		case link != nil && o.Path.String() == link.Path.String() && o.Kind == c18Remove:
			r.OK(R.Paths, name+" deferred "+o.desc(), at, "deferred removal of the temporary link path (harmless)")
			continue
		case cfg.isSibling(o.Path) && (link == nil || o.Path.String() != link.Path.String()):
			r.OK(R.Paths, name+" deferred "+o.desc(), at, "deferred operation on an auxiliary path next to the target")
			continue
		default:
			r.Undecide("%s: cannot relate the path of the deferred %s to the version directory or the temporary link", name, o.desc())
			continue
		}
		if d.Opaque != "" {
			r.Undecide("%s: deferred %s: %s", name, o.desc(), d.Opaque)
			continue
		}
		var cells []*ssa.Alloc
		cellIdx := map[*ssa.Alloc]int{}
		for _, gd := range d.Guard {
			if _, ok := cellIdx[gd.Cell]; gd.Kind == "flag" && !ok {
				cellIdx[gd.Cell] = len(cells)
				cells = append(cells, gd.Cell)
			}
		}
		flags := c18FlagFlow(fn, cells, closureWrites)
		// every return of the frame after the defer statement
		verdict, where := "ok", ""
		for _, n := range g.nodes {
			rd, ok := n.in.(*ssa.RunDefers)
			if !ok || n.fr.rootF() != d.Fr || !instrReaches(d.Defer, rd) {
				continue
			}
			// the return node that follows on this path
			x := n
			for x != nil {
				if _, ok := x.in.(*ssa.Return); ok {
					break
				}
				if len(x.succs) != 1 {
					x = nil
					break
				}
				x = x.succs[0].to
			}
			if x == nil {
				continue
			}
			if !pubMayHaveSucceeded(n) {
				continue // pre-publish phase: cleaning up the unpublished directory is fine
			}
			kind, _ := g.retKind(x)
			fst, _ := flags.Before(rd)
			runs := "yes"
			for _, gd := range d.Guard {
				val := "unknown"
				switch gd.Kind {
				case "err":
					switch kind {
					case "nil":
						val = map[bool]string{true: "false", false: "true"}[gd.Val]
					case "nonnil":
						val = map[bool]string{true: "true", false: "false"}[gd.Val]
					}
				case "flag":
					i := uint(2 * cellIdx[gd.Cell])
					switch {
					case fst&(1<<i) != 0: // known true
						val = map[bool]string{true: "true", false: "false"}[gd.Val]
					case fst&(2<<i) != 0: // known false
						val = map[bool]string{true: "false", false: "true"}[gd.Val]
					}
				}
				if val == "false" {
					runs = "no"
					break
				}
				if val == "unknown" {
					runs = "maybe"
				}
			}
			switch runs {
			case "yes":
				verdict, where = "bad", p.Pos(instrPos(x.in))
			case "maybe":
				if verdict != "bad" {
					verdict, where = "unknown", p.Pos(instrPos(x.in))
				}
			}
		}
		switch verdict {
		case "bad":
			r.Violation(R.Order, construct, at,
				"the deferred "+o.Fn+" of the version directory runs at the return at "+where+", which is reachable after the rename over the target succeeded (and satisfies the deferred function's condition): the directory the target now resolves to is deleted, the target dangles although a complete set was published. Clean-up of the version directory must be confined to the phase before the rename")
		case "unknown":
			r.Undecide("%s: cannot tell whether the deferred %s runs at the return at %s, which is reachable after the successful rename", name, o.desc(), where)
		default:
			r.OK(R.Order, construct, at, "the deferred clean-up of the version directory cannot run at a return that follows the successful rename")
		}
	}
}

var _ = token.NoPos

// c18DirOf: the directory part of a path term, when it can be read off the term.
func c18DirOf(t *c18T) *c18T {
	switch t.Op {
	case "join":
		switch len(t.Args) {
		case 0, 1:
			return nil
		case 2:
			return t.Args[0]
		}
		return &c18T{Op: "join", Args: t.Args[:len(t.Args)-1]}
	case "cat":
		// X + "suffix" without a separator: same directory as X
		for _, a := range t.Args[1:] {
			if a.Op != "lit" || strings.Contains(a.Lit, "/") {
				return nil
			}
		}
		return c18DirOf(t.Args[0])
	case "field", "param":
		return &c18T{Op: "pathfn", Lit: "Dir", Args: []*c18T{t}}
	case "pathfn":
		if (t.Lit == "Clean" || t.Lit == "Abs") && len(t.Args) == 1 {
			return c18DirOf(t.Args[0])
		}
	}
	return nil
}

// c18StateTypes: the state type and the named struct types nested in it by value.
func c18StateTypes(p *Prog, tkey string) map[string]bool {
	out := map[string]bool{tkey: true}
	for _, pkg := range p.Pkgs {
		if pkg.Types == nil {
			continue
		}
		i := strings.LastIndex(tkey, ".")
		if i < 0 || pkg.PkgPath != tkey[:i] {
			continue
		}
		tn, ok := pkg.Types.Scope().Lookup(tkey[i+1:]).(*types.TypeName)
		if !ok {
			continue
		}
		var visit func(t types.Type, depth int)
		visit = func(t types.Type, depth int) {
			st, ok := t.Underlying().(*types.Struct)
			if !ok || depth > 3 {
				return
			}
			for k := 0; k < st.NumFields(); k++ {
				ft := types.Unalias(st.Field(k).Type())
				if pt, ok := ft.Underlying().(*types.Pointer); ok {
					ft = types.Unalias(pt.Elem()) // a sub-struct held by pointer
				}
				if n, ok := ft.(*types.Named); ok {
					if _, isStruct := n.Underlying().(*types.Struct); isStruct {
						key := namedKey(n)
						if !out[key] && n.Obj().Pkg() == tn.Pkg() {
							out[key] = true
							visit(n, depth+1)
						}
					}
				}
			}
		}
		visit(tn.Type(), 0)
	}
	return out
}

// c18FieldIsString: the field (FieldID.String() form) of the state type or a nested struct has type string.
func c18FieldIsString(p *Prog, tkey, field string) bool {
	if tkey == "" {
		return false
	}
	i := strings.LastIndex(tkey, ".")
	for _, pkg := range p.Pkgs {
		if pkg.Types == nil || i < 0 || pkg.PkgPath != tkey[:i] {
			continue
		}
		for key := range c18StateTypes(p, tkey) {
			j := strings.LastIndex(key, ".")
			tn, ok := pkg.Types.Scope().Lookup(key[j+1:]).(*types.TypeName)
			if !ok {
				continue
			}
			st, ok := tn.Type().Underlying().(*types.Struct)
			if !ok {
				continue
			}
			for k := 0; k < st.NumFields(); k++ {
				if (FieldID{key, st.Field(k).Name()}).String() == field {
					b, ok := st.Field(k).Type().Underlying().(*types.Basic)
					return ok && b.Kind() == types.String
				}
			}
		}
	}
	return false
}

// c18ThroughPureCall: a value obtained from a same-module accessor with a single return
// (`func (d *Dir) previous() (string, bool) { return d.prev, d.hasPrev }`) is the value returned there.
func c18ThroughPureCall(v ssa.Value) ssa.Value {
	for i := 0; i < 4; i++ {
		var call *ssa.Call
		idx := 0
		switch x := v.(type) {
		case *ssa.Call:
			call = x
		case *ssa.Extract:
			call, _ = x.Tuple.(*ssa.Call)
			idx = x.Index
		}
		if call == nil {
			return v
		}
		f := staticCallee(call)
		if f == nil || len(f.Blocks) == 0 || f.Pkg == nil || call.Parent().Pkg != f.Pkg {
			return v
		}
		var ret *ssa.Return
		n := 0
		allInstrs(f, func(in ssa.Instruction) {
			if r, ok := in.(*ssa.Return); ok {
				ret = r
				n++
			}
		})
		if n != 1 || idx >= len(ret.Results) {
			return v
		}
		v = c18Root(ret.Results[idx])
	}
	return v
}

// c18ErrCombinator: v = cmp.Or(e1, …) or errors.Join(e1, …): the combined error values.
func c18ErrCombinator(v ssa.Value) []ssa.Value {
	call, ok := v.(*ssa.Call)
	if !ok {
		return nil
	}
	obj := calleeObj(call)
	if obj == nil || obj.Pkg() == nil {
		return nil
	}
	switch obj.Pkg().Path() + "." + obj.Name() {
	case "cmp.Or", "errors.Join":
	default:
		return nil
	}
	if len(call.Call.Args) != 1 {
		return nil
	}
	els, ok := c18Varargs(call.Call.Args[0])
	if !ok {
		return nil
	}
	var out []ssa.Value
	for _, e := range els {
		out = append(out, c18Root(e))
	}
	return out
}

// c18FieldType: the type of a field (FieldID.String() form) of the state type or a struct nested in it.
func c18FieldType(p *Prog, tkey, field string) types.Type {
	if tkey == "" {
		return nil
	}
	i := strings.LastIndex(tkey, ".")
	for _, pkg := range p.Pkgs {
		if pkg.Types == nil || i < 0 || pkg.PkgPath != tkey[:i] {
			continue
		}
		for key := range c18StateTypes(p, tkey) {
			j := strings.LastIndex(key, ".")
			tn, ok := pkg.Types.Scope().Lookup(key[j+1:]).(*types.TypeName)
			if !ok {
				continue
			}
			st, ok := tn.Type().Underlying().(*types.Struct)
			if !ok {
				continue
			}
			for k := 0; k < st.NumFields(); k++ {
				if (FieldID{key, st.Field(k).Name()}).String() == field {
					return st.Field(k).Type()
				}
			}
		}
	}
	return nil
}

// c18FileHarmless: *os.File methods that do not change the name space.
var c18FileHarmless = map[string]bool{"Close": true, "Sync": true, "Name": true, "Fd": true, "Stat": true,
	"Read": true, "ReadAt": true, "Seek": true, "Write": true, "WriteString": true, "WriteAt": true, "Chmod": true, "SetDeadline": true}

// c18OpKind refines the kind of an operation from its constant arguments: os.OpenFile with
// O_CREATE|O_EXCL fails with EEXIST on an existing path like Symlink/Mkdir do.
func c18OpKind(p *Prog, full string, kind c18Kind, call *ssa.Call) c18Kind {
	if full != "os.OpenFile" || len(call.Call.Args) < 2 {
		return kind
	}
	k, ok := call.Call.Args[1].(*ssa.Const)
	if !ok || k.Value == nil {
		return kind
	}
	flags := k.Int64()
	val := func(name string) int64 {
		if pkg := p.All["os"]; pkg != nil && pkg.Types != nil {
			if c, ok := pkg.Types.Scope().Lookup(name).(*types.Const); ok {
				if v, ok := constantInt64(c); ok {
					return v
				}
			}
		}
		return 0
	}
	excl, create := val("O_EXCL"), val("O_CREATE")
	if excl != 0 && create != 0 && flags&excl != 0 && flags&create != 0 {
		return c18CreateExcl
	}
	return kind
}

func constantInt64(c *types.Const) (int64, bool) {
	return constant.Int64Val(constant.ToInt(c.Val()))
}

// c18FailureReachesNilExit: some path on which op o failed ends in a return of a nil error.
func c18FailureReachesNilExit(g *c18Graph, o *c18Op, bits map[*c18Edge]c18EdgeBits) bool {
	own := uint64(1) << uint(o.idx)
	ff := &c18Flow{g: g, Must: false, Edge: func(e *c18Edge, st uint64) uint64 {
		if bits[e].fail&own != 0 {
			st |= 1
		}
		return st
	}}
	ff.Run()
	for _, n := range g.nodes {
		if n.exit == "nil" {
			if st, ok := ff.Before(n); ok && st&1 != 0 {
				return true
			}
		}
	}
	return false
}
