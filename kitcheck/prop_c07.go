package main

// C07 — no input can crash or hang a parser, decoder or crypto entry point.
//
// Rules N1..N6 of DESIGN §4 C07. Scope and the lenbound engine live in
// c07scope.go / c07len.go; the rule bodies in c07rules.go / c07next.go.

import (
	"fmt"
	"os"
	"sort"

	"golang.org/x/tools/go/ssa"
)

func init() { register("C07", checkC07) }

const (
	c07N1   = "C07.N1-explicit-exit"
	c07N2   = "C07.N2-type-assert"
	c07N3   = "C07.N3-sentinel-index"
	c07N4   = "C07.N4-const-offset"
	c07N5   = "C07.N5-make-len"
	c07N5d  = "C07.N5-divisor"
	c07N5iv = "C07.N5-cbc-iv"
	c07N6   = "C07.N6-search-bound"
)

func c07RegisterRules(r *Report, floors bool) {
	f := func(n int) int {
		if floors {
			return n
		}
		return 0
	}
	r.Rule(c07N1, "every explicit panic / log.Fatal* / os.Exit / runtime.Goexit reachable from an entry point belongs to the documented programmer-misuse set (NewParser, aescbcaead Seal, ttlcache.Set, errors.Build)", f(6))
	r.Rule(c07N2, "every unchecked type assertion x.(T) in scope is discharged: sync.Pool of one type, exact reflect.Type equality on a decode hook's from-type, Kind-guard with string-only callers, Implements-guard, or a third-party result whose documented dynamic types all satisfy T", f(10))
	r.Rule(c07N3, "a result of strings/bytes.Index* used as a slice bound or index is known to be >= 0 (dominating test against -1 / <0, or a dominating Has*/Contains fact that implies a match); no floor of its own: the anchors are exported std-lib functions and code that stops using Index* (strings.Cut, ...) has nothing to check — the joint floor of N3+N4 guards against vacuity", 0)
	r.Rule(c07N4, "every index/slice with constant (or len-constant) bounds of a slice or string has a length fact that covers it on every path (local guards, switch-case value sets, boolean / (value, ok) helper summaries, API models, call-site minima for private functions); an offset len(x)-v with a non-constant size v (x[len(x)-v:], x[:len(x)-v]) is provably >= 0 — a remainder test on it does not bound its sign", f(24))
	r.Rule(c07N5, "every allocation size in scope is provably non-negative: the length of make([]T, n) and the count of bytes/strings/slices.Repeat", f(12))
	r.Rule(c07N5d, "a non-constant integer divisor is provably >= 1", f(1))
	r.Rule(c07N5iv, "the iv handed to cipher.NewCBCEncrypter/NewCBCDecrypter has a dominating len(iv) == block-size test (in the function or in every caller chain; constructor reached statically or through a function value)", f(2))
	r.Rule(c07N5n, "every cipher.AEAD Seal/Open in scope whose nonce is caller-supplied is preceded by a length test that belongs to that AEAD: len(nonce) == aead.NonceSize() on the same value, or — for an AEAD returned by a module function together with an error — every return that can carry a nil error has established the nonce size of the constructor it used (chacha20poly1305.New 12, NewX 24, cipher.NewGCM 12), or the caller chain has", f(4))
	r.Rule(c07N6p, "a loop that runs while its input is non-empty and replaces the input by a result of a module function fed with it: no return of that function hands the parameter back unchanged with all other results nil while every exit of the loop body is a non-nil test of those results (the loop would get the same input back forever); no floor: when the consuming function is inlined the remainder comes straight from the std-lib decoder and there is nothing to check", 0)
	r.Rule(c07N6s, "every search loop of SpecSchedule.Next (in Next or in the functions it calls) that steps its loop-carried time by a calendar DAY (AddDate(0,0,k), time.Date(y,m,d+k,...), directly or through a helper) on a time not provably in UTC contains a progress guard: a test relating a value derived from the pre-step time to one derived from the post-step time under which the time is re-assigned from an absolute step (t.Add of a provably positive duration) or the function returns — a calendar step is re-normalised in the zone and need not advance where the zone skips a day; absolute steps need no guard; month/year-granularity calendar steps are exempt (no zone skips a month); decides the presence of the guard, not its sufficiency", f(1))
	r.Rule(c07N6, "SpecSchedule.Next: the year limit test exists, returns, and is passed by every cycle that leaves a field-search loop; every field-search loop takes a positive constant step (Add or AddDate) on each iteration (whether a calendar day step really advances is N6-step-progress); counting loops stepped by a parameter have step >= 1; every bit-set field of SpecSchedule must be seen in some search loop (else UNDECIDED)", f(7))
}

func checkC07(c *Ctx) {
	r, p := c.R, c.P
	r.Explanation = "Decides structural necessary conditions of C07 on the module functions reachable from the entry points of DESIGN Appendix B (the cipher.AEAD methods of crypto/aescbcaead are found by role) through static calls, calls through function values and module-declared interfaces whose targets are visible, plus every module function or closure whose value is created there (decode hooks, transformer callback, goroutine bodies). " +
		"N1: explicit panic/log.Fatal/os.Exit/Goexit sites in scope ⊆ the documented misuse set. N2: unchecked type assertions are discharged by one of five reviewed idioms, else classified by where the operand's dynamic type comes from (third-party parser result with a documented type set, reflect.Value.Interface without a Type() test, a decode hook's data without any guard) and reported. " +
		"N3: strings/bytes.Index* results used as slice bounds/indices are tested against -1 (or a dominating Has*/Contains fact implies a match). N4: constant and len-minus-constant indices/slice bounds are covered by a length lower bound from the lenbound engine (edge facts on the CFG incl. switch-case unions, s==\"const\", HasPrefix, err==nil summaries of module callees, API models, package-level literals, call-site minima for private functions). " +
		"N5: make lengths and Repeat counts non-negative, non-constant divisors >= 1, CBC iv length tested. N6: the five-year bound of SpecSchedule.Next is on every cycle that leaves a field-search loop and every search loop advances t by a positive constant. " +
		"Calls through function values (dispatch tables, func-typed fields, callbacks, method values) and module-declared interface seams are followed in both directions: their targets are in scope, and the call sites bound the targets' parameters (a bound tied to the dispatch key of a multi-target call is never claimed exact). N6 is decided over Next AND the module functions it calls: search loops may live in helpers; a give-up test is recognised in the exact form t.Year() > start+k, through a limit kept in a local/struct/AddDate form, or — form not evaluated — as a returning test inside the driving cycle that compares the time reached with a value fixed before the search; wrap-around tests are told apart because they only look at the loop-carried time. " +
		"Every load of a variable that is written exactly once (a parameter or local captured by closures, a field of a local struct) stands for the value stored there: a guard on one load covers a use of another, inside a closure too (facts known where the closure is made). " +
		"N6-step-progress: only t.Add of a provably positive duration counts as an advancing step; a search loop that steps by a calendar day on a zoned time must contain a test relating the pre-step to the post-step time that leads to an absolute step or a return (presence of the guard is decided, not its sufficiency — except that a guard which evaluates to false when the post-step time equals the pre-step time, the stall it exists for (t.Before(prev), t.Sub(prev) < 0), is reported; month/year calendar steps are exempt). N6-input-progress: a loop that runs while its input is non-empty and refills it from a module function does not get the very same input back on a return the loop body cannot distinguish. N5-aead-nonce: a cipher.AEAD Seal/Open with a caller-supplied nonce is preceded by len(nonce) == aead.NonceSize() on the same AEAD, or the module function that returned the AEAD with an error has, on every return that can carry a nil error, established the nonce size of the constructor it used (chacha20poly1305 New 12 / NewX 24, cipher.NewGCM 12), or the caller chain has; constructors chosen through tables and paths that depend on a condition on the constructor's own arguments are unclassified. " +
		"Guards may sit in module helpers: a boolean helper on x / len(x) / an int (validLen(len(x))) or the ok flag of a (value, ok) helper is summarised over the helper's returns; a helper whose conditions the engine reads completely hides nothing, so a site behind it stays decidable. x%m == r moves a lower bound to the next number with that remainder; on a difference len(x)-v it is never taken as a sign test. Sizes kept in unexported fields written only by constructors with constants (tagSize) have a known finite range. " +
		"A site the engine cannot classify (operand of unknown origin, a dominating condition it cannot interpret, variable indices) is counted in the evidence (unclassified_*) and never reported. " +
		"NOT decided: variable-index bounds (ParseISO8601Duration's scanner, readHeader, processSegments), reflection panics (reflect.Value.Elem/Interface on invalid values), nil dereferences, panics inside third-party code (jwx, mapstructure, x509, cast, resource.ParseQuantity), panicking preconditions of AEAD/CBC primitives other than the iv length (C03 decides those by scenarios), recursion depth of config.Normalize / resolveAliasesInType, termination of loops fed by a reader that returns (0, nil) forever, integer overflow in length arithmetic, and whether Next's result is correct (C04)."
	r.Assumptions = append(r.Assumptions,
		"call graph: static calls, function values created in scope, calls through function values whose targets are visible in the module (func-typed fields, package-level or local tables of functions or of structs holding functions, callback parameters, method values, results of module functions) and invokes on interfaces declared in the module (resolved to the module types implementing them); invokes on interfaces declared elsewhere are not followed except for the listed entry points (the cipher.AEAD methods of the crypto/aescbcaead implementation, resolved by role, and Schedule.Next)",
		"function values are tracked field-/cell-based and flow-insensitively: every function stored into a func-typed field (T,f) may be called wherever (T,f) is called; a function whose value only reaches unexported cells that are only called has no callers outside the module (reflection aside)",
		"a package-level map/slice initialised once from a literal and only read afterwards keeps its literal keys/elements; a successful lookup (v, ok := m[k] with ok; m[k] in a map[string]bool; slices.Contains) means k is one of them",
		"x509.ParsePKCS8PrivateKey returns only *rsa.PrivateKey, *ecdsa.PrivateKey, ed25519.PrivateKey or *ecdh.PrivateKey; x509.ParsePKIXPublicKey only *rsa.PublicKey, *dsa.PublicKey, *ecdsa.PublicKey, ed25519.PublicKey or *ecdh.PublicKey (documented)",
		"strings/bytes.Index* return -1 exactly when there is no match; strings.Split with a non-empty separator returns at least one element; strings.HasPrefix(s,p) implies len(s) >= len(p)",
		"length arithmetic does not overflow int",
		"an unexported field of an unexported struct type whose every store (module-wide) goes through a freshly allocated struct is immutable after construction; if all those stores are integer constants the field ranges over them (and 0)",
		"mapstructure calls a decode hook with data whose dynamic type is the from-type it passes",
		"a value stored once into a package-level variable by the package initialiser and never stored to or address-taken elsewhere keeps that value")
	c07RegisterRules(r, true)

	entries := c07ResolveEntries(p, c07Entries)
	fv := newC07FV(p, entries)
	sc := c07BuildScope(p, entries, fv)
	misuse := c07BuildScope(p, c07ResolveEntries(p, c07MisuseEntries), fv)
	eng := newC07Engine(p, sc, fv)
	st := &c07State{c: c, p: p, r: r, sc: sc, eng: eng, stats: map[string]int{}, unclass: map[string][]string{}}

	if os.Getenv("C07_DEBUG") != "" {
		for _, fn := range sc.List {
			fmt.Printf("SCOPE %s  [%s]\n", FuncName(p, fn), sc.Why[fn])
		}
	}

	st.checkN1(sc, misuse)
	st.checkN2()
	st.checkN3()
	st.checkN4()
	st.checkN5()
	st.checkAEADNonce()
	st.checkInputProgress()
	st.checkN6()

	if os.Getenv("C07_DEBUG") != "" {
		for _, o := range r.Obs {
			fmt.Printf("OB %s | %s | %s | %s | %s\n", o.Rule, o.Construct, o.Status, o.Pos, o.Message)
		}
	}
	if n := r.RuleCount[c07N3] + r.RuleCount[c07N4]; n < 26 {
		r.Undecide("rules C07.N3+N4 generated %d obligations together, below their joint floor 26 (anchors moved or rules went vacuous)", n)
	}
	r.Stats["dynamic_calls_resolved"] = len(fv.DynTargets)
	r.Stats["dynamic_calls_unresolved_in_module"] = len(fv.Unresolved)
	r.Stats["scope_functions"] = len(sc.List)
	r.Stats["scope_entry_points"] = len(entries)
	keys := make([]string, 0, len(st.stats))
	for k := range st.stats {
		keys = append(keys, k)
	}
	sort.Strings(keys)
	for _, k := range keys {
		r.Stats[k] = st.stats[k]
	}
	for k, v := range st.unclass {
		sort.Strings(v)
		r.Stats["unclassified_"+k] = v
	}

	c.Fixture("c07len", func(fp *Prog, fr *Report) {
		c07RegisterRules(fr, false)
		var ents []*ssa.Function
		for _, fn := range fp.Funcs {
			if fn.Parent() == nil && fn.Name() != "init" && isExportedFunc(fn) {
				ents = append(ents, fn)
			}
		}
		ffv := newC07FV(fp, ents)
		fsc := c07BuildScope(fp, ents, ffv)
		fst := &c07State{c: c, p: fp, r: fr, sc: fsc, eng: newC07Engine(fp, fsc, ffv), stats: map[string]int{}, unclass: map[string][]string{}, fixture: true}
		fst.checkN2()
		fst.checkN3()
		fst.checkN4()
		fst.checkN5()
		fst.checkAEADNonce()
		fst.checkInputProgress()
		fst.checkStepProgressGeneric()
	})
}

type c07State struct {
	c       *Ctx
	p       *Prog
	r       *Report
	sc      *c07Scope
	eng     *c07Engine
	stats   map[string]int
	unclass map[string][]string
	fixture bool
}

func (st *c07State) unclassified(rule, construct, why string) {
	st.stats["unclassified_count_"+rule]++
	st.unclass[rule] = append(st.unclass[rule], construct+" — "+why)
}
