package main

// C04: refusal rules — error discipline (E7) and dominating range facts (E2)
// for the cron parser layer. The rule bodies are generic (function lists and
// sinks are parameters) so that the fixture package exercises the same code.

import (
	"fmt"
	"go/constant"
	"go/token"
	"go/types"
	"strings"

	"golang.org/x/tools/go/ssa"
)

var c04ErrorType = types.Universe.Lookup("error").Type()

func c04IsError(t types.Type) bool { return types.Identical(t, c04ErrorType) }

// c04Reach: instruction a can be followed (on some path) by instruction b.
func c04Reach(a, b ssa.Instruction) bool {
	if a.Block() == b.Block() && instrIndex(a) < instrIndex(b) {
		return true
	}
	for _, s := range a.Block().Succs {
		if reachableFrom(s, nil)[b.Block()] {
			return true
		}
	}
	return false
}

func c04CalleeName(c ssa.CallInstruction) string {
	if obj := calleeObj(c); obj != nil {
		if obj.Pkg() != nil && obj.Type().(*types.Signature).Recv() == nil {
			return obj.Pkg().Name() + "." + obj.Name()
		}
		return obj.Name()
	}
	if f := staticCallee(c); f != nil {
		return f.Name()
	}
	if b := builtinName(c); b != "" {
		return b
	}
	return "dynamic"
}

// errResultIndex: index of the last result of fn if it is an error, else -1.
func c04ErrResult(fn *ssa.Function) int {
	res := fn.Signature.Results()
	if res.Len() == 0 || !c04IsError(res.At(res.Len()-1).Type()) {
		return -1
	}
	return res.Len() - 1
}

// c04Errflow: every call in fns whose last result is an error must have that
// error honoured: returned, or nil-tested with every return on the non-nil
// branch carrying a non-nil error, or parked in an error cell that the owner
// checks before every success return (first error wins).
func c04Errflow(p *Prog, r *Report, rule string, fns []*ssa.Function) {
	for _, fn := range fns {
		ord := map[string]int{}
		fname := FuncName(p, fn)
		for _, b := range fn.Blocks {
			for _, in := range b.Instrs {
				call, ok := in.(*ssa.Call)
				if !ok {
					// go/defer of an error-returning function in this layer: never expected
					continue
				}
				sig := call.Call.Signature()
				n := sig.Results().Len()
				if n == 0 || !c04IsError(sig.Results().At(n-1).Type()) {
					continue
				}
				name := c04CalleeName(call)
				ord[name]++
				construct := fmt.Sprintf("%s call %s#%d", fname, name, ord[name])
				pos := p.Pos(instrPos(call))
				ev := callResult(call, n-1)
				if ev == nil || len(c04RealRefs(ev)) == 0 {
					r.Violation(rule, construct, pos, "the error returned by "+name+" is discarded: an expression that "+name+" rejects is accepted and given a meaning")
					continue
				}
				verdict, msg := c04ErrHonoured(p, fn, call, ev)
				switch verdict {
				case "ok":
					r.OK(rule, construct, pos, msg)
				case "bad":
					r.Violation(rule, construct, pos, msg)
				default:
					r.Undecide("%s: %s", construct, msg)
				}
			}
		}
	}
}

func c04RealRefs(v ssa.Value) []ssa.Instruction {
	var out []ssa.Instruction
	for _, x := range refs(v) {
		if _, ok := x.(*ssa.DebugRef); ok {
			continue
		}
		out = append(out, x)
	}
	return out
}

func c04ErrHonoured(p *Prog, fn *ssa.Function, call *ssa.Call, ev ssa.Value) (string, string) {
	errIdx := c04ErrResult(fn)
	name := c04CalleeName(call)
	returned, tested, wrapped := false, false, false
	var badMsg string
	var cells []*ssa.Store
	for _, ref := range c04RealRefs(ev) {
		switch x := ref.(type) {
		case *ssa.Return:
			for _, res := range x.Results {
				if res == ev {
					returned = true
				}
			}
		case *ssa.Store:
			if x.Val == ev {
				cells = append(cells, x)
			}
		case *ssa.BinOp:
			if (x.Op != token.EQL && x.Op != token.NEQ) || !(isNilConst(x.X) || isNilConst(x.Y)) {
				continue
			}
			for _, u := range refs(x) {
				ifi, ok := u.(*ssa.If)
				if !ok {
					continue
				}
				nonNil := ifi.Block().Succs[0]
				if x.Op == token.EQL {
					nonNil = ifi.Block().Succs[1]
				}
				tested = true
				if errIdx < 0 {
					badMsg = "the error of " + name + " is tested but " + fn.Name() + " has no error result to report it through"
					continue
				}
				for blk := range reachableFrom(nonNil, nil) {
					if len(blk.Instrs) == 0 {
						continue
					}
					ret, ok := blk.Instrs[len(blk.Instrs)-1].(*ssa.Return)
					if !ok {
						continue
					}
					if isNilConst(ret.Results[errIdx]) {
						badMsg = "after " + name + " failed, control reaches a return with a nil error (" + p.Pos(ret.Pos()) + "): the failure is swallowed and the expression is accepted"
					}
				}
			}
		case *ssa.ChangeInterface, *ssa.MakeInterface:
			wrapped = true
		case *ssa.Call:
			wrapped = true
		case *ssa.Phi:
			// merged with other error values and returned
			seen := map[*ssa.Phi]bool{}
			var walk func(ph *ssa.Phi)
			walk = func(ph *ssa.Phi) {
				if seen[ph] {
					return
				}
				seen[ph] = true
				for _, u := range refs(ph) {
					switch y := u.(type) {
					case *ssa.Return:
						returned = true
					case *ssa.Phi:
						walk(y)
					}
				}
			}
			walk(x)
		}
	}
	if badMsg != "" {
		return "bad", badMsg
	}
	if len(cells) > 0 {
		for _, s := range cells {
			v, m := c04CellDiscipline(p, fn, s, name)
			if v != "ok" {
				return v, m
			}
		}
		return "ok", "parked in the first-error cell, which the owner checks before succeeding"
	}
	if returned {
		return "ok", "returned to the caller"
	}
	if tested {
		return "ok", "tested; every return on the failure branch carries a non-nil error"
	}
	if wrapped {
		return "undecided", "the error of " + name + " is only passed on to another call, never tested or returned directly"
	}
	return "undecided", "the error of " + name + " is used in a way the rule does not classify"
}

// c04CellDiscipline checks the captured-error-variable idiom.
func c04CellDiscipline(p *Prog, g *ssa.Function, store *ssa.Store, name string) (string, string) {
	// resolve the cell and its owner
	var cell *ssa.Alloc
	owner := g
	switch a := store.Addr.(type) {
	case *ssa.Alloc:
		cell = a
	case *ssa.FreeVar:
		if b, ok := resolveFreeVar(a).(*ssa.Alloc); ok {
			cell = b
			owner = g.Parent()
		}
	}
	if cell == nil || !c04IsError(deref1(cell.Type())) {
		return "undecided", "the error of " + name + " is stored somewhere other than a local error variable"
	}
	if c04ErrResult(owner) < 0 {
		return "undecided", "the error variable lives in a function without an error result"
	}
	errIdx := c04ErrResult(owner)
	// views of the cell: in owner the Alloc itself; in closures the bound FreeVar
	type view struct {
		fn   *ssa.Function
		addr ssa.Value
	}
	views := []view{{owner, cell}}
	var events []ssa.Instruction                          // in owner
	closureCalls := map[*ssa.Function][]ssa.Instruction{} // closure -> call sites in owner
	for _, ref := range c04RealRefs(cell) {
		switch x := ref.(type) {
		case *ssa.Store:
			if x.Addr == ssa.Value(cell) {
				events = append(events, x)
			} else {
				return "undecided", "the address of the error variable escapes"
			}
		case *ssa.UnOp:
		case *ssa.MakeClosure:
			cf := x.Fn.(*ssa.Function)
			idx := -1
			for i, b := range x.Bindings {
				if b == ssa.Value(cell) {
					idx = i
				}
			}
			if idx < 0 {
				return "undecided", "closure binding of the error variable not found"
			}
			fv := cf.FreeVars[idx]
			views = append(views, view{cf, fv})
			stores := false
			for _, fr := range c04RealRefs(fv) {
				switch y := fr.(type) {
				case *ssa.Store:
					if y.Addr == ssa.Value(fv) {
						stores = true
					}
				case *ssa.UnOp:
				default:
					return "undecided", "the error variable is passed on from inside a closure"
				}
			}
			for _, mr := range c04RealRefs(x) {
				c, ok := mr.(*ssa.Call)
				if !ok || c.Call.Value != ssa.Value(x) {
					return "undecided", "the closure writing the error variable is not only called directly"
				}
				if stores {
					events = append(events, c)
					closureCalls[cf] = append(closureCalls[cf], c)
				}
			}
		default:
			return "undecided", "the error variable is used in an unexpected way"
		}
	}
	isLoadOfCell := func(fn *ssa.Function, v ssa.Value) bool {
		u, ok := v.(*ssa.UnOp)
		if !ok || u.Op != token.MUL {
			return false
		}
		for _, vw := range views {
			if vw.fn == fn && vw.addr == u.X {
				return true
			}
		}
		return false
	}
	nilEdgeLoad := func(fn *ssa.Function, b *ssa.BasicBlock) []ssa.Instruction {
		var out []ssa.Instruction
		for _, dc := range domConds(b) {
			cmp, ok := decodeCond(dc.If.Cond, dc.Branch)
			if !ok || cmp.Op != token.EQL {
				continue
			}
			for _, pr := range [][2]ssa.Value{{cmp.X, cmp.Y}, {cmp.Y, cmp.X}} {
				if isLoadOfCell(fn, pr[0]) && isNilConst(pr[1]) {
					out = append(out, pr[0].(ssa.Instruction))
				}
			}
		}
		return out
	}
	// the sites (in owner) at which this store happens
	var mySites []ssa.Instruction
	if g == owner {
		mySites = []ssa.Instruction{store}
	} else {
		mySites = closureCalls[g]
		if len(mySites) == 0 {
			return "undecided", "the closure storing the error is never called directly by " + owner.Name()
		}
	}
	// (i) first error wins: if an earlier event can precede this one, the store must be guarded by cell == nil
	needGuard := false
	for _, s := range mySites {
		for _, e := range events {
			if e != s && c04Reach(e, s) {
				needGuard = true
			}
			if e == s && g != owner && c04Reach(e, s) {
				needGuard = true // the call site sits in a loop
			}
		}
	}
	if needGuard && len(nilEdgeLoad(g, store.Block())) == 0 {
		return "bad", "the error of " + name + " overwrites the shared error variable without first checking that it is still nil: a later successful field resets an earlier failure to nil and the malformed expression is accepted"
	}
	// (ii) every success return of the owner that an event can reach is dominated by a nil test of the cell made after the last event
	for _, b := range owner.Blocks {
		if len(b.Instrs) == 0 {
			continue
		}
		ret, ok := b.Instrs[len(b.Instrs)-1].(*ssa.Return)
		if !ok {
			continue
		}
		reached := false
		for _, s := range mySites {
			if c04Reach(s, ret) {
				reached = true
			}
		}
		if !reached {
			continue
		}
		res := ret.Results[errIdx]
		if isLoadOfCell(owner, res) {
			stale := false
			for _, e := range events {
				if c04Reach(res.(ssa.Instruction), e) && c04Reach(e, ret) {
					stale = true
				}
			}
			if !stale {
				continue
			}
		}
		if !isNilConst(res) && !isLoadOfCell(owner, res) {
			continue // some other non-constant error value: a failure return
		}
		okRet := false
		for _, l := range nilEdgeLoad(owner, b) {
			fresh := true
			for _, e := range events {
				if c04Reach(l, e) && c04Reach(e, ret) {
					fresh = false
				}
			}
			if fresh {
				okRet = true
			}
		}
		if !okRet {
			return "bad", owner.Name() + " can return success (" + p.Pos(ret.Pos()) + ") after " + name + " parked its error in the shared error variable, without testing that variable after the last call that may set it: the malformed expression is accepted"
		}
	}
	return "ok", ""
}

// ---------------------------------------------------------------------------
// prover for dominating comparison facts

type c04Prover struct {
	fn *ssa.Function
	// MinF/MaxF: field names of a bounds-like struct parameter for which
	// param.MinF <= param.MaxF is a table invariant ("" = no such axiom).
	MinF, MaxF string
	// InModule: callees whose bodies may be consulted as validation helpers.
	InModule func(*ssa.Function) bool
	// Opaque: a dominating guard call that could not be consulted (set by viaHelper).
	Opaque string
}

// leAxiom: kx <= ky is known from the table invariant min <= max of one parameter.
func (pv *c04Prover) leAxiom(kx, ky string) bool {
	if pv.MinF == "" || !strings.HasPrefix(kx, "param:") || !strings.HasPrefix(ky, "param:") {
		return false
	}
	nx, okx := strings.CutSuffix(kx, "."+pv.MinF)
	ny, oky := strings.CutSuffix(ky, "."+pv.MaxF)
	return okx && oky && nx == ny
}

// paramCopyLoad: v is the whole-struct load of the addressable copy of a parameter (or the parameter).
func c04WholeParam(v ssa.Value) *ssa.Parameter {
	switch x := v.(type) {
	case *ssa.Parameter:
		return x
	case *ssa.UnOp:
		if a, ok := x.X.(*ssa.Alloc); ok && x.Op == token.MUL {
			return c04ParamOfAlloc(a)
		}
	}
	return nil
}

// viaHelper: a dominating `h(args) == nil` (error result) where every nil
// return of the module function h establishes `x op y` for the arguments.
func (pv *c04Prover) viaHelper(op token.Token, x, y ssa.Value, conds []DomCond, depth int) bool {
	if pv.InModule == nil {
		return false
	}
	for _, dc := range conds {
		cmp, ok := decodeCond(dc.If.Cond, dc.Branch)
		if !ok || cmp.Op != token.EQL {
			continue
		}
		res := cmp.X
		if isNilConst(res) {
			res = cmp.Y
		} else if !isNilConst(cmp.Y) {
			continue
		}
		if ex, ok := res.(*ssa.Extract); ok {
			res = ex.Tuple
		}
		call, ok := res.(*ssa.Call)
		if !ok {
			continue
		}
		h := staticCallee(call)
		if h == nil || !pv.InModule(h) || h == pv.fn {
			continue
		}
		if len(h.Blocks) == 0 || c04ErrResult(h) < 0 {
			pv.Opaque = h.Name()
			continue
		}
		hp := &c04Prover{fn: h, MinF: pv.MinF, MaxF: pv.MaxF, InModule: pv.InModule}
		mapVal := func(v ssa.Value) ssa.Value {
			if k, ok := v.(*ssa.Const); ok {
				return k
			}
			for i, a := range call.Call.Args {
				if a == v && i < len(h.Params) {
					return h.Params[i]
				}
			}
			k := pv.key(v)
			if strings.HasPrefix(k, "param:") {
				dot := strings.LastIndex(k, ".")
				pname, fname := k[len("param:"):dot], k[dot+1:]
				for i, a := range call.Call.Args {
					if wp := c04WholeParam(a); wp != nil && wp.Name() == pname && i < len(h.Params) {
						want := "param:" + h.Params[i].Name() + "." + fname
						var rep ssa.Value
						allInstrs(h, func(in ssa.Instruction) {
							if vv, ok := in.(ssa.Value); ok && rep == nil && hp.key(vv) == want {
								rep = vv
							}
						})
						return rep
					}
				}
			}
			return nil
		}
		hx, hy := mapVal(x), mapVal(y)
		if hx == nil || hy == nil {
			// a guard that receives one of the (non-constant) values but cannot be consulted for the other is opaque;
			// a guard that receives neither is irrelevant
			passed := func(v, hv ssa.Value) bool {
				_, isK := v.(*ssa.Const)
				return hv != nil && !isK
			}
			if passed(x, hx) || passed(y, hy) {
				pv.Opaque = h.Name()
			}
			continue
		}
		errIdx := c04ErrResult(h)
		nRet, all := 0, true
		for _, b := range h.Blocks {
			if len(b.Instrs) == 0 {
				continue
			}
			ret, ok := b.Instrs[len(b.Instrs)-1].(*ssa.Return)
			if !ok || !isNilConst(ret.Results[errIdx]) {
				continue
			}
			nRet++
			if !hp.holds(op, hx, hy, domConds(b), depth+1) {
				all = false
			}
		}
		if nRet > 0 && all {
			return true
		}
	}
	return false
}

// paramCopy: A is the addressable copy of a parameter (`*A = param` and only field reads).
func c04ParamOfAlloc(a *ssa.Alloc) *ssa.Parameter {
	var par *ssa.Parameter
	for _, ref := range c04RealRefs(a) {
		switch x := ref.(type) {
		case *ssa.Store:
			p, ok := x.Val.(*ssa.Parameter)
			if !ok || x.Addr != ssa.Value(a) || par != nil {
				return nil
			}
			par = p
		case *ssa.FieldAddr:
			for _, fr := range c04RealRefs(x) {
				if u, ok := fr.(*ssa.UnOp); !ok || u.Op != token.MUL {
					return nil
				}
			}
		case *ssa.UnOp:
		default:
			return nil
		}
	}
	return par
}

// c04Virt stands for a value the function never materialises (a field of a
// struct parameter that is only handed on to a helper). Only its key is used.
type c04Virt struct {
	ssa.Value
	k string
}

// key: canonical identity of a value for fact matching.
func (pv *c04Prover) key(v ssa.Value) string {
	switch x := v.(type) {
	case *c04Virt:
		return x.k
	case *ssa.Const:
		if x.Value != nil && x.Value.Kind() == constant.Int {
			return "const:" + x.Value.ExactString()
		}
	case *ssa.UnOp:
		if x.Op == token.MUL {
			if fa, ok := x.X.(*ssa.FieldAddr); ok {
				if a, ok := fa.X.(*ssa.Alloc); ok {
					if par := c04ParamOfAlloc(a); par != nil {
						return "param:" + par.Name() + "." + fieldIDOfAddr(fa).Field
					}
				}
			}
		}
	case *ssa.Field:
		if par, ok := x.X.(*ssa.Parameter); ok {
			return "param:" + par.Name() + "." + fieldIDOfField(x).Field
		}
	}
	return fmt.Sprintf("val:%p", v)
}

func c04ConstOf(v ssa.Value) (int64, bool) {
	return c04ConstInt(v)
}

func c04FlipOp(op token.Token) token.Token {
	switch op {
	case token.LSS:
		return token.GTR
	case token.GTR:
		return token.LSS
	case token.LEQ:
		return token.GEQ
	case token.GEQ:
		return token.LEQ
	}
	return op
}

func c04Implies(have, want token.Token) bool {
	if have == want {
		return true
	}
	switch have {
	case token.GTR:
		return want == token.GEQ || want == token.NEQ
	case token.LSS:
		return want == token.LEQ || want == token.NEQ
	case token.EQL:
		return want == token.GEQ || want == token.LEQ
	}
	return false
}

func c04EvalRel(op token.Token, a, b int64) bool {
	switch op {
	case token.EQL:
		return a == b
	case token.NEQ:
		return a != b
	case token.LSS:
		return a < b
	case token.LEQ:
		return a <= b
	case token.GTR:
		return a > b
	case token.GEQ:
		return a >= b
	}
	return false
}

func c04IsUnsigned(t types.Type) bool {
	b, ok := t.Underlying().(*types.Basic)
	return ok && b.Info()&types.IsUnsigned != 0
}

// condsOnEdge: facts known when control passes from pred to succ.
func c04CondsOnEdge(pred, succ *ssa.BasicBlock) []DomCond {
	out := domConds(pred)
	if n := len(pred.Instrs); n > 0 {
		if ifi, ok := pred.Instrs[n-1].(*ssa.If); ok && pred.Succs[0] != pred.Succs[1] {
			if pred.Succs[0] == succ {
				out = append(out, DomCond{ifi, true})
			} else if pred.Succs[1] == succ {
				out = append(out, DomCond{ifi, false})
			}
		}
	}
	return out
}

// holds: `x op y` is implied by the facts `conds` (and recursively, for phis, on every incoming edge).
func (pv *c04Prover) holds(op token.Token, x, y ssa.Value, conds []DomCond, depth int) bool {
	if depth > 6 {
		return false
	}
	kx, ky := pv.key(x), pv.key(y)
	if kx == ky && (op == token.GEQ || op == token.LEQ || op == token.EQL) {
		return true
	}
	cx, okx := c04ConstOf(x)
	cy, oky := c04ConstOf(y)
	if okx && oky {
		return c04EvalRel(op, cx, cy)
	}
	if (op == token.LEQ && pv.leAxiom(kx, ky)) || (op == token.GEQ && pv.leAxiom(ky, kx)) {
		return true
	}
	if pv.viaHelper(op, x, y, conds, depth) {
		return true
	}
	// interval knowledge about x versus a constant y
	if oky {
		lb, ub := int64(-1<<62), int64(1<<62)
		neq := map[int64]bool{}
		if _, virt := x.(*c04Virt); !virt && c04IsUnsigned(x.Type()) {
			lb = 0
		}
		for _, dc := range conds {
			cmp, ok := decodeCond(dc.If.Cond, dc.Branch)
			if !ok {
				continue
			}
			a, b, o := cmp.X, cmp.Y, cmp.Op
			if pv.key(b) == kx {
				a, b, o = b, a, c04FlipOp(o)
			}
			if pv.key(a) != kx {
				continue
			}
			c, isC := c04ConstOf(b)
			if !isC {
				continue
			}
			switch o {
			case token.GTR:
				if c+1 > lb {
					lb = c + 1
				}
			case token.GEQ:
				if c > lb {
					lb = c
				}
			case token.LSS:
				if c-1 < ub {
					ub = c - 1
				}
			case token.LEQ:
				if c < ub {
					ub = c
				}
			case token.EQL:
				lb, ub = c, c
			case token.NEQ:
				neq[c] = true
			}
		}
		if neq[lb] {
			lb++
		}
		if neq[ub] {
			ub--
		}
		switch op {
		case token.NEQ:
			if neq[cy] || cy < lb || cy > ub {
				return true
			}
		case token.GEQ:
			if lb >= cy {
				return true
			}
		case token.GTR:
			if lb > cy {
				return true
			}
		case token.LEQ:
			if ub <= cy {
				return true
			}
		case token.LSS:
			if ub < cy {
				return true
			}
		case token.EQL:
			if lb == cy && ub == cy {
				return true
			}
		}
	}
	// direct relational facts
	for _, dc := range conds {
		cmp, ok := decodeCond(dc.If.Cond, dc.Branch)
		if !ok {
			continue
		}
		if pv.key(cmp.X) == kx && pv.key(cmp.Y) == ky && c04Implies(cmp.Op, op) {
			return true
		}
		if pv.key(cmp.X) == ky && pv.key(cmp.Y) == kx && c04Implies(c04FlipOp(cmp.Op), op) {
			return true
		}
	}
	// phi expansion (phis of one block are expanded together, edge by edge)
	phx, xIsPhi := x.(*ssa.Phi)
	phy, yIsPhi := y.(*ssa.Phi)
	if xIsPhi {
		all := true
		for i, e := range phx.Edges {
			yy := y
			if yIsPhi && phy.Block() == phx.Block() {
				yy = phy.Edges[i]
			}
			if e == ssa.Value(phx) && yy == y {
				continue
			}
			if !pv.holds(op, e, yy, c04CondsOnEdge(phx.Block().Preds[i], phx.Block()), depth+1) {
				all = false
				break
			}
		}
		if all {
			return true
		}
	}
	if yIsPhi && !(xIsPhi && phy.Block() == phx.Block()) {
		all := true
		for i, e := range phy.Edges {
			if e == ssa.Value(phy) {
				continue
			}
			if !pv.holds(op, x, e, c04CondsOnEdge(phy.Block().Preds[i], phy.Block()), depth+1) {
				all = false
				break
			}
		}
		if all {
			return true
		}
	}
	return false
}

// c04RangeFacts checks one call sink(start, end, step) inside fn. bpar is the
// bounds-typed parameter of fn (nil if none).
func c04RangeFacts(p *Prog, r *Report, rule string, fn *ssa.Function, call *ssa.Call, ordinal int, bpar *ssa.Parameter, minF, maxF string) {
	fname := FuncName(p, fn)
	base := fmt.Sprintf("%s %s#%d", fname, c04CalleeName(call), ordinal)
	pos := p.Pos(instrPos(call))
	if len(call.Call.Args) != 3 {
		r.Undecide("%s: the bit-set builder no longer takes (min, max, step)", base)
		return
	}
	a0, a1, a2 := call.Call.Args[0], call.Call.Args[1], call.Call.Args[2]
	pv := &c04Prover{fn: fn, InModule: p.InModule}
	conds := domConds(call.Block())
	zero := ssa.NewConst(constant.MakeInt64(0), a2.Type())
	type ob struct {
		what string
		ok   bool
		msg  string
	}
	var obs []ob
	if bpar != nil {
		pv.MinF, pv.MaxF = minF, maxF
		// find representative values for r.min / r.max: any value in fn whose key is the param field
		var minV, maxV ssa.Value
		allInstrs(fn, func(in ssa.Instruction) {
			if v, ok := in.(ssa.Value); ok {
				switch pv.key(v) {
				case "param:" + bpar.Name() + "." + minF:
					if minV == nil {
						minV = v
					}
				case "param:" + bpar.Name() + "." + maxF:
					if maxV == nil {
						maxV = v
					}
				}
			}
		})
		if minV == nil {
			minV = &c04Virt{k: "param:" + bpar.Name() + "." + minF}
		}
		if maxV == nil {
			maxV = &c04Virt{k: "param:" + bpar.Name() + "." + maxF}
		}
		obs = append(obs,
			ob{"start >= min", pv.holds(token.GEQ, a0, minV, conds, 0), "a range may start below the minimum of the field (day-of-month 0, month 0): such expressions are accepted, with bits that never match or that mean something else, instead of being refused"},
			ob{"end <= max", pv.holds(token.LEQ, a1, maxV, conds, 0), "a range may end above the maximum of the field (minute 60, hour 24, month 13 ...): such expressions are accepted — the extra bits never match, or collide with the star bit — instead of being refused"})
	} else {
		c0, ok0 := c04ConstOf(a0)
		c1, ok1 := c04ConstOf(a1)
		if !ok0 || !ok1 {
			r.Undecide("%s: called outside a function with a bounds parameter with non-constant limits", base)
			return
		}
		obs = append(obs, ob{"start >= min", c0 >= 0, "negative start"}, ob{"end <= max", c1 < 63, "constant end collides with the star bit"})
	}
	obs = append(obs,
		ob{"start <= end", pv.holds(token.LEQ, a0, a1, conds, 0), "an inverted range (e.g. 5-2) reaches the bit-set builder: it is accepted as an empty or wrapped set instead of being refused"},
		ob{"step != 0", pv.holds(token.NEQ, a2, zero, conds, 0), "a zero step (e.g. */0) reaches the bit-set builder: the expression is accepted (and the builder loops forever) instead of being refused"})
	helper := pv.Opaque
	for _, o := range obs {
		construct := base + ": " + o.what
		switch {
		case o.ok:
			r.OK(rule, construct, pos, "holds on every path to the call")
		case helper != "":
			r.Undecide("%s: not established locally; the call is guarded by %s which receives the value", construct, helper)
		default:
			r.Violation(rule, construct, pos, "'"+o.what+"' is not established on every path to "+c04CalleeName(call)+": "+o.msg)
		}
	}
}

// ---------------------------------------------------------------------------
// C04 instances

func (st *c04State) parserFuncs() []*ssa.Function {
	p := st.p
	roots := []string{"Parser.Parse", "ParseStandard", "normalizeFields", "getField", "getRange", "parseIntOrName", "mustParseInt", "parseDescriptor"}
	var out []*ssa.Function
	seen := map[*ssa.Function]bool{}
	var add func(f *ssa.Function)
	add = func(f *ssa.Function) {
		if f == nil || seen[f] || f.Pkg == nil || f.Pkg.Pkg.Path() != st.pkgPath {
			return
		}
		seen[f] = true
		out = append(out, f)
		for _, a := range f.AnonFuncs {
			add(a)
		}
		// helpers extracted from the parser functions belong to the layer too
		allInstrs(f, func(in ssa.Instruction) {
			if c, ok := in.(ssa.CallInstruction); ok {
				if cal := staticCallee(c); cal != nil && p.InModule(cal) && cal.Parent() == nil {
					add(cal)
				}
			}
		})
	}
	for _, n := range roots {
		add(p.Func("cron", n))
	}
	return out
}

func (st *c04State) checkErrflow() {
	c04Errflow(st.p, st.r, "C04.P4-errflow", st.parserFuncs())
}

func (st *c04State) checkRange() {
	p, r := st.p, st.r
	getBits := p.Func("cron", "getBits")
	bt := st.pkgPath + ".bounds"
	n := 0
	doc, _ := c04PackageDoc(p.Pkg("cron"))
	nstepDoc := c04DocHasNStep(doc)
	if !nstepDoc {
		r.Undecide("doc.go no longer contains the sentence 'The form \"N/...\" is accepted as meaning \"N-MAX/...\"': the meaning of N/step has no published spec to check against")
	}
	for _, fn := range p.FuncsOfPkg("cron") {
		ord := 0
		var bpar *ssa.Parameter
		for _, par := range fn.Params {
			if namedKey(par.Type()) == bt {
				if _, isPtr := par.Type().Underlying().(*types.Pointer); !isPtr {
					bpar = par
				}
			}
		}
		allInstrs(fn, func(in ssa.Instruction) {
			call, ok := in.(*ssa.Call)
			if !ok || staticCallee(call) != getBits {
				return
			}
			ord++
			n++
			c04RangeFacts(p, r, "C04.P4-range", fn, call, ord, bpar, "min", "max")
			if nstepDoc {
				c04NStepRule(p, r, "C04.P5-nstep", fn, call, ord, bpar, "min", "max")
			}
		})
	}
	if n == 0 {
		r.Undecide("no call of cron.getBits found")
	}
	// getBits itself must not be reachable other than by static calls (a function value would bypass the facts)
	for _, fn := range p.FuncsOfPkg("cron") {
		allInstrs(fn, func(in ssa.Instruction) {
			for _, op := range in.Operands(nil) {
				if *op == ssa.Value(getBits) {
					if c, ok := in.(ssa.CallInstruction); !ok || c.Common().Value != ssa.Value(getBits) {
						r.Undecide("%s uses cron.getBits as a value", FuncName(p, fn))
					}
				}
			}
		})
	}
}

func (st *c04State) checkCount() {
	p, r := st.p, st.r
	nf := p.Func("cron", "normalizeFields")
	rule := "C04.P4-count"
	if len(nf.Params) == 0 {
		r.Undecide("normalizeFields has no parameters")
		return
	}
	fields := nf.Params[0]
	errIdx := c04ErrResult(nf)
	if errIdx < 0 {
		r.Violation(rule, "cron.normalizeFields: at least the required number of fields", p.Pos(nf.Pos()), "normalizeFields no longer returns an error: a wrong number of fields cannot be refused")
		return
	}
	isLen := func(v ssa.Value) bool {
		c, ok := v.(*ssa.Call)
		return ok && builtinName(c) == "len" && len(c.Call.Args) == 1 && c.Call.Args[0] == ssa.Value(fields)
	}
	lowerAll, upperAll := true, true
	nRet := 0
	var pos token.Pos
	for _, b := range nf.Blocks {
		if len(b.Instrs) == 0 {
			continue
		}
		ret, ok := b.Instrs[len(b.Instrs)-1].(*ssa.Return)
		if !ok || !isNilConst(ret.Results[errIdx]) {
			continue
		}
		nRet++
		pos = ret.Pos()
		lower, upper := false, false
		for _, dc := range domConds(b) {
			cmp, ok := decodeCond(dc.If.Cond, dc.Branch)
			if !ok {
				continue
			}
			op := cmp.Op
			var other ssa.Value
			switch {
			case isLen(cmp.X):
				other = cmp.Y
			case isLen(cmp.Y):
				other = cmp.X
				op = c04FlipOp(op)
			default:
				continue
			}
			_ = other
			switch op {
			case token.GEQ, token.GTR:
				lower = true
			case token.LEQ, token.LSS:
				upper = true
			case token.EQL:
				lower, upper = true, true
			}
		}
		lowerAll = lowerAll && lower
		upperAll = upperAll && upper
	}
	if nRet == 0 {
		r.Undecide("normalizeFields has no success return")
		return
	}
	r.Check(lowerAll, rule, "cron.normalizeFields: at least the required number of fields", p.Pos(pos),
		"every success return is dominated by a lower check of len(fields)",
		"normalizeFields can succeed without len(fields) having been checked from below: an expression with too few fields is not refused (the missing columns are read past the end of the slice or filled from the wrong columns)")
	r.Check(upperAll, rule, "cron.normalizeFields: at most the allowed number of fields", p.Pos(pos),
		"every success return is dominated by an upper check of len(fields)",
		"normalizeFields can succeed without len(fields) having been checked from above: an expression with too many fields is accepted and its trailing fields are silently ignored instead of being refused")
}

func (st *c04State) checkNonNeg() {
	p, r := st.p, st.r
	rule := "C04.P4-nonneg"
	n := 0
	for _, fn := range st.parserFuncs() {
		allInstrs(fn, func(in ssa.Instruction) {
			if c, ok := in.(*ssa.Call); ok && (callIs(c, "strconv", "", "ParseUint")) {
				n++
				r.OK(rule, FuncName(p, fn)+" strconv.ParseUint", p.Pos(c.Pos()), "unsigned parse: negative numbers are rejected by strconv")
			}
			cv, ok := in.(*ssa.Convert)
			if !ok || !c04IsUnsigned(cv.Type()) || c04IsUnsigned(cv.X.Type()) {
				return
			}
			if _, isInt := cv.X.Type().Underlying().(*types.Basic); !isInt {
				return
			}
			// operand comes from strconv.Atoi / ParseInt
			src := cv.X
			if ex, ok := src.(*ssa.Extract); ok {
				src = ex.Tuple
			}
			call, ok := c04Strip(src).(*ssa.Call)
			if !ok || !(callIs(call, "strconv", "", "Atoi") || callIs(call, "strconv", "", "ParseInt")) {
				return
			}
			n++
			pv := &c04Prover{fn: fn}
			zero := ssa.NewConst(constant.MakeInt64(0), cv.X.Type())
			r.Check(pv.holds(token.GEQ, cv.X, zero, domConds(cv.Block()), 0), rule, FuncName(p, fn)+" uint(parsed number)", p.Pos(instrPos(cv)),
				"conversion dominated by a non-negativity check",
				"a parsed number is converted to unsigned without a check that it is not negative: a step such as '*/-1' becomes 2^64-1, passes the zero-step check and makes getBits walk downwards from the start, setting bits below the field's minimum — the expression is accepted and given a meaning instead of being refused")
		})
	}
	if n == 0 {
		r.Undecide("no conversion of a strconv.Atoi/ParseInt result to an unsigned type found in the parser layer")
	}
}

// checkEvery: D2.
func (st *c04State) checkEvery() {
	p, r := st.p, st.r
	rule := "C04.D2-every"
	pd := p.Func("cron", "parseDescriptor")
	every := p.Func("cron", "Every")
	cds := st.pkgPath + ".ConstantDelaySchedule"
	// every value of type ConstantDelaySchedule converted to the Schedule result of parseDescriptor comes from Every(ParseDuration result)
	nMI := 0
	bad := ""
	var pos token.Pos
	allInstrs(pd, func(in ssa.Instruction) {
		mi, ok := in.(*ssa.MakeInterface)
		if !ok || namedKey(mi.X.Type()) != cds {
			return
		}
		nMI++
		pos = mi.Pos()
		call, ok := mi.X.(*ssa.Call)
		if !ok || staticCallee(call) != every {
			bad = "parseDescriptor builds a ConstantDelaySchedule without going through Every: '@every 500ms' (or 1.5s) keeps a delay below one second / with a sub-second part instead of being rounded to whole seconds, at least one"
			return
		}
		src := call.Call.Args[0]
		if ex, ok := src.(*ssa.Extract); ok {
			src = ex.Tuple
		}
		if c, ok := src.(*ssa.Call); !ok || !callIs(c, "time", "", "ParseDuration") {
			r.Note("parseDescriptor: the argument of Every is not directly the result of time.ParseDuration")
		}
	})
	if nMI == 0 {
		r.Violation(rule, "cron.parseDescriptor @every", p.Pos(pd.Pos()), "parseDescriptor no longer returns a ConstantDelaySchedule: '@every d' is not supported although documented")
	} else {
		r.Check(bad == "", rule, "cron.parseDescriptor @every", p.Pos(pos), "'@every d' = Every(d)", bad)
	}
	// ConstantDelaySchedule.Next: result = t.Add(x) with x depending on t.Nanosecond(), or on a Truncate'd receiver
	nx := p.Func("cron", "ConstantDelaySchedule.Next")
	construct := "cron.ConstantDelaySchedule.Next truncation"
	verdict, msg := "undecided", "the returned value is not a time.Time.Add call"
	for _, b := range nx.Blocks {
		if len(b.Instrs) == 0 {
			continue
		}
		ret, ok := b.Instrs[len(b.Instrs)-1].(*ssa.Return)
		if !ok || len(ret.Results) != 1 {
			continue
		}
		n, call, ok := c04TimeCall(ret.Results[0])
		if !ok || n != "Add" {
			continue
		}
		recv, d := call.Call.Args[0], call.Call.Args[1]
		delayField := FieldID{cds, "Delay"}
		lin, okLin := c04Linear(d, func(v ssa.Value) (string, bool) {
			if n, c, ok := c04TimeCall(v); ok && n == "Nanosecond" && c.Call.Args[0] == recv {
				return "n", true
			}
			if id, _, ok := fieldOfValue(v); ok && id == delayField {
				if _, isLoad := v.(*ssa.UnOp); isLoad {
					return "D", true
				}
			}
			if f, ok := v.(*ssa.Field); ok && fieldIDOfField(f) == delayField {
				return "D", true
			}
			return "", false
		})
		_, recvIsParam := recv.(*ssa.Parameter)
		switch {
		case okLin && recvIsParam && lin.coef["n"] == -1 && lin.coef["D"] == 1 && lin.k == 0:
			verdict, msg = "ok", "t.Add(Delay - t.Nanosecond()) = t truncated to the second plus Delay"
		case okLin && recvIsParam && lin.coef["n"] == 0:
			verdict, msg = "bad", "ConstantDelaySchedule.Next adds a duration that does not depend on t.Nanosecond() to the untruncated t: the sub-second part of t is kept, so '@every d' does not yield t truncated to the second plus d"
		case okLin && recvIsParam:
			verdict, msg = "bad", fmt.Sprintf("ConstantDelaySchedule.Next returns t + %d*Delay + %d*t.Nanosecond() + %dns, not t truncated to the second plus Delay", lin.coef["D"], lin.coef["n"], lin.k)
		case c04DependsOnNanosecond(d):
			verdict, msg = "ok", "t.Add(delay - f(t.Nanosecond()))"
		default:
			if rn, rc, ok := c04TimeCall(recv); ok && rn == "Truncate" {
				if k, ok := c04ConstInt(rc.Call.Args[1]); ok && k == 1e9 {
					if okLin && lin.coef["D"] == 1 && lin.k == 0 && lin.coef["n"] == 0 {
						verdict, msg = "ok", "t.Truncate(second).Add(Delay)"
					}
					break
				}
			}
			if recvIsParam {
				verdict, msg = "bad", "ConstantDelaySchedule.Next adds a duration that does not depend on t.Nanosecond() to the untruncated t: the sub-second part of t is kept, so '@every d' does not yield t truncated to the second plus d"
			}
		}
	}
	switch verdict {
	case "ok":
		r.OK(rule, construct, p.Pos(nx.Pos()), msg)
	case "bad":
		r.Violation(rule, construct, p.Pos(nx.Pos()), msg)
	default:
		r.Undecide("ConstantDelaySchedule.Next: %s", msg)
	}
}

// checkEveryDelay: the Delay stored by Every is at least one second.
func (st *c04State) checkEveryDelay() {
	p, r := st.p, st.r
	rule := "C04.D2-every"
	every := p.Func("cron", "Every")
	construct := "cron.Every delay >= 1s"
	delayField := FieldID{st.pkgPath + ".ConstantDelaySchedule", "Delay"}
	var stores []*ssa.Store
	allInstrs(every, func(in ssa.Instruction) {
		if s, ok := in.(*ssa.Store); ok {
			if fa, ok := s.Addr.(*ssa.FieldAddr); ok && fieldIDOfAddr(fa) == delayField {
				stores = append(stores, s)
			}
		}
	})
	if len(stores) == 0 {
		r.Undecide("Every: no store to ConstantDelaySchedule.Delay found")
		return
	}
	pv := &c04Prover{fn: every}
	sec := func(t types.Type) ssa.Value { return ssa.NewConst(constant.MakeInt64(1e9), t) }
	// tri-state: 1 proved, 0 refuted-by-shape (a value that can be below 1s flows in), -1 unknown
	var ge func(v ssa.Value, conds []DomCond, depth int) int
	ge = func(v ssa.Value, conds []DomCond, depth int) int {
		if depth > 6 {
			return -1
		}
		if pv.holds(token.GEQ, v, sec(v.Type()), conds, 0) {
			return 1
		}
		switch x := v.(type) {
		case *ssa.Parameter:
			return 0 // an arbitrary caller-supplied duration with no dominating lower bound
		case *ssa.Const:
			return 0
		case *ssa.Phi:
			res := 1
			for i, e := range x.Edges {
				switch ge(e, c04CondsOnEdge(x.Block().Preds[i], x.Block()), depth+1) {
				case 0:
					return 0
				case -1:
					res = -1
				}
			}
			return res
		case *ssa.BinOp:
			// floor forms: x - x%S, x/S*S with S | 1s: >= 1s iff x >= 1s
			sameAs := func(a, b ssa.Value) bool {
				a = c04Strip(a)
				if a == b {
					return true
				}
				if c, ok := a.(*ssa.Call); ok && len(c.Call.Args) == 1 && c.Call.Args[0] == b {
					if obj := calleeObj(c); obj != nil && obj.Pkg() != nil && obj.Pkg().Path() == "time" && obj.Name() == "Nanoseconds" {
						return true
					}
				}
				return false
			}
			divides := func(k ssa.Value) bool {
				c, ok := c04ConstInt(k)
				return ok && c > 0 && int64(1e9)%c == 0
			}
			if x.Op == token.SUB {
				if rem, ok := c04Strip(x.Y).(*ssa.BinOp); ok && rem.Op == token.REM && divides(rem.Y) && sameAs(rem.X, x.X) {
					return ge(x.X, conds, depth+1)
				}
			}
			if x.Op == token.MUL {
				if q, ok := c04Strip(x.X).(*ssa.BinOp); ok && q.Op == token.QUO && divides(q.Y) && divides(x.Y) {
					a, _ := c04ConstInt(q.Y)
					b, _ := c04ConstInt(x.Y)
					if a == b {
						return ge(q.X, conds, depth+1)
					}
				}
			}
		case *ssa.Call:
			if obj := calleeObj(x); obj != nil && obj.Pkg() != nil && obj.Pkg().Path() == "time" && obj.Name() == "Truncate" && len(x.Call.Args) == 2 {
				if k, ok := c04ConstInt(x.Call.Args[1]); ok && k > 0 && int64(1e9)%k == 0 {
					return ge(x.Call.Args[0], conds, depth+1)
				}
			}
		}
		return -1
	}
	worst := 1
	var pos token.Pos
	for _, s := range stores {
		pos = s.Pos()
		switch ge(s.Val, domConds(s.Block()), 0) {
		case 0:
			worst = 0
		case -1:
			if worst == 1 {
				worst = -1
			}
		}
	}
	switch worst {
	case 1:
		r.OK(rule, construct, p.Pos(pos), "the stored Delay is at least one second on every path")
	case 0:
		r.Violation(rule, construct, p.Pos(pos), "Every can store a Delay below one second (a caller-supplied duration reaches ConstantDelaySchedule.Delay without a dominating >= 1s bound): '@every 500ms' yields a zero delay, so Next(t) is not after t / not 'at least one second'")
	default:
		r.Undecide("Every: the expression stored into Delay is not one of the recognised forms (x - x%%S, x/S*S, Truncate, clamp by comparison)")
	}
}

// ---------------------------------------------------------------------------
// fixture driver: the generic rules on kitcheck/fixtures/c04

func c04FixtureRules(fp *Prog, fr *Report) {
	var fns []*ssa.Function
	for _, fn := range fp.Funcs {
		if fn.Name() == "init" {
			continue
		}
		fns = append(fns, fn)
	}
	var efns []*ssa.Function
	for _, fn := range fns {
		root := fn
		for root.Parent() != nil {
			root = root.Parent()
		}
		if strings.Contains(strings.ToLower(root.Name()), "err") {
			efns = append(efns, fn)
		}
	}
	c04Errflow(fp, fr, "errflow", efns)
	sink := fp.FuncOpt("", "bits")
	if sink == nil {
		undecided("fixture c04: sink bits not found")
	}
	for _, fn := range fns {
		var bpar *ssa.Parameter
		for _, par := range fn.Params {
			if strings.HasSuffix(namedKey(par.Type()), ".bnd") {
				bpar = par
			}
		}
		ord := 0
		allInstrs(fn, func(in ssa.Instruction) {
			if c, ok := in.(*ssa.Call); ok && staticCallee(c) == sink && fn != sink {
				ord++
				c04RangeFacts(fp, fr, "range", fn, c, ord, bpar, "lo", "hi")
				if strings.Contains(fn.Name(), "NStep") {
					c04NStepRule(fp, fr, "nstep", fn, c, ord, bpar, "lo", "hi")
				}
			}
		})
	}
}
