package main

// C04: refusal rules — error discipline (E7) and dominating range facts (E2)
// for the cron parser layer. The rule bodies are generic (function lists and
// sinks are parameters) so that the fixture package exercises the same code.

import (
	"fmt"
	"go/constant"
	"go/token"
	"go/types"
	"strings"

	"golang.org/x/tools/go/ssa"
)

var c04ErrorType = types.Universe.Lookup("error").Type()

func c04IsError(t types.Type) bool { return types.Identical(t, c04ErrorType) }

// c04Reach: instruction a can be followed (on some path) by instruction b.
func c04Reach(a, b ssa.Instruction) bool {
	if a.Block() == b.Block() && instrIndex(a) < instrIndex(b) {
		return true
	}
	for _, s := range a.Block().Succs {
		if reachableFrom(s, nil)[b.Block()] {
			return true
		}
	}
	return false
}

func c04CalleeName(c ssa.CallInstruction) string {
	if obj := calleeObj(c); obj != nil {
		if obj.Pkg() != nil && obj.Type().(*types.Signature).Recv() == nil {
			return obj.Pkg().Name() + "." + obj.Name()
		}
		return obj.Name()
	}
	if f := staticCallee(c); f != nil {
		return f.Name()
	}
	if b := builtinName(c); b != "" {
		return b
	}
	return "dynamic"
}

// errResultIndex: index of the last result of fn if it is an error, else -1.
func c04ErrResult(fn *ssa.Function) int {
	res := fn.Signature.Results()
	if res.Len() == 0 || !c04IsError(res.At(res.Len()-1).Type()) {
		return -1
	}
	return res.Len() - 1
}

// c04Errflow: every call in fns whose last result is an error must have that
// error honoured: returned, or nil-tested with every return on the non-nil
// branch carrying a non-nil error, or parked in an error cell that the owner
// checks before every success return (first error wins).
func c04Errflow(p *Prog, r *Report, rule string, fns []*ssa.Function) {
	for _, fn := range fns {
		ord := map[string]int{}
		fname := FuncName(p, fn)
		for _, b := range fn.Blocks {
			for _, in := range b.Instrs {
				call, ok := in.(*ssa.Call)
				if !ok {
					// go/defer of an error-returning function in this layer: never expected
					continue
				}
				sig := call.Call.Signature()
				n := sig.Results().Len()
				if n == 0 || !c04IsError(sig.Results().At(n-1).Type()) {
					continue
				}
				name := c04CalleeName(call)
				ord[name]++
				construct := fmt.Sprintf("%s call %s#%d", fname, name, ord[name])
				pos := p.Pos(instrPos(call))
				ev := callResult(call, n-1)
				if ev == nil || len(c04RealRefs(ev)) == 0 {
					r.Violation(rule, construct, pos, "the error returned by "+name+" is discarded: an expression that "+name+" rejects is accepted and given a meaning")
					continue
				}
				verdict, msg := c04ErrHonoured(p, fn, call, ev)
				switch verdict {
				case "ok":
					r.OK(rule, construct, pos, msg)
				case "bad":
					r.Violation(rule, construct, pos, msg)
				default:
					r.Undecide("%s: %s", construct, msg)
				}
			}
		}
	}
}

func c04RealRefs(v ssa.Value) []ssa.Instruction {
	var out []ssa.Instruction
	for _, x := range refs(v) {
		if _, ok := x.(*ssa.DebugRef); ok {
			continue
		}
		out = append(out, x)
	}
	return out
}

// c04ReachableWithError: the blocks reachable from `from` (entered with ev != nil), not following the
// "is nil" side of a test of a variable that holds ev on every way it can be reached from there (the
// error was copied into a local first-error variable and control left the loop: `failure = err; break`
// ... `if failure != nil`).
func c04ReachableWithError(from *ssa.BasicBlock, ev ssa.Value) map[*ssa.BasicBlock]bool {
	all := reachableFrom(from, nil)
	holdsEv := func(v ssa.Value) bool {
		ph, ok := v.(*ssa.Phi)
		if !ok {
			return v == ev
		}
		some := false
		for i, pb := range ph.Block().Preds {
			if !all[pb] {
				continue
			}
			if ph.Edges[i] != ev {
				return false
			}
			some = true
		}
		return some
	}
	seen := map[*ssa.BasicBlock]bool{}
	var walk func(b *ssa.BasicBlock)
	walk = func(b *ssa.BasicBlock) {
		if seen[b] {
			return
		}
		seen[b] = true
		skip := -1
		if n := len(b.Instrs); n > 0 {
			if ifi, ok := b.Instrs[n-1].(*ssa.If); ok {
				if bo, ok := ifi.Cond.(*ssa.BinOp); ok && (bo.Op == token.EQL || bo.Op == token.NEQ) {
					var x ssa.Value
					if isNilConst(bo.Y) {
						x = bo.X
					} else if isNilConst(bo.X) {
						x = bo.Y
					}
					if x != nil && x != ev && holdsEv(x) && b != from {
						skip = 0 // the `== nil` outcome cannot happen
						if bo.Op == token.NEQ {
							skip = 1
						}
					}
				}
			}
		}
		for i, s := range b.Succs {
			if i != skip {
				walk(s)
			}
		}
	}
	walk(from)
	return seen
}

func c04ErrHonoured(p *Prog, fn *ssa.Function, call *ssa.Call, ev ssa.Value) (string, string) {
	errIdx := c04ErrResult(fn)
	name := c04CalleeName(call)
	returned, tested, wrapped := false, false, false
	var badMsg string
	var cells []*ssa.Store
	for _, ref := range c04RealRefs(ev) {
		switch x := ref.(type) {
		case *ssa.Return:
			for _, res := range x.Results {
				if res == ev {
					returned = true
				}
			}
		case *ssa.Store:
			if x.Val == ev {
				cells = append(cells, x)
			}
		case *ssa.BinOp:
			if (x.Op != token.EQL && x.Op != token.NEQ) || !(isNilConst(x.X) || isNilConst(x.Y)) {
				continue
			}
			for _, u := range refs(x) {
				ifi, ok := u.(*ssa.If)
				if !ok {
					continue
				}
				nonNil := ifi.Block().Succs[0]
				if x.Op == token.EQL {
					nonNil = ifi.Block().Succs[1]
				}
				tested = true
				if errIdx < 0 {
					badMsg = "the error of " + name + " is tested but " + fn.Name() + " has no error result to report it through"
					continue
				}
				for blk := range c04ReachableWithError(nonNil, ev) {
					if len(blk.Instrs) == 0 {
						continue
					}
					ret, ok := blk.Instrs[len(blk.Instrs)-1].(*ssa.Return)
					if !ok {
						continue
					}
					if isNilConst(ret.Results[errIdx]) {
						badMsg = "after " + name + " failed, control reaches a return with a nil error (" + p.Pos(ret.Pos()) + "): the failure is swallowed and the expression is accepted"
					}
				}
			}
		case *ssa.ChangeInterface, *ssa.MakeInterface:
			wrapped = true
		case *ssa.Call:
			wrapped = true
		case *ssa.Phi:
			// merged with other error values and returned
			seen := map[*ssa.Phi]bool{}
			var walk func(ph *ssa.Phi)
			walk = func(ph *ssa.Phi) {
				if seen[ph] {
					return
				}
				seen[ph] = true
				for _, u := range refs(ph) {
					switch y := u.(type) {
					case *ssa.Return:
						returned = true
					case *ssa.Phi:
						walk(y)
					}
				}
			}
			walk(x)
		}
	}
	if badMsg != "" && !(len(cells) > 0 && errIdx < 0) {
		return "bad", badMsg
	}
	if len(cells) > 0 {
		for _, s := range cells {
			v, m := c04CellDiscipline(p, fn, s, name)
			if v != "ok" {
				return v, m
			}
		}
		return "ok", "parked in the first-error cell, which the owner checks before succeeding"
	}
	if returned {
		return "ok", "returned to the caller"
	}
	if tested {
		return "ok", "tested; every return on the failure branch carries a non-nil error"
	}
	if wrapped {
		return "undecided", "the error of " + name + " is only passed on to another call, never tested or returned directly"
	}
	return "undecided", "the error of " + name + " is used in a way the rule does not classify"
}

// c04CellDiscipline checks an error kept in a shared local variable (a
// captured variable written by a closure, a variable whose address is handed
// to a helper, a named result): with a forward must-analysis "the variable is
// nil" over the owner function it requires (i) that a store which may write nil
// never happens while an earlier error may still be pending (first error wins),
// and (ii) that no `return ..., nil` is reached while an error may be pending.
func c04CellDiscipline(p *Prog, g *ssa.Function, store *ssa.Store, name string) (string, string) {
	// The cell: a local error variable (Alloc), or an error-typed field of a local
	// struct (the state a closure-turned-method keeps in its receiver). It is seen
	// through "views": the Alloc / its FieldAddrs in the owner, a FreeVar in a
	// closure, a pointer parameter (or FieldAddrs of it) in a callee.
	var base *ssa.Alloc // the local variable (error or struct)
	field := -1         // >= 0: the cell is field #field of the struct in base
	owner := g
	addr := store.Addr
	if fa, ok := addr.(*ssa.FieldAddr); ok {
		field = fa.Field
		addr = fa.X
	}
	// resolve addr (in g) to a local variable of an enclosing/calling function
	findCallers := func(par *ssa.Parameter) (*ssa.Alloc, *ssa.Function) {
		var al *ssa.Alloc
		var own *ssa.Function
		okAll := true
		idx := c04ParamIndex(g, par)
		for _, f := range p.Funcs {
			allInstrs(f, func(in ssa.Instruction) {
				c, ok := in.(*ssa.Call)
				if !ok || staticCallee(c) != g || idx >= len(c.Call.Args) {
					return
				}
				if a2, ok := c.Call.Args[idx].(*ssa.Alloc); ok && (al == nil || al == a2) {
					al, own = a2, f
				} else {
					okAll = false
				}
			})
		}
		if !okAll {
			return nil, nil
		}
		return al, own
	}
	switch a := addr.(type) {
	case *ssa.Alloc:
		base = a
	case *ssa.FreeVar:
		var v ssa.Value = a
		f := g
		for i := 0; i < 4; i++ {
			fv, ok := v.(*ssa.FreeVar)
			if !ok {
				break
			}
			v = resolveFreeVar(fv)
			f = f.Parent()
		}
		if b, ok := v.(*ssa.Alloc); ok {
			base, owner = b, f
		}
	case *ssa.Parameter:
		base, owner = findCallers(a)
	}
	if base == nil || owner == nil {
		return "undecided", "the error of " + name + " is stored somewhere other than a local error variable (or an error field of a local struct)"
	}
	cellType := deref1(base.Type())
	if field >= 0 {
		stt, ok := cellType.Underlying().(*types.Struct)
		if !ok || field >= stt.NumFields() {
			return "undecided", "the error of " + name + " is stored in a field of a non-struct"
		}
		cellType = stt.Field(field).Type()
	}
	if !c04IsError(cellType) {
		return "undecided", "the error of " + name + " is stored somewhere other than a local error variable"
	}
	errIdx := c04ErrResult(owner)
	if errIdx < 0 {
		return "undecided", "the error variable lives in a function without an error result"
	}
	// address values denoting the cell, per function
	cellAddrs := map[*ssa.Function]map[ssa.Value]bool{}
	addAddr := func(f *ssa.Function, v ssa.Value) {
		if cellAddrs[f] == nil {
			cellAddrs[f] = map[ssa.Value]bool{}
		}
		cellAddrs[f][v] = true
	}
	// viewRefs: walk the uses of a view (the base seen from function f): returns whether f stores
	// into the cell and a reason if the view is used in a way that is not understood
	var viewRefs func(f *ssa.Function, view ssa.Value, depth int) (bool, string)
	storers := map[*ssa.Function]bool{}
	var events []ssa.Instruction // in owner: direct stores and calls of storers
	eventCallee := map[ssa.Instruction]*ssa.Function{}
	viewRefs = func(f *ssa.Function, view ssa.Value, depth int) (bool, string) {
		stores := false
		cellUse := func(av ssa.Value) string {
			addAddr(f, av)
			for _, r2 := range c04RealRefs(av) {
				switch y := r2.(type) {
				case *ssa.Store:
					if y.Addr != av {
						return "the address of the error variable is stored"
					}
					stores = true
					if f == owner {
						events = append(events, y)
					}
				case *ssa.UnOp:
				case *ssa.MakeClosure, *ssa.Call:
					if field >= 0 {
						return "the address of the error field is handed on"
					}
				default:
					return "the error variable is used in an unexpected way in " + f.Name()
				}
			}
			return ""
		}
		for _, ref := range c04RealRefs(view) {
			switch x := ref.(type) {
			case *ssa.FieldAddr:
				if field < 0 {
					return false, "the error variable is not a struct"
				}
				if x.X == view && x.Field == field {
					if why := cellUse(x); why != "" {
						return false, why
					}
				}
			case *ssa.Store:
				if field >= 0 {
					if x.Addr == view {
						continue // the struct is initialised as a whole (zero error)
					}
					return false, "the address of the struct holding the error is stored"
				}
			case *ssa.UnOp:
			case *ssa.MakeClosure:
				if depth > 3 {
					return false, "closure nesting"
				}
				cf := x.Fn.(*ssa.Function)
				for i, b := range x.Bindings {
					if b != view {
						continue
					}
					st, why := viewRefs(cf, cf.FreeVars[i], depth+1)
					if why != "" {
						return false, why
					}
					storers[cf] = st
					for _, mr := range c04RealRefs(x) {
						c, ok := mr.(*ssa.Call)
						if !ok || c.Call.Value != ssa.Value(x) {
							return false, "the closure writing the error variable is not only called directly"
						}
						if st && f == owner {
							events = append(events, c)
							eventCallee[c] = cf
						}
					}
					if st {
						stores = stores || f != owner
					}
				}
			case *ssa.Call:
				callee := staticCallee(x)
				passed := false
				for i, a := range x.Call.Args {
					if a != view {
						continue
					}
					passed = true
					if callee == nil || !p.InModule(callee) || len(callee.Blocks) == 0 || i >= len(callee.Params) || depth > 3 {
						return false, "the address of the error variable is handed to " + c04CalleeName(x)
					}
					st, why := viewRefs(callee, callee.Params[i], depth+1)
					if why != "" {
						return false, why
					}
					storers[callee] = st
					if st && f == owner {
						events = append(events, x)
						eventCallee[x] = callee
					}
				}
				_ = passed
			default:
				return false, "the error variable is used in an unexpected way"
			}
		}
		if field < 0 {
			// the view itself is the cell's address
			if why := cellUse(view); why != "" {
				return false, why
			}
		}
		return stores, ""
	}
	// cellUse over `view` double-counts FieldAddr/Call refs handled above for the plain-variable case: do the plain case separately
	if field < 0 {
		// plain local error variable: refs of the Alloc are stores/loads/closures/calls
		cellAddrs = map[*ssa.Function]map[ssa.Value]bool{}
		events = nil
		var plain func(f *ssa.Function, view ssa.Value, depth int) (bool, string)
		plain = func(f *ssa.Function, view ssa.Value, depth int) (bool, string) {
			addAddr(f, view)
			stores := false
			for _, ref := range c04RealRefs(view) {
				switch x := ref.(type) {
				case *ssa.Store:
					if x.Addr != view {
						return false, "the address of the error variable is stored"
					}
					stores = true
					if f == owner {
						events = append(events, x)
					}
				case *ssa.UnOp:
				case *ssa.MakeClosure:
					if depth > 3 {
						return false, "closure nesting"
					}
					cf := x.Fn.(*ssa.Function)
					for i, b := range x.Bindings {
						if b != view {
							continue
						}
						st, why := plain(cf, cf.FreeVars[i], depth+1)
						if why != "" {
							return false, why
						}
						storers[cf] = st
						for _, mr := range c04RealRefs(x) {
							c, ok := mr.(*ssa.Call)
							if !ok || c.Call.Value != ssa.Value(x) {
								if _, isDefer := mr.(*ssa.Defer); isDefer {
									return false, "the closure writing the error variable is deferred"
								}
								return false, "the closure writing the error variable is not only called directly"
							}
							if st && f == owner {
								events = append(events, c)
								eventCallee[c] = cf
							}
						}
					}
				case *ssa.Call:
					callee := staticCallee(x)
					for i, a := range x.Call.Args {
						if a != view {
							continue
						}
						if callee == nil || !p.InModule(callee) || len(callee.Blocks) == 0 || i >= len(callee.Params) || depth > 3 {
							return false, "the address of the error variable is handed to " + c04CalleeName(x)
						}
						st, why := plain(callee, callee.Params[i], depth+1)
						if why != "" {
							return false, why
						}
						storers[callee] = st
						if st && f == owner {
							events = append(events, x)
							eventCallee[x] = callee
						}
					}
				default:
					return false, "the error variable is used in an unexpected way"
				}
			}
			return stores, ""
		}
		if _, why := plain(owner, base, 0); why != "" {
			return "undecided", why
		}
	} else {
		if _, why := viewRefs(owner, base, 0); why != "" {
			return "undecided", why
		}
	}
	views := cellAddrs
	isEvent := map[ssa.Instruction]bool{}
	for _, e := range events {
		isEvent[e] = true
	}
	isLoadOfCell := func(v ssa.Value) bool {
		u, ok := v.(*ssa.UnOp)
		return ok && u.Op == token.MUL && views[owner][u.X]
	}
	// must-analysis: "the cell is nil"
	step := func(in ssa.Instruction, nilNow bool) bool {
		if !isEvent[in] {
			return nilNow
		}
		if s, ok := in.(*ssa.Store); ok {
			return isNilConst(s.Val)
		}
		return false
	}
	_ = storers
	edge := func(b *ssa.BasicBlock, si int, out bool) bool {
		n := len(b.Instrs)
		if n == 0 {
			return out
		}
		ifi, ok := b.Instrs[n-1].(*ssa.If)
		if !ok || b.Succs[0] == b.Succs[1] {
			return out
		}
		cmp, ok := decodeCond(ifi.Cond, si == 0)
		if !ok || (cmp.Op != token.EQL && cmp.Op != token.NEQ) {
			return out
		}
		var ld ssa.Value
		switch {
		case isLoadOfCell(cmp.X) && isNilConst(cmp.Y):
			ld = cmp.X
		case isLoadOfCell(cmp.Y) && isNilConst(cmp.X):
			ld = cmp.Y
		default:
			return out
		}
		// the load must see the current content: same block, no event after it
		li := ld.(ssa.Instruction)
		if li.Block() != b {
			return out
		}
		for _, in := range b.Instrs[instrIndex(li):] {
			if isEvent[in] {
				return out
			}
		}
		return cmp.Op == token.EQL
	}
	nilIn := map[*ssa.BasicBlock]bool{}
	for _, b := range owner.Blocks {
		nilIn[b] = true
	}
	for changed, rounds := true, 0; changed && rounds < 100; rounds++ {
		changed = false
		for _, b := range owner.Blocks {
			if b.Index != 0 && len(b.Preds) == 0 {
				continue
			}
			in := true
			if b.Index != 0 {
				for _, pb := range b.Preds {
					out := nilIn[pb]
					for _, ins := range pb.Instrs {
						out = step(ins, out)
					}
					for si, sb := range pb.Succs {
						if sb == b {
							if !edge(pb, si, out) {
								in = false
							}
						}
					}
				}
			}
			if in != nilIn[b] {
				nilIn[b] = in
				changed = true
			}
		}
	}
	nilBefore := func(at ssa.Instruction) bool {
		cur := nilIn[at.Block()]
		for _, ins := range at.Block().Instrs {
			if ins == at {
				break
			}
			cur = step(ins, cur)
		}
		return cur
	}
	// the sites (in owner) at which this store happens
	var mySites []ssa.Instruction
	if g == owner {
		mySites = []ssa.Instruction{store}
	} else {
		for _, e := range events {
			if eventCallee[e] == g {
				mySites = append(mySites, e)
			}
		}
		if len(mySites) == 0 {
			return "undecided", g.Name() + ", which stores the error, is never called directly by " + owner.Name()
		}
	}
	// (i) first error wins
	storedNonNil := errKnownNonNil(store.Block(), store.Val)
	if c, ok := store.Val.(*ssa.Call); ok && (callIs(c, "fmt", "", "Errorf") || callIs(c, "errors", "", "New")) {
		storedNonNil = true // a freshly made error is never nil: it replaces an error by an error
	}
	guarded := false
	if view := views[g]; g != owner && view != nil {
		for _, dc := range c04DomConds(store.Block()) {
			cmp, ok := decodeCond(dc.If.Cond, dc.Branch)
			if !ok || cmp.Op != token.EQL {
				continue
			}
			for _, pr := range [][2]ssa.Value{{cmp.X, cmp.Y}, {cmp.Y, cmp.X}} {
				if u, ok := pr[0].(*ssa.UnOp); ok && u.Op == token.MUL && view[u.X] && isNilConst(pr[1]) {
					guarded = true
				}
			}
		}
	}
	if !storedNonNil && !guarded {
		for _, s := range mySites {
			if !nilBefore(s) {
				return "bad", "the error of " + name + " overwrites the shared error variable while an earlier error may still be pending (the variable is not known to be nil at that point and the store is not guarded by a nil test): a later successful step resets an earlier failure to nil and the malformed expression is accepted"
			}
		}
	}
	// (ii) no success return while an error may be pending
	for _, b := range owner.Blocks {
		if len(b.Instrs) == 0 {
			continue
		}
		ret, ok := b.Instrs[len(b.Instrs)-1].(*ssa.Return)
		if !ok {
			continue
		}
		reached := false
		for _, s := range mySites {
			if c04Reach(s, ret) {
				reached = true
			}
		}
		if !reached || !isNilConst(ret.Results[errIdx]) {
			continue
		}
		if !nilBefore(ret) {
			return "bad", owner.Name() + " can return success (" + p.Pos(ret.Pos()) + ") after " + name + " parked its error in the shared error variable, without testing that variable after the last step that may set it: the malformed expression is accepted"
		}
	}
	return "ok", ""
}

// ---------------------------------------------------------------------------
// prover for dominating comparison facts

type c04Prover struct {
	fn *ssa.Function
	// MinF/MaxF: field names of a bounds-like struct parameter for which
	// param.MinF <= param.MaxF is a table invariant ("" = no such axiom).
	MinF, MaxF string
	// InModule: callees whose bodies may be consulted as validation helpers.
	InModule func(*ssa.Function) bool
	// Opaque: a dominating guard call that could not be consulted (set by viaHelper).
	Opaque string
}

// leAxiom: kx <= ky is known from the table invariant min <= max of one parameter.
func (pv *c04Prover) leAxiom(kx, ky string) bool {
	if pv.MinF == "" || !strings.HasPrefix(kx, "param:") || !strings.HasPrefix(ky, "param:") {
		return false
	}
	nx, okx := strings.CutSuffix(kx, "."+pv.MinF)
	ny, oky := strings.CutSuffix(ky, "."+pv.MaxF)
	return okx && oky && nx == ny
}

// paramCopyLoad: v is the whole-struct load of the addressable copy of a parameter (or the parameter).
func c04WholeParam(v ssa.Value) *ssa.Parameter {
	switch x := v.(type) {
	case *ssa.Parameter:
		return x
	case *ssa.UnOp:
		if a, ok := x.X.(*ssa.Alloc); ok && x.Op == token.MUL {
			return c04ParamOfAlloc(a)
		}
	}
	return nil
}

// viaHelper: a dominating `h(args) == nil` (error result) where every nil
// return of the module function h establishes `x op y` for the arguments.
func (pv *c04Prover) viaHelper(op token.Token, x, y ssa.Value, conds []DomCond, depth int) bool {
	if pv.InModule == nil {
		return false
	}
	for _, dc := range conds {
		cmp, ok := decodeCond(dc.If.Cond, dc.Branch)
		if !ok || cmp.Op != token.EQL {
			continue
		}
		res := cmp.X
		if isNilConst(res) {
			res = cmp.Y
		} else if !isNilConst(cmp.Y) {
			continue
		}
		if ex, ok := res.(*ssa.Extract); ok {
			res = ex.Tuple
		}
		call, ok := res.(*ssa.Call)
		if !ok {
			continue
		}
		h := staticCallee(call)
		if h == nil || !pv.InModule(h) || h == pv.fn {
			continue
		}
		if len(h.Blocks) == 0 || c04ErrResult(h) < 0 {
			pv.Opaque = h.Name()
			continue
		}
		hp := &c04Prover{fn: h, MinF: pv.MinF, MaxF: pv.MaxF, InModule: pv.InModule}
		mapVal := func(v ssa.Value) ssa.Value {
			if k, ok := v.(*ssa.Const); ok {
				return k
			}
			for i, a := range call.Call.Args {
				if a == v && i < len(h.Params) {
					return h.Params[i]
				}
			}
			k := pv.key(v)
			if strings.HasPrefix(k, "param:") {
				dot := strings.LastIndex(k, ".")
				pname, fname := k[len("param:"):dot], k[dot+1:]
				for i, a := range call.Call.Args {
					if wp := c04WholeParam(a); wp != nil && wp.Name() == pname && i < len(h.Params) {
						want := "param:" + h.Params[i].Name() + "." + fname
						var rep ssa.Value
						allInstrs(h, func(in ssa.Instruction) {
							if vv, ok := in.(ssa.Value); ok && rep == nil && hp.key(vv) == want {
								rep = vv
							}
						})
						return rep
					}
				}
			}
			return nil
		}
		hx, hy := mapVal(x), mapVal(y)
		if hx == nil || hy == nil {
			// a guard that receives one of the (non-constant) values but cannot be consulted for the other is opaque;
			// a guard that receives neither is irrelevant
			passed := func(v, hv ssa.Value) bool {
				_, isK := v.(*ssa.Const)
				return hv != nil && !isK
			}
			if passed(x, hx) || passed(y, hy) {
				pv.Opaque = h.Name()
			}
			continue
		}
		errIdx := c04ErrResult(h)
		nRet, all := 0, true
		for _, b := range h.Blocks {
			if len(b.Instrs) == 0 {
				continue
			}
			ret, ok := b.Instrs[len(b.Instrs)-1].(*ssa.Return)
			if !ok || !isNilConst(ret.Results[errIdx]) {
				continue
			}
			nRet++
			if !hp.holds(op, hx, hy, c04DomConds(b), depth+1) {
				all = false
			}
		}
		if nRet > 0 && all {
			return true
		}
	}
	return false
}

// paramCopy: A is the addressable copy of a parameter (`*A = param` and only field reads).
func c04ParamOfAlloc(a *ssa.Alloc) *ssa.Parameter {
	var par *ssa.Parameter
	for _, ref := range c04RealRefs(a) {
		switch x := ref.(type) {
		case *ssa.Store:
			p, ok := x.Val.(*ssa.Parameter)
			if !ok || x.Addr != ssa.Value(a) || par != nil {
				return nil
			}
			par = p
		case *ssa.FieldAddr:
			if !c04OnlyLoaded(x, 0) {
				return nil
			}
		case *ssa.UnOp:
		default:
			return nil
		}
	}
	return par
}

// c04OnlyLoaded: the field address (and the addresses of its sub-fields) is only read.
func c04OnlyLoaded(fa *ssa.FieldAddr, depth int) bool {
	for _, fr := range c04RealRefs(fa) {
		switch y := fr.(type) {
		case *ssa.UnOp:
			if y.Op != token.MUL {
				return false
			}
		case *ssa.FieldAddr:
			if depth > 4 || !c04OnlyLoaded(y, depth+1) {
				return false
			}
		default:
			return false
		}
	}
	return true
}

// c04AddrPath: a chain of field addresses x.a.b.c down to its base, with the dotted field path.
func c04AddrPath(fa *ssa.FieldAddr) (ssa.Value, string) {
	path := fieldIDOfAddr(fa).Field
	base := fa.X
	for i := 0; i < 6; i++ {
		in, ok := base.(*ssa.FieldAddr)
		if !ok {
			break
		}
		path = fieldIDOfAddr(in).Field + "." + path
		base = in.X
	}
	return base, path
}

// c04Virt stands for a value the function never materialises (a field of a
// struct parameter that is only handed on to a helper). Only its key is used.
type c04Virt struct {
	ssa.Value
	k string
}

// key: canonical identity of a value for fact matching.
func (pv *c04Prover) key(v ssa.Value) string {
	switch x := v.(type) {
	case *c04Virt:
		return x.k
	case *ssa.Const:
		if x.Value != nil && x.Value.Kind() == constant.Int {
			return "const:" + x.Value.ExactString()
		}
	case *ssa.UnOp:
		if x.Op == token.MUL {
			if fa, ok := x.X.(*ssa.FieldAddr); ok {
				base, path := c04AddrPath(fa)
				if g, ok := base.(*ssa.Global); ok {
					// a field of a package-level table (the tables are constants of the program)
					return "param:@" + g.Name() + "." + path
				}
				if a, ok := base.(*ssa.Alloc); ok {
					if par := c04ParamOfAlloc(a); par != nil {
						return "param:" + par.Name() + "." + path
					}
					// a field of a local struct variable (callers check that it is not rewritten in between)
					return fmt.Sprintf("local:%p.%s", a, path)
				}
			}
		}
	case *ssa.Field:
		path := fieldIDOfField(x).Field
		base := x.X
		for i := 0; i < 6; i++ {
			in, ok := base.(*ssa.Field)
			if !ok {
				break
			}
			path = fieldIDOfField(in).Field + "." + path
			base = in.X
		}
		if par, ok := base.(*ssa.Parameter); ok {
			return "param:" + par.Name() + "." + path
		}
	}
	return fmt.Sprintf("val:%p", v)
}

func c04ConstOf(v ssa.Value) (int64, bool) {
	return c04ConstInt(v)
}

func c04FlipOp(op token.Token) token.Token {
	switch op {
	case token.LSS:
		return token.GTR
	case token.GTR:
		return token.LSS
	case token.LEQ:
		return token.GEQ
	case token.GEQ:
		return token.LEQ
	}
	return op
}

func c04Implies(have, want token.Token) bool {
	if have == want {
		return true
	}
	switch have {
	case token.GTR:
		return want == token.GEQ || want == token.NEQ
	case token.LSS:
		return want == token.LEQ || want == token.NEQ
	case token.EQL:
		return want == token.GEQ || want == token.LEQ
	}
	return false
}

func c04EvalRel(op token.Token, a, b int64) bool {
	switch op {
	case token.EQL:
		return a == b
	case token.NEQ:
		return a != b
	case token.LSS:
		return a < b
	case token.LEQ:
		return a <= b
	case token.GTR:
		return a > b
	case token.GEQ:
		return a >= b
	}
	return false
}

func c04IsUnsigned(t types.Type) bool {
	b, ok := t.Underlying().(*types.Basic)
	return ok && b.Info()&types.IsUnsigned != 0
}

// condsOnEdge: facts known when control passes from pred to succ.
func c04CondsOnEdge(pred, succ *ssa.BasicBlock) []DomCond {
	return c04ExpandConds(c04CondsOnEdgeRaw(pred, succ))
}

func c04CondsOnEdgeRaw(pred, succ *ssa.BasicBlock) []DomCond {
	out := domConds(pred)
	if n := len(pred.Instrs); n > 0 {
		if ifi, ok := pred.Instrs[n-1].(*ssa.If); ok && pred.Succs[0] != pred.Succs[1] {
			if pred.Succs[0] == succ {
				out = append(out, DomCond{ifi, true})
			} else if pred.Succs[1] == succ {
				out = append(out, DomCond{ifi, false})
			}
		}
	}
	return out
}

// holds: `x op y` is implied by the facts `conds` (and recursively, for phis, on every incoming edge).
func (pv *c04Prover) holds(op token.Token, x, y ssa.Value, conds []DomCond, depth int) bool {
	if depth > 6 {
		return false
	}
	kx, ky := pv.key(x), pv.key(y)
	if kx == ky && (op == token.GEQ || op == token.LEQ || op == token.EQL) {
		return true
	}
	cx, okx := c04ConstOf(x)
	cy, oky := c04ConstOf(y)
	if okx && oky {
		return c04EvalRel(op, cx, cy)
	}
	if (op == token.LEQ && pv.leAxiom(kx, ky)) || (op == token.GEQ && pv.leAxiom(ky, kx)) {
		return true
	}
	if pv.viaHelper(op, x, y, conds, depth) {
		return true
	}
	// interval knowledge about x versus a constant y
	if oky {
		lb, ub := int64(-1<<62), int64(1<<62)
		neq := map[int64]bool{}
		if _, virt := x.(*c04Virt); !virt && c04IsUnsigned(x.Type()) {
			lb = 0
		}
		for _, dc := range conds {
			cmp, ok := decodeCond(dc.If.Cond, dc.Branch)
			if !ok {
				continue
			}
			a, b, o := cmp.X, cmp.Y, cmp.Op
			if pv.key(b) == kx {
				a, b, o = b, a, c04FlipOp(o)
			}
			if pv.key(a) != kx {
				continue
			}
			c, isC := c04ConstOf(b)
			if !isC {
				continue
			}
			switch o {
			case token.GTR:
				if c+1 > lb {
					lb = c + 1
				}
			case token.GEQ:
				if c > lb {
					lb = c
				}
			case token.LSS:
				if c-1 < ub {
					ub = c - 1
				}
			case token.LEQ:
				if c < ub {
					ub = c
				}
			case token.EQL:
				lb, ub = c, c
			case token.NEQ:
				neq[c] = true
			}
		}
		if neq[lb] {
			lb++
		}
		if neq[ub] {
			ub--
		}
		switch op {
		case token.NEQ:
			if neq[cy] || cy < lb || cy > ub {
				return true
			}
		case token.GEQ:
			if lb >= cy {
				return true
			}
		case token.GTR:
			if lb > cy {
				return true
			}
		case token.LEQ:
			if ub <= cy {
				return true
			}
		case token.LSS:
			if ub < cy {
				return true
			}
		case token.EQL:
			if lb == cy && ub == cy {
				return true
			}
		}
	}
	// direct relational facts
	for _, dc := range conds {
		cmp, ok := decodeCond(dc.If.Cond, dc.Branch)
		if !ok {
			continue
		}
		if pv.key(cmp.X) == kx && pv.key(cmp.Y) == ky && c04Implies(cmp.Op, op) {
			return true
		}
		if pv.key(cmp.X) == ky && pv.key(cmp.Y) == kx && c04Implies(c04FlipOp(cmp.Op), op) {
			return true
		}
	}
	// phi expansion (phis of one block are expanded together, edge by edge)
	phx, xIsPhi := x.(*ssa.Phi)
	phy, yIsPhi := y.(*ssa.Phi)
	if xIsPhi {
		all := true
		for i, e := range phx.Edges {
			yy := y
			if yIsPhi && phy.Block() == phx.Block() {
				yy = phy.Edges[i]
			}
			if e == ssa.Value(phx) && yy == y {
				continue
			}
			if !pv.holds(op, e, yy, c04CondsOnEdge(phx.Block().Preds[i], phx.Block()), depth+1) {
				all = false
				break
			}
		}
		if all {
			return true
		}
	}
	if yIsPhi && !(xIsPhi && phy.Block() == phx.Block()) {
		all := true
		for i, e := range phy.Edges {
			if e == ssa.Value(phy) {
				continue
			}
			if !pv.holds(op, x, e, c04CondsOnEdge(phy.Block().Preds[i], phy.Block()), depth+1) {
				all = false
				break
			}
		}
		if all {
			return true
		}
	}
	return false
}

// c04RangeFacts checks one call sink(start, end, step) inside fn. bpar is the
// bounds-typed parameter of fn (nil if none).
func c04RangeFacts(p *Prog, r *Report, rule string, fn *ssa.Function, call *ssa.Call, ordinal int, bpar *ssa.Parameter, minF, maxF string) {
	base := fmt.Sprintf("%s %s#%d", FuncName(p, fn), c04CalleeName(call), ordinal)
	if len(call.Call.Args) != 3 {
		r.Undecide("%s: the bit-set builder no longer takes (min, max, step)", base)
		return
	}
	c04RangeFactsAt(p, r, rule, fn, call, base, c04CalleeName(call), call.Call.Args[0], call.Call.Args[1], call.Call.Args[2], bpar, minF, maxF)
}

// c04RangeFactsAt: the four facts at site `at` of fn for the values a0, a1, a2
// (the builder's arguments, or the struct fields a helper will hand to it).
func c04RangeFactsAt(p *Prog, r *Report, rule string, fn *ssa.Function, at ssa.Instruction, base, sinkName string, a0, a1, a2 ssa.Value, bpar *ssa.Parameter, minF, maxF string) {
	pos := p.Pos(instrPos(at))
	for _, av := range []ssa.Value{a0, a1, a2} {
		if la, _, ok := c04LocalField(av); ok && !c04LocalStable(la, at) {
			r.Undecide("%s: the local struct holding the range is written again between its validation and the call", base)
			return
		}
	}
	pv := &c04Prover{fn: fn, InModule: c04InMod(p)}
	conds := c04DomConds(at.Block())
	zeroT := a2.Type
	_ = zeroT
	var zero ssa.Value
	if _, virt := a2.(*c04Virt); virt {
		zero = ssa.NewConst(constant.MakeInt64(0), types.Typ[types.Uint])
	} else {
		zero = ssa.NewConst(constant.MakeInt64(0), a2.Type())
	}
	type ob struct {
		what string
		ok   bool
		msg  string
	}
	var obs []ob
	// a call outside a function with a table parameter whose limits are read straight from one
	// package-level table: that table plays the parameter's part
	tableName := ""
	if bpar == nil {
		k0 := pv.key(a0)
		if strings.HasPrefix(k0, "param:@") && strings.HasSuffix(k0, "."+minF) {
			tableName = strings.TrimSuffix(strings.TrimPrefix(k0, "param:"), "."+minF)
		}
	}
	if bpar != nil || tableName != "" {
		pname := tableName
		if bpar != nil {
			pname = bpar.Name()
		}
		pv.MinF, pv.MaxF = minF, maxF
		// find representative values for r.min / r.max: any value in fn whose key is the param field
		var minV, maxV ssa.Value
		allInstrs(fn, func(in ssa.Instruction) {
			if v, ok := in.(ssa.Value); ok {
				switch pv.key(v) {
				case "param:" + pname + "." + minF:
					if minV == nil {
						minV = v
					}
				case "param:" + pname + "." + maxF:
					if maxV == nil {
						maxV = v
					}
				}
			}
		})
		if minV == nil {
			minV = &c04Virt{k: "param:" + pname + "." + minF}
		}
		if maxV == nil {
			maxV = &c04Virt{k: "param:" + pname + "." + maxF}
		}
		obs = append(obs,
			ob{"start >= min", pv.holds(token.GEQ, a0, minV, conds, 0), "a range may start below the minimum of the field (day-of-month 0, month 0): such expressions are accepted, with bits that never match or that mean something else, instead of being refused"},
			ob{"end <= max", pv.holds(token.LEQ, a1, maxV, conds, 0), "a range may end above the maximum of the field (minute 60, hour 24, month 13 ...): such expressions are accepted — the extra bits never match, or collide with the star bit — instead of being refused"})
	} else {
		c0, ok0 := c04ConstOf(a0)
		c1, ok1 := c04ConstOf(a1)
		if !ok0 || !ok1 {
			r.Undecide("%s: called outside a function with a bounds parameter with non-constant limits", base)
			return
		}
		obs = append(obs, ob{"start >= min", c0 >= 0, "negative start"}, ob{"end <= max", c1 < 63, "constant end collides with the star bit"})
	}
	obs = append(obs,
		ob{"start <= end", pv.holds(token.LEQ, a0, a1, conds, 0), "an inverted range (e.g. 5-2) reaches the bit-set builder: it is accepted as an empty or wrapped set instead of being refused"},
		ob{"step != 0", pv.holds(token.NEQ, a2, zero, conds, 0), "a zero step (e.g. */0) reaches the bit-set builder: the expression is accepted (and the builder loops forever) instead of being refused"})
	helper := pv.Opaque
	for _, o := range obs {
		construct := base + ": " + o.what
		switch {
		case o.ok:
			r.OK(rule, construct, pos, "holds on every path to the call")
		case helper != "":
			r.Undecide("%s: not established locally; the call is guarded by %s which receives the value", construct, helper)
		default:
			r.Violation(rule, construct, pos, "'"+o.what+"' is not established on every path to "+sinkName+": "+o.msg)
		}
	}
}

// ---------------------------------------------------------------------------
// C04 instances

func (st *c04State) parserFuncs() []*ssa.Function {
	p := st.p
	// exported entry points only; everything else is reached through the static call closure
	roots := []string{"Parser.Parse", "ParseStandard"}
	var out []*ssa.Function
	seen := map[*ssa.Function]bool{}
	tgt := newC04TermBuilder(p)
	var add func(f *ssa.Function)
	add = func(f *ssa.Function) {
		if f == nil || seen[f] || f.Pkg == nil || f.Pkg.Pkg.Path() != st.pkgPath {
			return
		}
		seen[f] = true
		out = append(out, f)
		for _, a := range f.AnonFuncs {
			add(a)
		}
		// helpers extracted from the parser functions belong to the layer too
		allInstrs(f, func(in ssa.Instruction) {
			if c, ok := in.(ssa.CallInstruction); ok {
				if cal := staticCallee(c); cal != nil && c04Enterable(p, cal) && cal.Parent() == nil {
					add(cal)
				} else if cal == nil {
					// calls through function values / single-implementation interfaces
					for _, t := range tgt.Targets(c) {
						if c04Enterable(p, t) {
							add(t)
						}
					}
				}
			}
		})
	}
	for _, n := range roots {
		add(p.Func("cron", n))
	}
	return out
}

func (st *c04State) checkErrflow() {
	c04Errflow(st.p, st.r, "C04.P4-errflow", st.parserFuncs())
}

func (st *c04State) checkRange() {
	p, r := st.p, st.r
	getBits := st.builder
	if getBits == nil {
		r.Undecide("the bit-set builder of package cron (the one function with signature (uint, uint, uint) uint64) does not resolve: the range facts cannot be checked")
		return
	}
	bt := st.boundsKey
	n := 0
	doc, _ := c04PackageDoc(p.Pkg("cron"))
	nstepDoc := c04DocHasNStep(doc)
	if !nstepDoc {
		r.Undecide("doc.go no longer contains the sentence 'The form \"N/...\" is accepted as meaning \"N-MAX/...\"': the meaning of N/step has no published spec to check against")
	}
	for _, fn := range p.FuncsOfPkg("cron") {
		ord := 0
		var bpar *ssa.Parameter
		for _, par := range fn.Params {
			if namedKey(par.Type()) == bt {
				if _, isPtr := par.Type().Underlying().(*types.Pointer); !isPtr {
					bpar = par
				}
			}
		}
		allInstrs(fn, func(in ssa.Instruction) {
			call, ok := in.(*ssa.Call)
			if !ok || staticCallee(call) != getBits {
				return
			}
			ord++
			n++
			if bpar == nil && len(call.Call.Args) == 3 {
				// the builder is called by a helper with (fields of) its own parameters: the
				// obligations move to the helper's call sites, where the values are established
				if st.liftRangeSink(fn, call, ord, nstepDoc) {
					return
				}
			}
			c04RangeFacts(p, r, "C04.P4-range", fn, call, ord, bpar, st.minF, st.maxF)
			if nstepDoc {
				c04NStepRule(p, r, "C04.P5-nstep", fn, call, ord, bpar, st.minF, st.maxF)
			}
		})
	}
	if n == 0 {
		r.Undecide("no call of the bit-set builder %s found", FuncName(p, getBits))
	}
	// getBits itself must not be reachable other than by static calls (a function value would bypass the facts)
	for _, fn := range p.FuncsOfPkg("cron") {
		allInstrs(fn, func(in ssa.Instruction) {
			for _, op := range in.Operands(nil) {
				if *op == ssa.Value(getBits) {
					if c, ok := in.(ssa.CallInstruction); !ok || c.Common().Value != ssa.Value(getBits) {
						r.Undecide("%s uses the bit-set builder as a value", FuncName(p, fn))
					}
				}
			}
		})
	}
}

// liftRangeSink: the builder call `call` in helper fn takes fields of one struct
// parameter of fn (a value grouping start/end/step). The four range facts and the
// N/step rule are then checked at every call site of fn, on the fields of the
// local struct handed over. Returns false if the shape does not apply.
func (st *c04State) liftRangeSink(fn *ssa.Function, call *ssa.Call, ord int, nstepDoc bool) bool {
	p, r := st.p, st.r
	pv := &c04Prover{fn: fn}
	var pname string
	var fields [3]string
	for i, a := range call.Call.Args {
		k := pv.key(a)
		if !strings.HasPrefix(k, "param:") || strings.HasPrefix(k, "param:@") {
			return false
		}
		dot := strings.LastIndex(k, ".")
		pn, fld := k[len("param:"):dot], k[dot+1:]
		if pname != "" && pn != pname {
			return false
		}
		pname, fields[i] = pn, fld
	}
	pidx := -1
	for i, par := range fn.Params {
		if par.Name() == pname {
			pidx = i
		}
	}
	if pidx < 0 {
		return false
	}
	stt, ok := deref(fn.Params[pidx].Type()).Underlying().(*types.Struct)
	if !ok {
		return false
	}
	fidx := func(name string) int {
		for i := 0; i < stt.NumFields(); i++ {
			if stt.Field(i).Name() == name {
				return i
			}
		}
		return -1
	}
	// the helper must hand the fields on unchanged: no store to the parameter copy's fields
	nSites := 0
	for _, g := range p.FuncsOfPkg("cron") {
		var gb *ssa.Parameter
		for _, par := range g.Params {
			if namedKey(par.Type()) == st.boundsKey {
				if _, isPtr := par.Type().Underlying().(*types.Pointer); !isPtr {
					gb = par
				}
			}
		}
		k := 0
		allInstrs(g, func(in ssa.Instruction) {
			cs, ok := in.(*ssa.Call)
			if !ok || staticCallee(cs) != fn || pidx >= len(cs.Call.Args) {
				return
			}
			k++
			nSites++
			base := fmt.Sprintf("%s -> %s#%d %s#%d", FuncName(p, g), fn.Name(), k, c04CalleeName(call), ord)
			var a *ssa.Alloc
			switch x := cs.Call.Args[pidx].(type) {
			case *ssa.Alloc:
				a = x
			case *ssa.UnOp:
				if x.Op == token.MUL {
					a, _ = x.X.(*ssa.Alloc)
				}
			}
			if a == nil || c04ParamOfAlloc(a) != nil {
				r.Undecide("%s: the struct handed to %s is not a local variable of the caller", base, fn.Name())
				return
			}
			unstable := !c04LocalStable(a, cs)
			if unstable {
				r.Undecide("%s: the struct is written again between the validation and the call", base)
				return
			}
			v := func(f string) ssa.Value { return &c04Virt{k: fmt.Sprintf("local:%p.%s", a, f)} }
			c04RangeFactsAt(p, r, "C04.P4-range", g, cs, base, fn.Name()+" -> "+c04CalleeName(call), v(fields[0]), v(fields[1]), v(fields[2]), gb, st.minF, st.maxF)
			if nstepDoc {
				i0, i1, i2 := fidx(fields[0]), fidx(fields[1]), fidx(fields[2])
				c04NStepRuleAt(p, r, "C04.P5-nstep", g, cs, base+": N/step extends to max", func(pa *c04Path) (ssa.Value, ssa.Value, ssa.Value) {
					return pa.fieldAt(a, i0, cs), pa.fieldAt(a, i1, cs), pa.fieldAt(a, i2, cs)
				}, gb, st.minF, st.maxF)
			}
		})
	}
	if nSites == 0 {
		r.Undecide("%s calls the bit-set builder with fields of its parameter %s, but no call of %s was found", FuncName(p, fn), pname, fn.Name())
	}
	return true
}

// c04LocalStable: no field of local struct a is written between a dominating
// test of `at` that reads a field of a and `at` itself.
func c04LocalStable(a *ssa.Alloc, at ssa.Instruction) bool {
	for _, dc := range c04DomConds(at.Block()) {
		ci, ok := dc.If.Cond.(ssa.Instruction)
		if !ok {
			continue
		}
		reads := false
		var ops []*ssa.Value
		for _, op := range ci.Operands(ops) {
			if la, _, ok := c04LocalField(*op); ok && la == a {
				reads = true
			}
		}
		if !reads {
			continue
		}
		for _, ref := range c04RealRefs(a) {
			if fa, ok := ref.(*ssa.FieldAddr); ok {
				for _, r2 := range c04RealRefs(fa) {
					if s2, ok := r2.(*ssa.Store); ok && s2.Addr == ssa.Value(fa) && c04Reach(ci, s2) && c04Reach(s2, at) {
						return false
					}
				}
			}
		}
	}
	return true
}

func (st *c04State) checkCount() {
	p, r := st.p, st.r
	nf := st.normaliser
	rule := "C04.P4-count"
	if nf == nil || st.normaliserFieldsArg < 0 || st.normaliserFieldsArg >= len(nf.Params) {
		r.Undecide("Parser.Parse: the function that expands the raw columns (takes the result of strings.Fields, returns []string) was not found: the field-count check cannot be located")
		return
	}
	fields := nf.Params[st.normaliserFieldsArg]
	errIdx := c04ErrResult(nf)
	if errIdx < 0 {
		r.Violation(rule, "cron column count: at least the required number of fields", p.Pos(nf.Pos()), FuncName(p, nf)+" no longer returns an error: a wrong number of fields cannot be refused")
		return
	}
	isLen := func(v ssa.Value) bool {
		c, ok := v.(*ssa.Call)
		return ok && builtinName(c) == "len" && len(c.Call.Args) == 1 && c.Call.Args[0] == ssa.Value(fields)
	}
	lowerAll, upperAll := true, true
	nRet := 0
	opaque := ""
	var pos token.Pos
	for _, b := range nf.Blocks {
		if len(b.Instrs) == 0 {
			continue
		}
		ret, ok := b.Instrs[len(b.Instrs)-1].(*ssa.Return)
		if !ok || !isNilConst(ret.Results[errIdx]) {
			continue
		}
		nRet++
		pos = ret.Pos()
		lower, upper, op := c04CountFacts(p, b, isLen, func(v ssa.Value) bool { return v == ssa.Value(fields) }, 0)
		if op != "" {
			opaque = op
		}
		lowerAll = lowerAll && lower
		upperAll = upperAll && upper
	}
	if nRet == 0 {
		r.Undecide("%s has no success return", FuncName(p, nf))
		return
	}
	if opaque != "" && !(lowerAll && upperAll) {
		r.Undecide("%s: the number of fields is handed to %s, which could not be consulted: the field-count check is not decided", FuncName(p, nf), opaque)
		return
	}
	r.Check(lowerAll, rule, "cron column count: at least the required number of fields", p.Pos(pos),
		"every success return is dominated by a lower check of len(fields)",
		"the column normaliser can succeed without len(fields) having been checked from below: an expression with too few fields is not refused (the missing columns are read past the end of the slice or filled from the wrong columns)")
	r.Check(upperAll, rule, "cron column count: at most the allowed number of fields", p.Pos(pos),
		"every success return is dominated by an upper check of len(fields)",
		"the column normaliser can succeed without len(fields) having been checked from above: an expression with too many fields is accepted and its trailing fields are silently ignored instead of being refused")
}

// c04CountFacts: do the conditions dominating block b bound the counted length
// from below / from above? Comparisons may sit in a validation helper that
// receives the length (or the slice) and whose success returns are consulted.
func c04CountFacts(p *Prog, b *ssa.BasicBlock, isLen func(ssa.Value) bool, isSlice func(ssa.Value) bool, depth int) (lower, upper bool, opaque string) {
	for _, dc := range c04DomConds(b) {
		if cmp, ok := decodeCond(dc.If.Cond, dc.Branch); ok {
			op := cmp.Op
			switch {
			case isLen(cmp.X):
			case isLen(cmp.Y):
				op = c04FlipOp(op)
			default:
				op = token.ILLEGAL
			}
			switch op {
			case token.GEQ, token.GTR:
				lower = true
			case token.LEQ, token.LSS:
				upper = true
			case token.EQL:
				lower, upper = true, true
			}
		}
		// a guard call: `h(...) == nil` / `h(...)` true
		var call *ssa.Call
		wantNilErr, wantBool := false, false
		if cmp, ok := decodeCond(dc.If.Cond, dc.Branch); ok && cmp.Op == token.EQL {
			res := cmp.X
			if isNilConst(res) {
				res = cmp.Y
			} else if !isNilConst(cmp.Y) {
				res = nil
			}
			if ex, ok := res.(*ssa.Extract); ok {
				res = ex.Tuple
			}
			if c, ok := res.(*ssa.Call); ok {
				call, wantNilErr = c, true
			}
		}
		want := true
		if c, val, ok := boolCallCond(dc.If.Cond, dc.Branch); ok && call == nil {
			call, wantBool, want = c, true, val
		}
		if call == nil {
			continue
		}
		h := staticCallee(call)
		if h == nil || !p.InModule(h) {
			continue
		}
		idx, asSlice := -1, false
		for i, a := range call.Call.Args {
			if isLen(a) {
				idx = i
			} else if isSlice(a) {
				idx, asSlice = i, true
			}
		}
		if idx < 0 || idx >= len(h.Params) {
			continue
		}
		if len(h.Blocks) == 0 || depth > 2 {
			opaque = h.Name()
			continue
		}
		par := h.Params[idx]
		hLen := func(v ssa.Value) bool { return !asSlice && v == ssa.Value(par) }
		hSlice := func(v ssa.Value) bool { return asSlice && v == ssa.Value(par) }
		if asSlice {
			hLen = func(v ssa.Value) bool {
				c, ok := v.(*ssa.Call)
				return ok && builtinName(c) == "len" && len(c.Call.Args) == 1 && c.Call.Args[0] == ssa.Value(par)
			}
		}
		hl, hu, n := true, true, 0
		errIdx := c04ErrResult(h)
		for _, hb := range h.Blocks {
			if len(hb.Instrs) == 0 {
				continue
			}
			ret, ok := hb.Instrs[len(hb.Instrs)-1].(*ssa.Return)
			if !ok {
				continue
			}
			switch {
			case wantNilErr && errIdx >= 0 && isNilConst(ret.Results[errIdx]):
			case wantBool && len(ret.Results) == 1:
				if k, ok := ret.Results[0].(*ssa.Const); ok && k.Value != nil {
					if (k.Value.String() == "true") != want {
						continue
					}
				}
			default:
				continue
			}
			n++
			l2, u2, op2 := c04CountFacts(p, hb, hLen, hSlice, depth+1)
			if op2 != "" {
				opaque = op2
			}
			hl, hu = hl && l2, hu && u2
		}
		if n > 0 {
			lower, upper = lower || hl, upper || hu
		}
	}
	return
}

func (st *c04State) checkNonNeg() {
	p, r := st.p, st.r
	rule := "C04.P4-nonneg"
	n := 0
	for _, fn := range st.parserFuncs() {
		allInstrs(fn, func(in ssa.Instruction) {
			if c, ok := in.(*ssa.Call); ok && (callIs(c, "strconv", "", "ParseUint")) {
				n++
				r.OK(rule, FuncName(p, fn)+" strconv.ParseUint", p.Pos(c.Pos()), "unsigned parse: negative numbers are rejected by strconv")
			}
			cv, ok := in.(*ssa.Convert)
			if !ok || !c04IsUnsigned(cv.Type()) || c04IsUnsigned(cv.X.Type()) {
				return
			}
			if _, isInt := cv.X.Type().Underlying().(*types.Basic); !isInt {
				return
			}
			// operand comes from strconv.Atoi / ParseInt
			src := cv.X
			if ex, ok := src.(*ssa.Extract); ok {
				src = ex.Tuple
			}
			call, ok := c04Strip(src).(*ssa.Call)
			if !ok || !(callIs(call, "strconv", "", "Atoi") || callIs(call, "strconv", "", "ParseInt")) {
				return
			}
			n++
			pv := &c04Prover{fn: fn}
			zero := ssa.NewConst(constant.MakeInt64(0), cv.X.Type())
			r.Check(pv.holds(token.GEQ, cv.X, zero, c04DomConds(cv.Block()), 0), rule, FuncName(p, fn)+" uint(parsed number)", p.Pos(instrPos(cv)),
				"conversion dominated by a non-negativity check",
				"a parsed number is converted to unsigned without a check that it is not negative: a step such as '*/-1' becomes 2^64-1, passes the zero-step check and makes getBits walk downwards from the start, setting bits below the field's minimum — the expression is accepted and given a meaning instead of being refused")
		})
	}
	if n == 0 {
		r.Undecide("no conversion of a strconv.Atoi/ParseInt result to an unsigned type found in the parser layer")
	}
}

// checkEvery: D2.
func (st *c04State) checkEvery() {
	p, r := st.p, st.r
	rule := "C04.D2-every"
	every := p.Func("cron", "Every")
	cds := st.pkgPath + ".ConstantDelaySchedule"
	// every ConstantDelaySchedule the parser layer turns into a Schedule comes from Every
	nMI := 0
	bad, undec := "", ""
	var pos token.Pos
	for _, fn := range st.parserFuncs() {
		if fn == every {
			continue
		}
		allInstrs(fn, func(in ssa.Instruction) {
			mi, ok := in.(*ssa.MakeInterface)
			if !ok || namedKey(mi.X.Type()) != cds {
				return
			}
			nMI++
			pos = mi.Pos()
			okAll := true
			c04ThroughPhis(mi.X, func(v ssa.Value) bool {
				if _, isPhi := v.(*ssa.Phi); isPhi {
					return false
				}
				if call, ok := v.(*ssa.Call); ok && staticCallee(call) == every {
					return false
				}
				okAll = false
				// classified bad shape: a literal whose Delay is the parsed duration itself
				tb := newC04TermBuilder(p)
				t := tb.Term(tb.Root(fn), v)
				direct := false
				if t.Op == "struct" || t.Op == "load" || t.Op == "alloc" {
					direct = t.contains(func(x *c04T) bool { return x.Op == "ext:time.ParseDuration" }) && !t.contains(func(x *c04T) bool {
						return strings.HasPrefix(x.Op, "bin:") || strings.HasPrefix(x.Op, "builtin:") || x.Op == "choice" || x.Op == "dur:Truncate"
					})
				}
				if direct {
					bad = "the parser builds a ConstantDelaySchedule from the parsed duration without going through Every: '@every 500ms' keeps a delay below one second instead of at least one second"
				} else {
					undec = "a ConstantDelaySchedule is built in " + FuncName(p, fn) + " without Every: whether its Delay is at least one second is not decided"
				}
				return false
			})
			_ = okAll
		})
	}
	construct := "cron descriptor @every"
	switch {
	case nMI == 0:
		r.Violation(rule, construct, p.Pos(p.Func("cron", "Parser.Parse").Pos()), "no function reachable from Parse returns a ConstantDelaySchedule: '@every d' is not supported although documented")
	case bad != "":
		r.Violation(rule, construct, p.Pos(pos), bad)
	case undec != "":
		r.Undecide("%s", undec)
	default:
		r.OK(rule, construct, p.Pos(pos), "'@every d' = Every(d)")
	}
	// ConstantDelaySchedule.Next = t.Add(Delay - t.Nanosecond()) or t.Truncate(second).Add(Delay), wherever it is computed
	nx := p.Func("cron", "ConstantDelaySchedule.Next")
	construct = "cron.ConstantDelaySchedule.Next truncation"
	tb := newC04TermBuilder(p)
	root := tb.Root(nx)
	var tPar *c04T
	for _, par := range nx.Params {
		if c04IsTimeType(par.Type()) {
			tPar = root.env[par]
		}
	}
	verdict, msg := "undecided", "the returned value is not a time.Time.Add of the argument"
	var judge func(t *c04T) (string, string)
	judge = func(t *c04T) (string, string) {
		if t.Op == "choice" {
			worst, wmsg := "ok", ""
			for _, a := range t.Args {
				v, m := judge(a)
				if v == "bad" || (v == "undecided" && worst == "ok") {
					worst, wmsg = v, m
				} else if wmsg == "" {
					wmsg = m
				}
			}
			return worst, wmsg
		}
		if t.Op != "tm:Add" || len(t.Args) != 2 || tPar == nil {
			return "undecided", "the returned value is not a time.Time.Add of the argument"
		}
		recv, d := t.Args[0], t.Args[1]
		lin, okLin := c04LinT(d, func(x *c04T) (string, bool) {
			if x.Op == "tm:Nanosecond" && len(x.Args) == 1 && x.Args[0].Key() == tPar.Key() {
				return "n", true
			}
			if x.Op == "load" && x.Name == cds+".Delay" {
				return "D", true
			}
			return "", false
		})
		recvIsT := recv.Key() == tPar.Key()
		switch {
		case okLin && recvIsT && lin.coef["n"] == -1 && lin.coef["D"] == 1 && lin.k == 0:
			return "ok", "t.Add(Delay - t.Nanosecond()) = t truncated to the second plus Delay"
		case okLin && recvIsT && lin.coef["n"] == 0:
			return "bad", "ConstantDelaySchedule.Next adds a duration that does not depend on t.Nanosecond() to the untruncated t: the sub-second part of t is kept, so '@every d' does not yield t truncated to the second plus d"
		case okLin && recvIsT:
			return "bad", fmt.Sprintf("ConstantDelaySchedule.Next returns t + %d*Delay + %d*t.Nanosecond() + %dns, not t truncated to the second plus Delay", lin.coef["D"], lin.coef["n"], lin.k)
		case recvIsT && c04TermHasAccessor(d, "Nanosecond"):
			return "ok", "t.Add(delay - f(t.Nanosecond()))"
		case recv.Op == "tm:Truncate" && len(recv.Args) == 2 && recv.Args[0].Key() == tPar.Key() && recv.Args[1].IsK && recv.Args[1].K == 1e9 && okLin && lin.coef["D"] == 1 && lin.k == 0 && lin.coef["n"] == 0:
			return "ok", "t.Truncate(second).Add(Delay)"
		case recvIsT:
			return "bad", "ConstantDelaySchedule.Next adds a duration that does not depend on t.Nanosecond() to the untruncated t: the sub-second part of t is kept, so '@every d' does not yield t truncated to the second plus d"
		}
		return "undecided", "the returned value is not a recognised form of t truncated to the second plus Delay"
	}
	var rets []*c04T
	for _, b := range nx.Blocks {
		if len(b.Instrs) == 0 {
			continue
		}
		if ret, ok := b.Instrs[len(b.Instrs)-1].(*ssa.Return); ok && len(ret.Results) == 1 {
			rets = append(rets, tb.Term(root, ret.Results[0]))
		}
	}
	if len(rets) > 0 {
		verdict, msg = judge(c04Choice(rets))
	}
	switch verdict {
	case "ok":
		r.OK(rule, construct, p.Pos(nx.Pos()), msg)
	case "bad":
		r.Violation(rule, construct, p.Pos(nx.Pos()), msg)
	default:
		r.Undecide("ConstantDelaySchedule.Next: %s", msg)
	}
}

// checkEveryDelay: the Delay stored by Every is at least one second.
func (st *c04State) checkEveryDelay() {
	p, r := st.p, st.r
	rule := "C04.D2-every"
	every := p.Func("cron", "Every")
	construct := "cron.Every delay >= 1s"
	delayField := FieldID{st.pkgPath + ".ConstantDelaySchedule", "Delay"}
	var stores []*ssa.Store
	allInstrs(every, func(in ssa.Instruction) {
		if s, ok := in.(*ssa.Store); ok {
			if fa, ok := s.Addr.(*ssa.FieldAddr); ok && fieldIDOfAddr(fa) == delayField {
				stores = append(stores, s)
			}
		}
	})
	if len(stores) == 0 {
		r.Undecide("Every: no store to ConstantDelaySchedule.Delay found")
		return
	}
	pv := &c04Prover{fn: every}
	sec := func(t types.Type) ssa.Value { return ssa.NewConst(constant.MakeInt64(1e9), t) }
	// tri-state: 1 proved, 0 refuted-by-shape (a value that can be below 1s flows in), -1 unknown
	var ge func(v ssa.Value, conds []DomCond, depth int) int
	ge = func(v ssa.Value, conds []DomCond, depth int) int {
		if depth > 6 {
			return -1
		}
		if pv.holds(token.GEQ, v, sec(v.Type()), conds, 0) {
			return 1
		}
		switch x := v.(type) {
		case *ssa.Parameter:
			return 0 // an arbitrary caller-supplied duration with no dominating lower bound
		case *ssa.Const:
			return 0
		case *ssa.Phi:
			res := 1
			for i, e := range x.Edges {
				switch ge(e, c04CondsOnEdge(x.Block().Preds[i], x.Block()), depth+1) {
				case 0:
					return 0
				case -1:
					res = -1
				}
			}
			return res
		case *ssa.BinOp:
			// floor forms: x - x%S, x/S*S with S | 1s: >= 1s iff x >= 1s
			sameAs := func(a, b ssa.Value) bool {
				a = c04Strip(a)
				if a == b {
					return true
				}
				if c, ok := a.(*ssa.Call); ok && len(c.Call.Args) == 1 && c.Call.Args[0] == b {
					if obj := calleeObj(c); obj != nil && obj.Pkg() != nil && obj.Pkg().Path() == "time" && obj.Name() == "Nanoseconds" {
						return true
					}
				}
				return false
			}
			divides := func(k ssa.Value) bool {
				c, ok := c04ConstInt(k)
				return ok && c > 0 && int64(1e9)%c == 0
			}
			if x.Op == token.SUB {
				if rem, ok := c04Strip(x.Y).(*ssa.BinOp); ok && rem.Op == token.REM && divides(rem.Y) && sameAs(rem.X, x.X) {
					return ge(x.X, conds, depth+1)
				}
			}
			if x.Op == token.MUL {
				if q, ok := c04Strip(x.X).(*ssa.BinOp); ok && q.Op == token.QUO && divides(q.Y) && divides(x.Y) {
					a, _ := c04ConstInt(q.Y)
					b, _ := c04ConstInt(x.Y)
					if a == b {
						return ge(q.X, conds, depth+1)
					}
				}
			}
		case *ssa.Call:
			if bn := builtinName(x); bn == "max" || bn == "min" {
				res := -1
				if bn == "min" {
					res = 1
				}
				sawZero := false
				for _, a := range x.Call.Args {
					switch ge(a, conds, depth+1) {
					case 1:
						if bn == "max" {
							res = 1
						}
					case 0:
						sawZero = true
						if bn == "min" {
							return 0
						}
					default:
						if bn == "min" && res == 1 {
							res = -1
						}
					}
				}
				if bn == "max" && res != 1 && sawZero {
					// every argument can be below one second
					all0 := true
					for _, a := range x.Call.Args {
						if ge(a, conds, depth+1) != 0 {
							all0 = false
						}
					}
					if all0 {
						return 0
					}
				}
				return res
			}
			if obj := calleeObj(x); obj != nil && obj.Pkg() != nil && obj.Pkg().Path() == "time" && obj.Name() == "Truncate" && len(x.Call.Args) == 2 {
				if k, ok := c04ConstInt(x.Call.Args[1]); ok && k > 0 && int64(1e9)%k == 0 {
					return ge(x.Call.Args[0], conds, depth+1)
				}
			}
		}
		return -1
	}
	worst := 1
	var pos token.Pos
	for _, s := range stores {
		pos = s.Pos()
		switch ge(s.Val, c04DomConds(s.Block()), 0) {
		case 0:
			worst = 0
		case -1:
			if worst == 1 {
				worst = -1
			}
		}
	}
	switch worst {
	case 1:
		r.OK(rule, construct, p.Pos(pos), "the stored Delay is at least one second on every path")
	case 0:
		r.Violation(rule, construct, p.Pos(pos), "Every can store a Delay below one second (a caller-supplied duration reaches ConstantDelaySchedule.Delay without a dominating >= 1s bound): '@every 500ms' yields a zero delay, so Next(t) is not after t / not 'at least one second'")
	default:
		r.Undecide("Every: the expression stored into Delay is not one of the recognised forms (x - x%%S, x/S*S, Truncate, clamp by comparison)")
	}
}

// ---------------------------------------------------------------------------
// fixture driver: the generic rules on kitcheck/fixtures/c04

func c04FixtureRules(fp *Prog, fr *Report) {
	var fns []*ssa.Function
	for _, fn := range fp.Funcs {
		if fn.Name() == "init" {
			continue
		}
		fns = append(fns, fn)
	}
	var efns []*ssa.Function
	for _, fn := range fns {
		root := fn
		for root.Parent() != nil {
			root = root.Parent()
		}
		if strings.Contains(strings.ToLower(root.Name()), "err") {
			efns = append(efns, fn)
		}
	}
	c04Errflow(fp, fr, "errflow", efns)
	sink := fp.FuncOpt("", "bits")
	if sink == nil {
		undecided("fixture c04: sink bits not found")
	}
	c04ListLoops(fp, fr, "list-terms", fns, sink)
	for _, fn := range fns {
		var bpar *ssa.Parameter
		for _, par := range fn.Params {
			if strings.HasSuffix(namedKey(par.Type()), ".bnd") {
				bpar = par
			}
		}
		ord := 0
		allInstrs(fn, func(in ssa.Instruction) {
			if c, ok := in.(*ssa.Call); ok && staticCallee(c) == sink && fn != sink {
				ord++
				c04RangeFacts(fp, fr, "range", fn, c, ord, bpar, "lo", "hi")
				if strings.Contains(fn.Name(), "NStep") {
					c04NStepRule(fp, fr, "nstep", fn, c, ord, bpar, "lo", "hi")
				}
			}
		})
	}
}

func c04ParamIndex(fn *ssa.Function, v ssa.Value) int {
	for i, p := range fn.Params {
		if ssa.Value(p) == v {
			return i
		}
	}
	return -1
}

// c04DomConds: the branch facts dominating b (guard.go), with boolean merges
// expanded: a condition that is the phi of a short-circuit `a && b` (true) or
// `a || b` (false) — go/ssa evaluates such expressions to a value in switch
// cases and assignments — contributes the facts of the one incoming edge that
// can produce that outcome.
func c04DomConds(b *ssa.BasicBlock) []DomCond {
	return c04ExpandConds(domConds(b))
}

func c04ExpandConds(in []DomCond) []DomCond {
	var out []DomCond
	seen := map[string]bool{}
	var add func(cond ssa.Value, branch bool, ifi *ssa.If, depth int)
	add = func(cond ssa.Value, branch bool, ifi *ssa.If, depth int) {
		for {
			u, ok := cond.(*ssa.UnOp)
			if !ok || u.Op != token.NOT {
				break
			}
			cond, branch = u.X, !branch
			ifi = nil
		}
		k := fmt.Sprintf("%p/%v", cond, branch)
		if seen[k] {
			return
		}
		seen[k] = true
		if ifi == nil || ifi.Cond != cond {
			ifi = &ssa.If{Cond: cond}
		}
		out = append(out, DomCond{ifi, branch})
		ph, ok := cond.(*ssa.Phi)
		if !ok || depth > 4 {
			return
		}
		cand := -1
		for i, e := range ph.Edges {
			if k, isK := e.(*ssa.Const); isK && k.Value != nil {
				if (k.Value.String() == "true") != branch {
					continue // this edge yields the other outcome
				}
			}
			if cand >= 0 {
				return // two edges can yield this outcome: nothing is known
			}
			cand = i
		}
		if cand < 0 {
			return
		}
		e, pb := ph.Edges[cand], ph.Block().Preds[cand]
		if _, isK := e.(*ssa.Const); !isK {
			add(e, branch, nil, depth+1)
		}
		for _, dc := range domConds(pb) {
			add(dc.If.Cond, dc.Branch, dc.If, depth+1)
		}
		if n := len(pb.Instrs); n > 0 {
			if pif, ok := pb.Instrs[n-1].(*ssa.If); ok && pb.Succs[0] != pb.Succs[1] {
				if pb.Succs[0] == ph.Block() {
					add(pif.Cond, true, pif, depth+1)
				} else if pb.Succs[1] == ph.Block() {
					add(pif.Cond, false, pif, depth+1)
				}
			}
		}
	}
	for _, dc := range in {
		add(dc.If.Cond, dc.Branch, dc.If, 0)
	}
	return out
}
