package main

// C16: an "inlined view" of an entry point. The rules of C16 are about what an
// exported method does on every path, wherever the maintainers put the code:
// in the method itself, in unexported helper methods/functions, in closures or
// in deferred calls. c16G is the control-flow graph of the entry point with
// every statically resolved same-package callee spliced in at its call site
// (context-sensitive, no recursion, bounded depth) and every deferred call
// replayed at the rundefers points. Dominators, branch facts, value origins
// ("leaves") and a small collecting dataflow are provided on that graph, so a
// rule sees the same thing whether a step is written inline or in a helper.

import (
	"fmt"
	"go/constant"
	"go/token"
	"go/types"
	"sort"
	"strings"

	"golang.org/x/tools/go/ssa"
)

// c16Ctx is one inlining context (a chain of call sites).
type c16Ctx struct {
	Parent *c16Ctx
	Call   ssa.CallInstruction // *ssa.Call or (replayed) *ssa.Defer
	Fn     *ssa.Function
	// Closure: for a call of a function value, the MakeClosure it resolved to (in
	// the context where it was created): free variables are bound there, which
	// need not be the calling context (callbacks: withLock(func(){...})).
	Closure c16V
	// Iter > 0: not a call context but the Iter-th copy of the unrolled loop Loop
	// of function Fn (Parent is the context of the enclosing code).
	Iter int
	Loop *c16UL
	// Once: the callee is the function passed to (*sync.Once).Do at this call.
	Once  bool
	depth int
	id    int
}

// c16V is an SSA value in a context.
type c16V struct {
	V   ssa.Value
	Ctx *c16Ctx
}

// c16N is an instruction occurrence; Replay marks a deferred call being
// executed at a rundefers point (the Defer instruction at its registration
// site has Replay == false and has no effect there).
type c16N struct {
	In     ssa.Instruction
	Ctx    *c16Ctx
	Replay bool
}

// c16C is a branch fact: the boolean value V had the truth value Branch.
//
// A c16C with Ret > 0 is not a branch fact but a path tag: "the inlined call
// with callee context V.Ctx returned through its (Ret-1)-th return". Tags let
// facts and dataflow states that belong to different returns of one helper
// call be recognised as incompatible.
type c16C struct {
	V      c16V
	Branch bool
	Ret    int
}

// returnsOf lists the reachable return blocks of an inlined callee.
func (g *c16G) returnsOf(cctx *c16Ctx) []*c16B {
	var out []*c16B
	for _, lb := range g.rets[cctx] {
		if g.where[lb.Ns[len(lb.Ns)-1]] == lb { // still reachable
			out = append(out, lb)
		}
	}
	return out
}

// callOf: v is the result (or an extracted result) of an inlined call with
// more than one return; returns the callee context and the result index.
func (g *c16G) callOf(v c16V) (*c16Ctx, int, bool) {
	var call *ssa.Call
	idx := 0
	switch x := v.V.(type) {
	case *ssa.Call:
		call = x
	case *ssa.Extract:
		call, _ = x.Tuple.(*ssa.Call)
		idx = x.Index
	}
	if call == nil {
		return nil, 0, false
	}
	cctx := g.inl[c16N{In: call, Ctx: v.Ctx}]
	if cctx == nil || len(g.returnsOf(cctx)) < 2 {
		return nil, 0, false
	}
	return cctx, idx, true
}

// c16B is a block of the inlined graph: a segment of an SSA block.
type c16B struct {
	SB           *ssa.BasicBlock
	Ctx          *c16Ctx
	Seg          int
	Ns           []c16N
	Preds, Succs []*c16B
	Idx          int
	idom         *c16B
	rpo          int
}

type c16bk struct {
	ctx *c16Ctx
	b   *ssa.BasicBlock
}

type c16G struct {
	P          *Prog
	Root       *ssa.Function
	Blocks     []*c16B
	Entry      *c16B
	Exits      []*c16B // blocks ending in a Return of the root function
	Unfollowed []string
	Unknown    []string            // shapes a rule could not interpret (recorded by Unk)
	Esc        string              // set by the rules: an object they reason about is handed to unmodelled code
	rets       map[*c16Ctx][]*c16B // return blocks per function context
	iters      map[*c16UL][]*c16Ctx
	sink       *c16B
	unf        []c16Unf
	consts     map[string]*ssa.Const
	first      map[c16bk]*c16B
	last       map[c16bk]*c16B
	inl        map[c16N]*c16Ctx // inlined call occurrence -> callee context
	where      map[c16N]*c16B
	nctx       int
	valMemo    map[c16V]c16V
	valBusy    map[c16V]bool
	reach      map[*c16B]map[*c16B]bool
}

const c16MaxDepth = 5

// c16Build builds the inlined graph of root.
func c16Build(p *Prog, root *ssa.Function) *c16G {
	g := &c16G{P: p, Root: root, first: map[c16bk]*c16B{}, last: map[c16bk]*c16B{}, inl: map[c16N]*c16Ctx{}, where: map[c16N]*c16B{}, reach: map[*c16B]map[*c16B]bool{}, valMemo: map[c16V]c16V{}, valBusy: map[c16V]bool{}, rets: map[*c16Ctx][]*c16B{}, iters: map[*c16UL][]*c16Ctx{}, consts: map[string]*ssa.Const{}}
	if len(root.Blocks) == 0 {
		undecided("anchor function %s has no body", FuncName(p, root))
	}
	g.build(root, nil)
	g.Entry = g.first[c16bk{nil, root.Blocks[0]}]
	g.finalize()
	// a branch whose condition resolves to a constant in its context (the result
	// of an inlined callback that always returns true, a constant argument seen
	// through a temporary) has one feasible successor: prune and recompute
	for round := 0; round < 3 && g.pruneConst(); round++ {
		g.finalize()
	}
	for _, u := range g.unf {
		if g.where[c16N{In: u.ci, Ctx: u.ctx}] != nil || g.where[c16N{In: u.ci, Ctx: u.ctx, Replay: true}] != nil {
			g.Unfollowed = append(g.Unfollowed, u.msg)
		}
	}
	if g.sink != nil {
		for _, b := range g.Blocks {
			if b == g.sink {
				g.Unfollowed = append(g.Unfollowed, "a loop over a literal runs longer than it was unrolled")
			}
		}
	}
	sort.Strings(g.Unfollowed)
	return g
}

// finalize drops unreachable blocks and (re)computes indices, exits and dominators.
func (g *c16G) finalize() {
	g.where = map[c16N]*c16B{}
	g.reach = map[*c16B]map[*c16B]bool{}
	g.valMemo = map[c16V]c16V{}
	g.Exits = nil
	for _, b := range g.Blocks {
		b.idom = nil
	}
	// prune unreachable blocks
	seen := map[*c16B]bool{}
	var order []*c16B
	var dfs func(b *c16B)
	dfs = func(b *c16B) {
		if seen[b] {
			return
		}
		seen[b] = true
		for _, s := range b.Succs {
			dfs(s)
		}
		order = append(order, b)
	}
	dfs(g.Entry)
	var keep []*c16B
	for _, b := range g.Blocks {
		if seen[b] {
			keep = append(keep, b)
		}
	}
	g.Blocks = keep
	for i, b := range g.Blocks {
		b.Idx = i
		var ps []*c16B
		for _, q := range b.Preds {
			if seen[q] {
				ps = append(ps, q)
			}
		}
		b.Preds = ps
		for _, n := range b.Ns {
			g.where[n] = b
		}
		if len(b.Ns) > 0 && b.Ctx.fnCtx() == nil {
			if _, ok := b.Ns[len(b.Ns)-1].In.(*ssa.Return); ok {
				g.Exits = append(g.Exits, b)
			}
		}
	}
	for k, v := range g.first {
		if !seen[v] {
			delete(g.first, k)
		}
	}
	for k, v := range g.last {
		if !seen[v] {
			delete(g.last, k)
		}
	}
	// dominators (Cooper/Harvey/Kennedy) over reverse postorder
	for i, b := range order {
		b.rpo = len(order) - 1 - i
	}
	rpo := make([]*c16B, len(order))
	for _, b := range order {
		rpo[b.rpo] = b
	}
	g.Entry.idom = g.Entry
	for changed := true; changed; {
		changed = false
		for _, b := range rpo[1:] {
			var ni *c16B
			for _, q := range b.Preds {
				if q.idom == nil {
					continue
				}
				if ni == nil {
					ni = q
					continue
				}
				a, c := q, ni
				for a != c {
					for a.rpo > c.rpo {
						a = a.idom
					}
					for c.rpo > a.rpo {
						c = c.idom
					}
				}
				ni = a
			}
			if ni != b.idom {
				b.idom, changed = ni, true
			}
		}
	}
}

// pruneConst removes the infeasible successor of every branch whose condition
// is a constant; reports whether anything changed.
func (g *c16G) pruneConst() bool {
	changed := false
	for _, b := range g.Blocks {
		if len(b.Ns) == 0 || len(b.Succs) != 2 || b.Succs[0] == b.Succs[1] {
			continue
		}
		ifi, ok := b.Ns[len(b.Ns)-1].In.(*ssa.If)
		if !ok {
			continue
		}
		cv, br := g.Val(c16V{ifi.Cond, b.Ctx}), true
		for {
			if u, ok := cv.V.(*ssa.UnOp); ok && u.Op == token.NOT {
				cv, br = g.Val(c16V{u.X, cv.Ctx}), !br
				continue
			}
			break
		}
		k, ok := cv.V.(*ssa.Const)
		if !ok || k.Value == nil || (k.Value.String() != "true" && k.Value.String() != "false") {
			continue
		}
		drop := 0 // successor index to remove
		if (k.Value.String() == "true") == br {
			drop = 1
		}
		dead := b.Succs[drop]
		b.Succs = []*c16B{b.Succs[1-drop]}
		var ps []*c16B
		removed := false
		for _, q := range dead.Preds {
			if q == b && !removed {
				removed = true
				continue
			}
			ps = append(ps, q)
		}
		dead.Preds = ps
		changed = true
	}
	return changed
}

func (g *c16G) newB(sb *ssa.BasicBlock, ctx *c16Ctx, seg int) *c16B {
	b := &c16B{SB: sb, Ctx: ctx, Seg: seg}
	g.Blocks = append(g.Blocks, b)
	return b
}

func c16Link(a, b *c16B) {
	a.Succs = append(a.Succs, b)
	b.Preds = append(b.Preds, a)
}

// inlinable returns the callee to splice in for a call occurrence, or nil.
func (g *c16G) inlinable(ci ssa.CallInstruction, ctx *c16Ctx) (*ssa.Function, c16V) {
	cc := ci.Common()
	if _, ok := cc.Value.(*ssa.Builtin); ok {
		return nil, c16V{}
	}
	var closure c16V
	var callee *ssa.Function
	if !cc.IsInvoke() && callIs(ci, "sync", "Once", "Do") && len(cc.Args) == 2 {
		// once.Do(f): f's effects have happened when Do returns (now or earlier)
		v := g.Res(c16V{cc.Args[1], ctx})
		switch x := v.V.(type) {
		case *ssa.Function:
			return g.vetCallee(ci, ctx, origin(x), c16V{})
		case *ssa.MakeClosure:
			if f, ok := x.Fn.(*ssa.Function); ok {
				return g.vetCallee(ci, ctx, origin(f), v)
			}
		}
		g.unfollow(ci, ctx, "sync.Once.Do of an unknown function in "+c16CtxName(g, ctx))
		return nil, c16V{}
	}
	if cc.IsInvoke() {
		// an interface seam of this package with a single implementation is a static call
		callee = g.soleImplementation(cc.Value.Type(), cc.Method)
		if callee == nil {
			return nil, c16V{}
		}
	} else {
		callee = staticCallee(ci)
	}
	if callee != nil {
		if _, ok := cc.Value.(*ssa.MakeClosure); ok && !cc.IsInvoke() {
			closure = c16V{cc.Value, ctx}
		}
	} else {
		// a function value: follow it to where it comes from — a parameter bound to a
		// closure / function at an inlined call site (callbacks), a local assigned
		// once, a func-typed field assigned once in the package
		v := g.Res(c16V{cc.Value, ctx})
		if tgt, ok := g.funcField(v); ok {
			v = tgt
		}
		switch x := v.V.(type) {
		case *ssa.Function:
			callee = origin(x)
		case *ssa.MakeClosure:
			if f, ok := x.Fn.(*ssa.Function); ok {
				callee, closure = origin(f), v
			}
		}
		if callee == nil {
			g.unfollow(ci, ctx, "dynamic call in "+c16CtxName(g, ctx))
			return nil, c16V{}
		}
	}
	return g.vetCallee(ci, ctx, callee, closure)
}

// vetCallee decides whether the resolved callee is spliced in.
func (g *c16G) vetCallee(ci ssa.CallInstruction, ctx *c16Ctx, callee *ssa.Function, closure c16V) (*ssa.Function, c16V) {
	if _, _, isIfaceBound := c16BoundIface(closure); isIfaceBound {
		return nil, c16V{} // x.M of an interface value: a method call the rules model
	}
	samePkg := callee.Pkg != nil && callee.Pkg == g.Root.Pkg
	if !samePkg {
		if par := callee.Parent(); par != nil && par.Pkg == g.Root.Pkg {
			samePkg = true
		}
		// bound-method / thunk wrappers of this package's methods
		if callee.Synthetic != "" && callee.Object() != nil && callee.Object().Pkg() == g.Root.Pkg.Pkg {
			samePkg = true
		}
	}
	if !samePkg {
		return nil, c16V{} // other package: modelled by the rules (or irrelevant)
	}
	if len(callee.Blocks) == 0 {
		return nil, c16V{}
	}
	d := 0
	for c := ctx; c != nil; c = c.Parent {
		d++
		if c.Fn == callee {
			g.unfollow(ci, ctx, "recursive call of "+callee.Name())
			return nil, c16V{}
		}
	}
	if callee == g.Root {
		g.unfollow(ci, ctx, "recursive call of "+callee.Name())
		return nil, c16V{}
	}
	if d >= c16MaxDepth {
		g.unfollow(ci, ctx, "call of "+callee.Name()+" beyond the inlining depth")
		return nil, c16V{}
	}
	return callee, closure
}

// soleImplementation: t is an interface type declared in the analysed package
// and exactly one named type of the package implements it; returns that type's
// method m.
func (g *c16G) soleImplementation(t types.Type, m *types.Func) *ssa.Function {
	named, ok := types.Unalias(t).(*types.Named)
	if !ok || named.Obj().Pkg() == nil || named.Obj().Pkg() != g.Root.Pkg.Pkg {
		return nil
	}
	iface, ok := named.Underlying().(*types.Interface)
	if !ok {
		return nil
	}
	var impl types.Type
	n := 0
	scope := g.Root.Pkg.Pkg.Scope()
	for _, name := range scope.Names() {
		tn, ok := scope.Lookup(name).(*types.TypeName)
		if !ok || tn.IsAlias() {
			continue
		}
		T := tn.Type()
		if _, isIface := T.Underlying().(*types.Interface); isIface {
			continue
		}
		switch {
		case types.Implements(T, iface):
			impl = T
			n++
		case types.Implements(types.NewPointer(T), iface):
			impl = types.NewPointer(T)
			n++
		}
	}
	if n != 1 {
		return nil
	}
	sel := g.P.SSA.MethodSets.MethodSet(impl).Lookup(m.Pkg(), m.Name())
	if sel == nil {
		return nil
	}
	fn := g.P.SSA.MethodValue(sel)
	if fn == nil || len(fn.Blocks) == 0 {
		return nil
	}
	return origin(fn)
}

// unfollow records a call that could not be followed; it only counts if the
// call is still reachable once the graph is complete.
func (g *c16G) unfollow(ci ssa.CallInstruction, ctx *c16Ctx, msg string) {
	g.unf = append(g.unf, c16Unf{msg, ci, ctx})
}

type c16Unf struct {
	msg string
	ci  ssa.CallInstruction
	ctx *c16Ctx
}

// c16BoundIface: v is a bound method value x.M where x is an interface value
// (the wrapper invokes M dynamically).
func c16BoundIface(v c16V) (string, ssa.Value, bool) {
	mc, ok := v.V.(*ssa.MakeClosure)
	if !ok {
		return "", nil, false
	}
	name, recv, ok := c16Bound(mc)
	if !ok {
		return "", nil, false
	}
	if _, isIface := recv.Type().Underlying().(*types.Interface); !isIface {
		return "", nil, false
	}
	return name, recv, true
}

// funcField: v is a load of a func-typed struct field that is assigned exactly
// once in the package, with a function or a closure without captured
// variables; returns that target.
func (g *c16G) funcField(v c16V) (c16V, bool) {
	u, ok := v.V.(*ssa.UnOp)
	if !ok || u.Op != token.MUL {
		return c16V{}, false
	}
	fa, ok := u.X.(*ssa.FieldAddr)
	if !ok {
		return c16V{}, false
	}
	if _, isFunc := u.Type().Underlying().(*types.Signature); !isFunc {
		return c16V{}, false
	}
	id := fieldIDOfAddr(fa)
	var tgt ssa.Value
	n := 0
	for _, fn := range g.P.Funcs {
		if fn.Pkg != g.Root.Pkg && (fn.Parent() == nil || fn.Parent().Pkg != g.Root.Pkg) {
			continue
		}
		allInstrs(fn, func(in ssa.Instruction) {
			if st := c16FieldStore(in, id); st != nil {
				n++
				tgt = st.Val
			}
		})
	}
	if n != 1 {
		return c16V{}, false
	}
	switch x := tgt.(type) {
	case *ssa.Function:
		return c16V{x, nil}, true
	case *ssa.MakeClosure:
		if len(x.Bindings) == 0 {
			return c16V{x, nil}, true
		}
	}
	return c16V{}, false
}

func c16CtxName(g *c16G, ctx *c16Ctx) string {
	if ctx == nil {
		return g.Root.Name()
	}
	return ctx.Fn.Name()
}

// c16UL is a counting loop over a small local literal (array/slice of values or
// of function values) that is unrolled in the inlined view: one copy of the
// loop body per index, so "a table of steps run in order" reads like the steps
// written one after the other.
type c16UL struct {
	Header *ssa.BasicBlock
	Phi    *ssa.Phi
	Start  int64
	Blocks map[*ssa.BasicBlock]bool
	N      int // number of copies of the loop (the last one only evaluates the exit test)
}

const c16MaxUnroll = 8

// c16Unrollable finds the loops of fn to unroll.
func c16Unrollable(fn *ssa.Function, reach map[*ssa.BasicBlock]bool) []*c16UL {
	isLiteral := func(v ssa.Value) (*ssa.Alloc, bool) {
		switch x := v.(type) {
		case *ssa.Alloc:
			_, isArr := deref(x.Type()).Underlying().(*types.Array)
			return x, isArr
		case *ssa.Slice:
			if al, ok := x.X.(*ssa.Alloc); ok && x.Low == nil && x.High == nil {
				_, isArr := deref(al.Type()).Underlying().(*types.Array)
				return al, isArr
			}
		case *ssa.UnOp:
			if al, ok := x.X.(*ssa.Alloc); ok && x.Op == token.MUL {
				_, isArr := deref(al.Type()).Underlying().(*types.Array)
				return al, isArr
			}
		}
		return nil, false
	}
	var out []*c16UL
	for _, h := range fn.Blocks {
		if !reach[h] {
			continue
		}
		fromH := reachableFrom(h, nil)
		inLoop := func(b *ssa.BasicBlock) bool { return fromH[b] && reachableFrom(b, nil)[h] }
		for _, in := range h.Instrs {
			phi, ok := in.(*ssa.Phi)
			if !ok {
				break
			}
			if bt, isB := phi.Type().Underlying().(*types.Basic); !isB || bt.Info()&types.IsInteger == 0 {
				continue
			}
			lin := func(v ssa.Value) (int64, bool) { // v == phi + d
				if v == ssa.Value(phi) {
					return 0, true
				}
				if bo, ok := v.(*ssa.BinOp); ok && bo.Op == token.ADD && bo.X == ssa.Value(phi) {
					if k, ok := c16IntConst(bo.Y); ok {
						return k, true
					}
				}
				return 0, false
			}
			start, startOK, good := int64(0), false, true
			for i, e := range phi.Edges {
				if inLoop(h.Preds[i]) {
					if d, ok := lin(e); !ok || d != 1 {
						good = false
					}
					continue
				}
				if k, ok := c16IntConst(e); ok && (!startOK || k == start) {
					start, startOK = k, true
				} else {
					good = false
				}
			}
			if !good || !startOK {
				continue
			}
			ul := &c16UL{Header: h, Phi: phi, Start: start, Blocks: map[*ssa.BasicBlock]bool{}}
			bound, usesLiteral, hasDefer := int64(-1), false, false
			for _, b := range fn.Blocks {
				if !reach[b] || !inLoop(b) {
					continue
				}
				ul.Blocks[b] = true
				for _, bi := range b.Instrs {
					switch x := bi.(type) {
					case *ssa.Defer:
						hasDefer = true
					case *ssa.Index:
						if _, ok := isLiteral(x.X); ok {
							if _, ok := lin(x.Index); ok {
								usesLiteral = true
							}
						}
					case *ssa.IndexAddr:
						if _, ok := isLiteral(x.X); ok {
							if _, ok := lin(x.Index); ok {
								usesLiteral = true
							}
						}
					case *ssa.If:
						bo, ok := x.Cond.(*ssa.BinOp)
						if !ok {
							continue
						}
						for _, pair := range [][2]ssa.Value{{bo.X, bo.Y}, {bo.Y, bo.X}} {
							if _, ok := lin(pair[0]); !ok {
								continue
							}
							if k, ok := c16IntConst(pair[1]); ok {
								bound = k
							}
							if call, ok := pair[1].(*ssa.Call); ok && builtinName(call) == "len" && len(call.Call.Args) == 1 {
								if al, ok := isLiteral(call.Call.Args[0]); ok {
									bound = deref(al.Type()).Underlying().(*types.Array).Len()
								}
							}
						}
					}
				}
			}
			if !usesLiteral || hasDefer || bound < 0 || bound-start > c16MaxUnroll || bound-start < 0 {
				continue
			}
			ul.N = int(bound-start) + 2
			out = append(out, ul)
		}
	}
	// no nesting / overlap
	var keep []*c16UL
	for i, a := range out {
		ok := true
		for j, b := range out {
			if i == j {
				continue
			}
			for blk := range a.Blocks {
				if b.Blocks[blk] {
					ok = false
				}
			}
		}
		if ok {
			keep = append(keep, a)
		}
	}
	return keep
}

// fnCtx strips loop-iteration contexts: the context of the enclosing function.
func (c *c16Ctx) fnCtx() *c16Ctx {
	for c != nil && c.Iter > 0 {
		c = c.Parent
	}
	return c
}

func (g *c16G) build(fn *ssa.Function, ctx *c16Ctx) {
	reach := reachableFrom(fn.Blocks[0], nil)
	var defers []*ssa.Defer
	allInstrs(fn, func(in ssa.Instruction) {
		if d, ok := in.(*ssa.Defer); ok && reach[in.Block()] {
			defers = append(defers, d)
		}
	})
	loops := c16Unrollable(fn, reach)
	inUL := map[*ssa.BasicBlock]*c16UL{}
	iters := g.iters
	for _, ul := range loops {
		for b := range ul.Blocks {
			inUL[b] = ul
		}
	}
	splice := func(cur *c16B, n c16N, sb *ssa.BasicBlock, seg *int, bctx *c16Ctx) *c16B {
		callee, closure := g.inlinable(n.In.(ssa.CallInstruction), bctx)
		if callee == nil {
			return cur
		}
		g.nctx++
		cctx := &c16Ctx{Parent: bctx, Call: n.In.(ssa.CallInstruction), Fn: callee, Closure: closure, id: g.nctx}
		cctx.Once = callIs(n.In.(ssa.CallInstruction), "sync", "Once", "Do")
		g.inl[n] = cctx
		g.build(callee, cctx)
		*seg++
		next := g.newB(sb, bctx, *seg)
		c16Link(cur, g.first[c16bk{cctx, callee.Blocks[0]}])
		for _, lb := range g.rets[cctx] {
			c16Link(lb, next)
		}
		return next
	}
	buildBlock := func(sb *ssa.BasicBlock, bctx *c16Ctx) {
		seg := 0
		cur := g.newB(sb, bctx, 0)
		g.first[c16bk{bctx, sb}] = cur
		for _, in := range sb.Instrs {
			n := c16N{In: in, Ctx: bctx}
			cur.Ns = append(cur.Ns, n)
			switch x := in.(type) {
			case *ssa.Call:
				cur = splice(cur, n, sb, &seg, bctx)
			case *ssa.Return:
				g.rets[ctx] = append(g.rets[ctx], cur)
			case *ssa.RunDefers:
				for i := len(defers) - 1; i >= 0; i-- {
					d := defers[i]
					if d.Block() != sb && !reachableFrom(d.Block(), nil)[sb] {
						continue // cannot have been registered on the way here
					}
					seg++
					body := g.newB(sb, bctx, seg)
					c16Link(cur, body)
					rn := c16N{In: d, Ctx: bctx, Replay: true}
					body.Ns = append(body.Ns, rn)
					end := splice(body, rn, sb, &seg, bctx)
					seg++
					next := g.newB(sb, bctx, seg)
					c16Link(end, next)
					if !instrDominates(d, x) {
						c16Link(cur, next) // may not have been registered
					}
					cur = next
				}
			}
		}
		g.last[c16bk{bctx, sb}] = cur
	}
	for _, sb := range fn.Blocks {
		if reach[sb] && inUL[sb] == nil {
			buildBlock(sb, ctx)
		}
	}
	for _, ul := range loops {
		for j := 0; j < ul.N; j++ {
			g.nctx++
			ictx := &c16Ctx{Parent: ctx, Fn: fn, Iter: j + 1, Loop: ul, id: g.nctx}
			iters[ul] = append(iters[ul], ictx)
			for _, sb := range fn.Blocks {
				if reach[sb] && ul.Blocks[sb] {
					buildBlock(sb, ictx)
				}
			}
		}
	}
	// the context a successor block lives in, seen from a block in bctx
	target := func(bctx *c16Ctx, s *ssa.BasicBlock) *c16B {
		ul := inUL[s]
		switch {
		case ul == nil:
			return g.first[c16bk{ctx, s}]
		case bctx != nil && bctx.Loop == ul && bctx.Iter > 0:
			if s != ul.Header {
				return g.first[c16bk{bctx, s}]
			}
			if bctx.Iter < len(iters[ul]) {
				return g.first[c16bk{iters[ul][bctx.Iter], s}] // next iteration
			}
			if g.sink == nil {
				g.sink = g.newB(s, ctx, -1)
			}
			return g.sink // more iterations than unrolled: must turn out infeasible
		default:
			return g.first[c16bk{iters[ul][0], s}] // entering the loop
		}
	}
	linkBlock := func(sb *ssa.BasicBlock, bctx *c16Ctx) {
		from := g.last[c16bk{bctx, sb}]
		// a branch on a value that is a constant in this context (a bool argument of
		// an inlined helper, a test on the index of an unrolled loop) has only one
		// feasible successor
		if n := len(sb.Instrs); n > 0 && len(sb.Succs) == 2 {
			if ifi, ok := sb.Instrs[n-1].(*ssa.If); ok {
				cv, br := g.Res(c16V{ifi.Cond, bctx}), true
				for {
					if u, ok := cv.V.(*ssa.UnOp); ok && u.Op == token.NOT {
						cv, br = g.Res(c16V{u.X, cv.Ctx}), !br
						continue
					}
					break
				}
				if k, ok := cv.V.(*ssa.Const); ok && k.Value != nil && (k.Value.String() == "true" || k.Value.String() == "false") {
					taken := 1
					if (k.Value.String() == "true") == br {
						taken = 0
					}
					c16Link(from, target(bctx, sb.Succs[taken]))
					return
				}
			}
		}
		for _, s := range sb.Succs {
			c16Link(from, target(bctx, s))
		}
	}
	for _, sb := range fn.Blocks {
		if reach[sb] && inUL[sb] == nil {
			linkBlock(sb, ctx)
		}
	}
	for _, ul := range loops {
		for _, ictx := range iters[ul] {
			for _, sb := range fn.Blocks {
				if reach[sb] && ul.Blocks[sb] {
					linkBlock(sb, ictx)
				}
			}
		}
	}
}

// ---- graph queries

func (g *c16G) Dominates(a, b *c16B) bool {
	for {
		if a == b {
			return true
		}
		if b == nil || b.idom == nil || b.idom == b {
			return false
		}
		b = b.idom
	}
}

func (g *c16G) pos(n c16N) int {
	b := g.where[n]
	for i, m := range b.Ns {
		if m == n {
			return i
		}
	}
	return -1
}

// NDominates: occurrence a is executed before b on every path to b.
func (g *c16G) NDominates(a, b c16N) bool {
	ba, bb := g.where[a], g.where[b]
	if ba == nil || bb == nil {
		return false
	}
	if ba == bb {
		return g.pos(a) < g.pos(b)
	}
	return g.Dominates(ba, bb)
}

func (g *c16G) Reach(from *c16B) map[*c16B]bool {
	if m := g.reach[from]; m != nil {
		return m
	}
	m := map[*c16B]bool{}
	var walk func(b *c16B)
	walk = func(b *c16B) {
		if m[b] {
			return
		}
		m[b] = true
		for _, s := range b.Succs {
			walk(s)
		}
	}
	walk(from)
	g.reach[from] = m
	return m
}

func (g *c16G) OnCycle(b *c16B) bool {
	for _, s := range b.Succs {
		if g.Reach(s)[b] {
			return true
		}
	}
	return false
}

// All iterates over every instruction occurrence.
func (g *c16G) All(f func(n c16N, b *c16B)) {
	for _, b := range g.Blocks {
		for _, n := range b.Ns {
			f(n, b)
		}
	}
}

// Effective reports whether the occurrence executes its instruction here
// (false for a Defer at its registration site, and for inlined calls the call
// instruction itself is only a marker: its effect is the spliced body).
func (g *c16G) Effective(n c16N) bool {
	if _, isDefer := n.In.(*ssa.Defer); isDefer && !n.Replay {
		return false
	}
	return true
}

func (g *c16G) Inlined(n c16N) bool { return g.inl[n] != nil }

func (g *c16G) Pos(n c16N) token.Pos { return instrPos(n.In) }

// EdgeCond: the branch fact of the edge itself.
func (g *c16G) EdgeCond(from, to *c16B) (c16C, bool) {
	if len(from.Ns) == 0 || len(from.Succs) != 2 || from.Succs[0] == from.Succs[1] {
		return c16C{}, false
	}
	ifi, ok := from.Ns[len(from.Ns)-1].In.(*ssa.If)
	if !ok {
		return c16C{}, false
	}
	// Succs were linked in SSA order: [0] = true branch
	return c16C{V: g.Val(c16V{ifi.Cond, from.Ctx}), Branch: from.Succs[0] == to}, true
}

// DomConds: branch facts established by the edges that dominate b.
func (g *c16G) DomConds(b *c16B) []c16C {
	var out []c16C
	for s := b; s != nil; s = s.idom {
		if len(s.Preds) == 1 {
			if c, ok := g.EdgeCond(s.Preds[0], s); ok {
				out = append(out, c)
			}
		}
		if s.idom == s {
			break
		}
	}
	return out
}

// CondSets: one set of branch facts per backward path prefix into b (joins are
// split per predecessor up to depth levels); every real path into b satisfies
// at least one of the sets.
func (g *c16G) CondSets(b *c16B, depth int) [][]c16C {
	return g.expandSets(g.condSets(b, depth))
}

func (g *c16G) condSets(b *c16B, depth int) [][]c16C {
	if len(b.Preds) <= 1 || depth == 0 {
		return [][]c16C{g.DomConds(b)}
	}
	var out [][]c16C
	for _, p := range b.Preds {
		if g.Dominates(b, p) { // back edge
			out = append(out, g.DomConds(b))
			continue
		}
		var own []c16C
		if c, ok := g.EdgeCond(p, b); ok {
			own = append(own, c)
		}
		for _, set := range g.condSets(p, depth-1) {
			out = append(out, append(append([]c16C(nil), set...), own...))
		}
	}
	return out
}

// contradictory: both outcomes of one If occurrence that is not in a loop.
func (g *c16G) contradictory(conds []c16C) bool {
	seen := map[c16V]bool{}
	val := map[c16V]bool{}
	tag := map[*c16Ctx]int{}
	for _, c := range conds {
		if c.Ret > 0 {
			if t, ok := tag[c.V.Ctx]; ok && t != c.Ret {
				return true
			}
			tag[c.V.Ctx] = c.Ret
			continue
		}
		kk := c.V
		if seen[kk] && val[kk] != c.Branch {
			in, isInstr := kk.V.(ssa.Instruction)
			if !isInstr {
				return true
			}
			if b := g.where[c16N{In: in, Ctx: kk.Ctx}]; b == nil || !g.OnCycle(b) {
				return true
			}
		}
		seen[kk], val[kk] = true, c.Branch
	}
	return false
}

// expand splits a set of facts whose condition is a short-circuit value (a
// phi of booleans, as `a || b` is lowered when it is not directly an if
// condition) into the alternatives it stands for. nil = infeasible.
func (g *c16G) expand(set []c16C, depth int) [][]c16C {
	for i, c := range set {
		if c.Ret != 0 || depth == 0 {
			continue
		}
		v, br := c.V, c.Branch
		for {
			if u, ok := v.V.(*ssa.UnOp); ok && u.Op == token.NOT {
				v, br = g.Res(c16V{u.X, v.Ctx}), !br
				continue
			}
			break
		}
		splice := func(extra []c16C) [][]c16C {
			ns := append(append(append([]c16C(nil), set[:i]...), extra...), set[i+1:]...)
			if g.contradictory(ns) {
				return nil
			}
			return g.expand(ns, depth-1)
		}
		// (a) the condition is the boolean result of a helper with several returns
		if cctx, idx, ok := g.callOf(v); ok {
			var out [][]c16C
			for k, rb := range g.returnsOf(cctx) {
				ret := rb.Ns[len(rb.Ns)-1].In.(*ssa.Return)
				extra := append(g.DomConds(rb), c16C{V: c16V{nil, cctx}, Ret: k + 1})
				rv := g.Res(c16V{ret.Results[idx], cctx})
				if kc, isConst := rv.V.(*ssa.Const); isConst && kc.Value != nil {
					if (kc.Value.String() == "true") != br {
						continue
					}
				} else {
					extra = append(extra, c16C{V: rv, Branch: br})
				}
				out = append(out, splice(extra)...)
			}
			return out
		}
		// (b) a comparison one operand of which is a result of such a helper:
		// split per return and drop the returns for which the comparison is decided
		if bo, isCmp := v.V.(*ssa.BinOp); isCmp && (bo.Op == token.EQL || bo.Op == token.NEQ) {
			for _, opnd := range []ssa.Value{bo.X, bo.Y} {
				other := bo.Y
				if opnd == bo.Y {
					other = bo.X
				}
				cctx, idx, ok := g.callOf(g.Res(c16V{opnd, v.Ctx}))
				otherK, otherIsConst := g.Res(c16V{other, v.Ctx}).V.(*ssa.Const)
				if !ok || !otherIsConst {
					continue
				}
				wantEq := (bo.Op == token.EQL) == br
				var out [][]c16C
				for k, rb := range g.returnsOf(cctx) {
					ret := rb.Ns[len(rb.Ns)-1].In.(*ssa.Return)
					dc := g.DomConds(rb)
					rv := g.Res(c16V{ret.Results[idx], cctx})
					// is "rv == other" decided for this return? (nil, flags, small enums)
					decided, equal := false, false
					if rk, isK := rv.V.(*ssa.Const); isK {
						switch {
						case rk.Value == nil || otherK.Value == nil:
							decided, equal = true, rk.Value == nil && otherK.Value == nil
						case rk.Value.Kind() == otherK.Value.Kind():
							decided, equal = true, constant.Compare(rk.Value, token.EQL, otherK.Value)
						}
					} else if otherK.IsNil() && g.FactsAbout(dc, []c16V{rv}).NonNil {
						decided, equal = true, false
					}
					if decided && equal != wantEq {
						continue // this return cannot take this branch
					}
					extra := append(dc, c16C{V: c16V{nil, cctx}, Ret: k + 1}, c16C{V: v, Branch: br, Ret: -1})
					out = append(out, splice(extra)...)
				}
				return out
			}
		}
		phi, ok := v.V.(*ssa.Phi)
		if !ok {
			continue
		}
		if b, isB := phi.Type().Underlying().(*types.Basic); !isB || b.Kind() != types.Bool {
			continue
		}
		bb := g.first[c16bk{v.Ctx, phi.Block()}]
		var out [][]c16C
		for k, e := range phi.Edges {
			pb, ectx := g.phiPred(v.Ctx, phi, k)
			if pb == nil || bb == nil {
				continue
			}

			extra := g.DomConds(pb) // held when the selected predecessor ran
			if ec, ok := g.EdgeCond(pb, bb); ok {
				extra = append(extra, ec)
			}
			if kc, isConst := e.(*ssa.Const); isConst && kc.Value != nil {
				if (kc.Value.String() == "true") != br {
					continue
				}
			} else {
				extra = append(extra, c16C{V: g.Res(c16V{e, ectx}), Branch: br})
			}
			out = append(out, splice(extra)...)
		}
		return out
	}
	for i := range set {
		if set[i].Ret < 0 {
			set[i].Ret = 0 // "already split" marker of case (b)
		}
	}
	return [][]c16C{set}
}

func (g *c16G) expandSets(sets [][]c16C) [][]c16C {
	var out [][]c16C
	for _, s := range sets {
		out = append(out, g.expand(s, 6)...)
	}
	return out
}

// EdgeAlts: the alternative fact sets established by the edge itself.
func (g *c16G) EdgeAlts(from, to *c16B) [][]c16C {
	c, ok := g.EdgeCond(from, to)
	if !ok {
		return [][]c16C{nil}
	}
	return g.expand([]c16C{c}, 6)
}

// ---- values

// Res strips value-preserving conversions and resolves parameters of inlined
// callees to the caller's arguments, free variables to their bindings and loads
// of single-assignment cells to the stored value.
func (g *c16G) Res(v c16V) c16V {
	for i := 0; i < 64; i++ {
		// a value seen from a copy of an unrolled loop but defined outside the loop
		// belongs to the enclosing context
		for v.Ctx != nil && v.Ctx.Iter > 0 {
			in, isInstr := v.V.(ssa.Instruction)
			if isInstr && in.Block() != nil && in.Parent() == v.Ctx.Fn && v.Ctx.Loop.Blocks[in.Block()] {
				break
			}
			v.Ctx = v.Ctx.Parent
		}
		switch x := v.V.(type) {
		case *ssa.Phi:
			// the index of an unrolled loop is a constant in each copy
			if v.Ctx != nil && v.Ctx.Iter > 0 && x == v.Ctx.Loop.Phi {
				return c16V{g.intConst(v.Ctx.Loop.Start+int64(v.Ctx.Iter-1), x.Type()), nil}
			}
			return v
		case *ssa.BinOp:
			// constant folding (indices and tests of unrolled loops)
			xv, yv := g.Res(c16V{x.X, v.Ctx}), g.Res(c16V{x.Y, v.Ctx})
			xk, xok := c16IntConst(xv.V)
			yk, yok := c16IntConst(yv.V)
			if !xok || !yok {
				return v
			}
			switch x.Op {
			case token.ADD:
				return c16V{g.intConst(xk+yk, x.Type()), nil}
			case token.SUB:
				return c16V{g.intConst(xk-yk, x.Type()), nil}
			case token.LSS:
				return c16V{g.boolConst(xk < yk), nil}
			case token.LEQ:
				return c16V{g.boolConst(xk <= yk), nil}
			case token.GTR:
				return c16V{g.boolConst(xk > yk), nil}
			case token.GEQ:
				return c16V{g.boolConst(xk >= yk), nil}
			case token.EQL:
				return c16V{g.boolConst(xk == yk), nil}
			case token.NEQ:
				return c16V{g.boolConst(xk != yk), nil}
			}
			return v
		case *ssa.Call:
			// len of a local literal array / slice literal is a constant
			if builtinName(x) == "len" && len(x.Call.Args) == 1 {
				a := g.Res(c16V{x.Call.Args[0], v.Ctx})
				var al *ssa.Alloc
				switch y := a.V.(type) {
				case *ssa.Slice:
					if y.Low == nil && y.High == nil {
						al, _ = y.X.(*ssa.Alloc)
					}
				case *ssa.UnOp:
					if y.Op == token.MUL {
						al, _ = y.X.(*ssa.Alloc)
					}
				}
				if al != nil {
					if arr, isArr := deref(al.Type()).Underlying().(*types.Array); isArr {
						return c16V{g.intConst(arr.Len(), x.Type()), nil}
					}
				}
			}
			return v
		case *ssa.Index:
			// element of a local literal array at a constant index
			if e, ok := g.literalElem(c16V{x.X, v.Ctx}, c16V{x.Index, v.Ctx}); ok {
				v = e
				continue
			}
			return v
		case *ssa.Convert:
			v.V = x.X
		case *ssa.ChangeType:
			v.V = x.X
		case *ssa.ChangeInterface:
			v.V = x.X
		case *ssa.Parameter:
			if v.Ctx == nil {
				return v
			}
			idx := -1
			for k, pa := range v.Ctx.Fn.Params {
				if pa == x {
					idx = k
				}
			}
			args := v.Ctx.Call.Common().Args
			if cc := v.Ctx.Call.Common(); cc.IsInvoke() {
				args = append([]ssa.Value{cc.Value}, cc.Args...) // followed interface seam
			}
			if idx < 0 || idx >= len(args) {
				return v
			}
			v = c16V{args[idx], v.Ctx.Parent}
		case *ssa.FreeVar:
			if v.Ctx == nil {
				return v
			}
			mc, ok := v.Ctx.Closure.V.(*ssa.MakeClosure)
			if !ok {
				return v
			}
			idx := -1
			for k, fv := range v.Ctx.Fn.FreeVars {
				if fv == x {
					idx = k
				}
			}
			if idx < 0 || idx >= len(mc.Bindings) {
				return v
			}
			v = c16V{mc.Bindings[idx], v.Ctx.Closure.Ctx}
		case *ssa.UnOp:
			if x.Op != token.MUL {
				return v
			}
			if ia, ok := x.X.(*ssa.IndexAddr); ok {
				if e, ok := g.literalElem(c16V{ia.X, v.Ctx}, c16V{ia.Index, v.Ctx}); ok {
					v = e
					continue
				}
				return v
			}
			cell := g.Res(c16V{x.X, v.Ctx})
			al, ok := cell.V.(*ssa.Alloc)
			if !ok {
				return v
			}
			// a cell written exactly once (captured parameter / receiver, temporary)
			var only *ssa.Store
			cnt := 0
			for _, r := range refs(al) {
				switch y := r.(type) {
				case *ssa.Store:
					if y.Addr == al {
						only = y
						cnt++
					} else {
						return v // address stored somewhere
					}
				case *ssa.UnOp, *ssa.MakeClosure, *ssa.DebugRef:
				default:
					return v
				}
			}
			// stores through closures (free variables bound to the cell)
			if cnt != 1 || g.cellWrittenInClosures(al) {
				return v
			}
			v = c16V{only.Val, cell.Ctx}
		default:
			return v
		}
	}
	return v
}

func (g *c16G) cellWrittenInClosures(al *ssa.Alloc) bool {
	for _, r := range refs(al) {
		mc, ok := r.(*ssa.MakeClosure)
		if !ok {
			continue
		}
		fn := mc.Fn.(*ssa.Function)
		for i, b := range mc.Bindings {
			if b != al || i >= len(fn.FreeVars) {
				continue
			}
			for _, rr := range refs(fn.FreeVars[i]) {
				if st, ok := rr.(*ssa.Store); ok && st.Addr == fn.FreeVars[i] {
					return true
				}
				if _, ok := rr.(*ssa.MakeClosure); ok {
					return true
				}
			}
		}
	}
	return false
}

func (g *c16G) intConst(k int64, t types.Type) *ssa.Const {
	key := fmt.Sprintf("%s:%d", t.String(), k)
	if c := g.consts[key]; c != nil {
		return c
	}
	c := ssa.NewConst(constant.MakeInt64(k), t)
	g.consts[key] = c
	return c
}

func (g *c16G) boolConst(b bool) *ssa.Const {
	key := fmt.Sprintf("bool:%v", b)
	if c := g.consts[key]; c != nil {
		return c
	}
	c := ssa.NewConst(constant.MakeBool(b), types.Typ[types.Bool])
	g.consts[key] = c
	return c
}

// literalElem: arr denotes a local literal array (its address, its value or a
// slice of it) and idx is a constant: the value stored in that slot (the slot
// must be written exactly once, by the literal).
func (g *c16G) literalElem(arr, idx c16V) (c16V, bool) {
	k, ok := c16IntConst(g.Res(idx).V)
	if !ok {
		return c16V{}, false
	}
	a := g.Res(arr)
	var al *ssa.Alloc
	switch x := a.V.(type) {
	case *ssa.Alloc:
		al = x
	case *ssa.Slice:
		if x.Low == nil && x.High == nil {
			al, _ = x.X.(*ssa.Alloc)
		}
	case *ssa.UnOp:
		if x.Op == token.MUL {
			al, _ = x.X.(*ssa.Alloc)
		}
	}
	if al == nil {
		return c16V{}, false
	}
	if _, isArr := deref(al.Type()).Underlying().(*types.Array); !isArr {
		return c16V{}, false
	}
	var val ssa.Value
	n := 0
	for _, rr := range refs(al) {
		switch x := rr.(type) {
		case *ssa.Slice, *ssa.UnOp, *ssa.DebugRef:
		case *ssa.IndexAddr:
			j, isK := c16IntConst(x.Index)
			for _, r2 := range refs(x) {
				if st, isStore := r2.(*ssa.Store); isStore && st.Addr == ssa.Value(x) {
					if !isK {
						return c16V{}, false // written through a variable index
					}
					if j == k {
						val = st.Val
						n++
					}
				}
			}
		default:
			return c16V{}, false
		}
	}
	if n != 1 {
		return c16V{}, false
	}
	if mi, ok := val.(*ssa.MakeInterface); ok {
		val = mi.X
	}
	return c16V{val, a.Ctx}, true
}

// phiPred: the block an edge of phi comes from and the context its value lives
// in, seen from context ctx (the header of an unrolled loop gets its values
// from the enclosing code in the first copy and from the previous copy later).
func (g *c16G) phiPred(ctx *c16Ctx, phi *ssa.Phi, i int) (*c16B, *c16Ctx) {
	pred := phi.Block().Preds[i]
	if ctx != nil && ctx.Iter > 0 && phi.Block() == ctx.Loop.Header {
		if ctx.Loop.Blocks[pred] {
			if ctx.Iter < 2 {
				return nil, nil
			}
			prev := g.iters[ctx.Loop][ctx.Iter-2]
			return g.last[c16bk{prev, pred}], prev
		}
		if ctx.Iter != 1 {
			return nil, nil
		}
		return g.last[c16bk{ctx.Parent, pred}], ctx.Parent
	}
	return g.last[c16bk{ctx, pred}], ctx
}

// Val is Res followed, for merged values (phis, loads of local cells such as
// named results), by their unique origin if all origins are the same value.
func (g *c16G) Val(v c16V) c16V {
	v = g.Res(v)
	switch x := v.V.(type) {
	case *ssa.Phi:
	case *ssa.UnOp:
		if x.Op != token.MUL {
			return v
		}
		if _, ok := g.Res(c16V{x.X, v.Ctx}).V.(*ssa.Alloc); !ok {
			return v
		}
	case *ssa.Call, *ssa.Extract:
	default:
		return v
	}
	if g.valBusy[v] {
		return v
	}
	if w, ok := g.valMemo[v]; ok {
		return w
	}
	g.valBusy[v] = true
	ls := g.Leaves(v)
	delete(g.valBusy, v)
	out := v
	if len(ls) > 0 {
		same := true
		for _, l := range ls[1:] {
			if l.Val != ls[0].Val {
				same = false
			}
		}
		if same {
			out = ls[0].Val
		}
	}
	g.valMemo[v] = out
	return out
}

// Same: two values denote the same dynamic value.
func (g *c16G) Same(a, b c16V) bool {
	return g.Val(a) == g.Val(b)
}

// c16Leaf is one possible origin of a value with the facts known on the path
// segment that selected it and the merged values it passed through.
type c16Leaf struct {
	Val   c16V
	Conds []c16C
	Via   []c16V
}

// Leaves expands v through phis, results of inlined calls, parameters and
// loads of local cells (named results, captured variables) to its origins.
func (g *c16G) Leaves(v c16V) []c16Leaf {
	var out []c16Leaf
	seen := map[c16V]bool{}
	var walk func(v c16V, conds []c16C, via []c16V, depth int)
	walk = func(v c16V, conds []c16C, via []c16V, depth int) {
		v = g.Res(v)
		if depth > 24 || seen[v] {
			if !seen[v] {
				out = append(out, c16Leaf{v, conds, via})
			}
			return
		}
		cp := func(extra []c16C) []c16C { return append(append([]c16C(nil), conds...), extra...) }
		via2 := append(append([]c16V(nil), via...), v)
		switch x := v.V.(type) {
		case *ssa.Phi:
			seen[v] = true
			bb := g.first[c16bk{v.Ctx, x.Block()}]
			for i, e := range x.Edges {
				pb, ectx := g.phiPred(v.Ctx, x, i)
				if pb == nil || bb == nil {
					continue // unreachable predecessor
				}
				extra := g.DomConds(pb)
				if c, ok := g.EdgeCond(pb, bb); ok {
					extra = append(extra, c)
				}
				walk(c16V{e, ectx}, cp(extra), via2, depth+1)
			}
			seen[v] = false
			return
		case *ssa.Call:
			if cctx := g.inl[c16N{In: x, Ctx: v.Ctx}]; cctx != nil && x.Call.Signature().Results().Len() == 1 {
				seen[v] = true
				g.walkReturns(cctx, 0, func(rv c16V, extra []c16C) { walk(rv, cp(extra), via2, depth+1) })
				seen[v] = false
				return
			}
		case *ssa.Extract:
			if call, ok := x.Tuple.(*ssa.Call); ok {
				if cctx := g.inl[c16N{In: call, Ctx: v.Ctx}]; cctx != nil {
					seen[v] = true
					g.walkReturns(cctx, x.Index, func(rv c16V, extra []c16C) { walk(rv, cp(extra), via2, depth+1) })
					seen[v] = false
					return
				}
			}
		case *ssa.UnOp:
			if x.Op == token.MUL {
				cell := g.Res(c16V{x.X, v.Ctx})
				if al, ok := cell.V.(*ssa.Alloc); ok && g.cellIsPrivate(al) {
					seen[v] = true
					n := c16N{In: x, Ctx: v.Ctx}
					stores := g.reachingStores(cell, n)
					for _, st := range stores {
						walk(c16V{st.N.In.(*ssa.Store).Val, st.N.Ctx}, cp(append(g.DomConds(g.where[st.N]), st.Conds...)), via2, depth+1)
					}
					seen[v] = false
					if len(stores) > 0 {
						return
					}
				}
			}
		}
		out = append(out, c16Leaf{v, conds, via})
	}
	walk(v, nil, nil, 0)
	var exp []c16Leaf
	for _, lf := range out {
		for _, set := range g.expand(lf.Conds, 6) {
			if g.contradictory(set) {
				continue
			}
			l2 := lf
			l2.Conds = set
			exp = append(exp, l2)
		}
	}
	return exp
}

func (g *c16G) walkReturns(cctx *c16Ctx, idx int, f func(rv c16V, extra []c16C)) {
	rets := g.returnsOf(cctx)
	for k, lb := range rets {
		ret := lb.Ns[len(lb.Ns)-1].In.(*ssa.Return)
		if idx >= len(ret.Results) {
			continue
		}
		for _, set := range g.CondSets(lb, 3) {
			if len(rets) > 1 {
				set = append(append([]c16C(nil), set...), c16C{V: c16V{nil, cctx}, Ret: k + 1})
			}
			f(c16V{ret.Results[idx], lb.Ctx}, set)
		}
	}
}

// cellIsPrivate: the Alloc is only loaded, stored to, or captured by closures
// (its address does not otherwise escape).
func (g *c16G) cellIsPrivate(al *ssa.Alloc) bool {
	for _, r := range refs(al) {
		switch y := r.(type) {
		case *ssa.Store:
			if y.Addr != al {
				return false
			}
		case *ssa.UnOp, *ssa.MakeClosure, *ssa.DebugRef:
		default:
			return false
		}
	}
	return true
}

// c16Reaching is a store that may reach a load, with the branch facts of one
// path from the store to the load.
type c16Reaching struct {
	N     c16N
	Conds []c16C
}

// reachingStores: the store occurrences to the cell that may reach the load,
// one entry per (acyclic) path from the store to the load so that the facts
// established between them are kept. Falls back to fact-free entries when
// there are too many paths.
func (g *c16G) reachingStores(cell c16V, load c16N) []c16Reaching {
	lb := g.where[load]
	if lb == nil {
		return nil
	}
	isStore := func(n c16N) bool {
		st, ok := n.In.(*ssa.Store)
		return ok && g.Res(c16V{st.Addr, n.Ctx}) == cell
	}
	var out []c16Reaching
	overflow := false
	onPath := map[*c16B]bool{}
	var scan func(b *c16B, from int, conds []c16C)
	scan = func(b *c16B, from int, conds []c16C) {
		if overflow {
			return
		}
		for i := from; i >= 0; i-- {
			if isStore(b.Ns[i]) {
				out = append(out, c16Reaching{b.Ns[i], conds})
				if len(out) > 256 {
					overflow = true
				}
				return
			}
		}
		for _, p := range b.Preds {
			if onPath[p] {
				continue
			}
			onPath[p] = true
			nc := conds
			if c, ok := g.EdgeCond(p, b); ok {
				nc = append(append([]c16C(nil), conds...), c)
			}
			scan(p, len(p.Ns)-1, nc)
			delete(onPath, p)
		}
	}
	onPath[lb] = true
	scan(lb, g.pos(load)-1, nil)
	if !overflow {
		return out
	}
	// fallback: each store once, without path facts
	out = nil
	seenB := map[*c16B]bool{}
	var scan2 func(b *c16B, from int)
	scan2 = func(b *c16B, from int) {
		for i := from; i >= 0; i-- {
			if isStore(b.Ns[i]) {
				out = append(out, c16Reaching{b.Ns[i], nil})
				return
			}
		}
		for _, p := range b.Preds {
			if !seenB[p] {
				seenB[p] = true
				scan2(p, len(p.Ns)-1)
			}
		}
	}
	scan2(lb, g.pos(load)-1)
	return out
}

// c16RetLeaves: origins of result i at one exit of the root function.
type c16Ret struct {
	Exit   *c16B
	Ret    *ssa.Return
	Leaves []c16Leaf
}

func (g *c16G) ExitLeaves(i int) []c16Ret {
	var out []c16Ret
	for _, eb := range g.Exits {
		ret := eb.Ns[len(eb.Ns)-1].In.(*ssa.Return)
		if i >= len(ret.Results) {
			continue
		}
		sets := g.CondSets(eb, 4)
		var ls []c16Leaf
		for _, lf := range g.Leaves(c16V{ret.Results[i], nil}) {
			for _, set := range sets {
				l2 := lf
				l2.Conds = append(append([]c16C(nil), lf.Conds...), set...)
				if g.contradictory(l2.Conds) {
					continue
				}
				ls = append(ls, l2)
			}
		}
		out = append(out, c16Ret{eb, ret, ls})
	}
	return out
}

// ---- facts

// c16Cmp is a decoded comparison in a context.
type c16Cmp struct {
	Op   token.Token
	X, Y c16V
}

func (g *c16G) Cmp(c c16C) (c16Cmp, bool) {
	if c.Ret != 0 || c.V.V == nil {
		return c16Cmp{}, false
	}
	cmp, ok := decodeCond(c.V.V, c.Branch)
	if !ok {
		return c16Cmp{}, false
	}
	return c16Cmp{cmp.Op, c16V{cmp.X, c.V.Ctx}, c16V{cmp.Y, c.V.Ctx}}, true
}

// BoolCond: the condition is (a possibly negated) value v; returns v and the
// truth it has on this branch.
func (g *c16G) BoolCond(c c16C) (c16V, bool) {
	if c.Ret != 0 || c.V.V == nil {
		return c16V{}, false
	}
	cond, br := c.V.V, c.Branch
	for {
		if u, ok := cond.(*ssa.UnOp); ok && u.Op == token.NOT {
			cond, br = u.X, !br
			continue
		}
		break
	}
	if bo, ok := cond.(*ssa.BinOp); ok && (bo.Op == token.EQL || bo.Op == token.NEQ) {
		x, y := bo.X, bo.Y
		if _, isK := x.(*ssa.Const); isK {
			x, y = y, x
		}
		if k, isK := y.(*ssa.Const); isK && k.Value != nil && (k.Value.String() == "true" || k.Value.String() == "false") {
			kv := k.Value.String() == "true"
			if bo.Op == token.NEQ {
				kv = !kv
			}
			if !br {
				kv = !kv
			}
			return c16V{x, c.V.Ctx}, kv
		}
	}
	return c16V{cond, c.V.Ctx}, br
}

// Lin normalises an integer expression to base+offset.
func (g *c16G) Lin(v c16V, base func(c16V) string) (string, int64, bool) {
	v = g.Val(v)
	if b := base(v); b != "" {
		return b, 0, true
	}
	if bo, ok := v.V.(*ssa.BinOp); ok && (bo.Op == token.ADD || bo.Op == token.SUB) {
		if k, ok := c16IntConst(bo.Y); ok {
			if b, off, ok := g.Lin(c16V{bo.X, v.Ctx}, base); ok {
				if bo.Op == token.ADD {
					return b, off + k, true
				}
				return b, off - k, true
			}
		}
		if k, ok := c16IntConst(bo.X); ok && bo.Op == token.ADD {
			if b, off, ok := g.Lin(c16V{bo.Y, v.Ctx}, base); ok {
				return b, off + k, true
			}
		}
	}
	return "", 0, false
}

func (g *c16G) IntConst(v c16V) (int64, bool) {
	return c16IntConst(g.Val(v).V)
}

func (g *c16G) Rels(conds []c16C, base func(c16V) string) []c16Rel {
	var out []c16Rel
	for _, c := range conds {
		cmp, ok := g.Cmp(c)
		if !ok {
			continue
		}
		xb, xo, xok := g.Lin(cmp.X, base)
		yb, yo, yok := g.Lin(cmp.Y, base)
		xk, xc := g.IntConst(cmp.X)
		yk, yc := g.IntConst(cmp.Y)
		switch {
		case xok && yok:
			out = append(out, c16Rel{xb, yb, cmp.Op, yo - xo})
		case xok && yc:
			out = append(out, c16Rel{xb, "", cmp.Op, yk - xo})
		case yok && xc:
			out = append(out, c16Rel{yb, "", c16Flip(cmp.Op), xk - yo})
		}
	}
	return out
}

// IsGlobalLoad: v is a load of the package-level variable pkgPath.name.
func (g *c16G) IsGlobalLoad(v c16V, pkgPath, name string) bool {
	return c16IsGlobalLoad(g.Val(v).V, pkgPath, name)
}

func (g *c16G) IsNil(v c16V) bool { return isNilConst(g.Val(v).V) }

// IsFieldLoad: v is a load of field id.
func (g *c16G) IsFieldLoad(v c16V, id FieldID) bool {
	return c16IsFieldLoad(g.Val(v).V, id)
}

// FactsAbout: what the conds say about the error values vals.
func (g *c16G) FactsAbout(conds []c16C, vals []c16V) c16ErrFacts {
	var f c16ErrFacts
	rs := make([]c16V, len(vals))
	for i, v := range vals {
		rs[i] = g.Val(v)
	}
	is := func(v c16V) bool {
		v = g.Val(v)
		for _, w := range rs {
			if w == v {
				return true
			}
		}
		return false
	}
	for _, c := range conds {
		if cmp, ok := g.Cmp(c); ok && (cmp.Op == token.EQL || cmp.Op == token.NEQ) {
			x, y := cmp.X, cmp.Y
			if !is(x) {
				x, y = y, x
			}
			if !is(x) {
				continue
			}
			eq := cmp.Op == token.EQL
			switch {
			case g.IsNil(y):
				if eq {
					f.Nil, f.NotEOF = true, true
				} else {
					f.NonNil = true
				}
			case g.IsGlobalLoad(y, "io", "EOF"):
				if eq {
					f.IsEOF, f.NonNil = true, true
				} else {
					f.NotEOF = true
				}
			default:
				if u, isLoad := g.Res(y).V.(*ssa.UnOp); isLoad && eq {
					if _, isGlobal := u.X.(*ssa.Global); isGlobal {
						f.NonNil = true // equal to some sentinel
					}
				}
			}
			continue
		}
		if cv, truth := g.BoolCond(c); true {
			call, ok := cv.V.(*ssa.Call)
			if !ok || !callIs(call, "errors", "", "Is") || len(call.Call.Args) != 2 || !is(c16V{call.Call.Args[0], cv.Ctx}) {
				continue
			}
			tgt := c16V{call.Call.Args[1], cv.Ctx}
			if truth {
				f.NonNil = true
				if g.IsGlobalLoad(tgt, "io", "EOF") {
					f.IsEOF = true
				}
			} else if g.IsGlobalLoad(tgt, "io", "EOF") {
				f.NotEOF = true
			}
		}
	}
	return f
}

// ---- calls

// MethodCall: occurrence n effectively calls a method named `name` (interface
// invoke or static call of a method outside the package) on a receiver
// satisfying recv. Inlined calls are never reported (their body is visible).
func (g *c16G) MethodCall(n c16N, name string, recv func(c16V) bool) bool {
	ci, ok := n.In.(ssa.CallInstruction)
	if !ok || !g.Effective(n) || g.Inlined(n) {
		return false
	}
	if _, isGo := n.In.(*ssa.Go); isGo {
		return false
	}
	cc := ci.Common()
	if !cc.IsInvoke() {
		// a method value (x.Close bound earlier, possibly kept in a variable) being called
		if mc, ok := g.Val(c16V{cc.Value, n.Ctx}).V.(*ssa.MakeClosure); ok {
			if mname, rv, ok := c16Bound(mc); ok {
				return mname == name && recv(c16V{rv, g.Val(c16V{cc.Value, n.Ctx}).Ctx})
			}
		}
	}
	if cc.IsInvoke() {
		return cc.Method.Name() == name && recv(c16V{cc.Value, n.Ctx})
	}
	if f := staticCallee(ci); f != nil && f.Name() == name && f.Signature.Recv() != nil && len(cc.Args) > 0 {
		return recv(c16V{cc.Args[0], n.Ctx})
	}
	return false
}

// CallArgs returns the arguments without the receiver.
func (g *c16G) CallArgs(n c16N) []c16V {
	ci := n.In.(ssa.CallInstruction)
	cc := ci.Common()
	args := cc.Args
	if !cc.IsInvoke() {
		if f := staticCallee(ci); f != nil && f.Signature.Recv() != nil && len(args) > 0 {
			args = args[1:]
		}
	}
	out := make([]c16V, len(args))
	for i, a := range args {
		out[i] = c16V{a, n.Ctx}
	}
	return out
}

// StaticCall: n effectively calls the package-level function pkg.name.
func (g *c16G) StaticCall(n c16N, pkg, name string) bool {
	ci, ok := n.In.(ssa.CallInstruction)
	if !ok || !g.Effective(n) || g.Inlined(n) {
		return false
	}
	return callIs(ci, pkg, "", name)
}

// Result i of a call occurrence, as a value (nil V if unused).
func (g *c16G) Result(n c16N, i int) c16V {
	call, ok := n.In.(*ssa.Call)
	if !ok {
		return c16V{}
	}
	if v := callResult(call, i); v != nil {
		return c16V{v, n.Ctx}
	}
	return c16V{}
}

// CloserAssert: v is the value result of a type assertion to an interface with
// a Close method; returns the asserted operand.
func (g *c16G) CloserAssert(v c16V) (c16V, bool) {
	v = g.Val(v)
	var ta *ssa.TypeAssert
	if ex, ok := v.V.(*ssa.Extract); ok && ex.Index == 0 {
		ta, _ = ex.Tuple.(*ssa.TypeAssert)
	} else if t, ok := v.V.(*ssa.TypeAssert); ok && !t.CommaOk {
		ta = t
	}
	if ta == nil || !c16HasClose(ta.AssertedType) {
		return c16V{}, false
	}
	return c16V{ta.X, v.Ctx}, true
}

// AssertOk: the fact is about the ok result of a comma-ok assertion to a
// Closer interface; returns the operand and the truth of ok.
func (g *c16G) AssertOk(c c16C) (c16V, bool, bool) {
	cv, truth := g.BoolCond(c)
	cv = g.Res(cv)
	if ex, ok := cv.V.(*ssa.Extract); ok && ex.Index == 1 {
		if ta, ok := ex.Tuple.(*ssa.TypeAssert); ok && ta.CommaOk && c16HasClose(ta.AssertedType) {
			return c16V{ta.X, cv.Ctx}, truth, true
		}
	}
	return c16V{}, false, false
}

// ---- collecting dataflow

// c16Flow propagates sets of small abstract states (bit vectors) along the
// inlined graph. Every query is of the form "does some / every state reaching
// this point satisfy …", which gives path-sensitive may and must answers.
type c16Flow struct {
	G        *c16G
	Entry    uint32
	Transfer func(n c16N, s uint32) uint32
	// Edge refines a state along a CFG edge, given one alternative set of the
	// facts the edge establishes (nil for unconditional edges); false = infeasible.
	Edge func(conds []c16C, s uint32) (uint32, bool)

	in     map[*c16B]map[uint64]bool
	before map[c16N]map[uint32]bool
}

// The dataflow state carries, above the 32 rule bits, which return the most
// recent inlined multi-return call was left through (context id, return
// index), so that a later branch on that call's results only continues with
// the states that really came through the matching return.
func c16Track(s uint64) (id, k int, ok bool) {
	t := s >> 32
	if t == 0 {
		return 0, 0, false
	}
	return int(t >> 8), int(t&0xff) - 1, true
}

// retEdge: the edge leaves an inlined multi-return callee through its k-th return.
func (g *c16G) retEdge(from, to *c16B) (id, k int, ok bool) {
	fc := from.Ctx.fnCtx()
	if fc == nil || fc == to.Ctx.fnCtx() || fc.Parent != to.Ctx || len(from.Ns) == 0 {
		return 0, 0, false
	}
	if _, isRet := from.Ns[len(from.Ns)-1].In.(*ssa.Return); !isRet {
		return 0, 0, false
	}
	rs := g.returnsOf(fc)
	if len(rs) < 2 {
		return 0, 0, false
	}
	for i, rb := range rs {
		if rb == from {
			return fc.id, i, true
		}
	}
	return 0, 0, false
}

// step applies the edge from -> to to the full (tracked) state s.
func (f *c16Flow) step(from, to *c16B, cur map[uint64]bool, emit func(ns uint64)) {
	g := f.G
	rid, rk, isRet := g.retEdge(from, to)
	for _, alt := range g.EdgeAlts(from, to) {
		for s := range cur {
			feasible := true
			if tid, tk, ok := c16Track(s); ok {
				for _, c := range alt {
					if c.Ret > 0 && c.V.Ctx.id == tid && c.Ret-1 != tk {
						feasible = false
					}
				}
			}
			if !feasible {
				continue
			}
			user, ok := uint32(s), true
			if f.Edge != nil {
				user, ok = f.Edge(alt, user)
			}
			if !ok {
				continue
			}
			ns := uint64(user) | (s &^ 0xffffffff)
			if isRet {
				ns = uint64(user) | (uint64(rid)<<8|uint64(rk+1))<<32
			}
			emit(ns)
		}
	}
}

func (f *c16Flow) through(b *c16B, record bool) map[uint64]bool {
	cur := map[uint64]bool{}
	for s := range f.in[b] {
		cur[s] = true
	}
	for _, n := range b.Ns {
		var bm map[uint32]bool
		if record {
			bm = f.before[n]
			if bm == nil {
				bm = map[uint32]bool{}
				f.before[n] = bm
			}
		}
		nxt := map[uint64]bool{}
		for s := range cur {
			if record {
				bm[uint32(s)] = true
			}
			nxt[uint64(f.Transfer(n, uint32(s)))|(s&^0xffffffff)] = true
		}
		cur = nxt
	}
	return cur
}

func (f *c16Flow) Run() {
	g := f.G
	f.in = map[*c16B]map[uint64]bool{}
	f.before = map[c16N]map[uint32]bool{}
	f.in[g.Entry] = map[uint64]bool{uint64(f.Entry): true}
	work := []*c16B{g.Entry}
	queued := map[*c16B]bool{g.Entry: true}
	steps := 0
	for len(work) > 0 {
		b := work[0]
		work = work[1:]
		queued[b] = false
		steps++
		if steps > 200000 {
			undecided("C16 dataflow did not converge on %s", g.Root.Name())
		}
		cur := f.through(b, true)
		for _, sb := range b.Succs {
			dst := f.in[sb]
			if dst == nil {
				dst = map[uint64]bool{}
				f.in[sb] = dst
			}
			changed := false
			f.step(b, sb, cur, func(ns uint64) {
				if !dst[ns] {
					dst[ns] = true
					changed = true
				}
			})
			if changed && !queued[sb] {
				queued[sb] = true
				work = append(work, sb)
			}
		}
	}
}

// Any: some state before occurrence n satisfies pred (false if unreachable).
func (f *c16Flow) Any(n c16N, pred func(s uint32) bool) bool {
	for s := range f.before[n] {
		if pred(s) {
			return true
		}
	}
	return false
}

func (f *c16Flow) Reached(n c16N) bool { return len(f.before[n]) > 0 }

// AtExits calls cb for every reachable exit of the root function with the
// states before its Return.
func (f *c16Flow) AtExits(cb func(exit *c16B, ret c16N, states map[uint32]bool)) {
	for _, eb := range f.G.Exits {
		rn := eb.Ns[len(eb.Ns)-1]
		if st := f.before[rn]; len(st) > 0 {
			cb(eb, rn, st)
		}
	}
}

// OutEdge: the states flowing along the edge from -> to.
func (f *c16Flow) OutEdge(from, to *c16B) map[uint32]bool {
	out := map[uint32]bool{}
	f.step(from, to, f.through(from, false), func(ns uint64) { out[uint32(ns)] = true })
	return out
}

func c16AnyState(st map[uint32]bool, pred func(s uint32) bool) bool {
	for s := range st {
		if pred(s) {
			return true
		}
	}
	return false
}

// ---- roles

// c16FieldByType finds the unique field of struct type named whose type
// satisfies pred; hint is the historical name used as a tie-breaker.
func c16FieldByType(named *types.Named, what, hint string, pred func(t types.Type) bool) FieldID {
	st, ok := named.Underlying().(*types.Struct)
	if !ok {
		undecided("anchor type %s is no longer a struct", named.Obj().Name())
	}
	// the field may sit in a nested (embedded or named, value or pointer) struct
	// of the same package: state grouped into a sub-struct
	var cands []FieldID
	var visit func(t types.Type, st *types.Struct, depth int)
	visit = func(t types.Type, st *types.Struct, depth int) {
		for i := 0; i < st.NumFields(); i++ {
			ft := st.Field(i).Type()
			if pred(ft) {
				cands = append(cands, FieldID{namedKey(t), st.Field(i).Name()})
				continue
			}
			if depth >= 3 {
				continue
			}
			inner := deref(ft)
			if n, isNamed := inner.(*types.Named); isNamed && (n.Obj().Pkg() == nil || n.Obj().Pkg() != named.Obj().Pkg()) {
				continue // a type of another package (sync.Mutex, …)
			}
			if ist, isStruct := inner.Underlying().(*types.Struct); isStruct {
				visit(inner, ist, depth+1)
			}
		}
	}
	visit(named, st, 0)
	switch len(cands) {
	case 0:
		undecided("type %s has no field playing the role %q", named.Obj().Name(), what)
	case 1:
		return cands[0]
	}
	for _, c := range cands {
		if c.Field == hint {
			return c
		}
	}
	undecided("type %s has %d candidate fields for the role %q (%v)", named.Obj().Name(), len(cands), what, cands)
	return FieldID{}
}

// c16EachField visits the fields of named and of its nested same-package structs.
func c16EachField(named *types.Named, f func(name string, t types.Type)) {
	var visit func(st *types.Struct, depth int)
	visit = func(st *types.Struct, depth int) {
		for i := 0; i < st.NumFields(); i++ {
			ft := st.Field(i).Type()
			f(st.Field(i).Name(), ft)
			if depth >= 3 {
				continue
			}
			inner := deref(ft)
			if n, isNamed := inner.(*types.Named); isNamed && (n.Obj().Pkg() == nil || n.Obj().Pkg() != named.Obj().Pkg()) {
				continue
			}
			if ist, isStruct := inner.Underlying().(*types.Struct); isStruct {
				visit(ist, depth+1)
			}
		}
	}
	if st, ok := named.Underlying().(*types.Struct); ok {
		visit(st, 0)
	}
}

// c16FieldByTypeName: like c16FieldByType but restricted to the field called name.
func c16FieldByTypeName(named *types.Named, what, name string, pred func(t types.Type) bool) FieldID {
	var id FieldID
	found := false
	var visit func(t types.Type, st *types.Struct, depth int)
	visit = func(t types.Type, st *types.Struct, depth int) {
		for i := 0; i < st.NumFields(); i++ {
			ft := st.Field(i).Type()
			if pred(ft) && st.Field(i).Name() == name {
				id, found = FieldID{namedKey(t), name}, true
			}
			if depth >= 3 {
				continue
			}
			inner := deref(ft)
			if n, isNamed := inner.(*types.Named); isNamed && (n.Obj().Pkg() == nil || n.Obj().Pkg() != named.Obj().Pkg()) {
				continue
			}
			if ist, isStruct := inner.Underlying().(*types.Struct); isStruct {
				visit(inner, ist, depth+1)
			}
		}
	}
	if st, ok := named.Underlying().(*types.Struct); ok {
		visit(named, st, 0)
	}
	if !found {
		undecided("type %s has no field %s playing the role %q", named.Obj().Name(), name, what)
	}
	return id
}

func c16HasMethod(t types.Type, name string) bool {
	ms := types.NewMethodSet(t)
	for i := 0; i < ms.Len(); i++ {
		if ms.At(i).Obj().Name() == name {
			return true
		}
	}
	return false
}

func c16IsIface(t types.Type) bool {
	_, ok := t.Underlying().(*types.Interface)
	return ok
}

// c16Method resolves an (exported, interface-mandated) method of a named type.
func c16Method(p *Prog, named *types.Named, name string) *ssa.Function {
	for i := 0; i < named.NumMethods(); i++ {
		if m := named.Method(i); m.Name() == name {
			if fn := p.SSA.FuncValue(m); fn != nil {
				return fn
			}
		}
	}
	return nil
}

// Unk records that a rule met a shape it cannot interpret: the verdict for
// this entry point can then only be OK or UNDECIDED for "construct absent"
// findings (absence is not established when something was not understood).
func (g *c16G) Unk(r *Report, format string, args ...any) {
	msg := fmt.Sprintf(format, args...)
	g.Unknown = append(g.Unknown, msg)
	r.Undecide("%s", msg)
}

// Escapes: the value of field f (or, if elem, an element of the slice in f) is
// handed to a call that is not followed (so what happens to it is unknown).
func (g *c16G) Escapes(f FieldID, elem bool, modelled ...string) string {
	out := ""
	g.All(func(n c16N, b *c16B) {
		var args []ssa.Value
		name := "a function value"
		switch x := n.In.(type) {
		case ssa.CallInstruction:
			if g.Inlined(n) {
				return
			}
			if _, isB := x.Common().Value.(*ssa.Builtin); isB {
				return
			}
			if x.Common().IsInvoke() {
				args = x.Common().Args // the receiver of an invoke is a modelled method call or irrelevant
			} else {
				args = x.Common().Args
				if f := staticCallee(x); f != nil && f.Signature.Recv() != nil && len(args) > 0 && f.Pkg != g.Root.Pkg {
					args = args[1:] // receiver of a method of another package (e.g. a bound interface method)
				}
			}
			if co := calleeObj(x); co != nil {
				name = co.FullName()
				for _, m := range modelled {
					if m == name {
						return
					}
				}
			}
		case *ssa.Store:
			// the value is put into memory the analysis does not track (an element of
			// a local slice/array literal, a field of another struct, a map, …)
			switch x.Addr.(type) {
			case *ssa.IndexAddr:
				args, name = []ssa.Value{x.Val}, "a slice/array element (local aggregate)"
			case *ssa.FieldAddr:
				if fieldIDOfAddr(x.Addr.(*ssa.FieldAddr)) == f {
					return
				}
				args, name = []ssa.Value{x.Val}, "a field of another object"
			default:
				return
			}
			if elem {
				return // list elements are moved between slots by the list operations themselves
			}
		case *ssa.MapUpdate:
			args, name = []ssa.Value{x.Value}, "a map"
		case *ssa.Send:
			args, name = []ssa.Value{x.X}, "a channel"
		case *ssa.MakeClosure:
			if _, _, ok := c16Bound(x); ok {
				return // a bound interface method: recognised by MethodCall when called
			}
			if fn, ok := x.Fn.(*ssa.Function); ok && len(fn.Blocks) > 0 && fn.Pkg == g.Root.Pkg {
				return // a closure of this package: followed when called
			}
			args = x.Bindings
			name = "a closure"
		default:
			return
		}
		for _, a := range args {
			if mi, isMI := a.(*ssa.MakeInterface); isMI {
				a = mi.X
			}
			v := g.Val(c16V{a, n.Ctx})
			hit := g.IsFieldLoad(v, f)
			if fa, ok := v.V.(*ssa.FieldAddr); ok && fieldIDOfAddr(fa) == f {
				hit = true
			}
			if elem {
				if u, ok := v.V.(*ssa.UnOp); ok && u.Op == token.MUL {
					if ia, ok := u.X.(*ssa.IndexAddr); ok && g.IsFieldLoad(c16V{ia.X, v.Ctx}, f) {
						hit = true
					}
				}
			}
			if hit {
				out = name
			}
		}
	})
	return out
}

// Mentions: the expression v is computed from target (through arithmetic and
// conversions).
func (g *c16G) Mentions(v, target c16V, depth int) bool {
	v = g.Val(v)
	if v == target {
		return true
	}
	if depth > 8 {
		return false
	}
	switch x := v.V.(type) {
	case *ssa.BinOp:
		return g.Mentions(c16V{x.X, v.Ctx}, target, depth+1) || g.Mentions(c16V{x.Y, v.Ctx}, target, depth+1)
	case *ssa.UnOp:
		return g.Mentions(c16V{x.X, v.Ctx}, target, depth+1)
	case *ssa.Call:
		for _, a := range x.Call.Args {
			if g.Mentions(c16V{a, v.Ctx}, target, depth+1) {
				return true
			}
		}
	case *ssa.Phi:
		for _, e := range x.Edges {
			if g.Mentions(c16V{e, v.Ctx}, target, depth+1) {
				return true
			}
		}
	}
	return false
}

// c16Bound: mc is a bound method value `x.M`; returns M and x.
func c16Bound(mc *ssa.MakeClosure) (string, ssa.Value, bool) {
	fn, ok := mc.Fn.(*ssa.Function)
	if !ok || len(mc.Bindings) != 1 || !strings.HasSuffix(fn.Name(), "$bound") {
		return "", nil, false
	}
	return strings.TrimSuffix(fn.Name(), "$bound"), mc.Bindings[0], true
}

// IsCount: the leaf yields the byte count target: it is that value, or an
// integer constant k on a path where the facts pin the count to k (e.g.
// `if n == 0 { return 0, err }`; counts are never negative).
func (g *c16G) IsCount(lf c16Leaf, target c16V) bool {
	if lf.Val == target {
		return true
	}
	k, ok := c16IntConst(lf.Val.V)
	if !ok {
		return false
	}
	for _, rel := range g.Rels(lf.Conds, func(v c16V) string {
		if v == target {
			return "cnt"
		}
		return ""
	}) {
		if rel.X != "cnt" || rel.Y != "" {
			continue
		}
		if rel.Op == token.EQL && rel.K == k {
			return true
		}
		if k == 0 && rel.impliesLE(0) {
			return true
		}
	}
	return false
}

// InOnce: the occurrence is executed inside a function run by sync.Once.Do.
func (n c16N) InOnce() bool {
	for c := n.Ctx; c != nil; c = c.Parent {
		if c.Once {
			return true
		}
	}
	return false
}

// AtomicBoolOp: v is a call of a method of sync/atomic.Bool on field f;
// returns the method name ("Load", "Store", "Swap", "CompareAndSwap") and the
// call.
func (g *c16G) AtomicBoolOp(v c16V, f FieldID) (string, *ssa.Call) {
	call, ok := g.Res(v).V.(*ssa.Call)
	if !ok || call.Call.IsInvoke() || len(call.Call.Args) == 0 {
		return "", nil
	}
	obj := calleeObj(call)
	if obj == nil || obj.Pkg() == nil || obj.Pkg().Path() != "sync/atomic" {
		return "", nil
	}
	sig := obj.Type().(*types.Signature)
	if sig.Recv() == nil || typeBaseName(sig.Recv().Type()) != "Bool" {
		return "", nil
	}
	fa, ok := g.Res(c16V{call.Call.Args[0], g.Res(v).Ctx}).V.(*ssa.FieldAddr)
	if !ok || fieldIDOfAddr(fa) != f {
		return "", nil
	}
	return obj.Name(), call
}

func c16Desc(g *c16G) string {
	if len(g.Unfollowed) == 0 {
		return ""
	}
	return fmt.Sprintf(" (not followed: %v)", g.Unfollowed)
}
