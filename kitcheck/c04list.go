package main

import (
	"fmt"
	"go/token"
	"go/types"
	"sort"

	"golang.org/x/tools/go/ssa"
)

// ---------------------------------------------------------------------------
// P7-list-terms: every term of a list is validated
//
// A field is a comma-separated list of ranges, and the expression is refused if
// ANY term is malformed. In the parser layer a loop whose body hands a value of
// the iteration to code that reaches the bit-set builder is such a "one call per
// term (or column)" loop. Necessary: an iteration can only avoid the call, and
// the loop can only be left before its sequence is exhausted, on the way to an
// error — never depending on what the terms before produced. An exit or skip
// governed by a nil test of an error, or leading only to returns with a fresh
// error, is fine; one that depends on the results of earlier terms and reaches a
// `return ..., nil` accepts lists whose later terms nobody looked at ('*,99').

// c04ReachSet: the functions of fns from which `sink` is reached through calls (sink included).
func c04ReachSet(tb *c04TermBuilder, fns []*ssa.Function, sink *ssa.Function) map[*ssa.Function]bool {
	reach := map[*ssa.Function]bool{sink: true}
	callees := func(c ssa.CallInstruction) []*ssa.Function {
		if cal := staticCallee(c); cal != nil {
			return []*ssa.Function{origin(cal)}
		}
		return tb.Targets(c)
	}
	for changed := true; changed; {
		changed = false
		for _, fn := range fns {
			if reach[fn] {
				continue
			}
			allInstrs(fn, func(in ssa.Instruction) {
				if c, ok := in.(ssa.CallInstruction); ok && !reach[fn] {
					for _, cal := range callees(c) {
						if reach[cal] {
							reach[fn] = true
							changed = true
						}
					}
					// a closure made here and handed on counts as part of this function
					if mc, ok := c.Common().Value.(*ssa.MakeClosure); ok {
						if f, _ := mc.Fn.(*ssa.Function); f != nil && reach[f] {
							reach[fn] = true
							changed = true
						}
					}
				}
			})
		}
	}
	return reach
}

func c04ListLoops(p *Prog, r *Report, rule string, fns []*ssa.Function, sink *ssa.Function) int {
	tb := newC04TermBuilder(p)
	reach := c04ReachSet(tb, fns, sink)
	n := 0
	sorted := append([]*ssa.Function{}, fns...)
	sort.Slice(sorted, func(i, j int) bool { return sorted[i].Pos() < sorted[j].Pos() })
	for _, fn := range sorted {
		if fn == sink || len(fn.Blocks) == 0 {
			continue
		}
		k := 0
		for _, h := range fn.Blocks {
			isHeader := false
			for _, pb := range h.Preds {
				if h.Dominates(pb) {
					isHeader = true
				}
			}
			if !isHeader {
				continue
			}
			body := c04LoopOf(h)
			// the calls of the body that reach the builder with a value computed in the iteration
			var calls []*ssa.Call
			for b := range body {
				for _, in := range b.Instrs {
					c, ok := in.(*ssa.Call)
					if !ok {
						continue
					}
					hit := false
					if cal := staticCallee(c); cal != nil {
						hit = reach[origin(cal)] && origin(cal) != fn
					} else {
						for _, t := range tb.Targets(c) {
							if reach[t] {
								hit = true
							}
						}
					}
					if !hit {
						continue
					}
					perIter := false
					for _, a := range c.Common().Args {
						if ai, ok := a.(ssa.Instruction); ok && body[ai.Block()] {
							perIter = true
						}
					}
					if perIter {
						calls = append(calls, c)
					}
				}
			}
			if len(calls) == 0 {
				continue
			}
			// an inner loop of a loop already judged through the same calls is judged on its own too
			k++
			n++
			c04JudgeListLoop(p, r, rule, fn, h, body, calls, reach, tb, k)
		}
	}
	return n
}

func c04JudgeListLoop(p *Prog, r *Report, rule string, fn *ssa.Function, h *ssa.BasicBlock, body map[*ssa.BasicBlock]bool, calls []*ssa.Call, reach map[*ssa.Function]bool, tb *c04TermBuilder, k int) {
	construct := fmt.Sprintf("%s term loop #%d", FuncName(p, fn), k)
	pos := p.Pos(instrPos(calls[0]))
	isReachCall := func(in ssa.Instruction) bool {
		for _, c := range calls {
			if in == ssa.Instruction(c) {
				return true
			}
		}
		return false
	}
	// does v depend on what a builder-reaching call of this loop returned (in this or an earlier iteration)?
	dependsOnResults := func(v ssa.Value) bool {
		seen := map[ssa.Value]bool{}
		found := false
		var walk func(v ssa.Value, depth int)
		walk = func(v ssa.Value, depth int) {
			if v == nil || found || seen[v] || depth > 40 {
				return
			}
			seen[v] = true
			in, ok := v.(ssa.Instruction)
			if !ok || !body[in.Block()] {
				return
			}
			if isReachCall(in) {
				found = true
				return
			}
			if ld, ok := v.(*ssa.UnOp); ok && ld.Op == token.MUL {
				// a variable in memory: what the loop stores into it
				for _, ref := range c04RealRefs(ld.X) {
					if st, ok := ref.(*ssa.Store); ok && st.Addr == ld.X && body[st.Block()] {
						walk(st.Val, depth+1)
					}
				}
				if fa, ok := ld.X.(*ssa.FieldAddr); ok {
					for _, ref := range c04RealRefs(fa.X) {
						if fa2, ok := ref.(*ssa.FieldAddr); ok && fa2.Field == fa.Field {
							for _, r2 := range c04RealRefs(fa2) {
								if st, ok := r2.(*ssa.Store); ok && st.Addr == ssa.Value(fa2) && body[st.Block()] {
									walk(st.Val, depth+1)
								}
							}
						}
					}
				}
				return
			}
			for _, op := range in.Operands(nil) {
				if op != nil && *op != nil {
					walk(*op, depth+1)
				}
			}
		}
		walk(v, 0)
		return found
	}
	// does v only count (loop-carried integers, lengths, constants) — the test that the sequence is exhausted?
	onlyCounts := func(v ssa.Value) bool {
		seen := map[ssa.Value]bool{}
		ok := true
		var walk func(v ssa.Value, depth int)
		walk = func(v ssa.Value, depth int) {
			if v == nil || !ok || seen[v] || depth > 20 {
				return
			}
			seen[v] = true
			in, isIn := v.(ssa.Instruction)
			if !isIn || !body[in.Block()] {
				return
			}
			switch x := v.(type) {
			case *ssa.Phi:
				if x.Block() != h {
					ok = false // a value chosen inside the iteration, not a counter
					return
				}
			case *ssa.BinOp, *ssa.Convert:
			case *ssa.UnOp:
				if x.Op == token.MUL || x.Op == token.ARROW {
					ok = false
					return
				}
			case *ssa.Call:
				if bi, isB := x.Common().Value.(*ssa.Builtin); !isB || bi.Name() != "len" {
					ok = false
				}
				return
			default:
				ok = false
				return
			}
			for _, op := range in.Operands(nil) {
				if op != nil && *op != nil {
					walk(*op, depth+1)
				}
			}
		}
		walk(v, 0)
		return ok
	}
	// an edge taken because an error is not nil
	errorEdge := func(b *ssa.BasicBlock, succIdx int) bool {
		if len(b.Instrs) == 0 {
			return false
		}
		ifi, ok := b.Instrs[len(b.Instrs)-1].(*ssa.If)
		if !ok {
			return false
		}
		for _, dc := range c04ExpandConds([]DomCond{{If: ifi, Branch: succIdx == 0}}) {
			bo, ok := dc.If.Cond.(*ssa.BinOp)
			if !ok || (bo.Op != token.NEQ && bo.Op != token.EQL) {
				continue
			}
			var other ssa.Value
			switch {
			case isNilConst(bo.X):
				other = bo.Y
			case isNilConst(bo.Y):
				other = bo.X
			default:
				continue
			}
			if c04IsError(other.Type()) && (bo.Op == token.NEQ) == dc.Branch {
				return true
			}
		}
		return false
	}
	// the returns reachable from block s, by their error result: nil constant / fresh or tested error / other
	classifyReturns := func(s *ssa.BasicBlock) (nilRet *ssa.Return, unknown bool) {
		reachB := reachableFrom(s, map[*ssa.BasicBlock]bool{})
		for b := range reachB {
			if len(b.Instrs) == 0 {
				continue
			}
			ret, ok := b.Instrs[len(b.Instrs)-1].(*ssa.Return)
			if !ok {
				continue
			}
			var ev ssa.Value
			for _, res := range ret.Results {
				if c04IsError(res.Type()) {
					ev = res
				}
			}
			switch {
			case ev == nil:
				unknown = true
			case isNilConst(ev):
				if nilRet == nil {
					nilRet = ret
				}
			default:
				fresh := false
				if c, ok := ev.(*ssa.Call); ok {
					if cal := staticCallee(c); cal != nil && cal.Pkg != nil && (cal.Pkg.Pkg.Path() == "fmt" || cal.Pkg.Pkg.Path() == "errors") {
						fresh = true
					}
				}
				tested := false
				for _, dc := range c04DomConds(b) {
					if bo, ok := dc.If.Cond.(*ssa.BinOp); ok && (bo.Op == token.NEQ) == dc.Branch && (bo.Op == token.NEQ || bo.Op == token.EQL) {
						if (bo.X == ev && isNilConst(bo.Y)) || (bo.Y == ev && isNilConst(bo.X)) {
							tested = true
						}
					}
				}
				if !fresh && !tested {
					unknown = true
				}
			}
		}
		return
	}
	condOf := func(b *ssa.BasicBlock) ssa.Value {
		if len(b.Instrs) == 0 {
			return nil
		}
		if ifi, ok := b.Instrs[len(b.Instrs)-1].(*ssa.If); ok {
			return ifi.Cond
		}
		return nil
	}
	var blocks []*ssa.BasicBlock
	for b := range body {
		blocks = append(blocks, b)
	}
	sort.Slice(blocks, func(i, j int) bool { return blocks[i].Index < blocks[j].Index })
	undecided := ""
	// 1. early exits
	for _, b := range blocks {
		for i, s := range b.Succs {
			if body[s] || b == h {
				continue // inside the loop, or the exit taken when the sequence is exhausted
			}
			if errorEdge(b, i) {
				continue
			}
			cond := condOf(b)
			nilRet, unknown := classifyReturns(s)
			switch {
			case nilRet == nil && !unknown:
				// leaves with an error on every path
			case cond != nil && onlyCounts(cond):
				// the sequence is exhausted (a counting loop written with a break)
			case cond != nil && nilRet != nil && !dependsOnResults(cond):
				r.Violation(rule, construct, p.Pos(c04IfPos(b.Instrs[len(b.Instrs)-1].(*ssa.If))), "the loop that hands each term to "+c04CalleeName(calls[0])+" is left early under a condition on the term at hand (not on an error, not on the end of the sequence), and the path goes on to a success return ("+p.Pos(nilRet.Pos())+"): the terms after that one are never validated, so a list with a malformed later term is accepted — e.g. '*,99' parses like '*' when the loop stops at a star term")
				return
			case cond != nil && dependsOnResults(cond) && nilRet != nil:
				r.Violation(rule, construct, p.Pos(c04IfPos(b.Instrs[len(b.Instrs)-1].(*ssa.If))), "the loop that hands each term to "+c04CalleeName(calls[0])+" is left early under a condition computed from the results of the terms already parsed, and the path goes on to a success return ("+p.Pos(nilRet.Pos())+"): the terms after that point are never validated, so a list with a malformed later term is accepted — e.g. '*,99', '?,x' or '*,5/0' parse like '*' when the exit is taken once the star bit is set")
				return
			case cond != nil && !dependsOnResults(cond):
				// leaves on a condition of its own (index, length, the term itself): the sequence is cut short
				// by design of the loop, not by what was parsed — not decided here
				if undecided == "" {
					undecided = "the loop is left before its sequence is exhausted on a condition that does not involve an error"
				}
			default:
				if undecided == "" {
					undecided = "an early exit of the loop reaches a return whose error result is not known to be set"
				}
			}
		}
	}
	// 2. iterations that go round without the call
	for _, latch := range h.Preds {
		if !body[latch] {
			continue
		}
		dominated := false
		for _, c := range calls {
			if c.Block().Dominates(latch) {
				dominated = true
			}
		}
		if dominated {
			continue
		}
		// the branch that lets the iteration pass by every call: the nearest dominating branch in the body
		var skipCond ssa.Value
		var skipIf *ssa.If
		for d := latch; d != nil && body[d]; d = d.Idom() {
			if c := condOf(d); c != nil {
				skipCond, skipIf = c, d.Instrs[len(d.Instrs)-1].(*ssa.If)
				break
			}
			if d == h {
				break
			}
		}
		switch {
		case skipCond != nil && dependsOnResults(skipCond):
			r.Violation(rule, construct, p.Pos(c04IfPos(skipIf)), "an iteration of the loop that hands each term to "+c04CalleeName(calls[0])+" can go round without the call, under a condition computed from the results of the terms already parsed: the terms for which it holds are never validated, so a list with a malformed later term is accepted — e.g. '*,99' parses like '*' when terms are skipped once the star bit is set")
			return
		case skipCond != nil && c04IsEmptyStringTest(skipCond):
			// an empty term has nothing to validate
		default:
			if undecided == "" {
				undecided = "an iteration can go round without the call that validates the term"
			}
		}
	}
	if undecided != "" {
		r.Undecide("%s: %s: whether every term is validated is not decided", construct, undecided)
		return
	}
	r.OK(rule, construct, pos, "every iteration hands its term to "+c04CalleeName(calls[0])+"; the loop is left early only with an error")
}

// c04IsEmptyStringTest: v compares a string with "" or its length with 0.
func c04IsEmptyStringTest(v ssa.Value) bool {
	bo, ok := v.(*ssa.BinOp)
	if !ok {
		return false
	}
	isEmpty := func(x ssa.Value) bool {
		c, ok := x.(*ssa.Const)
		if !ok || c.Value == nil {
			return false
		}
		if b, ok := c.Type().Underlying().(*types.Basic); ok && b.Info()&types.IsString != 0 {
			return c.Value.ExactString() == `""`
		}
		if k, ok := c04ConstInt(x); ok && k == 0 {
			return true
		}
		return false
	}
	isStrOrLen := func(x ssa.Value) bool {
		if b, ok := x.Type().Underlying().(*types.Basic); ok && b.Info()&types.IsString != 0 {
			return true
		}
		if c, ok := x.(*ssa.Call); ok {
			if bi, ok := c.Common().Value.(*ssa.Builtin); ok && bi.Name() == "len" {
				return true
			}
		}
		return false
	}
	return (isEmpty(bo.X) && isStrOrLen(bo.Y)) || (isEmpty(bo.Y) && isStrOrLen(bo.X))
}

func (st *c04State) checkListTerms() {
	r := st.r
	if st.builder == nil {
		r.Undecide("the bit-set builder of package cron does not resolve: the loops that validate list terms cannot be found")
		return
	}
	if n := c04ListLoops(st.p, r, "C04.P7-list-terms", st.parserFuncs(), st.builder); n == 0 {
		r.Undecide("no loop of the parser layer hands a per-iteration value to code that reaches the bit-set builder: how the terms of a list are validated is not recognised")
	}
}
