package main

// C05‑S7/S8: the timer is armed for the earliest entry with a fresh clock
// reading; the comparator used to find the earliest entry; initial Next of
// existing entries; the timer drain. All facts are established over the
// scheduler-side functions as a whole (interprocedural flows, values followed
// through parameters and helper results), not inside one function.

import (
	"go/constant"
	"go/token"
	"go/types"

	"golang.org/x/tools/go/ssa"
)

// armSites: calls creating the wake-up timer in scheduler-side functions.
func (a *c05) armSites() []*ssa.Call {
	var out []*ssa.Call
	for _, fn := range a.funcs {
		if !a.schedOnly[fn] {
			continue
		}
		allInstrs(fn, func(in ssa.Instruction) {
			call, ok := in.(*ssa.Call)
			if !ok {
				return
			}
			obj := calleeObj(call)
			if obj == nil || obj.Pkg() == nil {
				return
			}
			pp, n := obj.Pkg().Path(), obj.Name()
			isFn := obj.Type().(*types.Signature).Recv() == nil
			if (pp == "k8s.io/utils/clock" && !isFn || pp == "time" && isFn) && (n == "NewTimer" || n == "After" || n == "AfterFunc") {
				out = append(out, call)
			}
		})
	}
	return out
}

// c05Sorter describes how Cron.entries is sorted at a call site.
type c05Sorter struct {
	fn      *ssa.Function // Less method / comparator closure (nil: not resolvable)
	intForm bool          // comparator returns int (slices.SortFunc)
	elems   bool          // comparator receives the elements (not indices)
}

// isSortOfEntries: call sorts the slice loaded from Cron.entries.
func (a *c05) isSortOfEntries(call *ssa.Call) (bool, *c05Sorter) {
	obj := calleeObj(call)
	if obj == nil || obj.Pkg() == nil || len(call.Call.Args) == 0 {
		return false, nil
	}
	pp, n := obj.Pkg().Path(), obj.Name()
	iface := pp == "sort" && (n == "Sort" || n == "Stable")
	byIdx := pp == "sort" && (n == "Slice" || n == "SliceStable")
	byElem := pp == "slices" && (n == "SortFunc" || n == "SortStableFunc")
	if !iface && !byIdx && !byElem {
		return false, nil
	}
	v := call.Call.Args[0]
	var wrap types.Type
	for i := 0; i < 6; i++ {
		switch x := v.(type) {
		case *ssa.MakeInterface:
			if wrap == nil {
				wrap = x.X.Type()
			}
			v = x.X
			continue
		case *ssa.ChangeType:
			if iface {
				wrap = x.Type()
			}
			v = x.X
			continue
		}
		break
	}
	if _, ok := c05LoadOf(v, a.fEntries); !ok {
		return false, nil
	}
	s := &c05Sorter{intForm: byElem, elems: byElem}
	if iface {
		if named, ok := wrap.(*types.Named); ok {
			for i := 0; i < named.NumMethods(); i++ {
				if named.Method(i).Name() == "Less" {
					s.fn = a.p.SSA.FuncValue(named.Method(i))
				}
			}
		}
	} else if len(call.Call.Args) >= 2 {
		switch c := call.Call.Args[1].(type) {
		case *ssa.MakeClosure:
			s.fn, _ = c.Fn.(*ssa.Function)
		case *ssa.Function:
			s.fn = c
		}
	}
	return true, s
}

// entryZero: v is the Next of element #0 of Cron.entries (through helper results).
// ok=false + undec: shape not understood.
func (a *c05) firstEntryNext(x ssa.Value, depth int) (why string, understood bool) {
	if call, ok := x.(*ssa.Call); ok && depth < 3 {
		if rets := a.returnsOf(call, 0); rets != nil && call.Call.Signature().Results().Len() == 1 {
			for _, rv := range rets {
				if w, u := a.firstEntryNext(rv, depth+1); !u || w != "" {
					return w, u
				}
			}
			return "", true
		}
	}
	E, ok := c05LoadOf(x, a.fNext)
	if !ok {
		return "", false
	}
	if call, ok := E.(*ssa.Call); ok && depth < 3 {
		// helper returning the first entry
		if rets := a.returnsOf(call, 0); rets != nil {
			for _, rv := range rets {
				if w, u := a.firstElem(rv); !u || w != "" {
					return w, u
				}
			}
			return "", true
		}
	}
	return a.firstElem(E)
}

func (a *c05) firstElem(E ssa.Value) (string, bool) {
	ld, ok := E.(*ssa.UnOp)
	var ia *ssa.IndexAddr
	if ok && ld.Op == token.MUL {
		ia, _ = ld.X.(*ssa.IndexAddr)
	}
	if ia == nil {
		return "", false
	}
	if _, ok := c05LoadOf(ia.X, a.fEntries); !ok {
		return "", false
	}
	if !c05ConstInt(ia.Index, 0) {
		return "the timer is armed for an entry other than the first of the sorted list", true
	}
	return "", true
}

func (a *c05) checkArming() {
	r := a.r
	sites := a.armSites()
	if len(sites) == 0 {
		r.Undecide("C05.S7: no timer creation (clock.NewTimer/After) found in the scheduler (anchor lost)")
		return
	}
	// sortedness: interprocedural flow, bit 1 = entries sorted since their last mutation
	var sorters []*c05Sorter
	sorted := &c05Flow{a: a, G: 2}
	sorted.Step = func(in ssa.Instruction, g int) (int, bool) {
		switch v := in.(type) {
		case *ssa.Call:
			if is, w := a.isSortOfEntries(v); is {
				dup := false
				for _, s := range sorters {
					if s.fn == w.fn {
						dup = true
					}
				}
				if !dup {
					sorters = append(sorters, w)
				}
				return 1, true
			}
		case *ssa.Store:
			if _, ok := c05FieldAddr(v.Addr, a.fEntries); ok {
				return 0, false
			}
			if _, ok := c05FieldAddr(v.Addr, a.fNext); ok {
				return 0, false
			}
		}
		return g, false
	}
	sorted.Run(nil)

	for _, arm := range sites {
		base := "scheduler timer"
		args := arm.Call.Args
		if len(args) == 0 {
			continue
		}
		dur := args[0]
		sub, ok := dur.(*ssa.Call)
		if !ok || !c05IsTimeMethod(sub, "Sub") {
			r.Undecide("C05.S7: the timer duration at %s is not of the form <entry>.Next.Sub(<now>); arming not decided", a.pos(arm))
			continue
		}
		x, y := sub.Call.Args[0], sub.Call.Args[1]
		whyX, understood := a.firstEntryNext(x, 0)
		if !understood {
			r.Undecide("C05.S7: the instant the timer at %s is armed for is not recognisably the Next of the first element of Cron.entries; arming not decided", a.pos(arm))
			continue
		}
		okSorted, reached := sorted.All(arm, func(g int) bool { return g == 1 })
		if !reached {
			continue
		}
		if whyX == "" && !okSorted {
			whyX = "Cron.entries is not sorted by Next on every path between the last change of an entry's Next / of the list and the arming of the timer, so entries[0] need not be the earliest"
		}
		r.Check(whyX == "", "C05.S7-arm-earliest", base+" armed for the earliest entry", a.pos(arm),
			"timer armed for Cron.entries[0].Next with the list sorted since its last mutation",
			"the wake-up timer is not armed for the earliest pending activation ("+whyX+"): the clock reaches an earlier entry's activation instant while the scheduler sleeps, that job is started late and several of its instants collapse into one start")

		a.checkFreshNow(arm, y, base)
	}
	for _, s := range sorters {
		a.checkComparator(s)
	}
	a.checkInitNext()
}

// checkComparator: the comparator orders by Next with zero times last.
// Accepted forms: Less(i, j) bool of a sort.Interface, func(i, j int) bool of
// sort.Slice, func(a, b *Entry) int of slices.SortFunc.
func (a *c05) checkComparator(s *c05Sorter) {
	r := a.r
	less := s.fn
	if less == nil || len(less.Blocks) == 0 {
		r.Undecide("C05.S8: the comparator Cron.entries is sorted with is not a statically known function")
		return
	}
	np := len(less.Params)
	if np < 2 {
		r.Undecide("C05.S8: comparator %s has an unexpected signature", a.name(less))
		return
	}
	pi, pj := less.Params[np-2], less.Params[np-1]
	// which(v): v is a load of <element i>.Next (1) / <element j>.Next (2)
	which := func(v ssa.Value) int {
		E, ok := c05LoadOf(v, a.fNext)
		if !ok {
			return 0
		}
		if s.elems {
			switch E {
			case ssa.Value(pi):
				return 1
			case ssa.Value(pj):
				return 2
			}
			return 0
		}
		ld, ok := E.(*ssa.UnOp)
		if !ok || ld.Op != token.MUL {
			return 0
		}
		ia, ok := ld.X.(*ssa.IndexAddr)
		if !ok {
			return 0
		}
		switch ia.Index {
		case ssa.Value(pi):
			return 1
		case ssa.Value(pj):
			return 2
		}
		return 0
	}
	undecoded := false
	zeroFacts := func(b *ssa.BasicBlock) (zi, zj int) {
		for _, at := range c05DomAtoms(b) {
			call, isCall := at.v.(*ssa.Call)
			tv := at.tv
			if !isCall || !c05IsTimeMethod(call, "IsZero") {
				undecoded = true
				continue
			}
			val := -1
			if tv {
				val = 1
			}
			switch which(call.Call.Args[0]) {
			case 1:
				if zi == 0 {
					zi = val
				}
			case 2:
				if zj == 0 {
					zj = val
				}
			}
		}
		return
	}
	chk := func(c bool, rule, construct, pos, okMsg, badMsg string) {
		if !c && undecoded {
			r.Undecide("C05.S8: %s (%s): the required zero-time tests are not established, but the comparator branches on conditions the checker does not decode", construct, pos)
			return
		}
		r.Check(c, rule, construct, pos, okMsg, badMsg)
	}
	base := "sort comparator"
	msgFalse := "the comparator answers 'not less' without knowing that the first element's Next is zero: an entry with a real activation can sort after an entry without one, entries[0].Next is then zero/later, the scheduler sleeps (or arms for a later instant) and due activations are not started"
	msgTrue := "the comparator answers 'less' without the first element's Next set and the second's zero: zero times (no further activation) can sort first, the scheduler then sleeps although other entries are pending"
	msgCmp := "the chronological comparison is used while one of the two Next values may be the zero time: the zero time is before every instant, so entries without a further activation sort first and the timer is not armed for the pending ones"
	n := 0
	for _, b := range less.Blocks {
		if len(b.Instrs) == 0 || (len(b.Preds) == 0 && b.Index != 0) {
			continue
		}
		ret, ok := b.Instrs[len(b.Instrs)-1].(*ssa.Return)
		if !ok || len(ret.Results) != 1 {
			continue
		}
		n++
		zi, zj := zeroFacts(b)
		switch v := ret.Results[0].(type) {
		case *ssa.Const:
			if v.Value == nil {
				continue
			}
			if !s.intForm {
				if v.Value.String() == "false" {
					chk(zi == 1, "C05.S8-order", base+" return false", a.pos(ret), "false only when the first element's Next is the zero time (zero sorts last)", msgFalse)
				} else {
					chk(zi == -1 && zj == 1, "C05.S8-order", base+" return true", a.pos(ret), "true only when the first element's Next is set and the second's is zero", msgTrue)
				}
				continue
			}
			switch sg := constant.Sign(v.Value); {
			case sg > 0:
				chk(zi == 1, "C05.S8-order", base+" return false", a.pos(ret), "'after' only when the first element's Next is the zero time (zero sorts last)", msgFalse)
			case sg < 0:
				chk(zi == -1 && zj == 1, "C05.S8-order", base+" return true", a.pos(ret), "'before' only when the first element's Next is set and the second's is zero", msgTrue)
			default:
				chk(zi == 1 && zj == 1, "C05.S8-order", base+" return equal", a.pos(ret), "'equal' only when both Next are zero", msgFalse)
			}
		case *ssa.Call:
			okCmp := false
			if !s.intForm {
				if c05IsTimeMethod(v, "Before") && which(v.Call.Args[0]) == 1 && which(v.Call.Args[1]) == 2 {
					okCmp = true
				}
				if c05IsTimeMethod(v, "After") && which(v.Call.Args[0]) == 2 && which(v.Call.Args[1]) == 1 {
					okCmp = true
				}
			} else if c05IsTimeMethod(v, "Compare") && which(v.Call.Args[0]) == 1 && which(v.Call.Args[1]) == 2 {
				okCmp = true
			}
			if !okCmp {
				if !s.intForm && a.chronoKind(v, which) == -1 {
					r.Violation("C05.S8-order", base+" return chronological order", a.pos(ret), "the comparator orders the entries by Next in REVERSE (later first): entries[0] is the latest activation, the timer is armed for it and every earlier activation is slept through")
					continue
				}
				r.Undecide("C05.S8: %s returns a comparison the checker does not decode at %s", a.name(less), a.pos(ret))
				continue
			}
			chk(zi == -1 && zj == -1, "C05.S8-order", base+" return chronological order", a.pos(ret), "chronological comparison only when both Next are set", msgCmp)
		default:
			// a computed chronological comparison: Compare(i, j) < 0, Sub(i, j) < 0, !(...) forms
			if !s.intForm && a.chronoLess(ret.Results[0], which) {
				chk(zi == -1 && zj == -1, "C05.S8-order", base+" return chronological order", a.pos(ret), "chronological comparison only when both Next are set", msgCmp)
				continue
			}
			if lossy := a.lossyCompare(ret.Results[0], which); lossy != "" {
				r.Violation("C05.S8-order", base+" return chronological order", a.pos(ret), "the comparator compares a lossy projection of the activation instants ("+lossy+") instead of the instants: two entries whose Next fall into the same unit compare equal and keep their insertion order, entries[0] need not be the earliest, the timer is armed for the later one and the earlier activation is slept through")
				continue
			}
			if !s.intForm && a.chronoKind(ret.Results[0], which) == -1 {
				r.Violation("C05.S8-order", base+" return chronological order", a.pos(ret), "the comparator orders the entries by Next in REVERSE (later first): entries[0] is the latest activation, the timer is armed for it and every earlier activation is slept through")
				continue
			}
			r.Undecide("C05.S8: %s returns a computed value at %s; comparator shape not decoded", a.name(less), a.pos(ret))
		}
	}
	if n == 0 {
		r.Undecide("C05.S8: %s has no return", a.name(less))
	}
}

// wakeCase: the select case receiving from the timer channel.
func (a *c05) wakeCase() (*ssa.BasicBlock, *ssa.Function) {
	b, fn, _ := a.wakeCaseChan()
	return b, fn
}

// wakeCaseChan: the wake-up case, its function and the channel value it receives from.
func (a *c05) wakeCaseChan() (*ssa.BasicBlock, *ssa.Function, ssa.Value) {
	var wake *ssa.BasicBlock
	var wakeFn *ssa.Function
	var wakeCh ssa.Value
	for _, fn := range a.funcs {
		if !a.schedOnly[fn] {
			continue
		}
		allInstrs(fn, func(in ssa.Instruction) {
			sel, ok := in.(*ssa.Select)
			if !ok || !sel.Blocking {
				return
			}
			si := decodeSelect(sel)
			for i, st := range sel.States {
				if st.Dir != types.RecvOnly {
					continue
				}
				if _, isReq := a.chanFieldOf(st.Chan); isReq {
					continue
				}
				if ch, ok := st.Chan.Type().Underlying().(*types.Chan); ok && namedKey(ch.Elem()) == "time.Time" && a.timerChan(st.Chan, map[ssa.Value]bool{}) {
					wake, wakeFn, wakeCh = si.Cases[i].Body, fn, st.Chan
				}
			}
		})
	}
	return wake, wakeFn, wakeCh
}

// isClockReading: in takes a reading of the clock (or receives a timer's value).
func (a *c05) isClockReading(in ssa.Instruction) bool {
	v, ok := in.(ssa.Value)
	if !ok {
		return false
	}
	switch x := in.(type) {
	case *ssa.Call:
		for _, n := range []string{"In", "UTC", "Local"} {
			if c05IsTimeMethod(x, n) {
				return false // a transform, not a reading
			}
		}
	case *ssa.Extract:
	case *ssa.UnOp:
		if x.Op != token.ARROW {
			return false
		}
	default:
		return false
	}
	if namedKey(v.Type()) != "time.Time" {
		return false
	}
	return a.clockDerived(v)
}

// checkFreshNow (S7-fresh-now): at the arming, the variable subtracted from
// Next was last assigned a clock reading taken after the scheduler's previous
// wait. Decided by a path-sensitive flow over the variable's location (SSA web
// through parameters, or local memory), with flag variables (boolean phis)
// tracked so that "exit the wait loop only when re-arming is needed" loops are
// followed exactly.
func (a *c05) checkFreshNow(arm *ssa.Call, y ssa.Value, base string) {
	r := a.r
	construct := base + " duration uses a fresh clock reading"
	for {
		call, ok := y.(*ssa.Call)
		if !ok {
			break
		}
		stripped := false
		for _, n := range []string{"In", "UTC", "Local"} {
			if c05IsTimeMethod(call, n) {
				y, stripped = call.Call.Args[0], true
			}
		}
		if !stripped {
			break
		}
	}
	cs := a.schedCase(a.fStop)
	if cs == nil {
		return
	}
	loc := a.locOf(y)
	if loc.empty() {
		// the subtracted instant is computed right there
		switch a.clockKind(y) {
		case c05ClockYes:
			r.OK("C05.S7-fresh-now", construct, a.pos(arm), "the subtracted instant is read from the clock at the arming")
		case c05ClockNo:
			r.Violation("C05.S7-fresh-now", construct, a.pos(arm), "the timer duration is computed against something that is not a reading of the clock: the wake-up does not come at the activation instant")
		default:
			r.Undecide("C05.S7-fresh-now: the instant subtracted from Next at %s comes from a source the checker does not classify", a.pos(arm))
		}
		return
	}
	const stale, recent = 1, 2
	notClock, unknownSrc := "", ""
	assign := func(vals []ssa.Value, g int) int {
		for _, v := range vals {
			if v == nil {
				g |= stale
				continue
			}
			switch a.clockKind(v) {
			case c05ClockYes:
				if g&recent != 0 {
					g &^= stale
				} else {
					g |= stale
				}
			case c05ClockNo:
				notClock = v.String()
				g |= stale
			default:
				unknownSrc = v.String()
				g |= stale
			}
		}
		return g
	}
	f := &c05Flow{a: a, G: 4, Fresh: stale}
	f.Tracked = c05BoolPhi
	f.Step = func(in ssa.Instruction, g int) (int, bool) {
		if in == ssa.Instruction(cs.sel) {
			return stale, false
		}
		if a.isClockReading(in) {
			g |= recent
		}
		if vals, ok := loc.stepAssign(in); ok {
			g = assign(vals, g)
		}
		return g, false
	}
	f.EdgeG = func(from, to *ssa.BasicBlock, g int) int {
		if vals := loc.edgeAssign(from, to); len(vals) > 0 {
			return assign(vals, g)
		}
		return g
	}
	f.Run(nil)
	ok, reached := f.All(arm, func(g int) bool { return g&stale == 0 })
	if !reached {
		return
	}
	if !ok && unknownSrc != "" && notClock == "" {
		r.Undecide("C05.S7-fresh-now: the variable subtracted from Next at %s is assigned from a source the checker does not classify (%s)", a.pos(arm), unknownSrc)
		return
	}
	if !ok {
		if imp := f.ImpreciseAmong(a.schedOnly); imp != nil {
			r.Undecide("C05.S7-fresh-now: the subtracted instant may be stale at %s, but %s branches on a helper result / flag the checker does not follow exactly", a.pos(arm), a.name(imp))
			return
		}
	}
	why := "on some path the variable subtracted from Next still holds a value from before the scheduler last waited (it is not re-assigned a clock reading / the timer's value after the wait)"
	if notClock != "" {
		why = "the variable subtracted from Next is assigned something that is not a reading of the clock (" + notClock + ")"
	}
	r.Check(ok, "C05.S7-fresh-now", construct, a.pos(arm),
		"on every path to the arming the subtracted instant was read from the clock / delivered by the timer after the previous wait",
		"the timer duration is computed against a stale instant: "+why+" — the duration is too long by the time that passed since, the wake-up comes after the activation instant and activations are started late or merged")
}

// checkDrain (S7-drain): a blocking receive that drains a timer's channel
// (`<-timer.C()` after Stop() reported false), in the loop or in a helper, must
// not be reachable while the timer variable still holds the timer whose value
// the wake-up case has consumed: that channel will never deliver again and the
// scheduler would block forever. Path-sensitive flow over the timer variable's
// location (SSA web / parameter / field of a local struct), tracking boolean
// flags and nil tests.
func (a *c05) checkDrain() {
	r := a.r
	wake, wakeFn := a.wakeCase()
	if wake == nil {
		r.Undecide("C05.S7: the scheduler's select has no case receiving from a timer channel (anchor lost)")
		return
	}
	construct := "scheduler: timer drain after Stop()==false"
	n := 0
	for _, fn := range a.funcs {
		if !a.schedOnly[fn] {
			continue
		}
		allInstrs(fn, func(in ssa.Instruction) {
			u, ok := in.(*ssa.UnOp)
			if !ok || u.Op != token.ARROW {
				return
			}
			call, ok := u.X.(*ssa.Call)
			if !ok || !call.Call.IsInvoke() || call.Call.Method.Name() != "C" || call.Call.Method.Pkg() == nil || call.Call.Method.Pkg().Path() != "k8s.io/utils/clock" {
				return
			}
			T := call.Call.Value
			loc := a.locOf(T)
			var tdef ssa.Instruction
			if loc.empty() {
				tdef, _ = T.(ssa.Instruction)
				if ex, ok := T.(*ssa.Extract); ok {
					tdef, _ = ex.Tuple.(ssa.Instruction)
				}
			}
			f := &c05Flow{a: a, G: 2}
			f.Tracked = func(v ssa.Value) bool { return c05BoolPhi(v) || c05NilablePhi(v) }
			f.Step = func(x ssa.Instruction, g int) (int, bool) {
				if x == wake.Instrs[0] {
					g = 1
				}
				if _, ok := loc.stepAssign(x); ok {
					g = 0
				}
				if tdef != nil && x == tdef {
					g = 0
				}
				return g, false
			}
			f.EdgeG = func(from, to *ssa.BasicBlock, g int) int {
				if len(loc.edgeAssign(from, to)) > 0 {
					return 0
				}
				return g
			}
			f.Run(nil)
			ok2, reached := f.All(in, func(g int) bool { return g == 0 })
			if !reached {
				return
			}
			n++
			if !ok2 {
				if imp := f.ImpreciseAmong(a.schedOnly); imp != nil {
					r.Undecide("C05.S7-drain: the drain at %s may see the consumed timer, but %s branches on a helper result / flag the checker does not follow exactly", a.pos(in), a.name(imp))
					return
				}
			}
			r.Check(ok2, "C05.S7-drain", construct, a.pos(in),
				"the drain receive cannot see the timer whose value the wake-up case consumed (the variable is cleared or replaced on those paths)",
				"after a wake-up the scheduler can execute `<-timer.C()` on the timer whose only value it has already received: Stop() reports false, the receive blocks forever, the scheduler never waits again — no later activation is started and Stop/Remove/Schedule hang (the timer variable is not cleared or replaced between the wake-up and the drain on some path)")
		})
	}
	if n == 0 {
		r.Trivial("C05.S7-drain", construct, a.p.Pos(wakeFn.Pos()), "no blocking drain receive of a clock timer in the scheduler")
	}
}

// checkInitNext (S7-init-next): before the scheduler waits for the first time
// every entry already in Cron.entries gets Next = its Schedule.Next(clock
// reading): entries added before Start have a zero Next, and after a restart
// the old Next values lie in the past. The loop doing so may live in the
// scheduler function or in a helper.
func (a *c05) checkInitNext() {
	cs := a.schedCase(a.fStop)
	if cs == nil {
		return
	}
	why := "no store Entry.Next = Entry.Schedule.Next(<clock reading>) over the elements of Cron.entries is executed before the scheduler first waits"
	// qualifying stores: for every element of an iteration over Cron.entries
	qual := map[ssa.Instruction]bool{}
	for _, fn := range a.funcs {
		if !a.schedOnly[fn] {
			continue
		}
		allInstrs(fn, func(in ssa.Instruction) {
			st, ok := in.(*ssa.Store)
			if !ok {
				return
			}
			e, ok := c05FieldAddr(st.Addr, a.fNext)
			if !ok {
				return
			}
			ld, ok := e.(*ssa.UnOp)
			if !ok || ld.Op != token.MUL {
				return
			}
			ia, ok := ld.X.(*ssa.IndexAddr)
			if !ok {
				return
			}
			if _, ok := c05LoadOf(ia.X, a.fEntries); !ok {
				return
			}
			if c05ConstInt(ia.Index, 0) {
				return
			}
			proper, _, w := a.properNext(st.Val, e)
			if !proper {
				if !reachableFrom(cs.sel.Block(), nil)[in.Block()] {
					why = "store at " + a.pos(in) + ": " + w
				}
				return
			}
			// the store must happen in every iteration
			ff := &FlagFlow{Fn: fn, Must: true,
				Transfer: func(j ssa.Instruction, stt uint64) uint64 {
					if j == ssa.Instruction(ld) {
						return 0
					}
					if j == in {
						return 1
					}
					return stt
				}}
			ff.Run()
			d := ld.Block()
			all := true
			for _, b := range fn.Blocks {
				if !d.Dominates(b) {
					continue
				}
				out, vis := ff.Out(b)
				if !vis {
					continue
				}
				for _, sc := range b.Succs {
					if (!d.Dominates(sc) || sc == d) && out&1 == 0 {
						all = false
					}
				}
			}
			if all {
				// the iteration as a whole qualifies: mark where it starts (the load of
				// the list being ranged over), so that an empty list qualifies too
				if h := c05LoopHeaderOf(in.Block()); h != nil && len(h.Instrs) > 0 {
					// mark where control decides to run the loop (the block entering it
					// from outside): also covers rotated loops whose guard skips an empty list
					marked := false
					for _, pr := range h.Preds {
						if !h.Dominates(pr) && len(pr.Instrs) > 0 {
							qual[pr.Instrs[len(pr.Instrs)-1]] = true
							marked = true
						}
					}
					if !marked {
						qual[h.Instrs[0]] = true
					}
				} else if li, ok := ia.X.(ssa.Instruction); ok {
					qual[li] = true
				}
			} else {
				why = "the store at " + a.pos(in) + " is skipped for some entries (conditional)"
			}
		})
	}
	f := &c05Flow{a: a, G: 2}
	f.Step = func(in ssa.Instruction, g int) (int, bool) {
		if qual[in] {
			return 1, false
		}
		for root := range a.schedRoots {
			if len(root.Blocks) > 0 && in == root.Blocks[0].Instrs[0] {
				return 0, false // a (re)started scheduler begins with stale Next values
			}
		}
		return g, false
	}
	f.Run(nil)
	ok, reached := f.All(cs.sel, func(g int) bool { return g == 1 })
	// the wake-up bookkeeping also stores Next per element; only stores that
	// execute before the first wait count, which the flow guarantees for the
	// first arrival at the select; later arrivals keep the bit.
	a.r.Check(ok && reached, "C05.S7-init-next", "scheduler: initial Next of existing entries", a.p.Pos(a.sched.Pos()),
		"before the first wait each element of Cron.entries gets Next from its own schedule and a clock reading",
		"when the scheduler starts, the entries already registered do not get Next = Schedule.Next(now) ("+why+"): entries added before Start never run (Next stays zero), and after Stop+Start the stale Next values make every entry fire at once for instants that passed while the Cron was stopped")
}

// c05LoopHeaderOf: the header of the innermost natural loop containing block b.
func c05LoopHeaderOf(b *ssa.BasicBlock) *ssa.BasicBlock {
	from := reachableFrom(b, nil)
	for d := b; d != nil; d = d.Idom() {
		for _, p := range d.Preds {
			if d.Dominates(p) && from[p] {
				return d
			}
		}
	}
	return nil
}

// chronoLess: v is true exactly when <element i>.Next is before <element j>.Next,
// written as a comparison of Compare/Sub with a constant (possibly negated).
func (a *c05) chronoLess(v ssa.Value, which func(ssa.Value) int) bool {
	return a.chronoKind(v, which) == 1
}

// chronoKind: +1 v is exactly "i before j", -1 v is exactly "i after j"
// (reversed order), 0 not decoded.
func (a *c05) chronoKind(v ssa.Value, which func(ssa.Value) int) int {
	if call, ok := v.(*ssa.Call); ok && !call.Call.IsInvoke() && len(call.Call.Args) == 2 {
		wa, wb := which(call.Call.Args[0]), which(call.Call.Args[1])
		switch {
		case c05IsTimeMethod(call, "Before") && wa == 1 && wb == 2, c05IsTimeMethod(call, "After") && wa == 2 && wb == 1:
			return 1
		case c05IsTimeMethod(call, "Before") && wa == 2 && wb == 1, c05IsTimeMethod(call, "After") && wa == 1 && wb == 2:
			return -1
		}
		return 0
	}
	if a.chronoSign(v, which, -1) {
		return 1
	}
	if a.chronoSign(v, which, 1) {
		return -1
	}
	return 0
}

// chronoSign: v holds exactly when sign(<i>.Next - <j>.Next) == wantIJ.
func (a *c05) chronoSign(v ssa.Value, which func(ssa.Value) int, wantIJ int64) bool {
	cmp, ok := decodeCond(v, true)
	if !ok {
		return false
	}
	x, y, op := cmp.X, cmp.Y, cmp.Op
	if _, isC := x.(*ssa.Const); isC {
		x, y = y, x
		switch op {
		case token.LSS:
			op = token.GTR
		case token.GTR:
			op = token.LSS
		case token.LEQ:
			op = token.GEQ
		case token.GEQ:
			op = token.LEQ
		}
	}
	call, ok1 := x.(*ssa.Call)
	k, ok2 := y.(*ssa.Const)
	if !ok1 || !ok2 || k.Value == nil || call.Call.IsInvoke() || len(call.Call.Args) != 2 {
		return false
	}
	isCompare, isSub := c05IsTimeMethod(call, "Compare"), c05IsTimeMethod(call, "Sub")
	if !isCompare && !isSub {
		return false
	}
	wa, wb := which(call.Call.Args[0]), which(call.Call.Args[1])
	kv := k.Int64()
	holds := func(d int64) bool {
		switch op {
		case token.EQL:
			return d == kv
		case token.NEQ:
			return d != kv
		case token.LSS:
			return d < kv
		case token.LEQ:
			return d <= kv
		case token.GTR:
			return d > kv
		case token.GEQ:
			return d >= kv
		}
		return false
	}
	// d = first - second
	want := wantIJ
	if wa == 2 && wb == 1 {
		want = -wantIJ
	} else if !(wa == 1 && wb == 2) {
		return false
	}
	samples := []int64{-1, 0, 1}
	if isSub {
		samples = []int64{-(1 << 40), -1, 0, 1, 1 << 40}
	}
	for _, d := range samples {
		sign := int64(0)
		if d < 0 {
			sign = -1
		} else if d > 0 {
			sign = 1
		}
		if holds(d) != (sign == want) {
			return false
		}
	}
	return true
}

// lossyCompare: v orders the two elements by a precision-losing projection of
// their Next (Unix seconds/milliseconds/microseconds, Truncate, Round, a
// calendar component) rather than by the instants; returns the projection.
func (a *c05) lossyCompare(v ssa.Value, which func(ssa.Value) int) string {
	cmp, ok := decodeCond(v, true)
	if !ok {
		return ""
	}
	proj := func(x ssa.Value) (string, int) {
		call, ok := x.(*ssa.Call)
		if !ok || call.Call.IsInvoke() || len(call.Call.Args) == 0 {
			return "", 0
		}
		for _, n := range []string{"Unix", "UnixMilli", "UnixMicro", "Truncate", "Round", "Second", "Minute", "Hour", "Day", "YearDay", "Year"} {
			if c05IsTimeMethod(call, n) {
				if w := which(call.Call.Args[0]); w != 0 {
					return n, w
				}
			}
		}
		return "", 0
	}
	// direct integer comparison of two projections, or Before/After/Compare of two projected times
	px, wx := proj(cmp.X)
	py, wy := proj(cmp.Y)
	if px != "" && px == py && wx != wy {
		return "Next." + px + "()"
	}
	if call, ok := cmp.X.(*ssa.Call); ok && !call.Call.IsInvoke() && len(call.Call.Args) == 2 {
		for _, n := range []string{"Compare", "Sub"} {
			if c05IsTimeMethod(call, n) {
				pa, wa := proj(call.Call.Args[0])
				pb, wb := proj(call.Call.Args[1])
				if pa != "" && pa == pb && wa != wb {
					return "Next." + pa + "(..)"
				}
			}
		}
	}
	return ""
}
