package main

// C05‑S7/S8: the timer is armed for the earliest entry with a fresh clock
// reading; the comparator used to find the earliest entry.

import (
	"go/token"
	"go/types"

	"golang.org/x/tools/go/ssa"
)

// armSites: calls creating the wake-up timer in scheduler-only functions.
func (a *c05) armSites() []*ssa.Call {
	var out []*ssa.Call
	for fn := range a.schedOnly {
		allInstrs(fn, func(in ssa.Instruction) {
			call, ok := in.(*ssa.Call)
			if !ok {
				return
			}
			obj := calleeObj(call)
			if obj == nil || obj.Pkg() == nil {
				return
			}
			pp, n := obj.Pkg().Path(), obj.Name()
			isFn := obj.Type().(*types.Signature).Recv() == nil
			if (pp == "k8s.io/utils/clock" && !isFn || pp == "time" && isFn) && (n == "NewTimer" || n == "After" || n == "AfterFunc") {
				out = append(out, call)
			}
		})
	}
	return out
}

// isSortOfEntries: call sorts the slice loaded from Cron.entries; returns the
// named type wrapping it (sort.Interface implementation) if any.
func (a *c05) isSortOfEntries(call *ssa.Call) (bool, types.Type) {
	obj := calleeObj(call)
	if obj == nil || obj.Pkg() == nil || len(call.Call.Args) == 0 {
		return false, nil
	}
	pp, n := obj.Pkg().Path(), obj.Name()
	if !(pp == "sort" && (n == "Sort" || n == "Stable" || n == "Slice" || n == "SliceStable") || pp == "slices" && (n == "SortFunc" || n == "SortStableFunc")) {
		return false, nil
	}
	v := call.Call.Args[0]
	var wrap types.Type
	for i := 0; i < 6; i++ {
		switch x := v.(type) {
		case *ssa.MakeInterface:
			wrap = x.X.Type()
			v = x.X
			continue
		case *ssa.ChangeType:
			v = x.X
			continue
		}
		break
	}
	if _, ok := c05LoadOf(v, a.fEntries); ok {
		return true, wrap
	}
	return false, nil
}

func (a *c05) checkArming() {
	r := a.r
	sites := a.armSites()
	if len(sites) == 0 {
		r.Undecide("C05.S7: no timer creation (clock.NewTimer/After) found in the scheduler (anchor lost)")
		return
	}
	storesEntries, storesNext := a.mayStore(a.fEntries), a.mayStore(a.fNext)
	for _, arm := range sites {
		fn := arm.Parent()
		base := a.name(fn) + " timer"
		args := arm.Call.Args
		var dur ssa.Value
		if arm.Call.IsInvoke() {
			dur = args[0]
		} else if len(args) > 0 {
			dur = args[0]
		}
		sub, ok := dur.(*ssa.Call)
		if !ok || !c05IsTimeMethod(sub, "Sub") {
			r.Undecide("C05.S7: the timer duration at %s is not of the form <entry>.Next.Sub(<now>); arming not decided", a.pos(arm))
			continue
		}
		x, y := sub.Call.Args[0], sub.Call.Args[1]
		// X = c.entries[0].Next
		whyX := ""
		if E, ok := c05LoadOf(x, a.fNext); !ok {
			r.Undecide("C05.S7: the instant the timer at %s is armed for is not read from an entry's Next; arming not decided", a.pos(arm))
			continue
		} else {
			ld, ok := E.(*ssa.UnOp)
			var ia *ssa.IndexAddr
			if ok && ld.Op == token.MUL {
				ia, _ = ld.X.(*ssa.IndexAddr)
			}
			if ia == nil {
				r.Undecide("C05.S7: the entry whose Next arms the timer at %s is not an element of Cron.entries indexed directly; arming not decided", a.pos(arm))
				continue
			}
			if _, ok := c05LoadOf(ia.X, a.fEntries); !ok {
				whyX = "the timer is armed from a list that is not Cron.entries"
			} else if !c05ConstInt(ia.Index, 0) {
				whyX = "the timer is armed for an entry other than the first of the sorted list"
			}
		}
		// sortedness at the arming site
		var sorter types.Type
		ff := &FlagFlow{Fn: fn, Must: true,
			Transfer: func(in ssa.Instruction, st uint64) uint64 {
				switch v := in.(type) {
				case *ssa.Call:
					if is, w := a.isSortOfEntries(v); is {
						sorter = w
						return st | 1
					}
					if cal := staticCallee(v); cal != nil && (storesEntries[cal] || storesNext[cal]) {
						return st &^ 1
					}
				case *ssa.Store:
					if _, ok := c05FieldAddr(v.Addr, a.fEntries); ok {
						return st &^ 1
					}
					if _, ok := c05FieldAddr(v.Addr, a.fNext); ok {
						return st &^ 1
					}
				}
				return st
			}}
		ff.Run()
		st, _ := ff.Before(arm)
		if whyX == "" && st&1 == 0 {
			whyX = "Cron.entries is not sorted by Next (sort.Sort on Cron.entries) on every path between the last change of an entry's Next / of the list and the arming of the timer, so entries[0] need not be the earliest"
		}
		r.Check(whyX == "", "C05.S7-arm-earliest", base+" armed for the earliest entry", a.pos(arm),
			"timer armed for Cron.entries[0].Next with the list sorted since its last mutation",
			"the wake-up timer is not armed for the earliest pending activation ("+whyX+"): the clock reaches an earlier entry's activation instant while the scheduler sleeps, that job is started late and several of its instants collapse into one start")

		// freshness of now
		whyY := ""
		var visit func(v ssa.Value, stack map[ssa.Value]bool)
		visit = func(v ssa.Value, stack map[ssa.Value]bool) {
			if whyY != "" {
				return
			}
			switch p := v.(type) {
			case *ssa.Phi:
				if stack[v] {
					whyY = "the time subtracted from Next can be the value kept from before the scheduler last waited (variable " + p.Comment + " not refreshed on a path through " + a.pos(p.Block().Instrs[len(p.Block().Instrs)-1]) + ")"
					return
				}
				stack[v] = true
				for i, ed := range p.Edges {
					if ed == v {
						whyY = "the time subtracted from Next is carried over unchanged around the loop (edge from the block ending at " + a.pos(p.Block().Preds[i].Instrs[len(p.Block().Preds[i].Instrs)-1]) + ")"
						return
					}
					visit(ed, stack)
				}
				delete(stack, v)
				return
			case *ssa.Call:
				for _, n := range []string{"In", "UTC", "Local"} {
					if c05IsTimeMethod(p, n) {
						visit(p.Call.Args[0], stack)
						return
					}
				}
			}
			if !a.clockDerived(v) {
				whyY = "the time subtracted from Next is not a reading of the clock"
			}
		}
		visit(y, map[ssa.Value]bool{})
		r.Check(whyY == "", "C05.S7-fresh-now", base+" duration uses a fresh clock reading", a.pos(arm),
			"on every path to the arming the subtracted instant was read from the clock / delivered by the timer after the previous wait",
			"the timer duration is computed against a stale instant: "+whyY+" — the duration is too long by the time that passed since, the wake-up comes after the activation instant and activations are started late or merged")

		if sorter != nil {
			a.checkLess(sorter)
		} else if st&1 != 0 {
			r.Undecide("C05.S8: Cron.entries is sorted with a comparator the checker does not analyse (not a sort.Interface type with a Less method)")
		}
		a.checkInitNext(arm)
	}
}

// checkLess: the comparator orders by Next with zero times last.
func (a *c05) checkLess(t types.Type) {
	r := a.r
	named, ok := t.(*types.Named)
	if !ok {
		return
	}
	var less *ssa.Function
	for i := 0; i < named.NumMethods(); i++ {
		if named.Method(i).Name() == "Less" {
			less = a.p.SSA.FuncValue(named.Method(i))
		}
	}
	if less == nil || len(less.Params) != 3 || len(less.Blocks) == 0 {
		r.Undecide("C05.S8: comparator %s.Less not found", named.Obj().Name())
		return
	}
	s, pi, pj := less.Params[0], less.Params[1], less.Params[2]
	// which(v): v is a load of s[i].Next (1) / s[j].Next (2)
	which := func(v ssa.Value) int {
		E, ok := c05LoadOf(v, a.fNext)
		if !ok {
			return 0
		}
		ld, ok := E.(*ssa.UnOp)
		if !ok || ld.Op != token.MUL {
			return 0
		}
		ia, ok := ld.X.(*ssa.IndexAddr)
		if !ok || ia.X != s {
			return 0
		}
		switch ia.Index {
		case pi:
			return 1
		case pj:
			return 2
		}
		return 0
	}
	zeroFacts := func(b *ssa.BasicBlock) (zi, zj int) {
		for _, dc := range domConds(b) {
			call, tv, ok := boolCallCond(dc.If.Cond, dc.Branch)
			if !ok || !c05IsTimeMethod(call, "IsZero") {
				continue
			}
			val := -1
			if tv {
				val = 1
			}
			switch which(call.Call.Args[0]) {
			case 1:
				if zi == 0 {
					zi = val
				}
			case 2:
				if zj == 0 {
					zj = val
				}
			}
		}
		return
	}
	base := a.name(less)
	n := 0
	for _, b := range less.Blocks {
		if len(b.Instrs) == 0 || (len(b.Preds) == 0 && b.Index != 0) {
			continue
		}
		ret, ok := b.Instrs[len(b.Instrs)-1].(*ssa.Return)
		if !ok || len(ret.Results) != 1 {
			continue
		}
		n++
		zi, zj := zeroFacts(b)
		switch v := ret.Results[0].(type) {
		case *ssa.Const:
			if v.Value != nil && v.Value.String() == "false" {
				r.Check(zi == 1, "C05.S8-order", base+" return false", a.pos(ret),
					"false only when s[i].Next is the zero time (zero sorts last)",
					"the comparator answers 'not less' without knowing that s[i].Next is zero: an entry with a real activation can sort after an entry without one, entries[0].Next is then zero/later, the scheduler sleeps (or arms for a later instant) and due activations are not started")
			} else {
				r.Check(zi == -1 && zj == 1, "C05.S8-order", base+" return true", a.pos(ret),
					"true only when s[i].Next is set and s[j].Next is zero",
					"the comparator answers 'less' without s[i].Next set and s[j].Next zero: zero times (no further activation) can sort first, the scheduler then sleeps although other entries are pending")
			}
		case *ssa.Call:
			okCmp := false
			if c05IsTimeMethod(v, "Before") && which(v.Call.Args[0]) == 1 && which(v.Call.Args[1]) == 2 {
				okCmp = true
			}
			if c05IsTimeMethod(v, "After") && which(v.Call.Args[0]) == 2 && which(v.Call.Args[1]) == 1 {
				okCmp = true
			}
			if !okCmp {
				r.Undecide("C05.S8: %s returns a comparison the checker does not decode at %s", base, a.pos(ret))
				continue
			}
			r.Check(zi == -1 && zj == -1, "C05.S8-order", base+" return Next[i] before Next[j]", a.pos(ret),
				"chronological comparison only when both Next are set",
				"the chronological comparison is used while one of the two Next values may be the zero time: the zero time is before every instant, so entries without a further activation sort first and the timer is not armed for the pending ones")
		default:
			r.Undecide("C05.S8: %s returns a computed value at %s; comparator shape not decoded", base, a.pos(ret))
		}
	}
	if n == 0 {
		r.Undecide("C05.S8: %s has no return", base)
	}
}

// checkDrain (S7-drain): a blocking receive that drains a timer's channel
// (`<-timer.C()` after Stop() reported false) must not be reachable with the
// timer whose value the wake-up case has already consumed: that channel will
// never deliver again and the scheduler would block forever.
func (a *c05) checkDrain() {
	r := a.r
	// the wake-up case: a select case receiving from a timer channel
	var wake *ssa.BasicBlock
	var wakeFn *ssa.Function
	for fn := range a.schedOnly {
		allInstrs(fn, func(in ssa.Instruction) {
			sel, ok := in.(*ssa.Select)
			if !ok || !sel.Blocking {
				return
			}
			si := decodeSelect(sel)
			for i, st := range sel.States {
				if st.Dir != types.RecvOnly {
					continue
				}
				if _, isReq := a.chanFieldOf(st.Chan); isReq {
					continue
				}
				if ch, ok := st.Chan.Type().Underlying().(*types.Chan); ok && namedKey(ch.Elem()) == "time.Time" && a.timerChan(st.Chan, map[ssa.Value]bool{}) {
					wake, wakeFn = si.Cases[i].Body, fn
				}
			}
		})
	}
	if wake == nil {
		r.Undecide("C05.S7: the scheduler's select has no case receiving from a timer channel (anchor lost)")
		return
	}
	n := 0
	allInstrs(wakeFn, func(in ssa.Instruction) {
		u, ok := in.(*ssa.UnOp)
		if !ok || u.Op != token.ARROW {
			return
		}
		call, ok := u.X.(*ssa.Call)
		if !ok || !call.Call.IsInvoke() || call.Call.Method.Name() != "C" || call.Call.Method.Pkg() == nil || call.Call.Method.Pkg().Path() != "k8s.io/utils/clock" {
			return
		}
		if !reachableFrom(wake, nil)[in.Block()] {
			return // e.g. the drain in the stop case
		}
		n++
		why := ""
		// bad(T, at): on some path from the wake-up case to instruction `at`,
		// T still denotes the timer that was armed before the wait.
		var bad func(v ssa.Value, at *ssa.BasicBlock, depth int) bool
		bad = func(v ssa.Value, at *ssa.BasicBlock, depth int) bool {
			vi, isInstr := v.(ssa.Instruction)
			if !isInstr || depth > 6 {
				return false // constants (nil), parameters
			}
			db := vi.Block()
			R := reachableFrom(wake, map[*ssa.BasicBlock]bool{db: true})
			if R[at] {
				return true // reached without re-executing v's definition: v predates the wake-up
			}
			phi, isPhi := v.(*ssa.Phi)
			if !isPhi {
				return false
			}
			for i, ed := range phi.Edges {
				pred := db.Preds[i]
				if R[pred] && bad(ed, pred, depth+1) {
					why = "through the block ending at " + a.pos(pred.Instrs[len(pred.Instrs)-1]) + " the timer variable still refers to the timer that has just fired"
					return true
				}
			}
			return false
		}
		if bad(call.Call.Value, in.Block(), 0) && why == "" {
			why = "the timer variable is not cleared or replaced between the wake-up and the drain"
		}
		r.Check(why == "", "C05.S7-drain", a.name(wakeFn)+" timer drain after Stop()==false", a.pos(in),
			"the drain receive cannot see the timer whose value the wake-up case consumed (variable is nil on those paths)",
			"after a wake-up the scheduler can execute `<-timer.C()` on the timer whose only value it has already received: Stop() reports false, the receive blocks forever, the scheduler never waits again — no later activation is started and Stop/Remove/Schedule hang ("+why+")")
	})
	if n == 0 {
		r.Trivial("C05.S7-drain", a.name(wakeFn)+" timer drain after Stop()==false", a.p.Pos(wakeFn.Pos()), "no blocking drain receive is reachable from the wake-up case")
	}
}

// checkInitNext (S7-init-next): before the scheduler waits for the first time
// every entry already in Cron.entries gets Next = its Schedule.Next(clock
// reading): entries added before Start have a zero Next, and after a restart
// the old Next values lie in the past.
func (a *c05) checkInitNext(arm *ssa.Call) {
	fn := arm.Parent()
	var sel *ssa.Select
	allInstrs(fn, func(in ssa.Instruction) {
		if s, ok := in.(*ssa.Select); ok && s.Blocking {
			sel = s
		}
	})
	if sel == nil {
		return
	}
	afterWait := reachableFrom(sel.Block(), nil)
	found, why := false, "no store Entry.Next = Entry.Schedule.Next(<clock reading>) over the elements of Cron.entries is executed before the scheduler first waits"
	allInstrs(fn, func(in ssa.Instruction) {
		st, ok := in.(*ssa.Store)
		if !ok || afterWait[in.Block()] || !reachableFrom(in.Block(), nil)[sel.Block()] {
			return
		}
		e, ok := c05FieldAddr(st.Addr, a.fNext)
		if !ok {
			return
		}
		// e = element of Cron.entries
		ld, ok := e.(*ssa.UnOp)
		if !ok || ld.Op != token.MUL {
			return
		}
		ia, ok := ld.X.(*ssa.IndexAddr)
		if !ok {
			return
		}
		if _, ok := c05LoadOf(ia.X, a.fEntries); !ok {
			return
		}
		if proper, _, w := a.properNext(st.Val, e); proper {
			// the store must happen in every iteration: on all paths from the
			// element's definition to the end of its iteration
			ff := &FlagFlow{Fn: fn, Must: true,
				Transfer: func(j ssa.Instruction, stt uint64) uint64 {
					if j == ssa.Instruction(ld) {
						return 0
					}
					if j == in {
						return 1
					}
					return stt
				}}
			ff.Run()
			d := ld.Block()
			all := true
			for _, b := range fn.Blocks {
				if !d.Dominates(b) {
					continue
				}
				out, vis := ff.Out(b)
				if !vis {
					continue
				}
				for _, sc := range b.Succs {
					if (!d.Dominates(sc) || sc == d) && out&1 == 0 {
						all = false
					}
				}
			}
			if all {
				found = true
			} else {
				why = "the store at " + a.pos(in) + " is skipped for some entries (conditional)"
			}
		} else {
			why = "store at " + a.pos(in) + ": " + w
		}
	})
	a.r.Check(found, "C05.S7-init-next", a.name(fn)+" initial Next of existing entries", a.p.Pos(fn.Pos()),
		"before the first wait each element of Cron.entries gets Next from its own schedule and a clock reading",
		"when the scheduler starts, the entries already registered do not get Next = Schedule.Next(now) ("+why+"): entries added before Start never run (Next stays zero), and after Stop+Start the stale Next values make every entry fire at once for instants that passed while the Cron was stopped")
}
