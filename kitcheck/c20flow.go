package main

// C20 helpers, part 2: a small path-sensitive, interprocedural forward flow.
//
// The abstract value at a program point is the SET of bit-vectors ("states")
// that some path reaching the point can produce, so a rule can demand
// "every path that gets here has seen A or B". Calls to package functions the
// client wants to follow are analysed as if inlined (a fresh frame per call
// site, so facts are context-sensitive); deferred calls are executed at
// rundefers in LIFO order; boolean results of followed callees are split into
// the states in which the callee returned true and those in which it returned
// false, so that `if !p.ended() { … }` sees the same evidence as the inlined
// test. Evidence is attached to CFG edges (client hook Cond), never to source
// shapes.

import (
	"go/constant"
	"go/token"
	"go/types"

	"golang.org/x/tools/go/ssa"
)

type c20State = uint64
type c20Set map[c20State]struct{}

func (a c20Set) addAll(b c20Set) bool {
	ch := false
	for s := range b {
		if _, ok := a[s]; !ok {
			a[s] = struct{}{}
			ch = true
		}
	}
	return ch
}

func (a c20Set) clone() c20Set {
	b := make(c20Set, len(a))
	for s := range a {
		b[s] = struct{}{}
	}
	return b
}

func (a c20Set) mapped(f func(c20State) c20State) c20Set {
	b := make(c20Set, len(a))
	for s := range a {
		b[f(s)] = struct{}{}
	}
	return b
}

// all reports whether every state satisfies f (false for the empty set is NOT
// implied: empty => true).
func (a c20Set) all(f func(c20State) bool) bool {
	for s := range a {
		if !f(s) {
			return false
		}
	}
	return true
}

const (
	c20TagBase     = 24 // bits 24..: per-frame tags (3 boolean call results, the boolean result slot, 2 boolean phis)
	c20TagsPerLvl  = 6
	c20CallTags    = 3
	c20SlotTag     = 3
	c20PhiTags     = 2
	c20MaxDepth    = 4
	c20ClientMask  = c20State(1)<<c20TagBase - 1
	c20TagMask     = ^c20ClientMask
	c20MaxBlockRun = 4000
)

type c20Frame struct {
	fn   *ssa.Function
	call ssa.CallInstruction // nil for the root
}

// c20Ctx is the inlining context a hook is called in.
type c20Ctx struct {
	Stack     []c20Frame
	Replaying bool // a deferred call is being executed
}

func (x *c20Ctx) Fn() *ssa.Function { return x.Stack[len(x.Stack)-1].fn }
func (x *c20Ctx) Depth() int        { return len(x.Stack) - 1 }

// Resolve chases a parameter of an inlined frame to the argument expression
// in the calling frame (repeatedly); returns the value and the depth of the
// frame it belongs to.
func (x *c20Ctx) Resolve(v ssa.Value) (ssa.Value, int) {
	d := len(x.Stack) - 1
	// the value may belong to an outer frame already (not the case for hooks, which see values of the top frame)
	for d > 0 {
		pa, ok := v.(*ssa.Parameter)
		if !ok {
			break
		}
		fr := x.Stack[d]
		if pa.Parent() != fr.fn || fr.call == nil {
			break
		}
		idx := -1
		for i, q := range fr.fn.Params {
			if q == pa {
				idx = i
			}
		}
		args := fr.call.Common().Args
		if c20OnceDoArg(fr.call) == origin(fr.fn) && staticCallee(fr.call) != origin(fr.fn) {
			break // entered through sync.Once.Do: no parameter mapping
		}
		if staticCallee(fr.call) != origin(fr.fn) && len(args) != len(fr.fn.Params) {
			break
		}
		if idx < 0 || idx >= len(args) {
			break
		}
		v = args[idx]
		d--
	}
	return v, d
}

// InstrAt returns, for an instruction of the top frame, the instruction of
// frame depth d that is executing while it runs (the call instruction of the
// frame above d, or the instruction itself if d is the top frame).
func (x *c20Ctx) InstrAt(in ssa.Instruction, d int) ssa.Instruction {
	if d >= len(x.Stack)-1 {
		return in
	}
	return x.Stack[d+1].call
}

// c20PathFlow is the analysis; see the file comment.
type c20PathFlow struct {
	K      *c20Pkg
	Follow func(f *ssa.Function) bool
	// Instr transfers one state over an instruction (for a followed call: before
	// the callee's body is entered). Deferred calls
	// reach it twice: when registered (x.Replaying false, usually a no-op) and
	// when executed at rundefers (x.Replaying true).
	Instr func(x *c20Ctx, in ssa.Instruction, s c20State) c20State
	// Cond adds the evidence of `cond == branch` to a state; from/to is the CFG
	// edge when the condition is a branch condition (nil for a returned value).
	Cond func(x *c20Ctx, cond ssa.Value, branch bool, from, to *ssa.BasicBlock, s c20State) c20State
	// Edge observes every state propagated along a CFG edge.
	Edge func(x *c20Ctx, from, to *ssa.BasicBlock, s c20State)
	// Enter/Leave bracket a followed call (s is a client state).
	Enter func(x *c20Ctx, call ssa.CallInstruction, s c20State) c20State
	Leave func(x *c20Ctx, call ssa.CallInstruction, s c20State) c20State

	Imprecise  map[string]bool // why a state set may be an over-approximation
	Unfollowed map[string]bool
	budget     int
}

// c20FrameInfo is the per-frame bookkeeping.
type c20FrameInfo struct {
	tags    map[*ssa.Call]c20State
	defers  []*ssa.Defer
	phiTags map[*ssa.Phi]c20State
	slot    *ssa.Alloc // memory cell the boolean result is spilled to (functions with defer / named results)
	slotTag c20State
}

type c20Res struct {
	all, tr, fa c20Set
	boolIdx     int
	returns     int
}

func c20FirstBoolResult(fn *ssa.Function) int {
	rs := fn.Signature.Results()
	for i := 0; i < rs.Len(); i++ {
		if b, ok := rs.At(i).Type().Underlying().(*types.Basic); ok && b.Kind() == types.Bool {
			return i
		}
	}
	return -1
}

// Run analyses root entered with the given states.
func (f *c20PathFlow) Run(root *ssa.Function, entry c20Set) c20Res {
	if f.Imprecise == nil {
		f.Imprecise = map[string]bool{}
	}
	if f.Unfollowed == nil {
		f.Unfollowed = map[string]bool{}
	}
	f.budget = c20MaxBlockRun
	x := &c20Ctx{Stack: []c20Frame{{fn: root}}}
	return f.runFrame(x, root, entry)
}

func (f *c20PathFlow) target(c ssa.CallInstruction) *ssa.Function {
	if fn := c20OnceDoArg(c); fn != nil {
		return fn // the function literal handed to sync.Once.Do runs synchronously (at most once)
	}
	return staticCallee(c)
}

// targetIn additionally resolves a call of a function value (a parameter, a
// local or captured variable) to the one package function or function literal
// that value can be, seen from the inlining context.
func (f *c20PathFlow) targetIn(x *c20Ctx, c ssa.CallInstruction) *ssa.Function {
	if t := f.target(c); t != nil {
		return t
	}
	cc := c.Common()
	if cc.IsInvoke() || builtinName(c) != "" {
		return nil
	}
	v, _ := x.Resolve(cc.Value)
	src, open := f.K.origins(v)
	if open || len(src) != 1 {
		f.noteDynamic(x, cc)
		return nil
	}
	switch fv := src[0].(type) {
	case *ssa.Function:
		return origin(fv)
	case *ssa.MakeClosure:
		if fn, ok := fv.Fn.(*ssa.Function); ok {
			return origin(fn)
		}
	}
	f.noteDynamic(x, cc)
	return nil
}

// noteDynamic: an unresolved call of a function value of an unnamed func type
// (a named one, like context.CancelFunc, comes from its package) may run
// package code the flow does not see.
func (f *c20PathFlow) noteDynamic(x *c20Ctx, cc *ssa.CallCommon) {
	if _, named := cc.Value.Type().(*types.Named); named {
		return
	}
	f.Imprecise["a function value called in "+x.Fn().Name()+" could not be resolved and was not followed"] = true
}

func (f *c20PathFlow) canFollow(x *c20Ctx, cal *ssa.Function) bool {
	if cal == nil || len(cal.Blocks) == 0 || !f.K.In[cal] || (f.Follow != nil && !f.Follow(cal)) {
		return false
	}
	if len(x.Stack)-1 >= c20MaxDepth {
		f.Imprecise["call depth limit reached at "+cal.Name()] = true
		return false
	}
	for _, fr := range x.Stack {
		if fr.fn == cal {
			f.Imprecise["recursive call of "+cal.Name()+" not followed"] = true
			return false
		}
	}
	return true
}

func (f *c20PathFlow) tagsOf(fn *ssa.Function, depth int) map[*ssa.Call]c20State {
	tags := map[*ssa.Call]c20State{}
	n := 0
	allInstrs(fn, func(in ssa.Instruction) {
		c, ok := in.(*ssa.Call)
		if !ok {
			return
		}
		cal := f.target(c)
		if cal == nil || !f.K.In[cal] || staticCallee(c) == nil || c20FirstBoolResult(cal) < 0 {
			return
		}
		if n >= c20CallTags {
			f.Imprecise["more boolean helper calls in "+fn.Name()+" than can be told apart"] = true
			return
		}
		tags[c] = 1 << uint(c20TagBase+depth*c20TagsPerLvl+n)
		n++
	})
	return tags
}

// phiTagsOf gives a tag to the boolean phis of fn (flags like `ended := false;
// ... ended = true ...; if !ended {`): the tag records, per path, which value
// the merge selected.
func (f *c20PathFlow) phiTagsOf(fn *ssa.Function, depth int) map[*ssa.Phi]c20State {
	tags := map[*ssa.Phi]c20State{}
	n := 0
	for _, b := range fn.Blocks {
		for _, in := range b.Instrs {
			phi, ok := in.(*ssa.Phi)
			if !ok {
				break
			}
			if bt, ok := phi.Type().Underlying().(*types.Basic); !ok || bt.Kind() != types.Bool {
				continue
			}
			if n >= c20PhiTags {
				f.Imprecise["more boolean flags merged in "+fn.Name()+" than can be told apart"] = true
				continue
			}
			tags[phi] = 1 << uint(c20TagBase+depth*c20TagsPerLvl+c20SlotTag+1+n)
			n++
		}
	}
	return tags
}

func c20FrameTagMask(depth int) c20State {
	var m c20State
	for i := 0; i < c20TagsPerLvl; i++ {
		m |= 1 << uint(c20TagBase+depth*c20TagsPerLvl+i)
	}
	return m
}

func (f *c20PathFlow) mapInstr(x *c20Ctx, in ssa.Instruction, st c20Set) c20Set {
	if f.Instr == nil {
		return st
	}
	return st.mapped(func(s c20State) c20State {
		return f.Instr(x, in, s&c20ClientMask)&c20ClientMask | s&c20TagMask
	})
}

func (f *c20PathFlow) call(x *c20Ctx, c ssa.CallInstruction, cal *ssa.Function, st c20Set, replay bool) c20Res {
	if f.Enter != nil {
		st = st.mapped(func(s c20State) c20State { return f.Enter(x, c, s&c20ClientMask)&c20ClientMask | s&c20TagMask })
	}
	nx := &c20Ctx{Stack: append(append([]c20Frame{}, x.Stack...), c20Frame{fn: cal, call: c}), Replaying: x.Replaying || replay}
	sub := f.runFrame(nx, cal, st)
	if f.Leave != nil {
		lv := func(s c20State) c20State { return f.Leave(x, c, s&c20ClientMask)&c20ClientMask | s&c20TagMask }
		sub.all, sub.tr, sub.fa = sub.all.mapped(lv), sub.tr.mapped(lv), sub.fa.mapped(lv)
	}
	return sub
}

// execBlock runs the instructions of b over st (Return excluded).
func (f *c20PathFlow) execBlock(x *c20Ctx, b *ssa.BasicBlock, st c20Set, fi *c20FrameInfo) c20Set {
	tags, defers := fi.tags, fi.defers
	for _, in := range b.Instrs {
		if len(st) == 0 {
			return st
		}
		switch i := in.(type) {
		case *ssa.Call:
			if cal := f.targetIn(x, i); f.canFollow(x, cal) {
				st = f.mapInstr(x, in, st) // the call instruction itself (argument uses) is seen by the client too
				if tag, ok := tags[i]; ok {
					// a tag set by an earlier execution of this call (loop) is stale
					st = st.mapped(func(s c20State) c20State { return s &^ tag })
				}
				sub := f.call(x, i, cal, st, false)
				if tag, ok := tags[i]; ok && sub.boolIdx >= 0 {
					st = sub.fa.clone()
					for s := range sub.tr {
						st[s|tag] = struct{}{}
					}
				} else {
					st = sub.all
				}
				continue
			} else if cal != nil && f.K.In[cal] {
				f.Unfollowed[cal.Name()] = true
			}
			st = f.mapInstr(x, in, st)
		case *ssa.RunDefers:
			st = f.mapInstr(x, in, st)
			for k := len(defers) - 1; k >= 0; k-- {
				d := defers[k]
				if d.Block() != b && !reachableFrom(d.Block(), nil)[b] {
					continue
				}
				if cal := f.targetIn(x, d); f.canFollow(x, cal) {
					old := x.Replaying
					x.Replaying = true
					st = f.mapInstr(x, d, st)
					x.Replaying = old
					st = f.call(x, d, cal, st, true).all
					continue
				}
				old := x.Replaying
				x.Replaying = true
				st = f.mapInstr(x, d, st)
				x.Replaying = old
			}
		case *ssa.Return:
		case *ssa.Store:
			if fi.slot != nil && i.Addr == ssa.Value(fi.slot) {
				tr, fa := f.splitBool(x, i.Val, st, fi, nil, nil, nil)
				st = fa.mapped(func(s c20State) c20State { return s &^ fi.slotTag })
				for s := range tr {
					st[s|fi.slotTag] = struct{}{}
				}
				continue
			}
			st = f.mapInstr(x, in, st)
		default:
			st = f.mapInstr(x, in, st)
		}
	}
	return st
}

// splitBool partitions st into the states in which v is true and those in
// which it is false, adding the evidence of either outcome.
func (f *c20PathFlow) splitBool(x *c20Ctx, v ssa.Value, st c20Set, fi *c20FrameInfo, from, toTrue, toFalse *ssa.BasicBlock) (c20Set, c20Set) {
	tags := fi.tags
	neg := false
	for {
		if u, ok := v.(*ssa.UnOp); ok && u.Op == token.NOT {
			v = u.X
			neg = !neg
			continue
		}
		break
	}
	var tr, fa c20Set
	done := false
	switch c := v.(type) {
	case *ssa.Const:
		if c.Value != nil && c.Value.Kind() == constant.Bool {
			if constant.BoolVal(c.Value) {
				tr, fa = st.clone(), c20Set{}
			} else {
				tr, fa = c20Set{}, st.clone()
			}
			done = true
		}
	case *ssa.Call:
		if tag, ok := tags[c]; ok {
			tr, fa = c20Set{}, c20Set{}
			for s := range st {
				if s&tag != 0 {
					tr[s] = struct{}{}
				} else {
					fa[s] = struct{}{}
				}
			}
			done = true
		} else if cal := staticCallee(c); cal != nil && f.K.In[cal] {
			f.Imprecise["boolean result of "+cal.Name()+" could not be split"] = true
		}
	case *ssa.Extract:
		if call, ok := c.Tuple.(*ssa.Call); ok {
			if tag, ok := tags[call]; ok {
				if cal := f.target(call); cal != nil && c20FirstBoolResult(cal) == c.Index {
					tr, fa = c20Set{}, c20Set{}
					for s := range st {
						if s&tag != 0 {
							tr[s] = struct{}{}
						} else {
							fa[s] = struct{}{}
						}
					}
					done = true
				}
			}
		}
	case *ssa.Phi:
		if tag, ok := fi.phiTags[c]; ok {
			tr, fa = c20Set{}, c20Set{}
			for s := range st {
				if s&tag != 0 {
					tr[s] = struct{}{}
				} else {
					fa[s] = struct{}{}
				}
			}
			done = true
		} else {
			f.Imprecise["a branch in "+x.Fn().Name()+" tests a boolean merged from several paths"] = true
		}
	case *ssa.UnOp:
		if c.Op == token.MUL && fi.slot != nil && c.X == ssa.Value(fi.slot) {
			tr, fa = c20Set{}, c20Set{}
			for s := range st {
				if s&fi.slotTag != 0 {
					tr[s] = struct{}{}
				} else {
					fa[s] = struct{}{}
				}
			}
			done = true
		} else if c.Op == token.MUL {
			switch c.X.(type) {
			case *ssa.Alloc, *ssa.FreeVar:
				f.Imprecise["a branch in "+x.Fn().Name()+" tests a boolean variable held in memory"] = true
			}
			// a boolean struct field: left to the client's Cond hook
		}
	}
	if !done {
		ev := func(br bool) c20Set {
			if f.Cond == nil {
				return st.clone()
			}
			to := toTrue
			if br == neg { // original value false
				to = toFalse
			}
			return st.mapped(func(s c20State) c20State {
				return f.Cond(x, v, br, from, to, s&c20ClientMask)&c20ClientMask | s&c20TagMask
			})
		}
		tr, fa = ev(true), ev(false)
	}
	if neg {
		tr, fa = fa, tr
	}
	return tr, fa
}

func (f *c20PathFlow) runFrame(x *c20Ctx, fn *ssa.Function, entry c20Set) c20Res {
	depth := len(x.Stack) - 1
	res := c20Res{all: c20Set{}, tr: c20Set{}, fa: c20Set{}, boolIdx: c20FirstBoolResult(fn)}
	n := len(fn.Blocks)
	if n == 0 || len(entry) == 0 {
		return res
	}
	fi := &c20FrameInfo{tags: f.tagsOf(fn, depth), slotTag: 1 << uint(c20TagBase+depth*c20TagsPerLvl+c20SlotTag)}
	fi.phiTags = f.phiTagsOf(fn, depth)
	allInstrs(fn, func(in ssa.Instruction) {
		if d, ok := in.(*ssa.Defer); ok {
			fi.defers = append(fi.defers, d)
		}
		if ret, ok := in.(*ssa.Return); ok && res.boolIdx >= 0 && res.boolIdx < len(ret.Results) {
			if u, ok := ret.Results[res.boolIdx].(*ssa.UnOp); ok && u.Op == token.MUL {
				if al, ok := u.X.(*ssa.Alloc); ok {
					fi.slot = al
				}
			}
		}
	})
	in := make([]c20Set, n)
	processed := make([]bool, n)
	edgeSt := map[[2]int]c20Set{}
	in[0] = entry.clone()
	work := []int{0}
	queued := map[int]bool{0: true}
	for len(work) > 0 {
		bi := work[0]
		work = work[1:]
		queued[bi] = false
		f.budget--
		if f.budget < 0 {
			f.Imprecise["analysis budget exhausted"] = true
			break
		}
		b := fn.Blocks[bi]
		st := f.execBlock(x, b, in[bi].clone(), fi)
		processed[bi] = true
		type out struct {
			to *ssa.BasicBlock
			st c20Set
		}
		var outs []out
		if ifi, ok := b.Instrs[len(b.Instrs)-1].(*ssa.If); ok && len(b.Succs) == 2 {
			if b.Succs[0] == b.Succs[1] {
				outs = append(outs, out{b.Succs[0], st})
			} else {
				tr, fa := f.splitBool(x, ifi.Cond, st, fi, b, b.Succs[0], b.Succs[1])
				outs = append(outs, out{b.Succs[0], tr}, out{b.Succs[1], fa})
			}
		} else {
			for _, s := range b.Succs {
				outs = append(outs, out{s, st})
			}
		}
		for oi := range outs {
			o := &outs[oi]
			if len(o.st) == 0 {
				continue
			}
			// boolean phis of the successor: remember which value this edge selects
			for _, pin := range o.to.Instrs {
				phi, ok := pin.(*ssa.Phi)
				if !ok {
					break
				}
				tag, ok := fi.phiTags[phi]
				if !ok {
					continue
				}
				pi := -1
				for k, pr := range o.to.Preds {
					if pr == b {
						pi = k
					}
				}
				if pi < 0 || pi >= len(phi.Edges) {
					continue
				}
				ev := phi.Edges[pi]
				var tr, fa c20Set
				if ev == ssa.Value(phi) {
					continue // loop-carried unchanged
				}
				tr, fa = f.splitBool(x, ev, o.st, fi, nil, nil, nil)
				ns := fa.mapped(func(s c20State) c20State { return s &^ tag })
				for s := range tr {
					ns[s|tag] = struct{}{}
				}
				o.st = ns
			}
			if f.Edge != nil {
				for s := range o.st {
					f.Edge(x, b, o.to, s&c20ClientMask)
				}
			}
			key := [2]int{bi, o.to.Index}
			if edgeSt[key] == nil {
				edgeSt[key] = c20Set{}
			}
			edgeSt[key].addAll(o.st)
			si := o.to.Index
			if in[si] == nil {
				in[si] = c20Set{}
			}
			ch := in[si].addAll(o.st)
			if (ch || !processed[si]) && !queued[si] {
				work = append(work, si)
				queued[si] = true
			}
		}
	}
	// returns
	for bi, b := range fn.Blocks {
		if in[bi] == nil || len(in[bi]) == 0 || len(b.Instrs) == 0 {
			continue
		}
		ret, ok := b.Instrs[len(b.Instrs)-1].(*ssa.Return)
		if !ok {
			continue
		}
		res.returns++
		var rv ssa.Value
		if res.boolIdx >= 0 && res.boolIdx < len(ret.Results) {
			rv = ret.Results[res.boolIdx]
		}
		st := f.execBlock(x, b, in[bi].clone(), fi)
		f.classify(x, rv, st, fi, &res)
	}
	m := ^c20FrameTagMask(depth)
	clr := func(s c20State) c20State { return s & m }
	res.all, res.tr, res.fa = res.all.mapped(clr), res.tr.mapped(clr), res.fa.mapped(clr)
	return res
}

func (f *c20PathFlow) classify(x *c20Ctx, rv ssa.Value, st c20Set, fi *c20FrameInfo, res *c20Res) {
	res.all.addAll(st)
	if rv == nil {
		return
	}
	tr, fa := f.splitBool(x, rv, st, fi, nil, nil, nil)
	res.tr.addAll(tr)
	res.fa.addAll(fa)
}

// c20SelectEdge decodes a branch on the index of a select: which case fired
// on this edge, or that the edge is the one taken when no case was ready
// (default of a non-blocking select).
func c20SelectEdge(cond ssa.Value, branch bool, to *ssa.BasicBlock) (si *SelectInfo, fired int, isDefault bool) {
	bo, ok := cond.(*ssa.BinOp)
	if !ok || (bo.Op != token.EQL && bo.Op != token.NEQ) {
		return nil, -1, false
	}
	if bo.Op == token.NEQ {
		branch = !branch
	}
	ex, ok := bo.X.(*ssa.Extract)
	k, ok2 := bo.Y.(*ssa.Const)
	if !ok || !ok2 || ex.Index != 0 {
		return nil, -1, false
	}
	sel, ok := ex.Tuple.(*ssa.Select)
	if !ok {
		return nil, -1, false
	}
	si = decodeSelect(sel)
	if branch {
		return si, int(k.Int64()), false
	}
	if !sel.Blocking && to != nil && si.Default == to {
		// the false edge of the last case test
		return si, -1, true
	}
	return si, -1, false
}
