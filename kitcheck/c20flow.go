package main

// C20 helpers, part 2: a small path-sensitive, interprocedural forward flow.
//
// The abstract value at a program point is the SET of bit-vectors ("states")
// that some path reaching the point can produce, so a rule can demand
// "every path that gets here has seen A or B". Calls to package functions the
// client wants to follow are analysed as if inlined (a fresh frame per call
// site, so facts are context-sensitive); deferred calls are executed at
// rundefers in LIFO order; boolean results of followed callees are split into
// the states in which the callee returned true and those in which it returned
// false, so that `if !p.ended() { … }` sees the same evidence as the inlined
// test. Evidence is attached to CFG edges (client hook Cond), never to source
// shapes.

import (
	"go/constant"
	"go/token"
	"go/types"
	"sort"

	"golang.org/x/tools/go/ssa"
)

type c20State = uint64
type c20Set map[c20State]struct{}

func (a c20Set) addAll(b c20Set) bool {
	ch := false
	for s := range b {
		if _, ok := a[s]; !ok {
			a[s] = struct{}{}
			ch = true
		}
	}
	return ch
}

func (a c20Set) clone() c20Set {
	b := make(c20Set, len(a))
	for s := range a {
		b[s] = struct{}{}
	}
	return b
}

func (a c20Set) mapped(f func(c20State) c20State) c20Set {
	b := make(c20Set, len(a))
	for s := range a {
		b[f(s)] = struct{}{}
	}
	return b
}

// all reports whether every state satisfies f (false for the empty set is NOT
// implied: empty => true).
func (a c20Set) all(f func(c20State) bool) bool {
	for s := range a {
		if !f(s) {
			return false
		}
	}
	return true
}

// Bits 20.. of a state are per-frame tags, 11 per inlining level:
//
//	0..5   three 2-bit classes: which constant a followed callee returned (flag / small enum / bool)
//	6      the boolean result slot of this frame (functions with defer / named results)
//	7,8    two boolean phis (flag temporaries)
//	9,10   iteration counter of the loop over a literal table being unrolled
const (
	c20TagBase     = 20
	c20TagsPerLvl  = 11
	c20CallTags    = 3
	c20SlotTag     = 6
	c20PhiTag0     = 7
	c20PhiTags     = 2
	c20CntShift    = 9
	c20MaxDepth    = 3
	c20ClientMask  = c20State(1)<<c20TagBase - 1
	c20TagMask     = ^c20ClientMask
	c20MaxBlockRun = 6000
)

// c20CallTag: where the class of a call's flag result is kept and which
// constants the classes 1,2,3 stand for (class 0 = not a known constant).
type c20CallTag struct {
	shift  uint
	consts []string
	idx    int // index of the flag result in the callee's results
}

func (t c20CallTag) class(s c20State) int { return int(s>>t.shift) & 3 }
func (t c20CallTag) with(s c20State, c int) c20State {
	return s&^(3<<t.shift) | c20State(c)<<t.shift
}
func (t c20CallTag) classOf(key string) int {
	for i, k := range t.consts {
		if k == key {
			return i + 1
		}
	}
	return -1
}

type c20Frame struct {
	fn   *ssa.Function
	call ssa.CallInstruction // nil for the root
	args []ssa.Value         // the values the parameters of fn are bound to (receiver first), nil if unknown
}

// c20Ctx is the inlining context a hook is called in.
type c20Ctx struct {
	Stack     []c20Frame
	Replaying bool // a deferred call is being executed
	// Callee, when set, is the function value the call instruction being shown to a hook really
	// invokes (the current element of a table of functions being unrolled).
	Callee ssa.Value
}

func (x *c20Ctx) Fn() *ssa.Function { return x.Stack[len(x.Stack)-1].fn }
func (x *c20Ctx) Depth() int        { return len(x.Stack) - 1 }

// Resolve chases a parameter of an inlined frame to the argument expression
// in the calling frame (repeatedly); returns the value and the depth of the
// frame it belongs to.
func (x *c20Ctx) Resolve(v ssa.Value) (ssa.Value, int) {
	d := len(x.Stack) - 1
	// the value may belong to an outer frame already (not the case for hooks, which see values of the top frame)
	for d > 0 {
		pa, ok := v.(*ssa.Parameter)
		if !ok {
			break
		}
		fr := x.Stack[d]
		if pa.Parent() != fr.fn || fr.call == nil {
			break
		}
		idx := -1
		for i, q := range fr.fn.Params {
			if q == pa {
				idx = i
			}
		}
		args := fr.args
		if idx < 0 || idx >= len(args) {
			break
		}
		v = args[idx]
		d--
	}
	return v, d
}

// InstrAt returns, for an instruction of the top frame, the instruction of
// frame depth d that is executing while it runs (the call instruction of the
// frame above d, or the instruction itself if d is the top frame).
func (x *c20Ctx) InstrAt(in ssa.Instruction, d int) ssa.Instruction {
	if d >= len(x.Stack)-1 {
		return in
	}
	return x.Stack[d+1].call
}

// c20PathFlow is the analysis; see the file comment.
type c20PathFlow struct {
	K      *c20Pkg
	Follow func(f *ssa.Function) bool
	// Instr transfers one state over an instruction (for a followed call: before
	// the callee's body is entered). Deferred calls
	// reach it twice: when registered (x.Replaying false, usually a no-op) and
	// when executed at rundefers (x.Replaying true).
	Instr func(x *c20Ctx, in ssa.Instruction, s c20State) c20State
	// Cond adds the evidence of `cond == branch` to a state; from/to is the CFG
	// edge when the condition is a branch condition (nil for a returned value).
	Cond func(x *c20Ctx, cond ssa.Value, branch bool, from, to *ssa.BasicBlock, s c20State) c20State
	// Edge observes every state propagated along a CFG edge.
	Edge func(x *c20Ctx, from, to *ssa.BasicBlock, s c20State)
	// Enter/Leave bracket a followed call (s is a client state).
	Enter func(x *c20Ctx, call ssa.CallInstruction, s c20State) c20State
	Leave func(x *c20Ctx, call ssa.CallInstruction, s c20State) c20State

	Imprecise  map[string]bool // why a state set may be an over-approximation
	Unfollowed map[string]bool
	budget     int
}

// c20FrameInfo is the per-frame bookkeeping.
type c20FrameInfo struct {
	tags    map[*ssa.Call]c20CallTag
	defers  []*ssa.Defer
	phiTags map[*ssa.Phi]c20State
	unroll  *c20Unroll
	slot    *ssa.Alloc // memory cell the boolean result is spilled to (functions with defer / named results)
	slotTag c20State
}

type c20Res struct {
	all     c20Set
	by      map[string]c20Set // states per constant value of the flag result ("true", "false", "0", "1", ...)
	other   c20Set            // states in which the flag result is not a known constant
	boolIdx int               // index of the flag result (first bool, else first small-integer enum), -1 if none
	returns int
}

// c20FirstBoolResult: the result a caller may branch on: the first boolean
// result, else the first result of a named integer type (a small enum).
func c20FirstBoolResult(fn *ssa.Function) int {
	rs := fn.Signature.Results()
	for i := 0; i < rs.Len(); i++ {
		if b, ok := rs.At(i).Type().Underlying().(*types.Basic); ok && b.Kind() == types.Bool {
			return i
		}
	}
	for i := 0; i < rs.Len(); i++ {
		if _, named := rs.At(i).Type().(*types.Named); !named {
			continue
		}
		if b, ok := rs.At(i).Type().Underlying().(*types.Basic); ok && b.Info()&types.IsInteger != 0 {
			return i
		}
	}
	return -1
}

func c20IsBool(t types.Type) bool {
	b, ok := t.Underlying().(*types.Basic)
	return ok && b.Kind() == types.Bool
}

func c20ConstKey(c *ssa.Const) (string, bool) {
	if c.Value == nil {
		return "", false
	}
	return c.Value.ExactString(), true
}

// Run analyses root entered with the given states.
func (f *c20PathFlow) Run(root *ssa.Function, entry c20Set) c20Res {
	if f.Imprecise == nil {
		f.Imprecise = map[string]bool{}
	}
	if f.Unfollowed == nil {
		f.Unfollowed = map[string]bool{}
	}
	f.budget = c20MaxBlockRun
	x := &c20Ctx{Stack: []c20Frame{{fn: root}}}
	return f.runFrame(x, root, entry)
}

func (f *c20PathFlow) target(c ssa.CallInstruction) *ssa.Function {
	if fn := c20OnceDoArg(c); fn != nil {
		return fn // the function literal handed to sync.Once.Do runs synchronously (at most once)
	}
	return staticCallee(c)
}

// c20Target is one function a call may enter, with the values its parameters
// are bound to.
type c20Target struct {
	fn   *ssa.Function
	args []ssa.Value
}

// targetsIn resolves a call, seen from the inlining context, to the package
// function(s) it enters: a static callee; the function literal handed to
// sync.Once.Do; a function value (closure parameter, local or captured
// variable, method value, func-typed struct field, element of a literal table
// of functions); a method of an unexported interface of the package that has a
// single implementation. More than one target = the call runs one of them.
func (f *c20PathFlow) targetsIn(x *c20Ctx, c ssa.CallInstruction) []c20Target {
	return f.resolveTargets(x, c, false)
}

func (f *c20PathFlow) resolveTargets(x *c20Ctx, c ssa.CallInstruction, quiet bool) []c20Target {
	cc := c.Common()
	if fn := c20OnceDoArg(c); fn != nil {
		return []c20Target{{fn: fn}}
	}
	if cc.IsInvoke() {
		if m := f.K.soleImplementation(cc); m != nil {
			return []c20Target{{fn: m, args: append([]ssa.Value{cc.Value}, cc.Args...)}}
		}
		return nil
	}
	if builtinName(c) != "" {
		return nil
	}
	if t := staticCallee(c); t != nil && !c20IsBoundWrapper(t) {
		return []c20Target{{fn: t, args: cc.Args}}
	}
	v, _ := x.Resolve(cc.Value)
	fvs, ok := f.K.funcValues(v, 0)
	if !ok || len(fvs) == 0 {
		if !quiet && !f.K.libraryFuncValue(v) {
			f.noteDynamic(x, cc)
		}
		return nil
	}
	var out []c20Target
	for _, fv := range fvs {
		args := cc.Args
		if fv.recv != nil {
			args = append([]ssa.Value{fv.recv}, cc.Args...)
		}
		out = append(out, c20Target{fn: fv.fn, args: args})
	}
	return out
}

// noteDynamic: an unresolved call of a function value of an unnamed func type
// (a named one, like context.CancelFunc, comes from its package) may run
// package code the flow does not see.
func (f *c20PathFlow) noteDynamic(x *c20Ctx, cc *ssa.CallCommon) {
	if _, named := cc.Value.Type().(*types.Named); named {
		return
	}
	f.Imprecise["a function value called in "+x.Fn().Name()+" could not be resolved and was not followed"] = true
}

func (f *c20PathFlow) canFollow(x *c20Ctx, cal *ssa.Function) bool {
	if cal == nil || len(cal.Blocks) == 0 || !f.K.In[cal] || (f.Follow != nil && !f.Follow(cal)) {
		return false
	}
	if len(x.Stack)-1 >= c20MaxDepth {
		f.Imprecise["call depth limit reached at "+cal.Name()] = true
		return false
	}
	for _, fr := range x.Stack {
		if fr.fn == cal {
			f.Imprecise["recursive call of "+cal.Name()+" not followed"] = true
			return false
		}
	}
	return true
}

// c20Unroll: a counted loop `for I := 0..len(S)-1 { … S[I] … }` over a slice
// S that is, in this inlining context, a fully known literal of at most three
// elements (a table of steps / function values / channels). The flow counts
// the completed iterations in the state, so each iteration sees exactly its
// element and the loop runs exactly len(S) times.
type c20Unroll struct {
	header *ssa.BasicBlock
	loop   map[*ssa.BasicBlock]bool
	index  ssa.Value
	slice  ssa.Value // origin of S
	elems  []ssa.Value
	shift  uint
}

func (u *c20Unroll) count(s c20State) int { return int(s>>u.shift) & 3 }
func (u *c20Unroll) withCount(s c20State, c int) c20State {
	if c > 3 {
		c = 3
	}
	return s&^(3<<u.shift) | c20State(c)<<u.shift
}

// elemIndex: v is S[I] (the current element) of the unrolled loop.
func (u *c20Unroll) isElem(k *c20Pkg, x *c20Ctx, v ssa.Value) bool {
	src, open := k.origins(v)
	if open || len(src) != 1 {
		return false
	}
	ld, ok := src[0].(*ssa.UnOp)
	if !ok || ld.Op != token.MUL {
		return false
	}
	ia, ok := ld.X.(*ssa.IndexAddr)
	if !ok || ia.Index != u.index {
		return false
	}
	rv, _ := x.Resolve(ia.X)
	s2, o2 := k.origins(rv)
	return !o2 && len(s2) == 1 && s2[0] == u.slice
}

func (f *c20PathFlow) findUnroll(x *c20Ctx, fn *ssa.Function, depth int) *c20Unroll {
	var found *c20Unroll
	allInstrs(fn, func(in ssa.Instruction) {
		if found != nil {
			return
		}
		ia, ok := in.(*ssa.IndexAddr)
		if !ok || !c20IndexFromZero(ia.Index) {
			return
		}
		if _, isSlice := ia.X.Type().Underlying().(*types.Slice); !isSlice {
			return
		}
		rv, _ := x.Resolve(ia.X)
		src, open := f.K.origins(rv)
		if open || len(src) != 1 {
			return
		}
		elems := c20LiteralElems(f.K, rv)
		if len(elems) == 0 || len(elems) > 3 {
			return
		}
		allInstrs(fn, func(j ssa.Instruction) {
			ifi, ok := j.(*ssa.If)
			if !ok || found != nil {
				return
			}
			cmp, ok := decodeCond(ifi.Cond, true)
			if !ok || cmp.Op != token.LSS || cmp.X != ia.Index {
				return
			}
			lc, ok := cmp.Y.(*ssa.Call)
			if !ok || builtinName(lc) != "len" {
				return
			}
			lv, _ := x.Resolve(lc.Call.Args[0])
			s1, o1 := f.K.origins(lv)
			if o1 || len(s1) != 1 || s1[0] != src[0] {
				return
			}
			h := ifi.Block()
			if !h.Dominates(ia.Block()) {
				return
			}
			loop := map[*ssa.BasicBlock]bool{}
			fromH := reachableFrom(h, nil)
			for _, b := range fn.Blocks {
				if fromH[b] && reachableFrom(b, nil)[h] {
					loop[b] = true
				}
			}
			if !loop[h.Succs[0]] || loop[h.Succs[1]] {
				return // expected shape: true edge into the body, false edge out of the loop
			}
			found = &c20Unroll{header: h, loop: loop, index: ia.Index, slice: src[0], elems: elems,
				shift: uint(c20TagBase + depth*c20TagsPerLvl + c20CntShift)}
		})
	})
	return found
}

func (f *c20PathFlow) tagsOf(x *c20Ctx, fn *ssa.Function, depth int) map[*ssa.Call]c20CallTag {
	tags := map[*ssa.Call]c20CallTag{}
	n := 0
	allInstrs(fn, func(in ssa.Instruction) {
		c, ok := in.(*ssa.Call)
		if !ok || builtinName(c) != "" {
			return
		}
		ts := f.resolveTargets(x, c, true)
		if len(ts) != 1 || c20OnceDoArg(c) != nil {
			return
		}
		cal := ts[0].fn
		if cal == nil || !f.K.In[cal] {
			return
		}
		idx := c20FirstBoolResult(cal)
		if idx < 0 {
			return
		}
		var consts []string
		if c20IsBool(cal.Signature.Results().At(idx).Type()) {
			consts = []string{"false", "true"}
		} else {
			seen := map[string]bool{}
			allInstrs(cal, func(j ssa.Instruction) {
				if ret, ok := j.(*ssa.Return); ok && idx < len(ret.Results) {
					if k, ok := ret.Results[idx].(*ssa.Const); ok {
						if key, ok := c20ConstKey(k); ok && !seen[key] {
							seen[key] = true
							consts = append(consts, key)
						}
					}
				}
			})
			sort.Strings(consts)
			if len(consts) == 0 || len(consts) > 3 {
				return
			}
		}
		if n >= c20CallTags {
			f.Imprecise["more flag-returning helper calls in "+fn.Name()+" than can be told apart"] = true
			return
		}
		tags[c] = c20CallTag{shift: uint(c20TagBase + depth*c20TagsPerLvl + 2*n), consts: consts, idx: idx}
		n++
	})
	return tags
}

// phiTagsOf gives a tag to the boolean phis of fn (flags like `ended := false;
// ... ended = true ...; if !ended {`): the tag records, per path, which value
// the merge selected.
func (f *c20PathFlow) phiTagsOf(fn *ssa.Function, depth int) map[*ssa.Phi]c20State {
	tags := map[*ssa.Phi]c20State{}
	n := 0
	for _, b := range fn.Blocks {
		for _, in := range b.Instrs {
			phi, ok := in.(*ssa.Phi)
			if !ok {
				break
			}
			if bt, ok := phi.Type().Underlying().(*types.Basic); !ok || bt.Kind() != types.Bool {
				continue
			}
			if n >= c20PhiTags {
				f.Imprecise["more boolean flags merged in "+fn.Name()+" than can be told apart"] = true
				continue
			}
			tags[phi] = 1 << uint(c20TagBase+depth*c20TagsPerLvl+c20PhiTag0+n)
			n++
		}
	}
	return tags
}

func c20FrameTagMask(depth int) c20State {
	var m c20State
	for i := 0; i < c20TagsPerLvl; i++ {
		m |= 1 << uint(c20TagBase+depth*c20TagsPerLvl+i)
	}
	return m
}

func (f *c20PathFlow) mapInstr(x *c20Ctx, in ssa.Instruction, st c20Set) c20Set {
	if f.Instr == nil {
		return st
	}
	return st.mapped(func(s c20State) c20State {
		return f.Instr(x, in, s&c20ClientMask)&c20ClientMask | s&c20TagMask
	})
}

func (f *c20PathFlow) call(x *c20Ctx, c ssa.CallInstruction, t c20Target, st c20Set, replay bool) c20Res {
	if f.Enter != nil {
		st = st.mapped(func(s c20State) c20State { return f.Enter(x, c, s&c20ClientMask)&c20ClientMask | s&c20TagMask })
	}
	args := t.args
	if len(args) != len(t.fn.Params) {
		args = nil
	}
	nx := &c20Ctx{Stack: append(append([]c20Frame{}, x.Stack...), c20Frame{fn: t.fn, call: c, args: args}), Replaying: x.Replaying || replay}
	sub := f.runFrame(nx, t.fn, st)
	if f.Leave != nil {
		lv := func(s c20State) c20State { return f.Leave(x, c, s&c20ClientMask)&c20ClientMask | s&c20TagMask }
		sub.all, sub.other = sub.all.mapped(lv), sub.other.mapped(lv)
		for k, v := range sub.by {
			sub.by[k] = v.mapped(lv)
		}
	}
	return sub
}

// followable filters the targets of a call; ok=false if some target cannot be entered.
func (f *c20PathFlow) followable(x *c20Ctx, ts []c20Target) ([]c20Target, bool) {
	if len(ts) == 0 {
		return nil, false
	}
	for _, t := range ts {
		if !f.canFollow(x, t.fn) {
			if t.fn != nil && f.K.In[t.fn] {
				f.Unfollowed[t.fn.Name()] = true
			}
			return nil, false
		}
	}
	return ts, true
}

// execBlock runs the instructions of b over st (Return excluded).
func (f *c20PathFlow) execBlock(x *c20Ctx, b *ssa.BasicBlock, st c20Set, fi *c20FrameInfo) c20Set {
	tags, defers := fi.tags, fi.defers
	for _, in := range b.Instrs {
		if len(st) == 0 {
			return st
		}
		switch i := in.(type) {
		case *ssa.Call:
			if u := fi.unroll; u != nil && !i.Call.IsInvoke() && builtinName(i) == "" && staticCallee(i) == nil && u.isElem(f.K, x, i.Call.Value) {
				// the current element of the table being unrolled: each state calls its own element
				out := c20Set{}
				okAll := true
				for c, e := range u.elems {
					part := c20Set{}
					for s := range st {
						if u.count(s) == c {
							part[s] = struct{}{}
						}
					}
					if len(part) == 0 {
						continue
					}
					fvs, ok := f.K.funcValues(e, 0)
					if !ok || len(fvs) != 1 {
						// not a package function (a method value of a library type, ...): the client sees
						// the call with the element it invokes
						x.Callee = e
						out.addAll(f.mapInstr(x, in, part))
						x.Callee = nil
						continue
					}
					args := i.Call.Args
					if fvs[0].recv != nil {
						args = append([]ssa.Value{fvs[0].recv}, args...)
					}
					ts, ok := f.followable(x, []c20Target{{fn: fvs[0].fn, args: args}})
					if !ok {
						okAll = false
						break
					}
					out.addAll(f.call(x, i, ts[0], f.mapInstr(x, in, part), false).all)
				}
				if okAll {
					st = out
					continue
				}
				f.Imprecise["an element of a table of functions called in "+x.Fn().Name()+" could not be resolved"] = true
				continue
			}
			if ts, ok := f.followable(x, f.targetsIn(x, i)); ok {
				st = f.mapInstr(x, in, st) // the call instruction itself (argument uses) is seen by the client too
				tag, tagged := tags[i]
				if tagged {
					// a class set by an earlier execution of this call (loop) is stale
					st = st.mapped(func(s c20State) c20State { return tag.with(s, 0) })
				}
				if len(ts) > 1 {
					f.Imprecise["a call in "+x.Fn().Name()+" runs one of several functions (table of function values); every one is assumed possible each time"] = true
				}
				out := c20Set{}
				for _, t := range ts {
					sub := f.call(x, i, t, st, false)
					if tagged && sub.boolIdx >= 0 && len(ts) == 1 {
						for key, set := range sub.by {
							c := tag.classOf(key)
							if c < 0 {
								c = 0
							}
							for s := range set {
								out[tag.with(s, c)] = struct{}{}
							}
						}
						for s := range sub.other {
							out[tag.with(s, 0)] = struct{}{}
						}
					} else {
						out.addAll(sub.all)
					}
				}
				st = out
				continue
			}
			st = f.mapInstr(x, in, st)
		case *ssa.RunDefers:
			st = f.mapInstr(x, in, st)
			for k := len(defers) - 1; k >= 0; k-- {
				d := defers[k]
				if d.Block() != b && !reachableFrom(d.Block(), nil)[b] {
					continue
				}
				if ts, ok := f.followable(x, f.targetsIn(x, d)); ok {
					old := x.Replaying
					x.Replaying = true
					st = f.mapInstr(x, d, st)
					x.Replaying = old
					out := c20Set{}
					for _, t := range ts {
						out.addAll(f.call(x, d, t, st, true).all)
					}
					st = out
					continue
				}
				old := x.Replaying
				x.Replaying = true
				st = f.mapInstr(x, d, st)
				x.Replaying = old
			}
		case *ssa.Return:
		case *ssa.Store:
			if fi.slot != nil && i.Addr == ssa.Value(fi.slot) {
				tr, fa := f.splitBool(x, i.Val, st, fi, nil, nil, nil)
				st = fa.mapped(func(s c20State) c20State { return s &^ fi.slotTag })
				for s := range tr {
					st[s|fi.slotTag] = struct{}{}
				}
				continue
			}
			st = f.mapInstr(x, in, st)
		default:
			st = f.mapInstr(x, in, st)
		}
	}
	return st
}

// flagTag: v is the flag result of a tagged call of this frame (the call
// itself, or the Extract of its flag result).
func (f *c20PathFlow) flagTag(fi *c20FrameInfo, v ssa.Value) (c20CallTag, bool) {
	switch q := v.(type) {
	case *ssa.Call:
		t, ok := fi.tags[q]
		return t, ok && q.Call.Signature().Results().Len() == 1
	case *ssa.Extract:
		if call, ok := q.Tuple.(*ssa.Call); ok {
			if t, ok := fi.tags[call]; ok && t.idx == q.Index {
				return t, true
			}
		}
	case *ssa.ChangeType:
		return f.flagTag(fi, q.X)
	case *ssa.Convert:
		return f.flagTag(fi, q.X)
	}
	return c20CallTag{}, false
}

// splitClass: the states in which the tagged result equals the constant key,
// and those in which it does not.
func (f *c20PathFlow) splitClass(x *c20Ctx, tag c20CallTag, key string, st c20Set) (c20Set, c20Set) {
	want := tag.classOf(key)
	tr, fa := c20Set{}, c20Set{}
	for s := range st {
		switch c := tag.class(s); {
		case c == 0:
			f.Imprecise["a helper result tested in "+x.Fn().Name()+" is not one of its constant results on some path"] = true
			tr[s], fa[s] = struct{}{}, struct{}{}
		case c == want:
			tr[s] = struct{}{}
		default:
			fa[s] = struct{}{}
		}
	}
	return tr, fa
}

// splitBool partitions st into the states in which v is true and those in
// which it is false, adding the evidence of either outcome.
func (f *c20PathFlow) splitBool(x *c20Ctx, v ssa.Value, st c20Set, fi *c20FrameInfo, from, toTrue, toFalse *ssa.BasicBlock) (c20Set, c20Set) {
	neg := false
	for {
		if u, ok := v.(*ssa.UnOp); ok && u.Op == token.NOT {
			v = u.X
			neg = !neg
			continue
		}
		break
	}
	var tr, fa c20Set
	done := false
	switch c := v.(type) {
	case *ssa.Const:
		if c.Value != nil && c.Value.Kind() == constant.Bool {
			if constant.BoolVal(c.Value) {
				tr, fa = st.clone(), c20Set{}
			} else {
				tr, fa = c20Set{}, st.clone()
			}
			done = true
		}
	case *ssa.Call, *ssa.Extract:
		if tag, ok := f.flagTag(fi, v); ok {
			tr, fa = f.splitClass(x, tag, "true", st)
			done = true
		} else if call, ok := v.(*ssa.Call); ok {
			if cal := staticCallee(call); cal != nil && f.K.In[cal] {
				f.Imprecise["boolean result of "+cal.Name()+" could not be split"] = true
			}
		}
	case *ssa.BinOp:
		// flag/enum result of a followed helper compared with a constant
		if c.Op == token.EQL || c.Op == token.NEQ {
			fv, kv := c.X, c.Y
			if _, isC := fv.(*ssa.Const); isC {
				fv, kv = kv, fv
			}
			if k, isC := kv.(*ssa.Const); isC {
				if tag, ok := f.flagTag(fi, fv); ok {
					if key, ok := c20ConstKey(k); ok {
						tr, fa = f.splitClass(x, tag, key, st)
						if c.Op == token.NEQ {
							tr, fa = fa, tr
						}
						done = true
					}
				}
			}
		}
	case *ssa.Phi:
		if tag, ok := fi.phiTags[c]; ok {
			tr, fa = c20Set{}, c20Set{}
			for s := range st {
				if s&tag != 0 {
					tr[s] = struct{}{}
				} else {
					fa[s] = struct{}{}
				}
			}
			done = true
		} else {
			f.Imprecise["a branch in "+x.Fn().Name()+" tests a boolean merged from several paths"] = true
		}
	case *ssa.UnOp:
		if c.Op == token.MUL && fi.slot != nil && c.X == ssa.Value(fi.slot) {
			tr, fa = c20Set{}, c20Set{}
			for s := range st {
				if s&fi.slotTag != 0 {
					tr[s] = struct{}{}
				} else {
					fa[s] = struct{}{}
				}
			}
			done = true
		} else if c.Op == token.MUL {
			switch c.X.(type) {
			case *ssa.Alloc, *ssa.FreeVar:
				f.Imprecise["a branch in "+x.Fn().Name()+" tests a boolean variable held in memory"] = true
			}
			// a boolean struct field: left to the client's Cond hook
		}
	}
	if !done {
		ev := func(br bool) c20Set {
			if f.Cond == nil {
				return st.clone()
			}
			to := toTrue
			if br == neg { // original value false
				to = toFalse
			}
			return st.mapped(func(s c20State) c20State {
				return f.Cond(x, v, br, from, to, s&c20ClientMask)&c20ClientMask | s&c20TagMask
			})
		}
		tr, fa = ev(true), ev(false)
	}
	if neg {
		tr, fa = fa, tr
	}
	return tr, fa
}

func (f *c20PathFlow) runFrame(x *c20Ctx, fn *ssa.Function, entry c20Set) c20Res {
	depth := len(x.Stack) - 1
	res := c20Res{all: c20Set{}, by: map[string]c20Set{}, other: c20Set{}, boolIdx: c20FirstBoolResult(fn)}
	n := len(fn.Blocks)
	if n == 0 || len(entry) == 0 {
		return res
	}
	fi := &c20FrameInfo{tags: f.tagsOf(x, fn, depth), slotTag: 1 << uint(c20TagBase+depth*c20TagsPerLvl+c20SlotTag)}
	fi.phiTags = f.phiTagsOf(fn, depth)
	fi.unroll = f.findUnroll(x, fn, depth)
	allInstrs(fn, func(in ssa.Instruction) {
		if d, ok := in.(*ssa.Defer); ok {
			fi.defers = append(fi.defers, d)
		}
		if ret, ok := in.(*ssa.Return); ok && res.boolIdx >= 0 && res.boolIdx < len(ret.Results) {
			if u, ok := ret.Results[res.boolIdx].(*ssa.UnOp); ok && u.Op == token.MUL {
				if al, ok := u.X.(*ssa.Alloc); ok {
					fi.slot = al
				}
			}
		}
	})
	in := make([]c20Set, n)
	processed := make([]bool, n)
	edgeSt := map[[2]int]c20Set{}
	in[0] = entry.clone()
	work := []int{0}
	queued := map[int]bool{0: true}
	for len(work) > 0 {
		bi := work[0]
		work = work[1:]
		queued[bi] = false
		f.budget--
		if f.budget < 0 {
			f.Imprecise["analysis budget exhausted"] = true
			break
		}
		b := fn.Blocks[bi]
		st := f.execBlock(x, b, in[bi].clone(), fi)
		processed[bi] = true
		type out struct {
			to *ssa.BasicBlock
			st c20Set
		}
		var outs []out
		if ifi, ok := b.Instrs[len(b.Instrs)-1].(*ssa.If); ok && len(b.Succs) == 2 {
			if b.Succs[0] == b.Succs[1] {
				outs = append(outs, out{b.Succs[0], st})
			} else {
				tr, fa := f.splitBool(x, ifi.Cond, st, fi, b, b.Succs[0], b.Succs[1])
				if u := fi.unroll; u != nil && b == u.header {
					// exactly len(S) iterations
					keep := func(set c20Set, body bool) c20Set {
						o := c20Set{}
						for s := range set {
							if (u.count(s) < len(u.elems)) == body {
								o[s] = struct{}{}
							}
						}
						return o
					}
					tr, fa = keep(tr, true), keep(fa, false)
				}
				outs = append(outs, out{b.Succs[0], tr}, out{b.Succs[1], fa})
			}
		} else {
			for _, s := range b.Succs {
				outs = append(outs, out{s, st})
			}
		}
		for oi := range outs {
			o := &outs[oi]
			if len(o.st) == 0 {
				continue
			}
			if u := fi.unroll; u != nil && o.to == u.header {
				back := u.loop[b]
				o.st = o.st.mapped(func(s c20State) c20State {
					if back {
						return u.withCount(s, u.count(s)+1)
					}
					return u.withCount(s, 0)
				})
			}
			// boolean phis of the successor: remember which value this edge selects
			for _, pin := range o.to.Instrs {
				phi, ok := pin.(*ssa.Phi)
				if !ok {
					break
				}
				tag, ok := fi.phiTags[phi]
				if !ok {
					continue
				}
				pi := -1
				for k, pr := range o.to.Preds {
					if pr == b {
						pi = k
					}
				}
				if pi < 0 || pi >= len(phi.Edges) {
					continue
				}
				ev := phi.Edges[pi]
				var tr, fa c20Set
				if ev == ssa.Value(phi) {
					continue // loop-carried unchanged
				}
				tr, fa = f.splitBool(x, ev, o.st, fi, nil, nil, nil)
				ns := fa.mapped(func(s c20State) c20State { return s &^ tag })
				for s := range tr {
					ns[s|tag] = struct{}{}
				}
				o.st = ns
			}
			if f.Edge != nil {
				for s := range o.st {
					f.Edge(x, b, o.to, s&c20ClientMask)
				}
			}
			key := [2]int{bi, o.to.Index}
			if edgeSt[key] == nil {
				edgeSt[key] = c20Set{}
			}
			edgeSt[key].addAll(o.st)
			si := o.to.Index
			if in[si] == nil {
				in[si] = c20Set{}
			}
			ch := in[si].addAll(o.st)
			if (ch || !processed[si]) && !queued[si] {
				work = append(work, si)
				queued[si] = true
			}
		}
	}
	// returns
	for bi, b := range fn.Blocks {
		if in[bi] == nil || len(in[bi]) == 0 || len(b.Instrs) == 0 {
			continue
		}
		ret, ok := b.Instrs[len(b.Instrs)-1].(*ssa.Return)
		if !ok {
			continue
		}
		res.returns++
		var rv ssa.Value
		if res.boolIdx >= 0 && res.boolIdx < len(ret.Results) {
			rv = ret.Results[res.boolIdx]
		}
		st := f.execBlock(x, b, in[bi].clone(), fi)
		f.classify(x, rv, st, fi, &res)
	}
	m := ^c20FrameTagMask(depth)
	clr := func(s c20State) c20State { return s & m }
	res.all, res.other = res.all.mapped(clr), res.other.mapped(clr)
	for k, v := range res.by {
		res.by[k] = v.mapped(clr)
	}
	return res
}

func (f *c20PathFlow) classify(x *c20Ctx, rv ssa.Value, st c20Set, fi *c20FrameInfo, res *c20Res) {
	res.all.addAll(st)
	if rv == nil {
		return
	}
	add := func(key string, set c20Set) {
		if len(set) == 0 {
			return
		}
		if res.by[key] == nil {
			res.by[key] = c20Set{}
		}
		res.by[key].addAll(set)
	}
	if k, ok := rv.(*ssa.Const); ok {
		if key, ok := c20ConstKey(k); ok {
			add(key, st)
			return
		}
	}
	if c20IsBool(rv.Type()) {
		tr, fa := f.splitBool(x, rv, st, fi, nil, nil, nil)
		add("true", tr)
		add("false", fa)
		return
	}
	res.other.addAll(st)
}

// c20SelectEdge decodes a branch on the index of a select: which case fired
// on this edge, or that the edge is the one taken when no case was ready
// (default of a non-blocking select).
func c20SelectEdge(cond ssa.Value, branch bool, to *ssa.BasicBlock) (si *SelectInfo, fired int, isDefault bool) {
	bo, ok := cond.(*ssa.BinOp)
	if !ok || (bo.Op != token.EQL && bo.Op != token.NEQ) {
		return nil, -1, false
	}
	if bo.Op == token.NEQ {
		branch = !branch
	}
	ex, ok := bo.X.(*ssa.Extract)
	k, ok2 := bo.Y.(*ssa.Const)
	if !ok || !ok2 || ex.Index != 0 {
		return nil, -1, false
	}
	sel, ok := ex.Tuple.(*ssa.Select)
	if !ok {
		return nil, -1, false
	}
	si = decodeSelect(sel)
	if branch {
		return si, int(k.Int64()), false
	}
	if !sel.Blocking && to != nil && si.Default == to {
		// the false edge of the last case test
		return si, -1, true
	}
	return si, -1, false
}
