package main

// Channel identities, select decoding and blocking-operation enumeration.

import (
	"go/token"
	"go/types"

	"golang.org/x/tools/go/ssa"
)

// chanIdent gives a type/provenance-based identity for a channel value:
//
//	field:<pkg.Type.field>   loaded from a struct field
//	done:<x>                 result of x.Done() (context-like)
//	timer:<x>                result of x.C() / x.C (timer channels)
//	var:<fn>.<name>          a local variable (possibly captured)
//	param:<fn>.<name>        a parameter
//	make:<fn>.<comment>      a fresh channel
func chanIdent(v ssa.Value) string {
	return chanIdentD(v, 0)
}

func chanIdentD(v ssa.Value, depth int) string {
	if depth > 8 || v == nil {
		return "?"
	}
	switch x := v.(type) {
	case *ssa.UnOp:
		if x.Op == token.MUL {
			switch a := x.X.(type) {
			case *ssa.FieldAddr:
				id := fieldIDOfAddr(a)
				return "field:" + id.Type + "." + id.Field
			case *ssa.Alloc, *ssa.FreeVar:
				if cell := cellOf(a); cell != nil {
					return cellIdent(cell)
				}
				if fv, ok := a.(*ssa.FreeVar); ok {
					if b := resolveFreeVar(fv); b != nil {
						return chanIdentD(b, depth+1)
					}
					return "freevar:" + fv.Name()
				}
			case *ssa.Global:
				return "global:" + a.Pkg.Pkg.Path() + "." + a.Name()
			case *ssa.IndexAddr:
				return chanIdentD(a.X, depth+1) + "[]"
			}
		}
	case *ssa.Field:
		id := fieldIDOfField(x)
		return "field:" + id.Type + "." + id.Field
	case *ssa.FreeVar:
		if b := resolveFreeVar(x); b != nil {
			return chanIdentD(b, depth+1)
		}
		return "freevar:" + x.Name()
	case *ssa.Parameter:
		return "param:" + x.Parent().Name() + "." + x.Name()
	case *ssa.MakeChan:
		// name through the variable it is stored to, if unique
		return "make:" + x.Parent().Name() + "." + x.Name()
	case *ssa.ChangeType:
		return chanIdentD(x.X, depth+1)
	case *ssa.Convert:
		return chanIdentD(x.X, depth+1)
	case *ssa.Call:
		if obj := calleeObj(x); obj != nil {
			recv := "?"
			if x.Call.IsInvoke() {
				recv = valueName(x.Call.Value)
			} else if len(x.Call.Args) > 0 {
				recv = valueName(x.Call.Args[0])
			}
			switch obj.Name() {
			case "Done":
				return "done:" + recv
			case "C":
				return "timer:" + recv
			}
			return "call:" + obj.Name()
		}
	case *ssa.Phi:
		first := ""
		for i, e := range x.Edges {
			id := chanIdentD(e, depth+1)
			if i == 0 {
				first = id
			} else if id != first {
				return "phi:" + x.Name()
			}
		}
		return first
	case *ssa.Lookup:
		return chanIdentD(x.X, depth+1) + "[]"
	case *ssa.Extract:
		return chanIdentD(x.Tuple, depth+1) + "#"
	}
	return "?"
}

// valueName: a short provenance name for receivers (ctx, p.Context, ...).
func valueName(v ssa.Value) string {
	switch x := v.(type) {
	case *ssa.Parameter:
		return x.Name()
	case *ssa.FreeVar:
		return x.Name()
	case *ssa.UnOp:
		if x.Op == token.MUL {
			if id, _, ok := fieldOfValue(x); ok {
				return id.String()
			}
			return valueName(x.X)
		}
	case *ssa.FieldAddr:
		return fieldIDOfAddr(x).String()
	case *ssa.Alloc:
		return x.Comment
	case *ssa.MakeInterface:
		return valueName(x.X)
	case *ssa.ChangeInterface:
		return valueName(x.X)
	case *ssa.Phi:
		return x.Comment
	}
	if v != nil {
		return v.Name()
	}
	return "?"
}

// SelCase is one case of a select.
type SelCase struct {
	Index int
	Dir   types.ChanDir // SendOnly or RecvOnly
	Chan  string        // chanIdent
	ChanV ssa.Value
	Body  *ssa.BasicBlock // block executed when the case fires (nil if not found)
}

// SelectInfo decodes a Select instruction.
type SelectInfo struct {
	Sel      *ssa.Select
	Cases    []SelCase
	Default  *ssa.BasicBlock // body of default (non-blocking selects)
	Blocking bool
}

func decodeSelect(sel *ssa.Select) *SelectInfo {
	si := &SelectInfo{Sel: sel, Blocking: sel.Blocking}
	for i, st := range sel.States {
		si.Cases = append(si.Cases, SelCase{Index: i, Dir: st.Dir, Chan: chanIdent(st.Chan), ChanV: st.Chan})
	}
	// find index extraction
	var idx ssa.Value
	for _, r := range refs(sel) {
		if ex, ok := r.(*ssa.Extract); ok && ex.Index == 0 {
			idx = ex
		}
	}
	if idx == nil {
		return si
	}
	tests := map[*ssa.BasicBlock]bool{}
	var lastFalse *ssa.BasicBlock
	for _, r := range refs(idx) {
		bo, ok := r.(*ssa.BinOp)
		if !ok || bo.Op != token.EQL {
			continue
		}
		c, ok := bo.Y.(*ssa.Const)
		if !ok {
			continue
		}
		k := int(c.Int64())
		for _, rr := range refs(bo) {
			if ifi, ok := rr.(*ssa.If); ok {
				blk := ifi.Block()
				tests[blk] = true
				if k >= 0 && k < len(si.Cases) {
					si.Cases[k].Body = blk.Succs[0]
				}
				_ = lastFalse
			}
		}
	}
	// default: false successor of a test block that is not itself a test block
	for blk := range tests {
		f := blk.Succs[1]
		if !tests[f] {
			if !sel.Blocking {
				si.Default = f
			}
		}
	}
	return si
}

// BlockingOp is an operation that may block the goroutine.
type BlockingOp struct {
	Instr ssa.Instruction
	Kind  string // "recv", "send", "select", "wg.Wait", "lock"
	Chan  string // for recv/send
	Sel   *SelectInfo
	Desc  string
}

// blockingOps enumerates the potentially blocking operations of fn (not
// descending into callees).
func blockingOps(e *LockEngine, fn *ssa.Function) []BlockingOp {
	var out []BlockingOp
	allInstrs(fn, func(in ssa.Instruction) {
		switch x := in.(type) {
		case *ssa.UnOp:
			if x.Op == token.ARROW {
				out = append(out, BlockingOp{Instr: in, Kind: "recv", Chan: chanIdent(x.X), Desc: "receive on " + chanIdent(x.X)})
			}
		case *ssa.Send:
			out = append(out, BlockingOp{Instr: in, Kind: "send", Chan: chanIdent(x.Chan), Desc: "send on " + chanIdent(x.Chan)})
		case *ssa.Select:
			if x.Blocking {
				out = append(out, BlockingOp{Instr: in, Kind: "select", Sel: decodeSelect(x), Desc: "blocking select"})
			}
		case *ssa.Call:
			if callIs(x, "sync", "WaitGroup", "Wait") {
				recv := "?"
				if len(x.Call.Args) > 0 {
					recv = valueName(x.Call.Args[0])
				}
				out = append(out, BlockingOp{Instr: in, Kind: "wg.Wait", Desc: "WaitGroup.Wait on " + recv})
			} else if e != nil {
				if id, kind, ok := e.lockOp(x); ok && (kind == opLock || kind == opRLock) {
					out = append(out, BlockingOp{Instr: in, Kind: "lock", Chan: id, Desc: "acquire " + shortID(id)})
				}
			}
		}
	})
	return out
}

// closeSites finds close(ch) calls in fn and returns them with channel identities.
func closeSites(fn *ssa.Function) []BlockingOp {
	var out []BlockingOp
	allInstrs(fn, func(in ssa.Instruction) {
		if c, ok := in.(ssa.CallInstruction); ok && builtinName(c) == "close" {
			args := c.Common().Args
			if len(args) == 1 {
				out = append(out, BlockingOp{Instr: in, Kind: "close", Chan: chanIdent(args[0]), Desc: "close of " + chanIdent(args[0])})
			}
		}
	})
	return out
}

// cellOf chases a (possibly multiply captured) variable to its defining Alloc.
func cellOf(v ssa.Value) *ssa.Alloc {
	for i := 0; i < 8 && v != nil; i++ {
		switch x := v.(type) {
		case *ssa.Alloc:
			return x
		case *ssa.FreeVar:
			v = resolveFreeVar(x)
		default:
			return nil
		}
	}
	return nil
}

// cellIdent names a local variable cell; a cell that only ever holds a
// parameter of its function is named after the parameter.
func cellIdent(cell *ssa.Alloc) string {
	only, n := cellStores(cell)
	if pa, ok := only.(*ssa.Parameter); ok && n == 1 {
		return "param:" + pa.Parent().Name() + "." + pa.Name()
	}
	// a local that is assigned once, from a struct field (ch := b.closeCh), is
	// that field's channel (fields are identified by type and name throughout)
	if n == 1 {
		if id, _, ok := fieldOfValue(only); ok {
			if _, isAddr := only.(*ssa.FieldAddr); !isAddr {
				return "field:" + id.Type + "." + id.Field
			}
		}
		if f, ok := only.(*ssa.Field); ok {
			id := fieldIDOfField(f)
			return "field:" + id.Type + "." + id.Field
		}
	}
	return "var:" + cell.Parent().Name() + "." + cell.Comment
}

// cellStores counts the stores into a local variable cell, including those
// made by closures that capture it (transitively); returns the stored value
// when there is exactly one.
func cellStores(cell *ssa.Alloc) (only ssa.Value, n int) {
	var visit func(addr ssa.Value, depth int)
	visit = func(addr ssa.Value, depth int) {
		if depth > 6 {
			n += 2
			return
		}
		for _, r := range refs(addr) {
			switch x := r.(type) {
			case *ssa.Store:
				if x.Addr == addr {
					n++
					only = x.Val
				}
			case *ssa.MakeClosure:
				fn, _ := x.Fn.(*ssa.Function)
				if fn == nil {
					n += 2
					continue
				}
				for i, b := range x.Bindings {
					if b == addr && i < len(fn.FreeVars) {
						visit(fn.FreeVars[i], depth+1)
					}
				}
			}
		}
	}
	visit(cell, 0)
	if n != 1 {
		only = nil
	}
	return only, n
}
