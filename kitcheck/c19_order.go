package main

// C19: ordering rules over the events of the mechanism (fetch, store of the
// served SVID, close of the readiness channel, release of its write lock):
// X8 the initial SVID is published before (or in the same critical section
// as) the readiness signal; X9 no fetch made after readiness holds the write
// lock of the served SVID.

import (
	"go/types"
	"sort"
	"strings"

	"golang.org/x/tools/go/ssa"
)

const (
	c19EvFetch = 1 << iota
	c19EvStore
	c19EvClose
	c19EvUnlock
)

// c19Events computes, for every package function, the events it may perform
// (transitively through followed calls; calls of its own function-typed
// parameters excluded: they are added per call site from the actual arguments).
type c19Events struct {
	x  *c19
	fn map[*ssa.Function]int
}

func (x *c19) events() *c19Events {
	ev := &c19Events{x: x, fn: map[*ssa.Function]int{}}
	for changed := true; changed; {
		changed = false
		for _, fn := range x.fns {
			e := 0
			allInstrs(fn, func(in ssa.Instruction) { e |= ev.ofInstr(in) })
			if e != ev.fn[fn] {
				ev.fn[fn] = e
				changed = true
			}
		}
	}
	return ev
}

func (ev *c19Events) ofCall(ci ssa.CallInstruction) int {
	x := ev.x
	e := 0
	cc := ci.Common()
	if builtinName(ci) == "close" && len(cc.Args) == 1 && x.isReady(cc.Args[0]) {
		return c19EvClose
	}
	if c19IsRequestCall(ci) || c19IsKeyGen(ci) {
		return c19EvFetch
	}
	if id, kind, ok := x.e.lockOp(ci); ok && id == x.lock && kind == opUnlock {
		return c19EvUnlock
	}
	if callIs(ci, "sync", "Once", "Do") && len(cc.Args) == 2 {
		if ts, ok := x.funcTargets(cc.Args[1], nil, 0); ok {
			for _, t := range ts {
				if t.fn != nil {
					e |= ev.fn[t.fn]
				}
			}
		}
		return e
	}
	// a call of the function's own function-typed parameter: bound at the call sites
	if pa, ok := cc.Value.(*ssa.Parameter); ok && !cc.IsInvoke() && pa.Parent() == ci.Parent() {
		return 0
	}
	for _, f := range x.enter(ci, nil) {
		e |= ev.fn[f.fn]
		if x.fetchers[f.fn] {
			e |= c19EvFetch
		}
	}
	for _, a := range cc.Args {
		if _, isSig := a.Type().Underlying().(*types.Signature); isSig {
			if ts, ok := x.funcTargets(a, nil, 0); ok {
				for _, t := range ts {
					if t.fn != nil {
						e |= ev.fn[t.fn]
					}
				}
			}
		}
	}
	return e
}

func (ev *c19Events) ofInstr(in ssa.Instruction) int {
	x := ev.x
	switch t := in.(type) {
	case *ssa.Store:
		if fa, ok := t.Addr.(*ssa.FieldAddr); ok && fieldIDOfAddr(fa) == x.svid && !isFreshBase(fa.X) {
			return c19EvStore
		}
	case *ssa.Call:
		return ev.ofCall(t)
	case *ssa.RunDefers:
		e := 0
		allInstrs(in.Parent(), func(j ssa.Instruction) {
			if d, ok := j.(*ssa.Defer); ok {
				e |= ev.ofCall(d)
			}
		})
		return e
	}
	return 0
}

// after visits every instruction that can execute after start in its function
// (start excluded unless reached again through a loop). stop(in)=true: do not
// continue past in. The visitor gets whether an instruction satisfying mark
// was passed on some path to it.
func c19After(start ssa.Instruction, stop, mark func(ssa.Instruction) bool, visit func(in ssa.Instruction, marked bool)) {
	type st struct {
		b      *ssa.BasicBlock
		marked bool
	}
	seen := map[st]bool{}
	var walk func(b *ssa.BasicBlock, from int, marked bool)
	walk = func(b *ssa.BasicBlock, from int, marked bool) {
		for i := from; i < len(b.Instrs); i++ {
			in := b.Instrs[i]
			visit(in, marked)
			if stop != nil && stop(in) {
				return
			}
			if mark != nil && mark(in) {
				marked = true
			}
		}
		for _, s := range b.Succs {
			k := st{s, marked}
			if !seen[k] {
				seen[k] = true
				walk(s, 0, marked)
			}
		}
	}
	walk(start.Block(), instrIndex(start)+1, false)
}

func (x *c19) checkOrder() {
	r := x.r
	ev := x.events()
	var fns []*ssa.Function
	for _, fn := range x.fns {
		if x.reach[fn] {
			fns = append(fns, fn)
		}
	}

	// ---- X8: no store of the served SVID after the readiness signal without a new fetch in between
	afterClose := map[ssa.Instruction]bool{}
	nClose := 0
	for _, fn := range fns {
		var bad []string
		has := false
		allInstrs(fn, func(k ssa.Instruction) {
			ek := ev.ofInstr(k)
			if ek&c19EvClose == 0 {
				return
			}
			has = true
			heldAtK := x.e.At(k)[x.lock] == ModeW
			c19After(k,
				func(in ssa.Instruction) bool { return ev.ofInstr(in)&c19EvFetch != 0 },
				func(in ssa.Instruction) bool { return ev.ofInstr(in)&c19EvUnlock != 0 },
				func(s ssa.Instruction, unlocked bool) {
					es := ev.ofInstr(s)
					if es&c19EvStore == 0 || es&c19EvFetch != 0 {
						return
					}
					if heldAtK && !unlocked {
						return // signalled and published in one critical section
					}
					bad = append(bad, "readiness is signalled at "+x.pos(k)+" and the SVID fetched before is stored only afterwards, at "+x.pos(s)+", outside the critical section of the signal: a consumer released by the signal can read the field first and gets 'no SVID' although the initial fetch succeeded")
				})
			c19After(k, nil, nil, func(in ssa.Instruction, _ bool) { afterClose[in] = true })
		})
		if !has {
			continue
		}
		nClose++
		r.Check(len(bad) == 0, "C19.X8-publish-before-ready", x.name(fn)+" publishes before signalling", x.p.Pos(fn.Pos()),
			"no store of the served SVID follows the readiness signal without a new fetch in between (or both are in one write-lock section)", strings.Join(c19Dedup(bad), "; "))
	}
	if nClose == 0 {
		x.undecide("no close of %s in the code reachable from Run: publication order not decided", x.readyName)
	}

	// ---- X9: fetches made after readiness do not hold the write lock of the served SVID
	fnAfter := map[*ssa.Function]bool{}
	var mark func(fn *ssa.Function)
	callees := func(in ssa.Instruction) []*ssa.Function {
		var out []*ssa.Function
		ci, ok := in.(ssa.CallInstruction)
		if !ok {
			return nil
		}
		if _, isGo := in.(*ssa.Go); isGo {
			return nil
		}
		if pa, ok := ci.Common().Value.(*ssa.Parameter); ok && !ci.Common().IsInvoke() && pa.Parent() == in.Parent() {
			return nil // the callback of a helper: followed from the call sites that pass it
		}
		for _, f := range x.enter(ci, nil) {
			out = append(out, f.fn)
		}
		for _, a := range ci.Common().Args {
			if _, isSig := a.Type().Underlying().(*types.Signature); isSig {
				if ts, ok := x.funcTargets(a, nil, 0); ok {
					for _, t := range ts {
						if t.fn != nil {
							out = append(out, t.fn)
						}
					}
				}
			}
		}
		return out
	}
	mark = func(fn *ssa.Function) {
		if fnAfter[fn] || x.fetchers[fn] || x.underFetch[fn] {
			return
		}
		fnAfter[fn] = true
		allInstrs(fn, func(in ssa.Instruction) {
			for _, g := range callees(in) {
				mark(g)
			}
		})
	}
	var ins []ssa.Instruction
	for in := range afterClose {
		ins = append(ins, in)
	}
	sort.Slice(ins, func(i, j int) bool { return x.instrID(ins[i]) < x.instrID(ins[j]) })
	for _, in := range ins {
		for _, g := range callees(in) {
			mark(g)
		}
	}
	x.lateInstr, x.lateFn = afterClose, fnAfter
	n := 0
	perFn := map[*ssa.Function]int{}
	for _, fn := range x.fns {
		if x.fetchers[fn] || x.underFetch[fn] {
			continue
		}
		allInstrs(fn, func(in ssa.Instruction) {
			call, ok := in.(*ssa.Call)
			if !ok || !(afterClose[in] || fnAfter[fn]) {
				return
			}
			cal := x.pkgCallee(call)
			if !(cal != nil && x.fetchers[cal]) && !c19IsRequestCall(call) {
				return
			}
			n++
			perFn[fn]++
			construct := x.name(fn) + " fetch after readiness"
			if perFn[fn] > 1 {
				construct += " #" + string(rune('0'+perFn[fn]))
			}
			held := x.e.At(in)[x.lock]
			r.Check(held != ModeW, "C19.X9-renewal-unlocked", construct, x.pos(in),
				"the renewal is requested without the write lock of the served SVID (held: "+x.e.At(in).String()+")",
				"a fetch made after readiness was signalled runs with "+shortID(x.lock)+" held for writing: while the issuer request is in flight every GetX509SVID blocks on the lock although a good SVID is available (a slow or hung issuer stalls all consumers)")
		})
	}
	if n == 0 {
		x.undecide("no fetch after the readiness signal found in the code reachable from Run: renewal not recognised")
	}
}
