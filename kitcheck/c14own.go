package main

// Two further C14 rules.
//
// C14.own-storage — the concurrent slice (and any guarded slice field of the
// containers) refines an ORDINARY slice: Append copies the values it is
// given. Necessary: the backing array of the container's storage is never
// memory handed in by a caller. Decided with the shared may-alias engine
// (taint.go): the summary of every exported function or method (helpers are
// folded in by the engine) must not store into a guarded slice field a value
// that may share memory with one of the function's slice parameters.
// append(field, items...), slices.Concat, slices.Clone, append onto a fresh or
// capped slice copy; `field = items` (or items[:n], slices.Grow(items, n) ...)
// adopts the caller's array.
//
// C14.buffered-range-count — Buffered.Range must call fn once per queued
// element. A ring of N slots holds 0..N elements, but positions on the ring
// (Move(head, count), node comparisons) only carry count modulo N: an
// implementation whose control flow depends on the count ONLY through
// positions computed by the Ring API cannot tell an empty from a full ring.
// Necessary: in Range (helpers, closures and returned iterator functions
// followed) some branch condition depends on the count field through integer
// operations alone (comparisons, arithmetic, phis, variables) — not solely as
// an argument of a Ring method.

import (
	"fmt"
	"go/token"
	"go/types"
	"sort"
	"strings"

	"golang.org/x/tools/go/ssa"
)

func c14OwnStorage(c *Ctx, specs []GuardSpec, r *Report) {
	p := c.P
	const rule = "C14.own-storage"
	sliceField := map[FieldID]bool{}
	pkgs := map[string]bool{}
	for _, s := range specs {
		if t := c14FieldType(p, s.Field); t != nil {
			if _, ok := t.Underlying().(*types.Slice); ok {
				sliceField[s.Field] = true
				if i := strings.LastIndex(s.Field.Type, "."); i > 0 {
					pkgs[s.Field.Type[:i]] = true
				}
			}
		}
	}
	if len(sliceField) == 0 {
		r.Undecide("%s: no guarded field of slice type was resolved", rule)
		return
	}
	t := NewTaintEngine(p) // library models (RetAlias / ReadOnly tables) and, as a fallback, its summaries
	var engineRan bool
	sites := map[*ssa.Function][]ssa.CallInstruction{}
	for _, fn := range p.Funcs {
		allInstrs(fn, func(in ssa.Instruction) {
			if ci, ok := in.(ssa.CallInstruction); ok {
				if cal := staticCallee(ci); cal != nil {
					sites[cal] = append(sites[cal], ci)
				}
			}
		})
	}
	// roots: the caller-owned slices v may share its backing array with
	type res struct {
		params  []*ssa.Parameter
		unknown string
	}
	var trace func(v ssa.Value, seen map[ssa.Value]bool, depth int, out *res)
	trace = func(v ssa.Value, seen map[ssa.Value]bool, depth int, out *res) {
		if v == nil || seen[v] {
			return
		}
		seen[v] = true
		if depth > 30 {
			out.unknown = "too deep"
			return
		}
		switch x := v.(type) {
		case *ssa.Const, *ssa.MakeSlice, *ssa.Alloc, *ssa.Global:
		case *ssa.Slice:
			trace(x.X, seen, depth+1, out)
		case *ssa.ChangeType:
			trace(x.X, seen, depth+1, out)
		case *ssa.Convert:
			trace(x.X, seen, depth+1, out)
		case *ssa.Phi:
			for _, e := range x.Edges {
				trace(e, seen, depth+1, out)
			}
		case *ssa.UnOp:
			if x.Op != token.MUL {
				out.unknown = "unary " + x.Op.String()
				return
			}
			if _, isField := x.X.(*ssa.FieldAddr); isField {
				return // storage of some object, not a parameter
			}
			if _, isAlloc := x.X.(*ssa.Alloc); isAlloc {
				for _, u := range unspill(x) {
					if u != v {
						trace(u, seen, depth+1, out)
					}
				}
				return
			}
			out.unknown = "load through a pointer"
		case *ssa.Parameter:
			fn := x.Parent()
			idx := -1
			for i, q := range fn.Params {
				if q == x {
					idx = i
				}
			}
			ss := sites[origin(fn)]
			if isExportedFunc(fn) || len(ss) == 0 || fn.Parent() != nil {
				out.params = append(out.params, x)
				return
			}
			for _, s := range ss {
				if args := s.Common().Args; idx >= 0 && idx < len(args) {
					trace(args[idx], seen, depth+1, out)
				} else {
					out.unknown = "call site shape"
				}
			}
		case *ssa.Call:
			switch builtinName(x) {
			case "append":
				if len(x.Call.Args) > 0 {
					trace(x.Call.Args[0], seen, depth+1, out) // the appended values are copied
				}
				return
			case "":
			default:
				out.unknown = "builtin " + builtinName(x)
				return
			}
			cal := staticCallee(x)
			if cal == nil {
				out.unknown = "result of a dynamic call"
				return
			}
			if p.funcSet[cal] && len(cal.Blocks) > 0 {
				allInstrs(cal, func(in ssa.Instruction) {
					if ret, ok := in.(*ssa.Return); ok && len(ret.Results) == 1 {
						for _, u := range unspill(ret.Results[0]) {
							trace(u, seen, depth+1, out)
						}
					}
				})
				return
			}
			key := extKey(calleeObj(x))
			if t.ReadOnly[key] {
				return
			}
			if m, ok := t.Models[key]; ok {
				off := 0
				if cal.Signature.Recv() != nil {
					off = 1
				}
				for _, ai := range m.RetAlias {
					if ai+off < len(x.Call.Args) {
						trace(x.Call.Args[ai+off], seen, depth+1, out)
					}
				}
				return
			}
			out.unknown = "result of " + key + " (no model)"
		default:
			out.unknown = fmt.Sprintf("value of shape %T", v)
		}
	}
	n := 0
	for _, fn := range p.Funcs {
		if fn.Pkg == nil || !pkgs[fn.Pkg.Pkg.Path()] {
			continue
		}
		type agg struct {
			pos     token.Pos
			params  map[string]bool
			unknown string
		}
		per := map[FieldID]*agg{}
		allInstrs(fn, func(in ssa.Instruction) {
			st, ok := in.(*ssa.Store)
			if !ok {
				return
			}
			fa, ok := st.Addr.(*ssa.FieldAddr)
			if !ok || !sliceField[fieldIDOfAddr(fa)] {
				return
			}
			id := fieldIDOfAddr(fa)
			g := per[id]
			if g == nil {
				g = &agg{pos: instrPos(in), params: map[string]bool{}}
				per[id] = g
			}
			var out res
			trace(st.Val, map[ssa.Value]bool{}, 0, &out)
			for _, pa := range out.params {
				if _, isSlice := pa.Type().Underlying().(*types.Slice); isSlice {
					g.params[pa.Name()+" of "+FuncName(p, pa.Parent())] = true
				}
			}
			if out.unknown != "" {
				g.unknown = out.unknown
			}
		})
		var ids []FieldID
		for id := range per {
			ids = append(ids, id)
		}
		sort.Slice(ids, func(i, j int) bool { return ids[i].String() < ids[j].String() })
		for _, id := range ids {
			g := per[id]
			n++
			construct := FuncName(p, fn) + " stores " + id.String()
			var bad []string
			for k := range g.params {
				bad = append(bad, k)
			}
			sort.Strings(bad)
			switch {
			case len(bad) > 0:
				r.Violation(rule, construct, p.Pos(g.pos), fmt.Sprintf("the container's storage %s may share its backing array with the caller's slice parameter %s (adopted, not copied): the stored elements change when the caller reuses its buffer, and later appends write into the caller's spare capacity - no ordinary slice behaves like that", id, strings.Join(bad, ", ")))
			case g.unknown != "":
				// fall back to the summary-based may-alias engine
				if !engineRan {
					t.Run()
					engineRan = true
				}
				clean := true
				if sum := t.Sum[fn]; sum != nil {
					for l := range sum.FieldAliasStores["field:"+id.Type+"."+id.Field] {
						if strings.HasPrefix(l, "p") && !(fn.Signature.Recv() != nil && l == "p0") {
							clean = false
						}
					}
				}
				if clean {
					r.OK(rule, construct, p.Pos(g.pos), "the stored value has a shape the tracer does not follow ("+g.unknown+"); the may-alias summaries find no parameter memory in it")
				} else {
					r.Undecide("%s %s: where the stored slice comes from is not established (%s) and the may-alias summaries do not exclude a parameter", rule, construct, g.unknown)
				}
			default:
				r.OK(rule, construct, p.Pos(g.pos), "what is stored never shares a backing array with a caller's slice (copying append / Concat / Clone / fresh memory / the storage itself)")
			}
		}
	}
	if n == 0 {
		r.Undecide("%s: no function stores into a guarded slice field (anchors moved?)", rule)
	}
}

// c14FieldType: the declared type of field id.
func c14FieldType(p *Prog, id FieldID) types.Type {
	i := strings.LastIndex(id.Type, ".")
	if i < 0 {
		return nil
	}
	pkg := p.All[id.Type[:i]]
	if pkg == nil {
		return nil
	}
	tn, ok := pkg.Types.Scope().Lookup(id.Type[i+1:]).(*types.TypeName)
	if !ok {
		return nil
	}
	st, ok := tn.Type().Underlying().(*types.Struct)
	if !ok {
		return nil
	}
	for j := 0; j < st.NumFields(); j++ {
		if st.Field(j).Name() == id.Field {
			return st.Field(j).Type()
		}
	}
	return nil
}

// checkRangeCount: see the file comment.
func (b *c14Buf) checkRangeCount(rng *ssa.Function) {
	r, p := b.r, b.p
	const rule = "C14.buffered-range-count"
	construct := "ring.Buffered.Range iterations"
	fns, _ := b.closure(rng)
	// calls through values that are not the callback parameter and have no visible target
	unknownCalls := 0
	hasCallback := false
	for _, f := range fns {
		allInstrs(f, func(in ssa.Instruction) {
			ci, ok := in.(ssa.CallInstruction)
			if !ok || builtinName(ci) != "" || staticCallee(ci) != nil {
				return
			}
			if _, known := b.callees(ci); known {
				return
			}
			if _, isSig := ci.Common().Value.Type().Underlying().(*types.Signature); isSig && !ci.Common().IsInvoke() {
				// the element callback (a parameter or captured parameter of function type)
				hasCallback = true
				return
			}
			unknownCalls++
		})
	}
	// does v depend on the count through integer operations alone?
	var dep func(v ssa.Value, seen map[ssa.Value]bool, depth int) bool
	dep = func(v ssa.Value, seen map[ssa.Value]bool, depth int) bool {
		if v == nil || seen[v] || depth > 40 {
			return false
		}
		seen[v] = true
		if b.isLoadOf(v, b.endF) {
			return true
		}
		switch x := v.(type) {
		case *ssa.BinOp:
			return dep(x.X, seen, depth+1) || dep(x.Y, seen, depth+1)
		case *ssa.UnOp:
			if x.Op == token.MUL {
				// a variable cell: what was stored into it; a field of Buffered other than the count: stop
				if _, isAlloc := x.X.(*ssa.Alloc); isAlloc {
					for _, u := range unspill(x) {
						if u != v && dep(u, seen, depth+1) {
							return true
						}
					}
				}
				if fv, isFV := x.X.(*ssa.FreeVar); isFV {
					if cell := resolveFreeVar(fv); cell != nil {
						for _, ref := range refs(cell) {
							if st, ok := ref.(*ssa.Store); ok && st.Addr == cell && dep(st.Val, seen, depth+1) {
								return true
							}
						}
						// stores made inside closures that capture the same cell
						for _, f := range fns {
							for _, fv2 := range f.FreeVars {
								if resolveFreeVar(fv2) == cell {
									for _, ref := range refs(fv2) {
										if st, ok := ref.(*ssa.Store); ok && st.Addr == ssa.Value(fv2) && dep(st.Val, seen, depth+1) {
											return true
										}
									}
								}
							}
						}
					}
				}
				return false
			}
			return dep(x.X, seen, depth+1)
		case *ssa.Phi:
			for _, e := range x.Edges {
				if dep(e, seen, depth+1) {
					return true
				}
			}
		case *ssa.Convert:
			return dep(x.X, seen, depth+1)
		case *ssa.ChangeType:
			return dep(x.X, seen, depth+1)
		case *ssa.Parameter, *ssa.Call:
			if c, isCall := x.(*ssa.Call); isCall {
				if cal := staticCallee(c); cal != nil && b.isRingAPIFunc(cal) {
					return false // a position on the ring: the count modulo its length
				}
				if bn := builtinName(c); bn == "min" || bn == "max" {
					for _, a := range c.Call.Args {
						if dep(a, seen, depth+1) {
							return true
						}
					}
					return false
				}
			}
			for _, o := range b.origins(v, 0) {
				if o != v && dep(o, seen, depth+1) {
					return true
				}
			}
		case *ssa.FreeVar:
			if bound := resolveFreeVar(x); bound != nil {
				return dep(bound, seen, depth+1)
			}
		}
		return false
	}
	found := false
	nConds := 0
	for _, f := range fns {
		allInstrs(f, func(in ssa.Instruction) {
			ifi, ok := in.(*ssa.If)
			if !ok || found {
				return
			}
			nConds++
			if dep(ifi.Cond, map[ssa.Value]bool{}, 0) {
				found = true
			}
		})
	}
	pos := p.Pos(rng.Pos())
	switch {
	case found:
		r.OK(rule, construct, pos, "a branch of Range depends on the count through integer operations (the number of callbacks can follow the count, also for a full ring)")
	case unknownCalls > 0 || !hasCallback:
		r.Undecide("%s %s: no branch that tests the count was found, but Range makes %d calls with unknown targets (callback seen: %v)", rule, construct, unknownCalls, hasCallback)
	default:
		r.Violation(rule, construct, pos, fmt.Sprintf("no branch of Range (%d conditions in Range and the helpers it reaches) depends on the count other than through positions computed by Ring methods, which carry the count only modulo the ring's length: a full ring (count == Len) is indistinguishable from an empty one, so Range yields no element although Len() > 0", nConds))
	}
}
