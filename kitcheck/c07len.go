package main

// c07len: E8 "lenbound" — lower bounds on lengths of slice/string values and on
// int values derived from them, from (a) definitions, (b) branch facts on the
// CFG (a forward must-dataflow over edges, so that `switch case A, B:` unions
// and `||` chains are handled), (c) API models, (d) call-site minima for
// parameters of functions that cannot be called from outside the module.
//
// Every bound carries a flag `exact`: the engine understood the whole
// derivation and the bound is attainable by a caller-chosen input as far as the
// tracked facts go. Only exact bounds may produce violations; everything else
// is "unclassified" (counted in the evidence).

import (
	"fmt"
	"go/constant"
	"go/token"
	"go/types"
	"math"
	"os"
	"strings"

	"golang.org/x/tools/go/ssa"
)

const (
	c07NegInf = math.MinInt64 / 4
	c07PosInf = math.MaxInt64 / 4
)

// c07B is a lower bound.
type c07B struct {
	Lo    int64
	Exact bool
	Why   string // short derivation for witnesses
}

func c07min(a, b c07B) c07B {
	// the smaller bound wins; on ties prefer the inexact one (be modest)
	if a.Lo < b.Lo {
		return a
	}
	if b.Lo < a.Lo {
		return b
	}
	if !a.Exact {
		return a
	}
	return b
}

func c07max(a, b c07B) c07B {
	if a.Lo >= b.Lo {
		return a
	}
	return b
}

func c07add(a c07B, k int64) c07B {
	if a.Lo <= c07NegInf {
		return a
	}
	a.Lo += k
	return a
}

type c07subjKind int

const (
	c07Len c07subjKind = iota // length of a slice/string value
	c07Int                    // an integer value
)

type c07flowKey struct {
	kind c07subjKind
	v    ssa.Value
	free bool // ignore what is known about v from its definition/callers (predicate summaries)
}

type c07atKey struct {
	kind c07subjKind
	v    ssa.Value
	b    *ssa.BasicBlock
}

// c07Engine holds memo tables.
type c07Engine struct {
	p         *Prog
	sc        *c07Scope
	fv        *c07FV
	callers   map[*ssa.Function][]c07CallSite // module-wide call sites: static, resolved dynamic, module-interface invokes
	escaped   map[*ssa.Function]bool          // the function's value is taken somewhere
	tblMemo   map[ssa.Value]c07Table
	fieldImm  map[FieldID]bool
	remLinear bool
	ignoreDep ssa.Value
	predDepth int
	predMemo  map[string]c07B
	flows     map[c07flowKey]map[*ssa.BasicBlock]c07B
	busy      map[c07atKey]bool
	intrBusy  map[c07flowKey]bool
	glob      map[*ssa.Global]c07B
	retMemo   map[string]c07B
	depth     int
}

func newC07Engine(p *Prog, sc *c07Scope, fv *c07FV) *c07Engine {
	e := &c07Engine{p: p, sc: sc, fv: fv, callers: map[*ssa.Function][]c07CallSite{}, escaped: map[*ssa.Function]bool{},
		flows: map[c07flowKey]map[*ssa.BasicBlock]c07B{}, busy: map[c07atKey]bool{}, intrBusy: map[c07flowKey]bool{},
		glob: map[*ssa.Global]c07B{}, retMemo: map[string]c07B{}, tblMemo: map[ssa.Value]c07Table{}, fieldImm: map[FieldID]bool{}, predMemo: map[string]c07B{}}
	for _, fn := range p.Funcs {
		fn = origin(fn)
		e.callers[fn] = fv.Sites(fn)
		e.escaped[fn] = len(fv.created[fn]) > 0
	}
	return e
}

// inputFunc: parameters of fn may be chosen from outside the module: entry
// points, exported functions and methods with exported names, and functions
// whose value reaches code the analysis does not see (third-party callbacks,
// returned closures, exported fields). A function whose value only reaches
// tracked cells that are only called (dispatch tables, func-typed unexported
// fields, callback parameters of module functions) is NOT an input function:
// all its call sites are known.
func (e *c07Engine) inputFunc(fn *ssa.Function) bool {
	fn = origin(fn)
	if e.sc != nil && e.sc.Entry[fn] {
		return true
	}
	return e.fv.Status(fn) == c07StInput
}

// calleeOf: the module function a call enters when there is exactly one
// candidate (static call, or a function value / module interface with a single
// visible target).
func (e *c07Engine) calleeOf(c ssa.CallInstruction) *ssa.Function {
	if g := staticCallee(c); g != nil {
		if ts := e.fv.through(g, 0); len(ts) == 1 && ts[0].Shift == 0 {
			return ts[0].Fn
		}
		return g
	}
	if ts := e.fv.DynTargets[c]; len(ts) == 1 {
		return ts[0].Fn
	}
	return nil
}

func c07ConstInt(v ssa.Value) (int64, bool) {
	c, ok := v.(*ssa.Const)
	if !ok || c.Value == nil {
		return 0, false
	}
	if c.Value.Kind() != constant.Int {
		return 0, false
	}
	i, ok := constant.Int64Val(c.Value)
	return i, ok
}

func c07ConstString(v ssa.Value) (string, bool) {
	c, ok := v.(*ssa.Const)
	if !ok || c.Value == nil || c.Value.Kind() != constant.String {
		return "", false
	}
	return constant.StringVal(c.Value), true
}

func c07IsLenType(t types.Type) bool {
	switch u := t.Underlying().(type) {
	case *types.Slice:
		return true
	case *types.Basic:
		return u.Info()&types.IsString != 0
	}
	return false
}

// c07LenArg: v is `len(x)` => x.
func c07LenArg(v ssa.Value) (ssa.Value, bool) {
	c, ok := v.(*ssa.Call)
	if !ok || builtinName(c) != "len" || len(c.Call.Args) != 1 {
		return nil, false
	}
	return c.Call.Args[0], true
}

// c07SameLen strips operations that keep the length: string<->[]byte
// conversions, ChangeType, full reslices x[:].
func c07SameLen(v ssa.Value) ssa.Value {
	for i := 0; i < 8; i++ {
		switch x := v.(type) {
		case *ssa.UnOp:
			// every load of a cell that is written exactly once (a parameter or
			// local captured by closures, a field of a local struct) is that value
			if x.Op == token.MUL {
				if val, _ := c07CellValue(x); val != nil {
					v = val
					continue
				}
			}
		case *ssa.ChangeType:
			v = x.X
			continue
		case *ssa.Convert:
			from, to := x.X.Type().Underlying(), x.Type().Underlying()
			if c07IsByteSliceOrString(from) && c07IsByteSliceOrString(to) {
				v = x.X
				continue
			}
		case *ssa.Slice:
			if x.Low == nil && x.High == nil && x.Max == nil && c07IsLenType(x.X.Type()) {
				v = x.X
				continue
			}
		}
		break
	}
	return v
}

func c07IsByteSliceOrString(t types.Type) bool {
	switch u := t.(type) {
	case *types.Basic:
		return u.Info()&types.IsString != 0
	case *types.Slice:
		b, ok := u.Elem().Underlying().(*types.Basic)
		return ok && b.Kind() == types.Uint8
	}
	return false
}

// ---------------------------------------------------------------------------
// Edge facts

// edgeFact returns the lower bound the edge from->to establishes for the
// subject (c07NegInf when none).
func (e *c07Engine) edgeFact(k c07flowKey, from, to *ssa.BasicBlock) (c07B, bool) {
	if len(from.Instrs) == 0 {
		return c07B{}, false
	}
	ifi, ok := from.Instrs[len(from.Instrs)-1].(*ssa.If)
	if !ok || len(from.Succs) != 2 || from.Succs[0] == from.Succs[1] {
		return c07B{}, false
	}
	branch := from.Succs[0] == to
	return e.condFact(k, ifi.Cond, branch, from)
}

// isSubject: does value v denote the subject quantity? For Len subjects v must
// be len(x) with x length-equal to the subject value.
func (e *c07Engine) isSubject(k c07flowKey, v ssa.Value) bool {
	switch k.kind {
	case c07Len:
		// (a length kept in a write-once local cell, e.g. a captured l := len(x))
		if a, ok := c07LenArg(c07Settle(v)); ok {
			return c07SameLen(a) == c07SameLen(k.v)
		}
	case c07Int:
		if e.sameInt(v, k.v, 0) {
			return true
		}
	}
	return false
}

func c07swap(op token.Token) token.Token {
	switch op {
	case token.LSS:
		return token.GTR
	case token.GTR:
		return token.LSS
	case token.LEQ:
		return token.GEQ
	case token.GEQ:
		return token.LEQ
	}
	return op
}

func (e *c07Engine) condFact(k c07flowKey, cond ssa.Value, branch bool, at *ssa.BasicBlock) (c07B, bool) {
	// (v, err) := f(...): on the err == nil edge, len(v) >= minimum over the
	// returns of f that do not certainly carry an error
	if ex, ok := k.v.(*ssa.Extract); ok && k.kind == c07Len {
		if cmp, ok := decodeCond(cond, branch); ok && cmp.Op == token.EQL {
			x, y := cmp.X, cmp.Y
			if isNilConst(x) {
				x, y = y, x
			}
			x = c07LoadedFrom(x)
			if ex2, ok := x.(*ssa.Extract); ok && isNilConst(y) && ex2.Tuple == ex.Tuple && ex2.Index != ex.Index {
				if call, ok := ex.Tuple.(*ssa.Call); ok {
					if fn := e.calleeOf(call); fn != nil && e.p.InModule(fn) {
						b := e.returnLen(fn, ex.Index, ex2.Index)
						if b.Lo > 0 {
							return b, true
						}
					}
				}
			}
		}
	}
	if f, ok := e.summaryFact(k, cond, branch, at); ok {
		return f, true
	}
	if cmp, ok := decodeCond(cond, branch); ok {
		x, y, op := cmp.X, cmp.Y, cmp.Op
		if !e.isSubject(k, x) && e.isSubject(k, y) {
			x, y, op = y, x, c07swap(op)
		}
		if e.isSubject(k, x) {
			var other c07B
			if c, ok := c07ConstInt(y); ok {
				other = c07B{Lo: c, Exact: true}
			} else if c07isInteger(y.Type()) {
				other = e.intAt(y, at)
				other.Exact = false // a bound on the other side is not a tight fact about the subject
			} else {
				return c07B{}, false
			}
			if other.Lo <= c07NegInf {
				return c07B{}, false
			}
			switch op {
			case token.GEQ, token.EQL:
				return c07B{Lo: other.Lo, Exact: other.Exact, Why: "guard"}, true
			case token.GTR:
				return c07B{Lo: other.Lo + 1, Exact: other.Exact, Why: "guard"}, true
			case token.NEQ:
				// x != c raises the bound only when the current bound equals c; the
				// flow combines it: see neqFact.
				return c07B{}, false
			}
			return c07B{}, false
		}
		// string comparisons on a Len subject: s == "const", s != ""
		if k.kind == c07Len {
			sx, sy := c07SameLen(x), c07SameLen(y)
			subj := c07SameLen(k.v)
			if sy == subj {
				sx, sy = sy, sx
			}
			if sx == subj {
				if s, ok := c07ConstString(sy); ok {
					switch op {
					case token.EQL:
						return c07B{Lo: int64(len(s)), Exact: true, Why: "== " + quoteShort(s)}, true
					case token.NEQ:
						if s == "" {
							return c07B{Lo: 1, Exact: true, Why: `!= ""`}, true
						}
					}
				}
			}
		}
		// subject is a difference a-b: a > b, a >= b
		if k.kind == c07Int {
			if bo, ok := k.v.(*ssa.BinOp); ok && bo.Op == token.SUB {
				a, b := bo.X, bo.Y
				xx, yy, o := cmp.X, cmp.Y, cmp.Op
				if e.sameInt(xx, b, 0) && e.sameInt(yy, a, 0) {
					xx, yy, o = yy, xx, c07swap(o)
				}
				if e.sameInt(xx, a, 0) && e.sameInt(yy, b, 0) {
					switch o {
					case token.GTR:
						return c07B{Lo: 1, Exact: true, Why: "guard a>b"}, true
					case token.GEQ, token.EQL:
						return c07B{Lo: 0, Exact: true, Why: "guard a>=b"}, true
					}
				}
			}
		}
		return c07B{}, false
	}
	// membership in a literal table (dispatch map, list of supported names)
	if k.kind == c07Len {
		if t, ok := e.memberFact(cond, branch, k.v); ok {
			return c07B{Lo: t.MinLen, Exact: true, Why: "one of the keys of " + t.Name}, true
		}
	}
	// boolean calls: strings.HasPrefix(s, "c") etc.
	if call, val, ok := boolCallCond(cond, branch); ok && val && k.kind == c07Len {
		for _, pk := range []string{"strings", "bytes"} {
			for _, nm := range []string{"HasPrefix", "HasSuffix", "Contains"} {
				if callIs(call, pk, "", nm) && len(call.Call.Args) == 2 && c07SameLen(call.Call.Args[0]) == c07SameLen(k.v) {
					b := e.lenAt(call.Call.Args[1], at)
					if b.Lo > 0 {
						return c07B{Lo: b.Lo, Exact: b.Exact, Why: pk + "." + nm}, true
					}
				}
			}
		}
	}
	return c07B{}, false
}

// summaryFact: facts that come out of module helpers.
//
//	(P1) the condition is the boolean result of a module function that
//	     receives the subject (x, or len(x), or the int itself): the bound that
//	     holds at every return of the helper that can produce this truth value
//	     (validLen(len(x)), longEnough(x)).
//	(P2) the subject is one result of a module call and the condition is the
//	     bool flag (or the error) of the SAME call: n, ok := bodyLen(); the
//	     bound of result n over the returns that can produce this flag.
func (e *c07Engine) summaryFact(k c07flowKey, cond ssa.Value, branch bool, at *ssa.BasicBlock) (c07B, bool) {
	for {
		if u, ok := cond.(*ssa.UnOp); ok && u.Op == token.NOT {
			cond, branch = u.X, !branch
			continue
		}
		break
	}
	if e.depth > 30 {
		return c07B{}, false
	}
	// (P2)
	if ex, ok := k.v.(*ssa.Extract); ok {
		flag := c07LoadedFrom(cond)
		wantNil := false
		if cmp, ok := decodeCond(cond, branch); ok && (cmp.Op == token.EQL || cmp.Op == token.NEQ) {
			x, y := cmp.X, cmp.Y
			if isNilConst(x) {
				x, y = y, x
			}
			if isNilConst(y) {
				if cmp.Op == token.NEQ {
					return c07B{}, false
				}
				flag, wantNil = c07LoadedFrom(x), true
			}
		}
		if ex2, ok := flag.(*ssa.Extract); ok && ex2.Tuple == ex.Tuple && ex2.Index != ex.Index {
			if call, ok := ex.Tuple.(*ssa.Call); ok {
				if fn := e.calleeOf(call); fn != nil && e.p.InModule(fn) && fn.Blocks != nil {
					b, ok := e.tupleSummary(fn, k.kind, ex.Index, ex2.Index, wantNil, branch)
					if ok {
						return b, true
					}
				}
			}
		}
		return c07B{}, false
	}
	// (P1)
	call, ri, ok := c07FlagCall(cond)
	if !ok {
		return c07B{}, false
	}
	fn := e.calleeOf(call)
	if fn == nil || !e.p.InModule(fn) || fn.Blocks == nil || ri >= fn.Signature.Results().Len() {
		return c07B{}, false
	}
	if bt, ok := fn.Signature.Results().At(ri).Type().Underlying().(*types.Basic); !ok || bt.Kind() != types.Bool {
		return c07B{}, false
	}
	shift := 0
	if call.Call.IsInvoke() {
		shift = 1
	} else if ts := e.fv.callTargets(call); len(ts) == 1 {
		shift = ts[0].Shift
	}
	best := c07B{}
	found := false
	for i, a := range call.Call.Args {
		pi := i + shift
		if pi >= len(fn.Params) {
			continue
		}
		par := fn.Params[pi]
		var pk c07flowKey
		switch {
		case k.kind == c07Len && c07IsLenType(a.Type()) && c07SameLen(a) == c07SameLen(k.v):
			pk = c07flowKey{kind: c07Len, v: par, free: true}
		case k.kind == c07Len && c07isInteger(a.Type()):
			if x, ok := c07LenArg(a); !ok || c07SameLen(x) != c07SameLen(k.v) {
				continue
			}
			pk = c07flowKey{kind: c07Int, v: par, free: true}
		case k.kind == c07Int && c07isInteger(a.Type()) && e.sameInt(a, k.v, 0):
			pk = c07flowKey{kind: c07Int, v: par, free: true}
		default:
			continue
		}
		b, ok := e.predSummary(fn, pk, branch, ri)
		if ok && (!found || b.Lo > best.Lo) {
			best, found = b, true
		}
	}
	if !found {
		return c07B{}, false
	}
	best.Why = "guard " + FuncName(e.p, fn)
	return best, true
}

// c07FlagCall: v is the boolean result of a call: the call itself, or the
// bool component #i of its tuple (through a local cell written just before).
func c07FlagCall(v ssa.Value) (*ssa.Call, int, bool) {
	v = c07LoadedFrom(v)
	switch x := v.(type) {
	case *ssa.Call:
		if _, isB := x.Call.Value.(*ssa.Builtin); isB {
			return nil, 0, false
		}
		if x.Call.Signature().Results().Len() == 1 {
			return x, 0, true
		}
	case *ssa.Extract:
		if c, ok := x.Tuple.(*ssa.Call); ok {
			return c, x.Index, true
		}
	}
	return nil, 0, false
}

// predTransparent: cond is (the negation of) a call of a boolean module
// function that receives one of the subjects, and every condition inside that
// function that depends on the corresponding parameter is one the engine
// interprets.
func (e *c07Engine) predTransparent(cond ssa.Value, subjects []c07flowKey) bool {
	for {
		if u, ok := cond.(*ssa.UnOp); ok && u.Op == token.NOT {
			cond = u.X
			continue
		}
		break
	}
	call, ri, ok := c07FlagCall(cond)
	if !ok || e.predDepth > 2 {
		return false
	}
	fn := e.calleeOf(call)
	if fn == nil || !e.p.InModule(fn) || fn.Blocks == nil || ri >= fn.Signature.Results().Len() {
		return false
	}
	if bt, ok := fn.Signature.Results().At(ri).Type().Underlying().(*types.Basic); !ok || bt.Kind() != types.Bool {
		return false
	}
	shift := 0
	if call.Call.IsInvoke() {
		shift = 1
	} else if ts := e.fv.callTargets(call); len(ts) == 1 {
		shift = ts[0].Shift
	}
	mapped := false
	e.predDepth++
	defer func() { e.predDepth-- }()
	for i, a := range call.Call.Args {
		pi := i + shift
		if pi >= len(fn.Params) {
			continue
		}
		par := fn.Params[pi]
		for _, k := range subjects {
			var pk c07flowKey
			switch {
			case k.kind == c07Len && c07IsLenType(a.Type()) && c07SameLen(a) == c07SameLen(k.v):
				pk = c07flowKey{kind: c07Len, v: par, free: true}
			case c07isInteger(a.Type()) && e.isSubject(k, a):
				pk = c07flowKey{kind: c07Int, v: par, free: true}
			default:
				continue
			}
			mapped = true
			for _, b := range fn.Blocks {
				ret, isRet := b.Instrs[len(b.Instrs)-1].(*ssa.Return)
				if !isRet {
					continue
				}
				if len(e.opaqueGuards(fn, b, par, []c07flowKey{pk})) > 0 {
					return false
				}
				if ri >= len(ret.Results) || !e.readableFlag(ret.Results[ri], par, pk, 0) {
					return false
				}
			}
		}
	}
	return mapped
}

// readableFlag: the returned boolean is built only from constants and from
// conditions on the parameter that the engine interprets.
func (e *c07Engine) readableFlag(v ssa.Value, par *ssa.Parameter, pk c07flowKey, depth int) bool {
	if depth > 4 {
		return false
	}
	switch x := v.(type) {
	case *ssa.Const:
		return true
	case *ssa.UnOp:
		if x.Op == token.NOT {
			return e.readableFlag(x.X, par, pk, depth+1)
		}
	case *ssa.Phi:
		for _, ed := range x.Edges {
			if !e.readableFlag(ed, par, pk, depth+1) {
				return false
			}
		}
		return true
	case *ssa.Call:
		if !c07Depends(x, par, 5) {
			return true
		}
		return e.predTransparent(x, []c07flowKey{pk})
	case *ssa.BinOp:
		if !c07Depends(x, par, 5) {
			return true
		}
		if cmp, ok := decodeCond(x, true); ok {
			for _, side := range []ssa.Value{cmp.X, cmp.Y} {
				if e.isSubject(pk, side) {
					return true
				}
				if bo, ok := side.(*ssa.BinOp); ok && bo.Op == token.REM && e.isSubject(pk, bo.X) {
					return true
				}
			}
			if pk.kind == c07Len {
				if c07SameLen(cmp.X) == ssa.Value(par) || c07SameLen(cmp.Y) == ssa.Value(par) {
					return true // string comparison
				}
			}
		}
		return false
	}
	return !c07Depends(v, par, 5)
}

// flagFact: the bound of subject k at block blk under the assumption that the
// returned flag value has truth value want; possible=false when it cannot.
func (e *c07Engine) flagFact(k c07flowKey, flag ssa.Value, want bool, blk *ssa.BasicBlock, depth int) (c07B, bool) {
	for {
		if u, ok := flag.(*ssa.UnOp); ok && u.Op == token.NOT {
			flag, want = u.X, !want
			continue
		}
		break
	}
	if c, ok := flag.(*ssa.Const); ok && c.Value != nil && c.Value.Kind() == constant.Bool {
		if constant.BoolVal(c.Value) != want {
			return c07B{}, false
		}
		return e.at(k, blk), true
	}
	if phi, ok := flag.(*ssa.Phi); ok && depth < 3 {
		acc := c07B{Lo: c07PosInf, Exact: true}
		any := false
		for i, ed := range phi.Edges {
			pred := phi.Block().Preds[i]
			b, ok := e.flagFact(k, ed, want, pred, depth+1)
			if !ok {
				continue
			}
			if f, ok := e.edgeFact(k, pred, phi.Block()); ok && f.Lo > b.Lo {
				b = f
			}
			any = true
			acc = c07min(acc, b)
		}
		if !any {
			return c07B{}, false
		}
		return acc, true
	}
	b := e.at(k, blk)
	if f, ok := e.condFact(k, flag, want, blk); ok && f.Lo > b.Lo {
		b = f
	}
	// subject != c with the bound sitting exactly on c
	if cmp, ok := decodeCond(flag, want); ok && cmp.Op == token.NEQ {
		x, y := cmp.X, cmp.Y
		if !e.isSubject(k, x) {
			x, y = y, x
		}
		if c, isC := c07ConstInt(y); isC && e.isSubject(k, x) && c == b.Lo {
			b.Lo++
			b.Why = "guard !="
		}
		if k.kind == c07Len {
			if s, isS := c07ConstString(c07SameLen(y)); isS && s == "" && c07SameLen(x) == c07SameLen(k.v) && b.Lo == 0 {
				b.Lo = 1
			}
		}
	}
	return b, true
}

// predSummary: the bound on parameter subject pk that holds whenever the
// boolean helper fn returns want.
func (e *c07Engine) predSummary(fn *ssa.Function, pk c07flowKey, want bool, ri int) (c07B, bool) {
	key := fmt.Sprintf("P|%s|%d|%s|%v|%d", FuncName(e.p, fn), pk.kind, pk.v.Name(), want, ri)
	if b, ok := e.predMemo[key]; ok {
		return b, b.Lo > c07NegInf && !(pk.kind == c07Len && b.Lo <= 0)
	}
	e.predMemo[key] = c07B{Lo: c07NegInf}
	e.depth += 10
	defer func() { e.depth -= 10 }()
	acc := c07B{Lo: c07PosInf, Exact: true}
	for _, b := range fn.Blocks {
		ret, ok := b.Instrs[len(b.Instrs)-1].(*ssa.Return)
		if !ok || ri >= len(ret.Results) {
			continue
		}
		f, possible := e.flagFact(pk, ret.Results[ri], want, b, 0)
		if !possible {
			continue
		}
		acc = c07min(acc, f)
	}
	if acc.Lo >= c07PosInf {
		// the helper never returns this truth value: the edge is dead
		acc = c07B{Lo: c07PosInf / 2, Why: "unreachable"}
	}
	e.predMemo[key] = acc
	return acc, acc.Lo > c07NegInf && !(pk.kind == c07Len && acc.Lo <= 0)
}

// tupleSummary: the bound of result #vi of fn over the returns whose flag
// result #fi can be `want` (or nil for an error flag).
func (e *c07Engine) tupleSummary(fn *ssa.Function, kind c07subjKind, vi, fi int, wantNil, want bool) (c07B, bool) {
	key := fmt.Sprintf("T|%s|%d|%d|%d|%v|%v", FuncName(e.p, fn), kind, vi, fi, wantNil, want)
	if b, ok := e.predMemo[key]; ok {
		return b, b.Lo > c07NegInf && !(kind == c07Len && b.Lo <= 0)
	}
	e.predMemo[key] = c07B{Lo: c07NegInf}
	e.depth += 10
	defer func() { e.depth -= 10 }()
	acc := c07B{Lo: c07PosInf, Exact: true}
	for _, b := range fn.Blocks {
		ret, ok := b.Instrs[len(b.Instrs)-1].(*ssa.Return)
		if !ok || vi >= len(ret.Results) || fi >= len(ret.Results) {
			continue
		}
		k := c07flowKey{kind: kind, v: ret.Results[vi]}
		var f c07B
		if wantNil {
			if c07CertainlyNonNil(ret.Results[fi]) {
				continue
			}
			f = e.at(k, b)
			if kind == c07Len {
				f = e.lenAt(ret.Results[vi], b)
			} else {
				f = e.intAt(ret.Results[vi], b)
			}
		} else {
			var possible bool
			if _, isC := ret.Results[vi].(*ssa.Const); isC {
				// constant result: its value, if the flag can be want here
				if _, possible = e.flagFact(c07flowKey{kind: c07Int, v: ret.Results[fi], free: true}, ret.Results[fi], want, b, 0); !possible {
					continue
				}
				if kind == c07Len {
					f = e.lenAt(ret.Results[vi], b)
				} else {
					f = e.intAt(ret.Results[vi], b)
				}
			} else {
				f, possible = e.flagFact(k, ret.Results[fi], want, b, 0)
				if !possible {
					continue
				}
			}
		}
		f.Exact = false
		acc = c07min(acc, f)
	}
	if acc.Lo >= c07PosInf {
		acc = c07B{Lo: c07PosInf / 2, Why: "unreachable"}
	}
	acc.Why = "results of " + FuncName(e.p, fn)
	e.predMemo[key] = acc
	return acc, acc.Lo > c07NegInf && !(kind == c07Len && acc.Lo <= 0)
}

// c07LoadedFrom: v is a load of a local cell; returns the value stored into
// that cell by the latest store in the same block, provided no call or other
// store to the cell lies in between (captured variables such as a shared err
// are heap cells in go/ssa). Otherwise v.
func c07LoadedFrom(v ssa.Value) ssa.Value {
	u, ok := v.(*ssa.UnOp)
	if !ok || u.Op != token.MUL {
		return v
	}
	a, ok := u.X.(*ssa.Alloc)
	if !ok {
		return v
	}
	blk := u.Block()
	idx := instrIndex(u)
	for i := idx - 1; i >= 0; i-- {
		switch x := blk.Instrs[i].(type) {
		case *ssa.Store:
			if x.Addr == ssa.Value(a) {
				return x.Val
			}
		case ssa.CallInstruction:
			if _, isB := x.Common().Value.(*ssa.Builtin); !isB {
				return v
			}
		}
	}
	return v
}

func c07isInteger(t types.Type) bool {
	b, ok := t.Underlying().(*types.Basic)
	return ok && b.Info()&types.IsInteger != 0
}

func c07sameInt(a, b ssa.Value) bool {
	if a == b {
		return true
	}
	if x, ok := c07LenArg(a); ok {
		if y, ok := c07LenArg(b); ok {
			return c07SameLen(x) == c07SameLen(y)
		}
	}
	return false
}

// symbolicDef: the earliest block from which both operands of the
// subtraction denote fixed numbers: len() of a value, constants, loads of
// immutable fields of a value; nil when an operand is not of that kind.
func (e *c07Engine) symbolicDef(bo *ssa.BinOp, fn *ssa.Function) *ssa.BasicBlock {
	var res *ssa.BasicBlock
	for _, op := range []ssa.Value{bo.X, bo.Y} {
		var root ssa.Value
		if _, isC := op.(*ssa.Const); isC {
			continue
		}
		if x, ok := c07LenArg(op); ok {
			root = c07SameLen(x)
		} else if u, ok := op.(*ssa.UnOp); ok && u.Op == token.MUL {
			addr := u.X
			for i := 0; i < 5; i++ {
				fa, ok := addr.(*ssa.FieldAddr)
				if !ok {
					break
				}
				if !e.fieldImmutable(fieldIDOfAddr(fa)) {
					return nil
				}
				addr = fa.X
			}
			if _, isFA := addr.(*ssa.FieldAddr); isFA || addr == u.X {
				return nil
			}
			root = addr
		} else {
			return nil
		}
		f2, b := c07DefBlock(root)
		if f2 != fn || b == nil {
			return nil
		}
		if res == nil || res.Dominates(b) {
			res = b
		} else if !b.Dominates(res) {
			return nil
		}
	}
	return res
}

// sameInt: a and b denote the same number: the same SSA value, len() of
// length-equal values, loads of the same write-once local cell, loads of the
// same immutable field of the same object, or the same arithmetic on such.
func (e *c07Engine) sameInt(a, b ssa.Value, depth int) bool {
	if c07sameInt(a, b) {
		return true
	}
	if depth > 4 || a == nil || b == nil {
		return false
	}
	a, b = c07Settle(a), c07Settle(b)
	if c07sameInt(a, b) {
		return true
	}
	if ca, ok := c07ConstInt(a); ok {
		cb, ok2 := c07ConstInt(b)
		return ok2 && ca == cb
	}
	switch x := a.(type) {
	case *ssa.BinOp:
		y, ok := b.(*ssa.BinOp)
		if !ok || x.Op != y.Op {
			return false
		}
		if e.sameInt(x.X, y.X, depth+1) && e.sameInt(x.Y, y.Y, depth+1) {
			return true
		}
		if x.Op == token.ADD || x.Op == token.MUL {
			return e.sameInt(x.X, y.Y, depth+1) && e.sameInt(x.Y, y.X, depth+1)
		}
	case *ssa.Convert:
		if y, ok := b.(*ssa.Convert); ok && types.Identical(x.Type(), y.Type()) {
			return e.sameInt(x.X, y.X, depth+1)
		}
	case *ssa.UnOp:
		y, ok := b.(*ssa.UnOp)
		if !ok || x.Op != token.MUL || y.Op != token.MUL {
			return false
		}
		return e.sameFieldLoad(x.X, y.X, 0)
	case *ssa.Field:
		if y, ok := b.(*ssa.Field); ok && x.Field == y.Field {
			return x.X == y.X
		}
	}
	return false
}

// sameFieldLoad: two field addresses with the same path from the same root
// object, every field on the path being immutable after construction.
func (e *c07Engine) sameFieldLoad(a, b ssa.Value, depth int) bool {
	fa, ok1 := a.(*ssa.FieldAddr)
	fb, ok2 := b.(*ssa.FieldAddr)
	if !ok1 || !ok2 || depth > 4 || fa.Field != fb.Field || fieldIDOfAddr(fa) != fieldIDOfAddr(fb) {
		return false
	}
	if !e.fieldImmutable(fieldIDOfAddr(fa)) {
		return false
	}
	if fa.X == fb.X {
		return true
	}
	// nested: x.inner.f  (inner embedded by value: FieldAddr of FieldAddr; by pointer: load)
	xa, xb := fa.X, fb.X
	if ua, ok := xa.(*ssa.UnOp); ok && ua.Op == token.MUL {
		if ub, ok := xb.(*ssa.UnOp); ok && ub.Op == token.MUL {
			return e.sameFieldLoad(ua.X, ub.X, depth+1)
		}
		return false
	}
	return e.sameFieldLoad(xa, xb, depth+1)
}

// fieldImmutable: the (unexported) field is only written while its struct is
// being built: every store to it goes through a field address rooted at a
// local allocation of the storing function.
func (e *c07Engine) fieldImmutable(id FieldID) bool {
	if v, ok := e.fieldImm[id]; ok {
		return v
	}
	res := id.Field != "" && id.Type != "" && !token.IsExported(id.Field)
	if res {
		for _, fn := range e.p.Funcs {
			allInstrs(fn, func(in ssa.Instruction) {
				st, ok := in.(*ssa.Store)
				if !ok || !res {
					return
				}
				fa, ok := st.Addr.(*ssa.FieldAddr)
				if !ok || fieldIDOfAddr(fa) != id {
					return
				}
				if _, _, ok := c07AddrPath(fa, 0); !ok {
					res = false
				}
			})
		}
	}
	e.fieldImm[id] = res
	return res
}

// fieldConsts: the set of integer constants an unexported field of an
// unexported struct type can hold: every store to the field (module-wide) is
// a constant or a copy of another such field; 0 is always included (zero
// value). ok=false when some store is not understood.
func (e *c07Engine) fieldConsts(id FieldID, depth int) (lo, hi int64, ok bool) {
	if depth > 3 || id.Field == "" || token.IsExported(id.Field) {
		return 0, 0, false
	}
	tn := id.Type[strings.LastIndex(id.Type, ".")+1:]
	if tn == "" || token.IsExported(tn) {
		return 0, 0, false
	}
	lo, hi, ok = 0, 0, true
	n := 0
	for _, fn := range e.p.Funcs {
		allInstrs(fn, func(in ssa.Instruction) {
			st, isSt := in.(*ssa.Store)
			if !isSt || !ok {
				return
			}
			fa, isFA := st.Addr.(*ssa.FieldAddr)
			if !isFA || fieldIDOfAddr(fa) != id {
				return
			}
			n++
			l, h, k := e.intConsts(st.Val, depth+1)
			if !k {
				ok = false
				return
			}
			if l < lo {
				lo = l
			}
			if h > hi {
				hi = h
			}
		})
	}
	if n == 0 {
		ok = false
	}
	return
}

// intConsts: finite constant range of an int value (constant, or load of a
// field with a constant value set, through write-once local cells).
func (e *c07Engine) intConsts(v ssa.Value, depth int) (lo, hi int64, ok bool) {
	v = c07Settle(v)
	if c, isC := c07ConstInt(v); isC {
		return c, c, true
	}
	switch x := v.(type) {
	case *ssa.UnOp:
		if fa, isFA := x.X.(*ssa.FieldAddr); isFA && x.Op == token.MUL {
			return e.fieldConsts(fieldIDOfAddr(fa), depth)
		}
	case *ssa.Field:
		return e.fieldConsts(fieldIDOfField(x), depth)
	case *ssa.Phi:
		if depth > 2 {
			return 0, 0, false
		}
		first := true
		for _, ed := range x.Edges {
			l, h, k := e.intConsts(ed, depth+1)
			if !k {
				return 0, 0, false
			}
			if first || l < lo {
				lo = l
			}
			if first || h > hi {
				hi = h
			}
			first = false
		}
		return lo, hi, !first
	}
	return 0, 0, false
}

func quoteShort(s string) string {
	if len(s) > 16 {
		s = s[:16] + "…"
	}
	return `"` + s + `"`
}

// neqZeroFact: the edge establishes subject != c.
func (e *c07Engine) neqFact(k c07flowKey, from, to *ssa.BasicBlock) (int64, bool) {
	if len(from.Instrs) == 0 {
		return 0, false
	}
	ifi, ok := from.Instrs[len(from.Instrs)-1].(*ssa.If)
	if !ok || len(from.Succs) != 2 || from.Succs[0] == from.Succs[1] {
		return 0, false
	}
	cmp, ok := decodeCond(ifi.Cond, from.Succs[0] == to)
	if !ok || cmp.Op != token.NEQ {
		return 0, false
	}
	x, y := cmp.X, cmp.Y
	if !e.isSubject(k, x) {
		x, y = y, x
	}
	if !e.isSubject(k, x) {
		return 0, false
	}
	return c07ConstInt(y)
}

// modFact: the edge establishes subject % m == r (m, r constants, 0 <= r < m).
func (e *c07Engine) modFact(k c07flowKey, from, to *ssa.BasicBlock) (int64, int64, bool) {
	if len(from.Instrs) == 0 {
		return 0, 0, false
	}
	ifi, ok := from.Instrs[len(from.Instrs)-1].(*ssa.If)
	if !ok || len(from.Succs) != 2 || from.Succs[0] == from.Succs[1] {
		return 0, 0, false
	}
	cmp, ok := decodeCond(ifi.Cond, from.Succs[0] == to)
	if !ok || cmp.Op != token.EQL {
		return 0, 0, false
	}
	x, y := cmp.X, cmp.Y
	if _, isC := c07ConstInt(x); isC {
		x, y = y, x
	}
	bo, ok := x.(*ssa.BinOp)
	if !ok || bo.Op != token.REM || !e.isSubject(k, bo.X) {
		return 0, 0, false
	}
	m, ok1 := c07ConstInt(bo.Y)
	r, ok2 := c07ConstInt(y)
	if !ok1 || !ok2 || m <= 0 || r < 0 || r >= m {
		return 0, 0, false
	}
	return m, r, true
}

// flow computes, for every block, the lower bound of the subject at block
// entry, given its bound `base` at its definition.
func (e *c07Engine) flow(k c07flowKey, fn *ssa.Function, def *ssa.BasicBlock, base c07B) map[*ssa.BasicBlock]c07B {
	if m, ok := e.flows[k]; ok {
		return m
	}
	m := map[*ssa.BasicBlock]c07B{}
	e.flows[k] = m // (re-entrancy: an empty map reads as base below)
	top := c07B{Lo: c07PosInf, Exact: true}
	in := map[*ssa.BasicBlock]c07B{}
	for _, b := range fn.Blocks {
		in[b] = top
	}
	if def == nil {
		def = fn.Blocks[0]
	}
	in[def] = base
	// precompute edge facts
	type edge struct{ from, to *ssa.BasicBlock }
	facts := map[edge]c07B{}
	neq := map[edge]int64{}
	hasNeq := map[edge]bool{}
	mods := map[edge][2]int64{}
	for _, b := range fn.Blocks {
		for _, s := range b.Succs {
			if f, ok := e.edgeFact(k, b, s); ok {
				facts[edge{b, s}] = f
			}
			if c, ok := e.neqFact(k, b, s); ok {
				neq[edge{b, s}] = c
				hasNeq[edge{b, s}] = true
			}
			if m, r, ok := e.modFact(k, b, s); ok {
				mods[edge{b, s}] = [2]int64{m, r}
			}
		}
	}
	changed := true
	for iter := 0; changed && iter < 4*len(fn.Blocks)+8; iter++ {
		changed = false
		for _, b := range fn.Blocks {
			if b == def || len(b.Preds) == 0 {
				continue
			}
			if !def.Dominates(b) {
				continue
			}
			acc := top
			for _, pr := range b.Preds {
				if !def.Dominates(pr) {
					// edge from outside the region where the subject exists
					continue
				}
				v := in[pr]
				if v.Lo >= c07PosInf {
					continue // not yet reached
				}
				if f, ok := facts[edge{pr, b}]; ok {
					if f.Lo > v.Lo {
						v = c07B{Lo: f.Lo, Exact: f.Exact && v.Exact, Why: f.Why}
					}
				}
				if hasNeq[edge{pr, b}] && neq[edge{pr, b}] == v.Lo {
					v.Lo++
					v.Why = "guard !="
				}
				// subject % m == r on this edge: the bound moves up to the next
				// number with that remainder (x%m==0 alone says nothing about
				// x>=0, but with x>=1 it says x>=m)
				if mf, ok := mods[edge{pr, b}]; ok && v.Lo >= 0 && v.Lo < c07PosInf/4 {
					n := v.Lo + ((mf[1]-v.Lo%mf[0])%mf[0]+mf[0])%mf[0]
					if n > v.Lo {
						v.Lo = n
						v.Why = "guard %"
					}
				}
				acc = c07min(acc, v)
			}
			if acc.Lo >= c07PosInf {
				continue
			}
			if old := in[b]; old.Lo != acc.Lo || old.Exact != acc.Exact {
				// must be monotone decreasing from top; guard against oscillation
				if old.Lo >= c07PosInf || acc.Lo < old.Lo || (acc.Lo == old.Lo && old.Exact && !acc.Exact) {
					in[b] = acc
					changed = true
				}
			}
		}
	}
	for b, v := range in {
		if v.Lo >= c07PosInf {
			v = base
		}
		m[b] = v
	}
	return m
}

func c07DefBlock(v ssa.Value) (*ssa.Function, *ssa.BasicBlock) {
	switch x := v.(type) {
	case *ssa.Parameter:
		if x.Parent() == nil || len(x.Parent().Blocks) == 0 {
			return nil, nil
		}
		return x.Parent(), x.Parent().Blocks[0]
	case *ssa.FreeVar:
		if x.Parent() == nil || len(x.Parent().Blocks) == 0 {
			return nil, nil
		}
		return x.Parent(), x.Parent().Blocks[0]
	case ssa.Instruction:
		return x.Parent(), x.Block()
	}
	return nil, nil
}

// lenAt: lower bound on len(v) at entry of block at (v must be live there).
func (e *c07Engine) lenAt(v ssa.Value, at *ssa.BasicBlock) c07B {
	if s, ok := c07ConstString(v); ok {
		return c07B{Lo: int64(len(s)), Exact: true, Why: "constant"}
	}
	if c, ok := v.(*ssa.Const); ok && c.IsNil() {
		return c07B{Lo: 0, Exact: true, Why: "nil"}
	}
	return e.at(c07flowKey{kind: c07Len, v: v}, at)
}

// intAt: lower bound on the integer v at entry of block at.
func (e *c07Engine) intAt(v ssa.Value, at *ssa.BasicBlock) c07B {
	if c, ok := c07ConstInt(v); ok {
		return c07B{Lo: c, Exact: true, Why: "constant"}
	}
	return e.at(c07flowKey{kind: c07Int, v: v}, at)
}

func (e *c07Engine) at(k c07flowKey, at *ssa.BasicBlock) c07B {
	unknown := c07B{Lo: 0}
	if k.kind == c07Int {
		unknown = c07B{Lo: c07NegInf}
	}
	// a load of a write-once cell stands for the value stored there: the
	// subject is that value (guards on any other load of the cell count), and
	// when the value lives in an enclosing function the subject exists from
	// the entry of the closure
	var defOverride *ssa.BasicBlock
	if u, ok := k.v.(*ssa.UnOp); ok && u.Op == token.MUL && !k.free {
		var canon ssa.Value = k.v
		if k.kind == c07Len {
			canon = c07SameLen(k.v)
		} else {
			canon = c07Settle(k.v)
		}
		if canon != k.v {
			if cf, _ := c07DefBlock(canon); cf != nil && at != nil && cf == at.Parent() {
				k.v = canon
			} else if at != nil && u.Parent() == at.Parent() && len(at.Parent().Blocks) > 0 {
				defOverride = at.Parent().Blocks[0]
			}
		}
	}
	fn, def := c07DefBlock(k.v)
	if defOverride != nil && fn == defOverride.Parent() {
		def = defOverride
	}
	if fn == nil {
		return unknown
	}
	ak := c07atKey{k.kind, k.v, at}
	if e.busy[ak] || e.depth > 40 {
		return unknown
	}
	e.busy[ak] = true
	e.depth++
	defer func() { delete(e.busy, ak); e.depth-- }()
	base := unknown
	if !k.free {
		base = e.intrinsic(k)
	} else {
		base.Exact = true // "anything": what the predicate itself establishes is tight
	}
	// a difference of values that exist long before it is computed
	// (len(x) - aead.tagSize): guards placed before the subtraction count too
	if bo, ok := k.v.(*ssa.BinOp); ok && k.kind == c07Int && bo.Op == token.SUB {
		if d2 := e.symbolicDef(bo, fn); d2 != nil && d2.Dominates(def) {
			def = d2
		}
	}
	if at == nil || at.Parent() != fn {
		return base
	}
	m := e.flow(k, fn, def, base)
	if b, ok := m[at]; ok {
		return c07max(b, base)
	}
	return base
}

// ---------------------------------------------------------------------------
// Intrinsic bounds (from the definition of the value)

func (e *c07Engine) intrinsic(k c07flowKey) c07B {
	if e.intrBusy[k] {
		if k.kind == c07Len {
			return c07B{Lo: 0}
		}
		return c07B{Lo: c07NegInf}
	}
	e.intrBusy[k] = true
	defer delete(e.intrBusy, k)
	if k.kind == c07Len {
		return e.intrinsicLen(k.v)
	}
	return e.intrinsicInt(k.v)
}

func c07blockOf(v ssa.Value) *ssa.BasicBlock {
	if in, ok := v.(ssa.Instruction); ok {
		return in.Block()
	}
	return nil
}

func (e *c07Engine) intrinsicLen(v ssa.Value) c07B {
	unknown := c07B{Lo: 0, Why: "unknown origin"}
	switch x := v.(type) {
	case *ssa.Const:
		if s, ok := c07ConstString(x); ok {
			return c07B{Lo: int64(len(s)), Exact: true, Why: "constant"}
		}
		return c07B{Lo: 0, Exact: true, Why: "nil"}
	case *ssa.Parameter:
		return e.paramBound(c07Len, x)
	case *ssa.ChangeType:
		return e.lenAt(x.X, x.Block())
	case *ssa.Convert:
		from, to := x.X.Type().Underlying(), x.Type().Underlying()
		if c07IsByteSliceOrString(from) && c07IsByteSliceOrString(to) {
			return e.lenAt(x.X, x.Block())
		}
		// string -> []rune: non-empty stays non-empty
		if c07IsByteSliceOrString(from) {
			if _, ok := to.(*types.Slice); ok {
				b := e.lenAt(x.X, x.Block())
				if b.Lo >= 1 {
					return c07B{Lo: 1, Exact: b.Exact, Why: "[]rune of non-empty string"}
				}
				return c07B{Lo: 0, Exact: b.Exact, Why: "[]rune(" + b.Why + ")"}
			}
		}
		// []rune / rune -> string etc.
		return unknown
	case *ssa.MakeSlice:
		b := e.intAt(x.Len, x.Block())
		if b.Lo < 0 {
			b.Lo = 0
		}
		b.Why = "make"
		return b
	case *ssa.Slice:
		return e.sliceLen(x)
	case *ssa.Phi:
		acc := c07B{Lo: c07PosInf, Exact: true}
		for i, ed := range x.Edges {
			acc = c07min(acc, e.lenAtEnd(ed, x.Block().Preds[i], x.Block()))
		}
		if acc.Lo >= c07PosInf {
			return unknown
		}
		return acc
	case *ssa.Call:
		return e.callLen(x)
	case *ssa.UnOp:
		if x.Op == token.MUL {
			if g, ok := x.X.(*ssa.Global); ok {
				return e.globalLen(g)
			}
			// a local cell (captured variable, field of a local struct) written once
			if val, st := c07CellValue(x); val != nil {
				b := e.lenAt(val, c07CellPoint(x, st))
				return b
			}
		}
		return unknown
	case *ssa.Extract:
		return unknown // only the err==nil edge fact can say something (see extractFact)
	}
	return unknown
}

// c07AddrPath: addr is a local cell: an Alloc, a field path into an Alloc, or a
// captured variable (FreeVar bound to such a cell of the enclosing function).
func c07AddrPath(addr ssa.Value, depth int) (*ssa.Alloc, string, bool) {
	if depth > 4 {
		return nil, "", false
	}
	switch a := addr.(type) {
	case *ssa.Alloc:
		return a, "", true
	case *ssa.FieldAddr:
		r, p, ok := c07AddrPath(a.X, depth+1)
		if !ok {
			return nil, "", false
		}
		return r, p + "." + string(rune('a'+a.Field)), true
	case *ssa.FreeVar:
		if b := resolveFreeVar(a); b != nil {
			return c07AddrPath(b, depth+1)
		}
	}
	return nil, "", false
}

// c07CellUses collects every store to / other use of the cell rooted at alloc
// (through field addresses and closure captures). ok=false when the address
// leaks (passed to a call, stored, indexed...).
func c07CellUses(a *ssa.Alloc) (stores []*ssa.Store, ok bool) {
	ok = true
	var walk func(addr ssa.Value, depth int)
	walk = func(addr ssa.Value, depth int) {
		if depth > 5 {
			ok = false
			return
		}
		for _, ref := range refs(addr) {
			switch x := ref.(type) {
			case *ssa.UnOp, *ssa.DebugRef:
			case *ssa.Store:
				if x.Addr == addr {
					stores = append(stores, x)
				} else {
					ok = false
				}
			case *ssa.FieldAddr:
				walk(x, depth+1)
			case *ssa.MakeClosure:
				fn, _ := x.Fn.(*ssa.Function)
				for i, b := range x.Bindings {
					if b == addr && fn != nil && i < len(fn.FreeVars) {
						walk(fn.FreeVars[i], depth+1)
					}
				}
			default:
				ok = false
			}
		}
	}
	walk(a, 0)
	return
}

// c07CellValue: load reads a local cell that is written exactly once (same
// path), by a store that precedes the load; returns the stored value.
// c07CellPoint: the program point (a block of the storing function) whose
// facts about the stored value hold at the load: the load's own block when it
// is in the storing function (the store dominates it), and for a load inside
// a closure the block that creates the (outermost) closure — the value never
// changes, so what is known when the closure is made is known when it runs.
func c07CellPoint(load *ssa.UnOp, st *ssa.Store) *ssa.BasicBlock {
	if load.Parent() == st.Parent() {
		return load.Block()
	}
	for f := load.Parent(); f != nil && f.Parent() != nil; f = f.Parent() {
		if f.Parent() != st.Parent() {
			continue
		}
		var res *ssa.BasicBlock
		n := 0
		for _, b := range st.Parent().Blocks {
			for _, in := range b.Instrs {
				if mc, ok := in.(*ssa.MakeClosure); ok && mc.Fn == ssa.Value(f) {
					res = b
					n++
				}
			}
		}
		if n == 1 {
			return res
		}
	}
	return st.Block()
}

type c07CellRes struct {
	val ssa.Value
	st  *ssa.Store
}

var c07CellMemo = map[*ssa.UnOp]c07CellRes{}

func c07CellValue(load *ssa.UnOp) (ssa.Value, *ssa.Store) {
	if r, ok := c07CellMemo[load]; ok {
		return r.val, r.st
	}
	v, st := c07CellValue0(load)
	c07CellMemo[load] = c07CellRes{v, st}
	return v, st
}

func c07CellValue0(load *ssa.UnOp) (ssa.Value, *ssa.Store) {
	root, path, ok := c07AddrPath(load.X, 0)
	if !ok {
		return nil, nil
	}
	stores, ok := c07CellUses(root)
	if !ok {
		return nil, nil
	}
	var hit *ssa.Store
	for _, st := range stores {
		_, sp, ok := c07AddrPath(st.Addr, 0)
		if !ok {
			return nil, nil
		}
		// a store to a prefix (whole struct) or to the same path touches the cell
		if sp == path {
			if hit != nil {
				return nil, nil
			}
			hit = st
		} else if strings.HasPrefix(path, sp) || strings.HasPrefix(sp, path) {
			return nil, nil
		}
	}
	if hit == nil {
		return nil, nil
	}
	if hit.Parent() == load.Parent() {
		if hit.Block() == load.Block() {
			if instrIndex(hit) > instrIndex(load) {
				return nil, nil
			}
		} else if !hit.Block().Dominates(load.Block()) {
			return nil, nil
		}
	} else {
		// load in a closure: the store must be in an enclosing function and
		// precede the creation of the closure
		enc := false
		for f := load.Parent().Parent(); f != nil; f = f.Parent() {
			if f == hit.Parent() {
				enc = true
			}
		}
		if !enc {
			return nil, nil
		}
		okOrder := false
		for f := load.Parent(); f != nil && f.Parent() != nil; f = f.Parent() {
			if f.Parent() != hit.Parent() {
				continue
			}
			for _, b := range hit.Parent().Blocks {
				for _, in := range b.Instrs {
					if mc, isMC := in.(*ssa.MakeClosure); isMC && mc.Fn == ssa.Value(f) {
						if (hit.Block() == b && instrIndex(hit) < instrIndex(mc)) || (hit.Block() != b && hit.Block().Dominates(b)) {
							okOrder = true
						} else {
							return nil, nil
						}
					}
				}
			}
		}
		if !okOrder {
			return nil, nil
		}
	}
	return hit.Val, hit
}

// lenAtEnd: bound on len(v) at the end of block pred when control goes to succ.
func (e *c07Engine) lenAtEnd(v ssa.Value, pred, succ *ssa.BasicBlock) c07B {
	b := e.lenAt(v, pred)
	k := c07flowKey{kind: c07Len, v: v}
	if f, ok := e.edgeFact(k, pred, succ); ok && f.Lo > b.Lo {
		return c07B{Lo: f.Lo, Exact: f.Exact && b.Exact, Why: f.Why}
	}
	return b
}

func (e *c07Engine) sliceLen(x *ssa.Slice) c07B {
	// array length for *[N]T operands
	arrLen := int64(-1)
	if pt, ok := x.X.Type().Underlying().(*types.Pointer); ok {
		if at, ok := pt.Elem().Underlying().(*types.Array); ok {
			arrLen = at.Len()
		}
	}
	var whole c07B
	if arrLen >= 0 {
		whole = c07B{Lo: arrLen, Exact: true, Why: "array"}
	} else {
		whole = e.lenAt(x.X, x.Block())
	}
	lo, hi := int64(0), int64(-1)
	loKnown, hiKnown := true, false
	if x.Low != nil {
		if c, ok := c07ConstInt(x.Low); ok {
			lo = c
		} else {
			loKnown = false
		}
	}
	if x.High != nil {
		if c, ok := c07ConstInt(x.High); ok {
			hi, hiKnown = c, true
		}
	}
	switch {
	case x.High == nil && loKnown:
		b := c07add(whole, -lo)
		if b.Lo < 0 {
			b.Lo = 0
		}
		return b
	case hiKnown && loKnown:
		return c07B{Lo: hi - lo, Exact: true, Why: "constant reslice"}
	case x.High == nil && !loKnown:
		// x[len(x)-c:]
		if bo, ok := x.Low.(*ssa.BinOp); ok && bo.Op == token.SUB {
			if a, ok := c07LenArg(bo.X); ok && c07SameLen(a) == c07SameLen(x.X) {
				if c, ok := c07ConstInt(bo.Y); ok {
					return c07B{Lo: c, Exact: true, Why: "tail"}
				}
			}
		}
	case x.High != nil && !hiKnown && loKnown:
		b := e.intAt(x.High, x.Block())
		if b.Lo > c07NegInf {
			b = c07add(b, -lo)
			if b.Lo < 0 {
				b.Lo = 0
			}
			b.Exact = false
			return b
		}
	}
	return c07B{Lo: 0, Why: "reslice with variable bounds"}
}

// c07LenModels: external functions with a known minimum result length. exact:
// the minimum is attained for some argument.
var c07LenModels = map[string]int64{
	"strings.Split":      1, // non-empty separator (checked at the call)
	"strings.SplitN":     0,
	"strings.Fields":     0,
	"strings.FieldsFunc": 0,
	"strings.TrimSpace":  0,
	"strings.TrimRight":  0,
	"strings.TrimLeft":   0,
	"strings.Trim":       0,
	"strings.TrimPrefix": 0,
	"strings.TrimSuffix": 0,
	"strings.ToLower":    0,
	"strings.ToUpper":    0,
	"bytes.TrimRight":    0,
	"bytes.TrimSpace":    0,
	"bytes.Split":        1,
}

func (e *c07Engine) callLen(c *ssa.Call) c07B {
	unknown := c07B{Lo: 0, Why: "result of a call the engine has no model for"}
	if bn := builtinName(c); bn != "" {
		if bn == "append" && len(c.Call.Args) >= 1 {
			b := e.lenAt(c.Call.Args[0], c.Block())
			b.Exact = false
			return b
		}
		return unknown
	}
	// in-module callee (static, or the single visible target of a function
	// value / module interface) with a single result: minimum over its returns
	if fn := e.calleeOf(c); fn != nil && e.p.InModule(fn) && fn.Signature.Results().Len() == 1 {
		return e.returnLen(fn, 0, -1)
	}
	obj := calleeObj(c)
	if obj == nil || obj.Pkg() == nil {
		return unknown
	}
	if c.Call.IsInvoke() {
		return unknown
	}
	key := obj.Pkg().Path() + "." + obj.Name()
	if obj.Type().(*types.Signature).Recv() == nil {
		if lo, ok := c07LenModels[key]; ok {
			if lo == 1 {
				// Split: the separator must be a non-empty constant
				if len(c.Call.Args) < 2 {
					return unknown
				}
				if s, ok := c07ConstString(c.Call.Args[1]); !ok || s == "" {
					if sb := e.lenAt(c.Call.Args[1], c.Block()); sb.Lo < 1 {
						return unknown
					}
				}
			}
			return c07B{Lo: lo, Exact: true, Why: key}
		}
	}
	// in-module callee with a single result: minimum over its returns
	if fn := e.calleeOf(c); fn != nil && e.p.InModule(fn) && fn.Signature.Results().Len() == 1 {
		return e.returnLen(fn, 0, -1)
	}
	return unknown
}

// returnLen: minimum over the returns of fn of the length of result k; when
// errIdx >= 0, returns whose error result is certainly non-nil are skipped.
func (e *c07Engine) returnLen(fn *ssa.Function, k, errIdx int) c07B {
	key := FuncName(e.p, fn) + "#" + string(rune('0'+k)) + "#" + string(rune('0'+errIdx+1))
	if b, ok := e.retMemo[key]; ok {
		return b
	}
	e.retMemo[key] = c07B{Lo: 0, Why: "recursion"}
	acc := c07B{Lo: c07PosInf, Exact: true}
	if fn.Blocks == nil {
		return c07B{Lo: 0}
	}
	for _, b := range fn.Blocks {
		ret, ok := b.Instrs[len(b.Instrs)-1].(*ssa.Return)
		if !ok || k >= len(ret.Results) {
			continue
		}
		if errIdx >= 0 && errIdx < len(ret.Results) && c07CertainlyNonNil(ret.Results[errIdx]) {
			continue
		}
		v := ret.Results[k]
		// defers spill results into slots: give up on those (inexact 0)
		rb := e.lenAt(v, b)
		rb.Exact = false
		acc = c07min(acc, rb)
	}
	if acc.Lo >= c07PosInf {
		acc = c07B{Lo: 0}
	}
	acc.Exact = false
	acc.Why = "every successful return of " + FuncName(e.p, fn)
	e.retMemo[key] = acc
	return acc
}

func c07CertainlyNonNil(v ssa.Value) bool {
	switch x := v.(type) {
	case *ssa.MakeInterface:
		return true
	case *ssa.Call:
		if callIs(x, "fmt", "", "Errorf") || callIs(x, "errors", "", "New") {
			return true
		}
	case *ssa.UnOp:
		// load of a package-level sentinel error
		if x.Op == token.MUL {
			if _, ok := x.X.(*ssa.Global); ok {
				return true
			}
		}
	}
	return false
}

// globalLen: a package-level slice initialised from a literal and never
// stored to (nor address-taken) anywhere else keeps its literal length.
func (e *c07Engine) globalLen(g *ssa.Global) c07B {
	if b, ok := e.glob[g]; ok {
		return b
	}
	res := c07B{Lo: 0, Why: "package-level variable that is reassigned or whose initialiser is not a literal"}
	defer func() { e.glob[g] = res }()
	if g.Pkg == nil {
		return res
	}
	initFn := g.Pkg.Func("init")
	var stores []*ssa.Store
	bad := false
	scan := func(fn *ssa.Function) {
		allInstrs(fn, func(in ssa.Instruction) {
			for _, op := range in.Operands(nil) {
				if op == nil || *op != ssa.Value(g) {
					continue
				}
				switch x := in.(type) {
				case *ssa.Store:
					if x.Addr == ssa.Value(g) {
						stores = append(stores, x)
					} else {
						bad = true // address stored somewhere
					}
				case *ssa.UnOp:
					if x.Op != token.MUL {
						bad = true
					}
				default:
					bad = true
				}
			}
		})
	}
	for _, fn := range e.p.Funcs {
		scan(fn)
	}
	if initFn != nil && !e.p.funcSet[initFn] {
		scan(initFn)
	}
	if bad || len(stores) != 1 || stores[0].Parent() != initFn {
		return res
	}
	if sl, ok := stores[0].Val.(*ssa.Slice); ok && sl.Low == nil && sl.High == nil {
		if pt, ok := sl.X.Type().Underlying().(*types.Pointer); ok {
			if at, ok := pt.Elem().Underlying().(*types.Array); ok {
				res = c07B{Lo: at.Len(), Exact: true, Why: "package-level literal " + g.Name() + " (never reassigned)"}
			}
		}
	}
	return res
}

// paramBound: parameters of input functions are unconstrained (exact);
// parameters of module-private functions take the minimum over all call sites.
func (e *c07Engine) paramBound(kind c07subjKind, par *ssa.Parameter) c07B {
	fn := par.Parent()
	free := c07B{Lo: 0, Exact: true, Why: "parameter " + par.Name() + " of " + FuncName(e.p, fn) + " is chosen by the caller"}
	if kind == c07Int {
		free.Lo = c07NegInf
	}
	if e.inputFunc(fn) {
		return free
	}
	idx := -1
	for i, q := range fn.Params {
		if q == par {
			idx = i
		}
	}
	sites := e.callers[origin(fn)]
	if idx < 0 || len(sites) == 0 {
		free.Exact = false
		free.Why = "no call site found"
		return free
	}
	acc := c07B{Lo: c07PosInf, Exact: true}
	for _, cs := range sites {
		arg := cs.Arg(idx)
		if arg == nil {
			free.Exact = false
			free.Why = "argument not visible at a call site"
			return free
		}
		var b c07B
		blk := cs.Instr.Block()
		if kind == c07Len {
			b = e.lenAtInstr(arg, cs.Instr)
		} else {
			b = e.intAt(arg, blk)
		}
		if b.Exact {
			if og := e.opaqueGuards(cs.Caller, blk, c07SameLen(arg), []c07flowKey{{kind: kind, v: arg}, {kind: kind, v: c07SameLen(arg)}}); len(og) > 0 {
				b.Exact = false
			}
		}
		if b.Exact && kind == c07Int && !e.ingredientsClean(cs.Caller, blk, arg, 0) {
			b.Exact = false
		}
		// table dispatch: the argument that selected the target is correlated
		// with the target; the bound over all keys is sound as a lower bound but
		// not attainable for each target
		if cs.Multi && cs.Key != nil && c07SameLen(cs.Key) == c07SameLen(arg) {
			b.Exact = false
		}
		b.Why = "at the call in " + FuncName(e.p, cs.Caller) + ": " + b.Why
		acc = c07min(acc, b)
	}
	if acc.Lo >= c07PosInf {
		free.Exact = false
		return free
	}
	return acc
}

// lenAtInstr: like lenAt at the block of in.
func (e *c07Engine) lenAtInstr(v ssa.Value, in ssa.Instruction) c07B {
	return e.lenAt(v, in.Block())
}

// ---------------------------------------------------------------------------
// Integers

func c07isUnsigned(t types.Type) bool {
	b, ok := t.Underlying().(*types.Basic)
	return ok && b.Info()&types.IsUnsigned != 0
}

func (e *c07Engine) intrinsicInt(v ssa.Value) c07B {
	b := e.intrinsicInt0(v)
	if b.Lo < 0 && c07isUnsigned(v.Type()) {
		// unsigned values are never negative (a wrapped subtraction is huge, not negative)
		ex := b.Exact && b.Lo <= c07NegInf
		return c07B{Lo: 0, Exact: ex, Why: "unsigned"}
	}
	return b
}

func (e *c07Engine) intrinsicInt0(v ssa.Value) c07B {
	unknown := c07B{Lo: c07NegInf, Why: "unknown integer"}
	switch x := v.(type) {
	case *ssa.Const:
		if c, ok := c07ConstInt(x); ok {
			return c07B{Lo: c, Exact: true, Why: "constant"}
		}
	case *ssa.Parameter:
		return e.paramBound(c07Int, x)
	case *ssa.Call:
		if a, ok := c07LenArg(x); ok {
			b := e.lenAt(a, x.Block())
			return b
		}
		if bn := builtinName(x); bn == "cap" || bn == "copy" || bn == "min" || bn == "max" {
			if bn == "cap" || bn == "copy" {
				return c07B{Lo: 0, Why: bn}
			}
			// min(a, b, ...) >= the smallest lower bound; max(a, b, ...) >= the largest
			acc := c07B{Lo: c07PosInf, Exact: true}
			if bn == "max" {
				acc = c07B{Lo: c07NegInf}
			}
			for _, a := range x.Call.Args {
				b := e.intAt(a, x.Block())
				if bn == "min" {
					acc = c07min(acc, b)
				} else if b.Lo > acc.Lo {
					acc = b
				}
			}
			acc.Exact = false
			acc.Why = bn
			if acc.Lo >= c07PosInf {
				return unknown
			}
			return acc
		}
		if obj := calleeObj(x); obj != nil && obj.Pkg() != nil {
			key := obj.Pkg().Path() + "." + obj.Name()
			switch key {
			case "strings.Index", "strings.IndexByte", "strings.IndexRune", "strings.IndexAny", "strings.IndexFunc",
				"strings.LastIndex", "strings.LastIndexByte", "strings.LastIndexAny", "strings.LastIndexFunc",
				"bytes.Index", "bytes.IndexByte", "bytes.IndexRune", "bytes.IndexAny", "bytes.IndexFunc",
				"bytes.LastIndex", "bytes.LastIndexByte", "bytes.LastIndexAny", "bytes.LastIndexFunc":
				return c07B{Lo: -1, Exact: true, Why: key + " returns -1 when there is no match"}
			case "encoding/base64.DecodedLen", "encoding/base64.EncodedLen", "encoding/hex.DecodedLen", "encoding/hex.EncodedLen":
				if len(x.Call.Args) > 0 {
					if b := e.intAt(x.Call.Args[len(x.Call.Args)-1], x.Block()); b.Lo >= 0 {
						return c07B{Lo: 0, Why: key}
					}
				}
			case "strings.Count", "bytes.Count", "unicode/utf8.RuneCountInString", "unicode/utf8.RuneCount":
				return c07B{Lo: 0, Why: key}
			}
		}
		return unknown
	case *ssa.BinOp:
		switch x.Op {
		case token.ADD:
			a, b := e.intAt(x.X, x.Block()), e.intAt(x.Y, x.Block())
			if _, isC := c07ConstInt(x.Y); isC && a.Lo <= c07NegInf {
				return a
			}
			if a.Lo <= c07NegInf || b.Lo <= c07NegInf {
				return unknown
			}
			return c07B{Lo: a.Lo + b.Lo, Exact: a.Exact && b.Exact, Why: a.Why}
		case token.SUB:
			// a - (b % a) with a >= 1, b >= 0  =>  >= 1
			if rem, ok := x.Y.(*ssa.BinOp); ok && rem.Op == token.REM && c07sameInt(rem.Y, x.X) {
				a, b := e.intAt(x.X, x.Block()), e.intAt(rem.X, x.Block())
				if a.Lo >= 1 && b.Lo >= 0 {
					return c07B{Lo: 1, Why: "a - b%a"}
				}
			}
			if c, ok := c07ConstInt(x.Y); ok {
				a := e.intAt(x.X, x.Block())
				if a.Lo <= c07NegInf {
					return a
				}
				return c07B{Lo: a.Lo - c, Exact: a.Exact, Why: a.Why}
			}
			// a - v where v ranges over a known finite set of constants (a size
			// kept in an immutable field set by the constructors)
			if _, hi, ok := e.intConsts(x.Y, 0); ok {
				a := e.intAt(x.X, x.Block())
				if a.Lo <= c07NegInf {
					return a
				}
				return c07B{Lo: a.Lo - hi, Exact: a.Exact, Why: a.Why + fmt.Sprintf(", minus a size that can be %d", hi)}
			}
			return unknown
		case token.MUL:
			a, b := e.intAt(x.X, x.Block()), e.intAt(x.Y, x.Block())
			if a.Lo >= 0 && b.Lo >= 0 {
				return c07B{Lo: a.Lo * b.Lo, Exact: a.Exact && b.Exact, Why: a.Why}
			}
			return unknown
		case token.QUO:
			if c, ok := c07ConstInt(x.Y); ok && c > 0 {
				a := e.intAt(x.X, x.Block())
				if a.Lo <= c07NegInf {
					return unknown
				}
				return c07B{Lo: a.Lo / c, Exact: a.Exact, Why: a.Why}
			}
			return unknown
		case token.REM:
			a, b := e.intAt(x.X, x.Block()), e.intAt(x.Y, x.Block())
			if a.Lo >= 0 && b.Lo >= 1 {
				return c07B{Lo: 0, Why: "remainder of non-negative"}
			}
			return unknown
		case token.SHL:
			a := e.intAt(x.X, x.Block())
			if a.Lo >= 0 {
				return c07B{Lo: 0, Why: "shift of non-negative"}
			}
			return unknown
		}
		return unknown
	case *ssa.Phi:
		acc := c07B{Lo: c07PosInf, Exact: true}
		for i, ed := range x.Edges {
			pred := x.Block().Preds[i]
			b := e.intAt(ed, pred)
			k := c07flowKey{kind: c07Int, v: ed}
			if f, ok := e.edgeFact(k, pred, x.Block()); ok && f.Lo > b.Lo {
				b = c07B{Lo: f.Lo, Exact: f.Exact && b.Exact, Why: f.Why}
			}
			b.Exact = false
			acc = c07min(acc, b)
		}
		if acc.Lo >= c07PosInf {
			return unknown
		}
		return acc
	case *ssa.UnOp:
		if x.Op == token.MUL {
			if val, st := c07CellValue(x); val != nil {
				return e.intAt(val, c07CellPoint(x, st))
			}
			if lo, _, ok := e.intConsts(x, 0); ok {
				return c07B{Lo: lo, Why: "field holding one of a fixed set of constants"}
			}
		}
	case *ssa.Field:
		if lo, _, ok := e.intConsts(x, 0); ok {
			return c07B{Lo: lo, Why: "field holding one of a fixed set of constants"}
		}
	case *ssa.Convert:
		if c07isInteger(x.X.Type()) && c07isInteger(x.Type()) {
			// widening/narrowing may change the value: only keep unsigned->int of small types
			if bt, ok := x.X.Type().Underlying().(*types.Basic); ok && (bt.Kind() == types.Uint8 || bt.Kind() == types.Uint16) {
				return c07B{Lo: 0, Why: "conversion of an unsigned byte"}
			}
			b := e.intAt(x.X, x.Block())
			b.Exact = false
			return b
		}
	}
	return unknown
}

// ---------------------------------------------------------------------------
// Conditions the engine does not understand

// c07Depends: does v depend on root (through at most depth value operands)?
func c07Depends(v, root ssa.Value, depth int) bool {
	if v == nil {
		return false
	}
	if v == root {
		return true
	}
	if u, ok := v.(*ssa.UnOp); ok && u.Op == token.MUL {
		if val, _ := c07CellValue(u); val != nil {
			return c07Depends(val, root, depth)
		}
	}
	if depth <= 0 {
		return false
	}
	in, ok := v.(ssa.Instruction)
	if !ok {
		return false
	}
	if _, isPhi := v.(*ssa.Phi); isPhi && depth < 3 {
		return false
	}
	// an element access says nothing about the length beyond "it did not panic"
	// (nor does a value that already uses root as an index or slice bound: the
	// access comes first)
	switch x := v.(type) {
	case *ssa.IndexAddr:
		if x.X == root || c07SameLen(x.X) == root {
			return false
		}
		return c07Depends(x.X, root, depth-1)
	case *ssa.Index:
		if x.X == root || c07SameLen(x.X) == root {
			return false
		}
		return c07Depends(x.X, root, depth-1)
	case *ssa.Lookup:
		if x.X == root && c07IsLenType(x.X.Type()) {
			return false
		}
	case *ssa.Slice:
		return c07Depends(x.X, root, depth-1)
	}
	for _, op := range in.Operands(nil) {
		if op != nil && *op != nil && c07Depends(*op, root, depth-1) {
			return true
		}
	}
	return false
}

// opaqueGuards: If conditions that may hold information about root (they
// depend on it), lie on some path to `at`, and that the engine could not turn
// into a fact for any of the given subjects. A site with such a guard is never
// reported (it is unclassified).
func (e *c07Engine) opaqueGuards(fn *ssa.Function, at *ssa.BasicBlock, root ssa.Value, subjects []c07flowKey) []string {
	var out []string
	reach := c07ReachesBlock(fn, at)
	for _, b := range fn.Blocks {
		if !reach[b] || len(b.Instrs) == 0 {
			continue
		}
		if b == at && !c07InCycle(b) {
			continue // the branch at the end of the site's own block comes after the site
		}
		ifi, ok := b.Instrs[len(b.Instrs)-1].(*ssa.If)
		if !ok {
			continue
		}
		if !c07Depends(ifi.Cond, root, 5) {
			continue
		}
		if e.ignoreDep != nil && c07Depends(ifi.Cond, e.ignoreDep, 5) {
			continue // a test of the result of a call the rule has summarised itself
		}
		understood := false
		// a materialised && / || chain: phi of constants and comparisons of the subject
		if phi, ok := ifi.Cond.(*ssa.Phi); ok {
			all := true
			for _, ed := range phi.Edges {
				if _, isC := ed.(*ssa.Const); isC {
					continue
				}
				okEdge := false
				if cmp, ok := decodeCond(ed, true); ok {
					for _, k := range subjects {
						if e.isSubject(k, cmp.X) || e.isSubject(k, cmp.Y) {
							okEdge = true
						}
					}
				}
				if !okEdge && !c07Depends(ed, root, 5) {
					okEdge = true
				}
				if !okEdge {
					all = false
				}
			}
			understood = all
		}
		// a module predicate on the subject whose body the engine reads
		// completely (validLen(len(x)), longEnough(x)): whatever it establishes
		// is in the summary fact; if it establishes nothing, nothing is hidden
		if e.predTransparent(ifi.Cond, subjects) {
			understood = true
		}
		// a test of len(x) % c says nothing about a lower bound
		if cmp, ok := decodeCond(ifi.Cond, true); ok {
			for _, side := range []ssa.Value{cmp.X, cmp.Y} {
				if bo, ok := side.(*ssa.BinOp); ok && bo.Op == token.REM {
					for _, k := range subjects {
						if e.isSubject(k, bo.X) {
							understood = true
						}
						// (subject - v) % m, (subject + v) % m: only for rules that
						// account for the remainder themselves (remLinear)
						if lin, ok := bo.X.(*ssa.BinOp); ok && e.remLinear && (lin.Op == token.SUB || lin.Op == token.ADD) {
							if e.isSubject(k, lin.X) || e.isSubject(k, lin.Y) {
								understood = true
							}
						}
					}
				}
			}
		}
		for _, k := range subjects {
			for _, br := range []bool{true, false} {
				if _, ok := e.condFact(k, ifi.Cond, br, b); ok {
					understood = true
				}
			}
			if cmp, ok := decodeCond(ifi.Cond, true); ok && (cmp.Op == token.NEQ || cmp.Op == token.EQL) {
				if e.isSubject(k, cmp.X) || e.isSubject(k, cmp.Y) {
					understood = true
				}
			}
			// comparisons of the subject that give only an upper bound are
			// understood too (they say nothing about the lower bound)
			if cmp, ok := decodeCond(ifi.Cond, true); ok {
				if e.isSubject(k, cmp.X) || e.isSubject(k, cmp.Y) {
					understood = true
				}
			}
		}
		if !understood {
			if os.Getenv("C07_DEBUG") != "" {
				fmt.Printf("OPAQUE fn=%s block=%d cond=%v root=%v\n", fn.Name(), b.Index, ifi.Cond, root)
			}
			out = append(out, e.p.Pos(instrPos(ifi)))
		}
	}
	return out
}

// ingredientsClean: none of the ingredients of the integer v (operands of its
// arithmetic, lengths it is computed from, parameters) is constrained by a
// condition on the way to `at` that the engine cannot interpret.
func (e *c07Engine) ingredientsClean(fn *ssa.Function, at *ssa.BasicBlock, v ssa.Value, depth int) bool {
	if depth > 4 {
		return false
	}
	switch x := v.(type) {
	case *ssa.BinOp:
		return e.ingredientsClean(fn, at, x.X, depth+1) && e.ingredientsClean(fn, at, x.Y, depth+1)
	case *ssa.Const:
		return true
	case *ssa.Call:
		if a, ok := c07LenArg(x); ok {
			root := c07SameLen(a)
			return len(e.opaqueGuards(fn, at, root, []c07flowKey{{kind: c07Len, v: a}, {kind: c07Len, v: root}, {kind: c07Int, v: x}})) == 0
		}
		return false
	case *ssa.Parameter:
		return len(e.opaqueGuards(fn, at, x, []c07flowKey{{kind: c07Int, v: x}})) == 0
	case *ssa.Convert:
		return e.ingredientsClean(fn, at, x.X, depth+1)
	case *ssa.UnOp, *ssa.Field:
		if _, _, ok := e.intConsts(v, 0); ok {
			return true
		}
	}
	return false
}

func c07InCycle(b *ssa.BasicBlock) bool {
	for _, s := range b.Succs {
		if reachableFrom(s, nil)[b] {
			return true
		}
	}
	return false
}

// c07ReachesBlock: blocks from which `to` is reachable (including itself).
func c07ReachesBlock(fn *ssa.Function, to *ssa.BasicBlock) map[*ssa.BasicBlock]bool {
	seen := map[*ssa.BasicBlock]bool{}
	var walk func(b *ssa.BasicBlock)
	walk = func(b *ssa.BasicBlock) {
		if seen[b] {
			return
		}
		seen[b] = true
		for _, p := range b.Preds {
			walk(p)
		}
	}
	walk(to)
	return seen
}

func c07ShortVal(v ssa.Value) string {
	switch x := v.(type) {
	case *ssa.Parameter:
		return x.Name()
	case *ssa.Const:
		return x.String()
	}
	n := v.Name()
	if strings.HasPrefix(n, "t") {
		return "<value>"
	}
	return n
}
