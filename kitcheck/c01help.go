package main

// Helpers private to the C01 check: natural loops, data-dependence cones
// (through phis and local cells), linear forms, branch-fact evaluation of
// booleans, a small conditional-constant-propagation evaluator for table
// functions, README extractors.

import (
	"fmt"
	"go/constant"
	"go/token"
	"go/types"
	"os"
	"regexp"
	"strconv"
	"strings"

	"golang.org/x/tools/go/ssa"
)

// ---------------------------------------------------------------- loops

// ---------------------------------------------------------------- dependence

// c01Stores returns the values stored into the local cell a.
func c01Stores(a *ssa.Alloc) []ssa.Value {
	var out []ssa.Value
	for _, r := range refs(a) {
		if st, ok := r.(*ssa.Store); ok && st.Addr == a {
			out = append(out, st.Val)
		}
	}
	return out
}

// c01Cone computes the backward data-dependence cone of v: operands through
// phis, arithmetic, conversions, calls (arguments), extracts, slices, and
// loads of local cells (every value stored into the cell). Free variables
// are resolved to the enclosing function's binding.
func c01Cone(v ssa.Value) map[ssa.Value]bool {
	seen := map[ssa.Value]bool{}
	var walk func(x ssa.Value)
	walk = func(x ssa.Value) {
		if x == nil || seen[x] {
			return
		}
		seen[x] = true
		switch y := x.(type) {
		case *ssa.UnOp:
			if y.Op == token.MUL {
				switch a := y.X.(type) {
				case *ssa.Alloc:
					for _, s := range c01Stores(a) {
						walk(s)
					}
				case *ssa.FreeVar:
					if b := resolveFreeVar(a); b != nil {
						walk(b)
						if al, ok := b.(*ssa.Alloc); ok {
							for _, s := range c01Stores(al) {
								walk(s)
							}
						}
					}
				}
			}
			walk(y.X)
		case *ssa.FreeVar:
			if b := resolveFreeVar(y); b != nil {
				walk(b)
			}
		case ssa.Instruction:
			for _, op := range y.Operands(nil) {
				if op != nil && *op != nil {
					walk(*op)
				}
			}
		}
	}
	walk(v)
	return seen
}

func c01DependsOn(v, target ssa.Value) bool { return c01Cone(v)[target] }

// c01ConeCalls lists the calls in the cone of v.
func c01ConeCalls(v ssa.Value) []*ssa.Call {
	var out []*ssa.Call
	for x := range c01Cone(v) {
		if c, ok := x.(*ssa.Call); ok {
			out = append(out, c)
		}
	}
	return out
}

// ---------------------------------------------------------------- linear forms

// c01Lin is base + k (base nil = pure constant).
type c01Lin struct {
	Base ssa.Value
	K    int64
}

func c01Linear(v ssa.Value) c01Lin {
	switch x := v.(type) {
	case *ssa.Const:
		if x.Value != nil && x.Value.Kind() == constant.Int {
			if k, ok := constant.Int64Val(x.Value); ok {
				return c01Lin{nil, k}
			}
		}
	case *ssa.BinOp:
		if x.Op == token.ADD {
			a, b := c01Linear(x.X), c01Linear(x.Y)
			if b.Base == nil {
				return c01Lin{a.Base, a.K + b.K}
			}
			if a.Base == nil {
				return c01Lin{b.Base, a.K + b.K}
			}
		}
		if x.Op == token.SUB {
			a, b := c01Linear(x.X), c01Linear(x.Y)
			if b.Base == nil {
				return c01Lin{a.Base, a.K - b.K}
			}
		}
	case *ssa.Convert:
		if _, ok := x.Type().Underlying().(*types.Basic); ok {
			if _, ok := x.X.Type().Underlying().(*types.Basic); ok {
				return c01Linear(x.X)
			}
		}
	}
	return c01Lin{v, 0}
}

func (l c01Lin) String() string {
	if l.Base == nil {
		return fmt.Sprint(l.K)
	}
	n := l.Base.Name()
	if phi, ok := l.Base.(*ssa.Phi); ok && phi.Comment != "" {
		n = phi.Comment
	} else if _, ok := l.Base.(*ssa.Parameter); !ok {
		n = "<" + l.Base.String() + ">"
	}
	if l.K == 0 {
		return n
	}
	return fmt.Sprintf("%s%+d", n, l.K)
}

// c01ConstInt returns the integer constant value of v.
func c01ConstInt(v ssa.Value) (int64, bool) {
	l := c01Linear(v)
	if l.Base == nil {
		return l.K, true
	}
	return 0, false
}

// ---------------------------------------------------------------- boolean facts

// c01BoolAt evaluates boolean v at (the start of) block b using constants,
// negation, dominating branch conditions on v itself, and phis all of whose
// incoming values evaluate alike at their predecessor.
func c01BoolAt(v ssa.Value, b *ssa.BasicBlock) (val, known bool) {
	return c01BoolAtD(v, b, 0)
}

func c01BoolAtD(v ssa.Value, b *ssa.BasicBlock, depth int) (bool, bool) {
	if depth > 6 {
		return false, false
	}
	if c, ok := v.(*ssa.Const); ok && c.Value != nil && c.Value.Kind() == constant.Bool {
		return constant.BoolVal(c.Value), true
	}
	if u, ok := v.(*ssa.UnOp); ok && u.Op == token.NOT {
		x, k := c01BoolAtD(u.X, b, depth+1)
		return !x, k
	}
	for _, dc := range domConds(b) {
		cond, br := dc.If.Cond, dc.Branch
		for {
			if u, ok := cond.(*ssa.UnOp); ok && u.Op == token.NOT {
				cond, br = u.X, !br
				continue
			}
			break
		}
		if cond == v {
			return br, true
		}
	}
	if phi, ok := v.(*ssa.Phi); ok {
		first := true
		var val bool
		for i, e := range phi.Edges {
			x, k := c01BoolAtD(e, phi.Block().Preds[i], depth+1)
			if !k {
				return false, false
			}
			if first {
				val, first = x, false
			} else if x != val {
				return false, false
			}
		}
		if !first {
			return val, true
		}
	}
	return false, false
}

// ---------------------------------------------------------------- constant evaluator

// c01Val is an abstract value of the evaluator.
type c01Val struct {
	K     constant.Value // known constant (string/int/bool)
	IsNil bool           // the nil constant
	Src   ssa.Value      // otherwise: the SSA value it came from
}

func (v c01Val) known() bool { return v.K != nil }
func (v c01Val) String() string {
	switch {
	case v.K != nil:
		return v.K.ExactString()
	case v.IsNil:
		return "nil"
	case v.Src != nil:
		return "<" + v.Src.String() + ">"
	}
	return "<?>"
}

// c01Env binds parameters and receiver fields to constants.
type c01Env struct {
	Params map[*ssa.Parameter]constant.Value
	Fields map[string]constant.Value // field name of the receiver -> constant
}

// c01Eval runs conditional constant propagation over fn with the given
// bindings, forking at conditions that are not decided by the bindings, and
// returns the result tuples of every reachable return. ok=false when the
// exploration budget is exceeded.
func c01Eval(fn *ssa.Function, env c01Env) (rets [][]c01Val, ok bool) {
	return c01EvalD(fn, env, 0)
}

func c01EvalD(fn *ssa.Function, env c01Env, callDepth int) (rets [][]c01Val, ok bool) {
	if len(fn.Blocks) == 0 {
		return nil, false
	}
	var recv *ssa.Parameter
	if fn.Signature.Recv() != nil && len(fn.Params) > 0 {
		recv = fn.Params[0]
	}
	budget := 6000
	ok = true
	isRecvBase := func(x ssa.Value) bool {
		if recv == nil {
			return false
		}
		if x == recv {
			return true
		}
		if a, ok := x.(*ssa.Alloc); ok {
			st := c01Stores(a)
			return len(st) == 1 && st[0] == recv
		}
		return false
	}
	tuples := map[ssa.Value][]c01Val{}
	// small constant tables: local array / slice literals and package-level slice literals
	elems := map[ssa.Value][]c01Val{} // array alloc or slice value -> elements (shared backing)
	type cell struct {
		cont ssa.Value
		idx  int64
	}
	cells := map[ssa.Value]cell{} // IndexAddr -> element
	var run func(b, pred *ssa.BasicBlock, vals map[ssa.Value]c01Val, depth int)
	run = func(b, pred *ssa.BasicBlock, vals map[ssa.Value]c01Val, depth int) {
		for {
			budget--
			if budget < 0 || depth > 900 {
				ok = false
				return
			}
			get := func(x ssa.Value) c01Val {
				if v, ok := vals[x]; ok {
					return v
				}
				switch y := x.(type) {
				case *ssa.Const:
					if y.IsNil() {
						return c01Val{IsNil: true}
					}
					if y.Value != nil {
						return c01Val{K: y.Value}
					}
				case *ssa.Parameter:
					if k, ok := env.Params[y]; ok {
						return c01Val{K: k}
					}
				}
				return c01Val{Src: x}
			}
			var next *ssa.BasicBlock
			for _, in := range b.Instrs {
				switch x := in.(type) {
				case *ssa.Phi:
					for i, p := range b.Preds {
						if p == pred {
							vals[x] = get(x.Edges[i])
							break
						}
					}
				case *ssa.BinOp:
					a, c := get(x.X), get(x.Y)
					if a.known() && c.known() {
						switch x.Op {
						case token.EQL, token.NEQ, token.LSS, token.LEQ, token.GTR, token.GEQ:
							if a.K.Kind() == c.K.Kind() || (a.K.Kind() != constant.String && c.K.Kind() != constant.String) {
								vals[x] = c01Val{K: constant.MakeBool(constant.Compare(a.K, x.Op, c.K))}
							}
						case token.ADD, token.SUB, token.MUL:
							if a.K.Kind() == constant.Int && c.K.Kind() == constant.Int {
								vals[x] = c01Val{K: constant.BinaryOp(a.K, x.Op, c.K)}
							}
						}
					}
				case *ssa.UnOp:
					if x.Op == token.NOT {
						if a := get(x.X); a.known() && a.K.Kind() == constant.Bool {
							vals[x] = c01Val{K: constant.MakeBool(!constant.BoolVal(a.K))}
						}
					}
					if x.Op == token.MUL {
						if c, ok := cells[x.X]; ok {
							vals[x] = elems[c.cont][c.idx]
						}
						if gl, ok := x.X.(*ssa.Global); ok {
							if tbl, ok := c01SliceTable(fn, gl); ok {
								elems[x] = tbl
							}
						}
						if fa, ok := x.X.(*ssa.FieldAddr); ok && isRecvBase(fa.X) {
							if k, ok := env.Fields[fieldIDOfAddr(fa).Field]; ok {
								vals[x] = c01Val{K: k}
							}
						}
					}
				case *ssa.Field:
					if isRecvBase(x.X) {
						if k, ok := env.Fields[fieldIDOfField(x).Field]; ok {
							vals[x] = c01Val{K: k}
						}
					}
				case *ssa.Call:
					if builtinName(x) == "len" && len(x.Call.Args) == 1 {
						if es, ok := elems[x.Call.Args[0]]; ok {
							vals[x] = c01Val{K: constant.MakeInt64(int64(len(es)))}
						}
						break
					}
					if obj := calleeObj(x); obj != nil && obj.Pkg() != nil && obj.Pkg().Path() == "slices" && (obj.Name() == "Contains" || obj.Name() == "Index") && len(x.Call.Args) == 2 {
						es, ok := elems[x.Call.Args[0]]
						k := get(x.Call.Args[1])
						if ok && k.known() {
							idx, allKnown := int64(-1), true
							for i, e := range es {
								if !e.known() {
									allKnown = false
									break
								}
								if idx < 0 && e.K.Kind() == k.K.Kind() && constant.Compare(e.K, token.EQL, k.K) {
									idx = int64(i)
								}
							}
							if allKnown {
								if obj.Name() == "Contains" {
									vals[x] = c01Val{K: constant.MakeBool(idx >= 0)}
								} else {
									vals[x] = c01Val{K: constant.MakeInt64(idx)}
								}
							}
						}
						break
					}
					// pure table helpers of the same package, all arguments constant
					callee := staticCallee(x)
					if callee == nil || callee.Pkg != fn.Pkg || len(callee.Blocks) == 0 || callDepth >= 3 || len(callee.Params) != len(x.Call.Args) {
						break
					}
					sub := c01Env{Params: map[*ssa.Parameter]constant.Value{}}
					allKnown := true
					for i, a := range x.Call.Args {
						av := get(a)
						if !av.known() {
							allKnown = false
							break
						}
						sub.Params[callee.Params[i]] = av.K
					}
					if !allKnown {
						break
					}
					rs, rok := c01EvalD(callee, sub, callDepth+1)
					if !rok || len(rs) == 0 {
						break
					}
					same := true
					for _, t := range rs[1:] {
						for i := range t {
							if len(t) != len(rs[0]) || t[i].String() != rs[0][i].String() {
								same = false
							}
						}
					}
					if !same {
						break
					}
					if len(rs[0]) == 1 {
						vals[x] = rs[0][0]
					} else {
						tuples[x] = rs[0]
					}
				case *ssa.Extract:
					if t, ok := tuples[x.Tuple]; ok && x.Index < len(t) {
						vals[x] = t[x.Index]
					}
				case *ssa.Alloc:
					if arr, ok := deref(x.Type()).Underlying().(*types.Array); ok && arr.Len() <= 64 {
						elems[x] = make([]c01Val, arr.Len())
						for i := range elems[x] {
							elems[x][i] = c01Val{Src: x}
						}
					}
				case *ssa.Slice:
					if es, ok := elems[x.X]; ok && x.Low == nil && x.High == nil {
						elems[x] = es
					}
				case *ssa.IndexAddr:
					if es, ok := elems[x.X]; ok {
						if k := get(x.Index); k.known() && k.K.Kind() == constant.Int {
							if i, ok := constant.Int64Val(k.K); ok && i >= 0 && i < int64(len(es)) {
								cells[x] = cell{x.X, i}
							}
						}
					} else {
						delete(cells, x)
					}
				case *ssa.Store:
					if c, ok := cells[x.Addr]; ok {
						elems[c.cont][c.idx] = get(x.Val)
					}
				case *ssa.Lookup:
					// lookup in a package-level map table initialised with constants and never written elsewhere
					k := get(x.Index)
					tbl, ok := c01MapTable(fn, x.X)
					if !k.known() || !ok {
						break
					}
					v, found := tbl[k.K.ExactString()]
					var res c01Val
					if found {
						res = c01Val{K: v}
					} else if z := c01ZeroConst(x.Type(), x.CommaOk); z != nil {
						res = c01Val{K: z}
					} else {
						break
					}
					if x.CommaOk {
						tuples[x] = []c01Val{res, {K: constant.MakeBool(found)}}
					} else {
						vals[x] = res
					}
				case *ssa.ChangeType:
					if a := get(x.X); a.known() {
						vals[x] = a
					}
				case *ssa.Convert:
					if a := get(x.X); a.known() {
						// only same-kind conversions (named string <-> string, int <-> int)
						sb, ok1 := x.X.Type().Underlying().(*types.Basic)
						db, ok2 := x.Type().Underlying().(*types.Basic)
						if ok1 && ok2 && (sb.Info()&types.IsString != 0) == (db.Info()&types.IsString != 0) {
							vals[x] = a
						}
					}
				case *ssa.If:
					c := get(x.Cond)
					if c.known() && c.K.Kind() == constant.Bool {
						if constant.BoolVal(c.K) {
							next = b.Succs[0]
						} else {
							next = b.Succs[1]
						}
					} else {
						cp := make(map[ssa.Value]c01Val, len(vals))
						for k, v := range vals {
							cp[k] = v
						}
						run(b.Succs[0], b, cp, depth+1)
						next = b.Succs[1]
					}
				case *ssa.Jump:
					next = b.Succs[0]
				case *ssa.Return:
					var tuple []c01Val
					for _, rv := range x.Results {
						tuple = append(tuple, get(rv))
					}
					rets = append(rets, tuple)
					return
				case *ssa.Panic:
					return
				}
			}
			if next == nil {
				return
			}
			pred, b = b, next
			depth++
		}
	}
	run(fn.Blocks[0], nil, map[ssa.Value]c01Val{}, 0)
	return rets, ok
}

// c01ErrState classifies an abstract error result: "nil", "nonnil" (a fresh
// error from fmt.Errorf / errors.New), or "?".
func c01ErrState(v c01Val) string {
	if v.IsNil {
		return "nil"
	}
	if c, ok := v.Src.(*ssa.Call); ok {
		if callIs(c, "fmt", "", "Errorf") || callIs(c, "errors", "", "New") {
			return "nonnil"
		}
	}
	return "?"
}

// ---------------------------------------------------------------- README

// c01Spec is what the published spec (schemes/enc/v1/README.md) says.
type c01Spec struct {
	Scheme       string
	SegmentSize  int64
	TagSize      int64
	NonceSize    int64
	PrefixLen    int64
	CounterLen   int64
	FlagLen      int64
	KeyAlgs      map[int64]string // id -> name
	Ciphers      map[int64]string
	Tags         map[string]string    // Manifest field -> json tag
	FieldTypes   map[string]string    // Manifest field -> Go type in the README struct
	HKDF         map[string][2]string // key name ("mac-key","payload-key") -> {salt, info}
	BigEndian    bool
	Base64Std    bool
	HMACSHA256   bool
	MissingItems []string
}

func c01ReadSpec(path string) (*c01Spec, error) {
	b, err := os.ReadFile(path)
	if err != nil {
		return nil, err
	}
	txt := string(b)
	s := &c01Spec{KeyAlgs: map[int64]string{}, Ciphers: map[int64]string{}, Tags: map[string]string{}, FieldTypes: map[string]string{}, HKDF: map[string][2]string{}}
	miss := func(what string) { s.MissingItems = append(s.MissingItems, what) }
	atoi := func(x string) int64 {
		n, _ := strconv.ParseInt(strings.ReplaceAll(x, ",", ""), 10, 64)
		return n
	}
	if m := regexp.MustCompile("(?m)^#[^\n]*`([^`\n]+)`").FindStringSubmatch(txt); m != nil {
		s.Scheme = m[1]
	} else {
		miss("scheme name in the title")
	}
	if m := regexp.MustCompile(`segments of [^\n(]*\(([0-9,]+) bytes\)`).FindStringSubmatch(txt); m != nil {
		s.SegmentSize = atoi(m[1])
	} else {
		miss("segment size")
	}
	if m := regexp.MustCompile(`Tag size is ([0-9]+) bytes`).FindStringSubmatch(txt); m != nil {
		s.TagSize = atoi(m[1])
	} else {
		miss("tag size")
	}
	if m := regexp.MustCompile(`different ([0-9]+)-byte nonce`).FindStringSubmatch(txt); m != nil {
		s.NonceSize = atoi(m[1])
	} else {
		miss("nonce size")
	}
	if m := regexp.MustCompile("`nonce_prefix` \\(([0-9]+) bytes?\\)").FindStringSubmatch(txt); m != nil {
		s.PrefixLen = atoi(m[1])
	} else {
		miss("nonce prefix length")
	}
	if m := regexp.MustCompile("`i` \\(([0-9]+) bytes?\\)([^\n]*)").FindStringSubmatch(txt); m != nil {
		s.CounterLen = atoi(m[1])
		s.BigEndian = strings.Contains(m[2], "big-endian")
	} else {
		miss("counter length")
	}
	if m := regexp.MustCompile("`last_segment` \\(([0-9]+) bytes?\\)").FindStringSubmatch(txt); m != nil {
		s.FlagLen = atoi(m[1])
	} else {
		miss("last-segment flag length")
	}
	for _, m := range regexp.MustCompile(`(?m)^([a-z-]+) = HKDF-SHA-256\(ikm = ([^,]+), salt = ([^,]+), info = "([^"]+)"\)`).FindAllStringSubmatch(txt, -1) {
		s.HKDF[m[1]] = [2]string{strings.TrimSpace(m[3]), m[4]}
	}
	if len(s.HKDF) == 0 {
		miss("HKDF derivations")
	}
	s.HMACSHA256 = regexp.MustCompile(`(?m)^MAC = HMAC-SHA-256\(key = mac-key`).MatchString(txt)
	if !s.HMACSHA256 {
		miss("MAC = HMAC-SHA-256(key = mac-key, ...)")
	}
	s.Base64Std = strings.Contains(txt, `"standard" format, with padding`)
	if !s.Base64Std {
		miss("base64 flavour")
	}
	// the Manifest struct block
	if i := strings.Index(txt, "type Manifest struct {"); i >= 0 {
		blk := txt[i:]
		if j := strings.Index(blk, "\n}"); j >= 0 {
			blk = blk[:j]
		}
		rowRe := regexp.MustCompile(`^\s*//\s*0x([0-9A-Fa-f]+)\s*=\s*(\S+)\s*$`)
		fieldRe := regexp.MustCompile("^\\s*([A-Za-z_]\\w*)\\s+(\\S+)\\s+`json:\"([^\"]*)\"`")
		var pending [][2]string
		for _, ln := range strings.Split(blk, "\n") {
			if m := rowRe.FindStringSubmatch(ln); m != nil {
				pending = append(pending, [2]string{m[1], m[2]})
				continue
			}
			if m := fieldRe.FindStringSubmatch(ln); m != nil {
				s.Tags[m[1]] = m[3]
				s.FieldTypes[m[1]] = m[2]
				for _, row := range pending {
					id, _ := strconv.ParseInt(row[0], 16, 64)
					switch m[1] {
					case "KeyWrappingAlgorithm":
						s.KeyAlgs[id] = row[1]
					case "Cipher":
						s.Ciphers[id] = row[1]
					}
				}
				pending = nil
			}
		}
	}
	if len(s.Tags) == 0 {
		miss("Manifest struct")
	}
	if len(s.KeyAlgs) == 0 {
		miss("key wrapping algorithm id table")
	}
	if len(s.Ciphers) == 0 {
		miss("cipher id table")
	}
	return s, nil
}

// ---------------------------------------------------------------- misc

// c01Root strips Slice/ChangeType/Convert wrappers to the allocation (or
// other value) a slice is a window of.
func c01Root(v ssa.Value) ssa.Value {
	for {
		switch x := v.(type) {
		case *ssa.Slice:
			v = x.X
		case *ssa.ChangeType:
			v = x.X
		default:
			return v
		}
	}
}

// c01RecvField: v is a load of field f of the method receiver (value or
// pointer receiver, possibly through the local copy go/ssa makes).
func c01RecvField(fn *ssa.Function, v ssa.Value) (FieldID, bool) {
	if fn.Signature.Recv() == nil || len(fn.Params) == 0 {
		return FieldID{}, false
	}
	recv := fn.Params[0]
	base := func(x ssa.Value) bool {
		if x == recv {
			return true
		}
		if a, ok := x.(*ssa.Alloc); ok {
			st := c01Stores(a)
			return len(st) == 1 && st[0] == recv
		}
		return false
	}
	switch x := v.(type) {
	case *ssa.UnOp:
		if x.Op == token.MUL {
			if fa, ok := x.X.(*ssa.FieldAddr); ok && base(fa.X) {
				return fieldIDOfAddr(fa), true
			}
		}
	case *ssa.Field:
		if base(x.X) {
			return fieldIDOfField(x), true
		}
	}
	return FieldID{}, false
}

// c01AnyField: v is a load of some struct field (any base).
func c01AnyField(v ssa.Value) (FieldID, ssa.Value, bool) {
	switch x := v.(type) {
	case *ssa.UnOp:
		if x.Op == token.MUL {
			if fa, ok := x.X.(*ssa.FieldAddr); ok {
				return fieldIDOfAddr(fa), fa.X, true
			}
		}
	case *ssa.Field:
		return fieldIDOfField(x), x.X, true
	case *ssa.ChangeType:
		return c01AnyField(x.X)
	}
	return FieldID{}, nil, false
}

// c01ConstString returns the string constant v denotes (through []byte /
// named-string conversions).
func c01ConstString(v ssa.Value) (string, bool) {
	switch x := v.(type) {
	case *ssa.Const:
		if x.Value != nil && x.Value.Kind() == constant.String {
			return constant.StringVal(x.Value), true
		}
	case *ssa.Convert:
		return c01ConstString(x.X)
	case *ssa.ChangeType:
		return c01ConstString(x.X)
	}
	return "", false
}

// c01IsReadCall: an invoke or static call of a method Read([]byte) (int, error).
func c01IsReadCall(c *ssa.Call) bool {
	obj := calleeObj(c)
	if obj == nil || obj.Name() != "Read" {
		return false
	}
	sig, ok := obj.Type().(*types.Signature)
	if !ok || sig.Recv() == nil || sig.Params().Len() != 1 || sig.Results().Len() != 2 {
		return false
	}
	sl, ok := sig.Params().At(0).Type().Underlying().(*types.Slice)
	if !ok {
		return false
	}
	if b, ok := sl.Elem().Underlying().(*types.Basic); !ok || b.Kind() != types.Byte {
		return false
	}
	return types.Identical(sig.Results().At(1).Type(), types.Universe.Lookup("error").Type())
}

// c01FuncValueIs: v denotes the function pkgPath.name (e.g. crypto/sha256.New).
func c01FuncValueIs(v ssa.Value, pkgPath, name string) bool {
	for {
		switch x := v.(type) {
		case *ssa.ChangeType:
			v = x.X
			continue
		case *ssa.MakeInterface:
			v = x.X
			continue
		}
		break
	}
	f, ok := v.(*ssa.Function)
	if !ok || f.Object() == nil || f.Object().Pkg() == nil {
		return false
	}
	return f.Object().Pkg().Path() == pkgPath && f.Object().Name() == name && f.Signature.Recv() == nil
}

// c01CallsTo lists static calls (Call/Go/Defer) to callee in the given functions.
func c01CallsTo(fns []*ssa.Function, callee *ssa.Function) []ssa.CallInstruction {
	var out []ssa.CallInstruction
	for _, fn := range fns {
		allInstrs(fn, func(in ssa.Instruction) {
			if ci, ok := in.(ssa.CallInstruction); ok && staticCallee(ci) == callee {
				out = append(out, ci)
			}
		})
	}
	return out
}

// c01BoundMethod resolves a bound-method closure (x.M as a func value) or a
// plain function value to the method/function it denotes.
func c01BoundMethod(p *Prog, v ssa.Value) *ssa.Function {
	switch x := v.(type) {
	case *ssa.MakeClosure:
		f, ok := x.Fn.(*ssa.Function)
		if !ok {
			return nil
		}
		if strings.HasSuffix(f.Name(), "$bound") {
			if obj, ok := f.Object().(*types.Func); ok && obj != nil {
				return p.SSA.FuncValue(obj)
			}
			// fall back: the wrapper's only call
			var callee *ssa.Function
			allInstrs(f, func(in ssa.Instruction) {
				if c, ok := in.(*ssa.Call); ok {
					if sc := staticCallee(c); sc != nil {
						callee = sc
					}
				}
			})
			return callee
		}
		return f
	case *ssa.Function:
		return x
	case *ssa.ChangeType:
		return c01BoundMethod(p, x.X)
	case *ssa.FreeVar:
		if b := resolveFreeVar(x); b != nil {
			return c01BoundMethod(p, b)
		}
	case *ssa.UnOp:
		if x.Op == token.MUL {
			cell := x.X
			if fv, ok := cell.(*ssa.FreeVar); ok {
				if b := resolveFreeVar(fv); b != nil {
					cell = b
				}
			}
			if a, ok := cell.(*ssa.Alloc); ok {
				if st := c01Stores(a); len(st) == 1 {
					return c01BoundMethod(p, st[0])
				}
			}
		}
	}
	return nil
}

// c01MapTable: m is a load of a package-level map variable of fn's package
// whose only store is, in the package initialiser, a map built from constant
// key/value pairs. Returns key.ExactString() -> value.
func c01MapTable(fn *ssa.Function, m ssa.Value) (map[string]constant.Value, bool) {
	u, ok := m.(*ssa.UnOp)
	if !ok || u.Op != token.MUL {
		return nil, false
	}
	gl, ok := u.X.(*ssa.Global)
	if !ok || gl.Pkg == nil || fn.Pkg == nil || gl.Pkg != fn.Pkg {
		return nil, false
	}
	var mk ssa.Value
	stores := 0
	for _, mem := range gl.Pkg.Members {
		f, ok := mem.(*ssa.Function)
		if !ok {
			continue
		}
		fns := append([]*ssa.Function{f}, f.AnonFuncs...)
		for _, ff := range fns {
			allInstrs(ff, func(in ssa.Instruction) {
				if st, ok := in.(*ssa.Store); ok && st.Addr == ssa.Value(gl) {
					stores++
					if ff.Name() == "init" {
						mk = st.Val
					}
				}
				// writes through the map value anywhere else
				if mu, ok := in.(*ssa.MapUpdate); ok && ff.Name() != "init" {
					if lu, ok := mu.Map.(*ssa.UnOp); ok && lu.X == ssa.Value(gl) {
						stores += 100
					}
				}
			})
		}
	}
	if stores != 1 || mk == nil {
		return nil, false
	}
	if _, ok := mk.(*ssa.MakeMap); !ok {
		return nil, false
	}
	out := map[string]constant.Value{}
	good := true
	for _, r := range refs(mk) {
		switch y := r.(type) {
		case *ssa.MapUpdate:
			k, ok1 := y.Key.(*ssa.Const)
			v, ok2 := y.Value.(*ssa.Const)
			if !ok1 || !ok2 || k.Value == nil || v.Value == nil {
				good = false
				continue
			}
			out[k.Value.ExactString()] = v.Value
		case *ssa.Store, *ssa.DebugRef:
		default:
			good = false
		}
	}
	return out, good
}

// c01ZeroConst: the zero value of a basic-typed map element as a constant.
func c01ZeroConst(t types.Type, commaOk bool) constant.Value {
	if commaOk {
		if tup, ok := t.(*types.Tuple); ok && tup.Len() == 2 {
			t = tup.At(0).Type()
		}
	}
	b, ok := t.Underlying().(*types.Basic)
	if !ok {
		return nil
	}
	switch {
	case b.Info()&types.IsString != 0:
		return constant.MakeString("")
	case b.Info()&types.IsInteger != 0:
		return constant.MakeInt64(0)
	case b.Info()&types.IsBoolean != 0:
		return constant.MakeBool(false)
	}
	return nil
}

// c01SliceTable: gl is a package-level slice variable of fn's package whose only store is, in the package
// initialiser, a slice literal of constants.
func c01SliceTable(fn *ssa.Function, gl *ssa.Global) ([]c01Val, bool) {
	if gl.Pkg == nil || fn.Pkg == nil || gl.Pkg != fn.Pkg {
		return nil, false
	}
	var lit ssa.Value
	stores := 0
	for _, mem := range gl.Pkg.Members {
		f, ok := mem.(*ssa.Function)
		if !ok {
			continue
		}
		for _, ff := range append([]*ssa.Function{f}, f.AnonFuncs...) {
			allInstrs(ff, func(in ssa.Instruction) {
				if st, ok := in.(*ssa.Store); ok && st.Addr == ssa.Value(gl) {
					stores++
					if ff.Name() == "init" {
						lit = st.Val
					}
				}
				// element writes through the variable elsewhere
				if ia, ok := in.(*ssa.IndexAddr); ok && ff.Name() != "init" {
					if lu, ok := ia.X.(*ssa.UnOp); ok && lu.X == ssa.Value(gl) {
						for _, w := range refs(ia) {
							if _, isSt := w.(*ssa.Store); isSt {
								stores += 100
							}
						}
					}
				}
			})
		}
	}
	sl, ok := lit.(*ssa.Slice)
	if stores != 1 || !ok || sl.Low != nil || sl.High != nil {
		return nil, false
	}
	al, ok := sl.X.(*ssa.Alloc)
	if !ok {
		return nil, false
	}
	arr, ok := deref(al.Type()).Underlying().(*types.Array)
	if !ok || arr.Len() > 64 {
		return nil, false
	}
	out := make([]c01Val, arr.Len())
	set := 0
	for _, u := range refs(al) {
		ia, ok := u.(*ssa.IndexAddr)
		if !ok {
			continue
		}
		k, ok := c01ConstInt(ia.Index)
		if !ok || k < 0 || k >= arr.Len() {
			return nil, false
		}
		for _, w := range refs(ia) {
			if st, ok := w.(*ssa.Store); ok {
				c, ok := st.Val.(*ssa.Const)
				if !ok || c.Value == nil {
					return nil, false
				}
				out[k] = c01Val{K: c.Value}
				set++
			}
		}
	}
	return out, int64(set) == arr.Len()
}
