package main

// C18 helper: values that travel through a local variable cell
// (`err = os.Symlink(…); if err != nil` with a named or captured err lowers to
// store/load of an Alloc). c18Root chases such loads back to the stored value.

import (
	"go/token"

	"golang.org/x/tools/go/ssa"
)

// c18ReachingStore: the unique store to the local cell that a load observes:
// it dominates the load and no other store to the cell lies between them.
// Cells written by closures are not chased.
func c18ReachingStore(load *ssa.UnOp) *ssa.Store {
	if load.Op != token.MUL {
		return nil
	}
	cell, ok := load.X.(*ssa.Alloc)
	if !ok {
		return nil
	}
	var stores []*ssa.Store
	for _, r := range refs(cell) {
		switch x := r.(type) {
		case *ssa.Store:
			if x.Addr == cell {
				stores = append(stores, x)
			}
		case *ssa.MakeClosure:
			// captured: a closure that stores through the free variable defeats the chase
			if fn, ok := x.Fn.(*ssa.Function); ok {
				for i, b := range x.Bindings {
					if b != ssa.Value(cell) || i >= len(fn.FreeVars) {
						continue
					}
					for _, rr := range refs(fn.FreeVars[i]) {
						if st, ok := rr.(*ssa.Store); ok && st.Addr == ssa.Value(fn.FreeVars[i]) {
							return nil
						}
					}
				}
			}
		}
	}
	var found *ssa.Store
	for _, s := range stores {
		if !instrDominates(s, load) {
			continue
		}
		clean := true
		for _, s2 := range stores {
			if s2 != s && instrReaches(s, s2) && instrReaches(s2, load) {
				clean = false
			}
		}
		if clean {
			if found != nil {
				return nil
			}
			found = s
		}
	}
	return found
}

// c18Root chases loads of local cells to the value that was stored.
func c18Root(v ssa.Value) ssa.Value {
	for i := 0; i < 8; i++ {
		u, ok := v.(*ssa.UnOp)
		if !ok {
			return v
		}
		s := c18ReachingStore(u)
		if s == nil {
			return v
		}
		v = s.Val
	}
	return v
}

// c18Refs: the instructions that use v directly or through a local cell
// (the stores into the cell themselves are transparent).
func c18Refs(v ssa.Value) []ssa.Instruction {
	var out []ssa.Instruction
	for _, r := range refs(v) {
		if st, ok := r.(*ssa.Store); ok && st.Val == v {
			if cell, ok := st.Addr.(*ssa.Alloc); ok {
				chased := false
				for _, rr := range refs(cell) {
					if ld, ok := rr.(*ssa.UnOp); ok && ld.Op == token.MUL && c18ReachingStore(ld) == st {
						chased = true
						out = append(out, c18Refs(ld)...)
					}
				}
				_ = chased
				continue
			}
		}
		out = append(out, r)
	}
	return out
}

// c18KnownNonNil: on every path to block b the value v (or the cell value it
// was loaded from) was tested and found non-nil.
func c18KnownNonNil(b *ssa.BasicBlock, v ssa.Value) bool {
	rv := c18Root(v)
	for _, dc := range domConds(b) {
		if cmp, ok := decodeCond(dc.If.Cond, dc.Branch); ok && cmp.Op == token.NEQ {
			if (isNilConst(cmp.Y) && c18Root(cmp.X) == rv) || (isNilConst(cmp.X) && c18Root(cmp.Y) == rv) {
				return true
			}
		}
	}
	return false
}

// c18KnownNil: on every path to block b the value v was tested and found nil.
func c18KnownNil(b *ssa.BasicBlock, v ssa.Value) bool {
	rv := c18Root(v)
	for _, dc := range domConds(b) {
		if cmp, ok := decodeCond(dc.If.Cond, dc.Branch); ok && cmp.Op == token.EQL {
			if (isNilConst(cmp.Y) && c18Root(cmp.X) == rv) || (isNilConst(cmp.X) && c18Root(cmp.Y) == rv) {
				return true
			}
		}
	}
	return false
}
