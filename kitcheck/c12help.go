package main

// Helpers private to the C12 check (prefix c12): value provenance through
// captured cells and goroutine arguments, atomic test-and-set guards, counted
// loops, and a small path-sensitive flow that distinguishes the registration
// of a defer from its execution.

import (
	"fmt"
	"go/token"
	"go/types"

	"golang.org/x/tools/go/ssa"
)

// ---------------------------------------------------------------- provenance

// c12Bind maps parameters (and, by position, nothing else) of a spawned or
// called function to the argument values at the call site, so that a value
// can be traced from a goroutine body back into the spawner.
type c12Bind map[*ssa.Parameter]ssa.Value

func c12BindOf(site ssa.CallInstruction, callee *ssa.Function) c12Bind {
	b := c12Bind{}
	if site == nil || callee == nil {
		return b
	}
	args := site.Common().Args
	if site.Common().IsInvoke() { // interface method call: the receiver is the first parameter
		args = append([]ssa.Value{site.Common().Value}, args...)
	}
	for i, pa := range callee.Params {
		if i < len(args) {
			b[pa] = args[i]
		}
	}
	return b
}

func c12CellOf(addr ssa.Value) *ssa.Alloc {
	for i := 0; i < 8 && addr != nil; i++ {
		switch x := addr.(type) {
		case *ssa.Alloc:
			return x
		case *ssa.FreeVar:
			addr = resolveFreeVar(x)
		default:
			return nil
		}
	}
	return nil
}

// c12CellStores returns every value stored into a local variable cell, in the
// owning function and in every closure that captures the cell.
func c12CellStores(cell *ssa.Alloc) []ssa.Value {
	var out []ssa.Value
	seen := map[ssa.Value]bool{}
	var visit func(addr ssa.Value)
	visit = func(addr ssa.Value) {
		if seen[addr] {
			return
		}
		seen[addr] = true
		for _, r := range refs(addr) {
			switch x := r.(type) {
			case *ssa.Store:
				if x.Addr == addr {
					out = append(out, x.Val)
				}
			case *ssa.MakeClosure:
				fn, _ := x.Fn.(*ssa.Function)
				if fn == nil {
					continue
				}
				for i, b := range x.Bindings {
					if b == addr && i < len(fn.FreeVars) {
						visit(fn.FreeVars[i])
					}
				}
			}
		}
	}
	visit(cell)
	return out
}

// c12Roots resolves v backwards through loads of local cells (also captured
// ones), phis, type changes and bound parameters to the values it may stem
// from. Field loads, element loads, calls, parameters, constants are roots.
// The resolution is flow-insensitive for cells.
func c12Roots(v ssa.Value, bind c12Bind) []ssa.Value {
	seen := map[ssa.Value]bool{}
	var out []ssa.Value
	var walk func(v ssa.Value)
	walk = func(v ssa.Value) {
		if v == nil || seen[v] {
			return
		}
		seen[v] = true
		switch x := v.(type) {
		case *ssa.Phi:
			for _, e := range x.Edges {
				walk(e)
			}
			return
		case *ssa.ChangeType:
			walk(x.X)
			return
		case *ssa.ChangeInterface:
			walk(x.X)
			return
		case *ssa.MakeInterface:
			walk(x.X)
			return
		case *ssa.Parameter:
			if b, ok := bind[x]; ok {
				walk(b)
				return
			}
		case *ssa.FreeVar:
			if b := resolveFreeVar(x); b != nil {
				walk(b)
				return
			}
		case *ssa.UnOp:
			if x.Op == token.MUL {
				if cell := c12CellOf(x.X); cell != nil {
					if _, isArr := cell.Type().Underlying().(*types.Pointer).Elem().Underlying().(*types.Array); !isArr {
						vals := c12CellStores(cell)
						if len(vals) > 0 {
							for _, s := range vals {
								walk(s)
							}
							return
						}
					}
				}
			}
		}
		out = append(out, v)
	}
	walk(v)
	return out
}

// c12OnlyRoot reports whether every root of v is `want`.
func c12OnlyRoot(v ssa.Value, bind c12Bind, want ssa.Value) bool {
	rs := c12Roots(v, bind)
	if len(rs) == 0 {
		return false
	}
	for _, r := range rs {
		if r != want {
			return false
		}
	}
	return true
}

func c12HasRoot(v ssa.Value, bind c12Bind, want ssa.Value) bool {
	for _, r := range c12Roots(v, bind) {
		if r == want {
			return true
		}
	}
	return false
}

// c12AllNil: every root of v is the nil constant.
func c12AllNil(v ssa.Value, bind c12Bind) bool {
	rs := c12Roots(v, bind)
	if len(rs) == 0 {
		return false
	}
	for _, r := range rs {
		if !isNilConst(r) {
			return false
		}
	}
	return true
}

// c12FieldLoad: v is (only) a load of the given field.
func c12IsFieldLoad(v ssa.Value, bind c12Bind, f FieldID) bool {
	rs := c12Roots(v, bind)
	if len(rs) == 0 {
		return false
	}
	for _, r := range rs {
		id, _, ok := fieldOfValue(r)
		if !ok || id != f {
			return false
		}
		if _, isAddr := r.(*ssa.FieldAddr); isAddr {
			return false
		}
	}
	return true
}

// c12ElemOfField: every root of v is a load of an element of the slice held in
// field f; returns the IndexAddr instructions.
func c12ElemOfField(v ssa.Value, bind c12Bind, f FieldID) ([]*ssa.IndexAddr, bool) {
	rs := c12Roots(v, bind)
	if len(rs) == 0 {
		return nil, false
	}
	var out []*ssa.IndexAddr
	for _, r := range rs {
		u, ok := r.(*ssa.UnOp)
		if !ok || u.Op != token.MUL {
			return nil, false
		}
		ia, ok := u.X.(*ssa.IndexAddr)
		if !ok || !c12IsFieldLoad(ia.X, bind, f) {
			return nil, false
		}
		out = append(out, ia)
	}
	return out, true
}

// c12ChanRoot gives the identity of a channel operand: the single MakeChan it
// stems from, or the field it is loaded from ("field:<id>").
func c12ChanRoot(v ssa.Value, bind c12Bind) (mk *ssa.MakeChan, field string) {
	rs := c12Roots(v, bind)
	if len(rs) != 1 {
		return nil, ""
	}
	if m, ok := rs[0].(*ssa.MakeChan); ok {
		return m, ""
	}
	if id, _, ok := fieldOfValue(rs[0]); ok {
		return nil, "field:" + id.Type + "." + id.Field
	}
	return nil, ""
}

// c12ReturnRoots resolves result i of a return; for a named/deferred result
// cell the last store in the returning block wins (flow-sensitive enough for
// `return X` lowered to `*res = X; rundefers; return *res`).
func c12ReturnRoots(ret *ssa.Return, i int) []ssa.Value {
	if i >= len(ret.Results) {
		return nil
	}
	v := ret.Results[i]
	if u, ok := v.(*ssa.UnOp); ok && u.Op == token.MUL {
		if cell, ok := u.X.(*ssa.Alloc); ok {
			var last ssa.Value
			for _, in := range ret.Block().Instrs {
				if in == ssa.Instruction(u) {
					break
				}
				if st, ok := in.(*ssa.Store); ok && st.Addr == cell {
					last = st.Val
				}
			}
			if last != nil {
				return c12Roots(last, nil)
			}
		}
	}
	return c12Roots(v, nil)
}

// c12Returns lists the reachable Return instructions of fn (not the recover block).
func c12Returns(fn *ssa.Function) []*ssa.Return {
	var out []*ssa.Return
	for _, b := range fn.Blocks {
		if len(b.Instrs) == 0 || (b != fn.Blocks[0] && len(b.Preds) == 0) {
			continue
		}
		if ret, ok := b.Instrs[len(b.Instrs)-1].(*ssa.Return); ok {
			out = append(out, ret)
		}
	}
	return out
}

// c12Reaches: block a can reach block b (a == b counts).
func c12Reaches(a, b *ssa.BasicBlock) bool { return reachableFrom(a, nil)[b] }

// ------------------------------------------------------ atomic flag guards

// c12Edge is a CFG edge From -> From.Succs[Succ].
type c12Edge struct {
	From *ssa.BasicBlock
	Succ int
	Call *ssa.Call
	Kind string // "CompareAndSwap", "Swap", "Load"
}

func (e c12Edge) To() *ssa.BasicBlock { return e.From.Succs[e.Succ] }

// Dominates: every path to b crosses this edge.
func (e c12Edge) Dominates(b *ssa.BasicBlock) bool { return edgeDominates(e.From, e.To(), b) }

func c12IsConstBool(v ssa.Value, want bool) bool {
	c, ok := v.(*ssa.Const)
	if !ok || c.Value == nil {
		return false
	}
	if b, ok := c.Type().Underlying().(*types.Basic); !ok || b.Info()&types.IsBoolean == 0 {
		return false
	}
	return c.Value.String() == fmt.Sprint(want)
}

// c12FlagCalls finds calls of method `name` of sync/atomic.Bool on field f in fn.
func c12FlagCalls(fn *ssa.Function, f FieldID, name string) []*ssa.Call {
	var out []*ssa.Call
	allInstrs(fn, func(in ssa.Instruction) {
		call, ok := in.(*ssa.Call)
		if !ok || !c12IsFlagMethod(call, name) || len(call.Call.Args) == 0 {
			return
		}
		if id, _, ok := fieldOfValue(call.Call.Args[0]); ok && id == f {
			out = append(out, call)
		}
	})
	return out
}

// c12BranchEdges returns the edges on which the boolean call result has the
// given truth value (call used directly, possibly negated, as an If condition).
func c12BranchEdges(call *ssa.Call, truth bool, kind string) []c12Edge {
	var out []c12Edge
	var visit func(v ssa.Value, neg bool)
	visit = func(v ssa.Value, neg bool) {
		for _, r := range refs(v) {
			switch x := r.(type) {
			case *ssa.UnOp:
				if x.Op == token.NOT {
					visit(x, !neg)
				}
			case *ssa.If:
				blk := x.Block()
				if blk.Succs[0] == blk.Succs[1] {
					continue
				}
				// value of `call` on the true branch is !neg
				succ := 0
				if (!neg) != truth {
					succ = 1
				}
				out = append(out, c12Edge{From: blk, Succ: succ, Call: call, Kind: kind})
			}
		}
	}
	visit(call, false)
	return out
}

// c12OwnEdges: edges on which the caller has atomically switched the flag
// field f from false to true (CompareAndSwap(false,true) succeeded, or
// Swap(true) returned false).
func c12OwnEdges(fn *ssa.Function, f FieldID) []c12Edge {
	var out []c12Edge
	for _, call := range c12FlagCalls(fn, f, "CompareAndSwap") {
		a := call.Call.Args
		if len(a) == 3 && c12IsConstBool(a[1], false) && c12IsConstBool(a[2], true) {
			out = append(out, c12BranchEdges(call, true, "CompareAndSwap")...)
		}
	}
	for _, call := range c12FlagCalls(fn, f, "Swap") {
		a := call.Call.Args
		if len(a) == 2 && c12IsConstBool(a[1], true) {
			out = append(out, c12BranchEdges(call, false, "Swap")...)
		}
	}
	return out
}

// c12UnsetEdges: edges on which Load() of flag f returned false.
func c12UnsetEdges(fn *ssa.Function, f FieldID) []c12Edge {
	var out []c12Edge
	for _, call := range c12FlagCalls(fn, f, "Load") {
		out = append(out, c12BranchEdges(call, false, "Load")...)
	}
	return out
}

func c12AnyDominates(edges []c12Edge, b *ssa.BasicBlock) bool {
	for _, e := range edges {
		if e.Dominates(b) {
			return true
		}
	}
	return false
}

// ------------------------------------------------------------ counted loops

// c12Loop is a loop `for idx := First; idx < len(S)+Off; idx++` (also the
// lowered form of `for range S`): Trips = len(S) + Off - First.
type c12Loop struct {
	If       *ssa.If
	Header   *ssa.BasicBlock
	Body     *ssa.BasicBlock // successor on which the loop continues
	Exit     *ssa.BasicBlock
	Idx      ssa.Value // the value tested (and used as index in the body)
	Phi      *ssa.Phi
	First    int64
	LenOf    ssa.Value // S, nil when the bound is a constant
	LenField FieldID   // field S is loaded from (zero if none)
	Off      int64
	Blocks   map[*ssa.BasicBlock]bool
	Problem  string // non-empty: shape recognised but not a clean counted loop
}

func c12ConstInt(v ssa.Value) (int64, bool) {
	c, ok := v.(*ssa.Const)
	if !ok || c.Value == nil {
		return 0, false
	}
	if b, ok := c.Type().Underlying().(*types.Basic); !ok || b.Info()&types.IsInteger == 0 {
		return 0, false
	}
	return c.Int64(), true
}

// c12LenExpr decodes v as len(S)+k.
func c12LenExpr(v ssa.Value) (s ssa.Value, k int64, ok bool) {
	switch x := v.(type) {
	case *ssa.Call:
		if builtinName(x) == "len" && len(x.Call.Args) == 1 {
			return x.Call.Args[0], 0, true
		}
	case *ssa.BinOp:
		if x.Op == token.ADD || x.Op == token.SUB {
			if c, isC := c12ConstInt(x.Y); isC {
				if s, k, ok := c12LenExpr(x.X); ok {
					if x.Op == token.SUB {
						c = -c
					}
					return s, k + c, true
				}
			}
			if c, isC := c12ConstInt(x.X); isC && x.Op == token.ADD {
				if s, k, ok := c12LenExpr(x.Y); ok {
					return s, k + c, true
				}
			}
		}
	}
	return nil, 0, false
}

// c12IdxExpr decodes v as phi+a where phi = {const init, phi+1}.
func c12IdxExpr(v ssa.Value) (phi *ssa.Phi, first int64, ok bool) {
	add := int64(0)
	if bo, isBo := v.(*ssa.BinOp); isBo && bo.Op == token.ADD {
		if c, isC := c12ConstInt(bo.Y); isC && c == 1 {
			v = bo.X
			add = 1
		}
	}
	phi, isPhi := v.(*ssa.Phi)
	if !isPhi || len(phi.Edges) < 2 {
		return nil, 0, false
	}
	// one constant entry value; every other edge (there may be several back
	// edges, e.g. `continue`) carries phi+1
	nInit, haveStep := 0, false
	var init int64
	for _, e := range phi.Edges {
		if c, isC := c12ConstInt(e); isC {
			init = c
			nInit++
			continue
		}
		if bo, isBo := e.(*ssa.BinOp); isBo && bo.Op == token.ADD && bo.X == ssa.Value(phi) {
			if c, isC := c12ConstInt(bo.Y); isC && c == 1 {
				haveStep = true
				continue
			}
		}
		return nil, 0, false
	}
	if nInit != 1 || !haveStep {
		return nil, 0, false
	}
	return phi, init + add, true
}

// c12Loops finds the counted loops of fn whose bound is len(S)+k.
func c12Loops(fn *ssa.Function) []*c12Loop {
	var out []*c12Loop
	for _, b := range fn.Blocks {
		if len(b.Instrs) == 0 {
			continue
		}
		ifi, ok := b.Instrs[len(b.Instrs)-1].(*ssa.If)
		if !ok {
			continue
		}
		cmp, ok := decodeCond(ifi.Cond, true)
		if !ok {
			continue
		}
		idxV, boundV, op := cmp.X, cmp.Y, cmp.Op
		if _, _, isIdx := c12IdxExpr(idxV); !isIdx {
			idxV, boundV = cmp.Y, cmp.X
			switch op {
			case token.LSS:
				op = token.GTR
			case token.GTR:
				op = token.LSS
			case token.LEQ:
				op = token.GEQ
			case token.GEQ:
				op = token.LEQ
			}
		}
		phi, first, isIdx := c12IdxExpr(idxV)
		if !isIdx {
			continue
		}
		s, k, isLen := c12LenExpr(boundV)
		if !isLen {
			continue
		}
		l := &c12Loop{If: ifi, Header: b, Idx: idxV, Phi: phi, First: first, LenOf: s, Off: k}
		if id, _, ok := fieldOfValue(s); ok {
			l.LenField = id
		}
		// on the true branch: idx op bound
		switch op {
		case token.LSS:
			l.Body, l.Exit = b.Succs[0], b.Succs[1]
		case token.LEQ:
			l.Body, l.Exit = b.Succs[0], b.Succs[1]
			l.Off++
		case token.GEQ:
			l.Body, l.Exit = b.Succs[1], b.Succs[0]
		case token.GTR:
			l.Body, l.Exit = b.Succs[1], b.Succs[0]
			l.Off++
		default:
			continue
		}
		l.Blocks = map[*ssa.BasicBlock]bool{}
		fromBody := reachableFrom(l.Body, map[*ssa.BasicBlock]bool{b: true})
		for blk := range fromBody {
			if c12Reaches(blk, b) {
				l.Blocks[blk] = true
			}
		}
		l.Blocks[b] = true
		if !phiInLoop(phi, b) {
			continue
		}
		// clean: the only way out is the header's exit edge (blocks that end in
		// panic have no successors and are not exits)
		for blk := range fromBody {
			if l.Blocks[blk] {
				for _, s := range blk.Succs {
					if !l.Blocks[s] && !c12OnlyPanics(s) {
						l.Problem = "the loop can be left from its body (break/return/goto), not only through its index test"
					}
				}
			}
		}
		// no inner cycle that avoids the header
		for blk := range l.Blocks {
			if blk == b {
				continue
			}
			for _, s := range blk.Succs {
				if s != b && l.Blocks[s] && reachableFrom(s, map[*ssa.BasicBlock]bool{b: true})[blk] {
					l.Problem = "the loop body contains an inner loop"
				}
			}
		}
		out = append(out, l)
	}
	return out
}

func phiInLoop(phi *ssa.Phi, header *ssa.BasicBlock) bool { return phi.Block() == header }

// c12OnlyPanics: every path from b ends in a panic (no return reachable).
func c12OnlyPanics(b *ssa.BasicBlock) bool {
	for blk := range reachableFrom(b, nil) {
		if len(blk.Instrs) == 0 {
			continue
		}
		if _, ok := blk.Instrs[len(blk.Instrs)-1].(*ssa.Return); ok {
			return false
		}
	}
	return true
}

// c12LoopOf returns the innermost recognised loop containing block b (not
// counting a header whose own block is b only for the exit test).
func c12LoopOf(loops []*c12Loop, b *ssa.BasicBlock) *c12Loop {
	var best *c12Loop
	for _, l := range loops {
		if l.Blocks[b] && (best == nil || len(l.Blocks) < len(best.Blocks)) {
			best = l
		}
	}
	return best
}

// c12InAnyCycle: block b lies on a CFG cycle.
func c12InAnyCycle(b *ssa.BasicBlock) bool {
	for _, s := range b.Succs {
		if c12Reaches(s, b) {
			return true
		}
	}
	return false
}

// c12PerIteration returns the set {0,1,2+} (bits 0..2) of the number of
// instructions satisfying ev executed on a path through one iteration of l.
func c12PerIteration(fn *ssa.Function, l *c12Loop, ev func(ssa.Instruction) bool) uint64 {
	fl := &c12Flow{Fn: fn, Entry: 1,
		Instr: func(in ssa.Instruction, replay bool, st uint64) uint64 {
			if in == l.Header.Instrs[0] {
				st = 1
			}
			if !replay && l.Blocks[in.Block()] && ev(in) {
				return mapStates(st, func(s int) int {
					if s >= 2 {
						return 2
					}
					return s + 1
				})
			}
			return st
		}}
	fl.Run()
	var out uint64
	for _, pred := range l.Header.Preds {
		if !l.Blocks[pred] || pred == l.Header {
			continue
		}
		if st, ok := fl.Out(pred); ok {
			out |= st
		}
	}
	return out
}

// c12Count is a symbolic count len(Field)*Coef + K.
type c12Count struct {
	Field FieldID
	Coef  int64
	K     int64
}

func (c c12Count) String() string {
	if c.Coef == 0 {
		return fmt.Sprint(c.K)
	}
	s := "len(" + c.Field.String() + ")"
	if c.Coef != 1 {
		s = fmt.Sprintf("%d*%s", c.Coef, s)
	}
	if c.K != 0 {
		s += fmt.Sprintf("%+d", c.K)
	}
	return s
}

// ---------------------------------------------------------------- flow

// c12Flow is FlagFlow with two differences: the callback is told when a Defer
// instruction is being *executed* (replayed at RunDefers, LIFO) as opposed to
// *registered*, and the meet is always union (states are powersets built with
// mapStates).
type c12Flow struct {
	Fn    *ssa.Function
	Entry uint64
	Instr func(in ssa.Instruction, replay bool, st uint64) uint64
	Edge  func(from, to *ssa.BasicBlock, st uint64) uint64

	before  map[ssa.Instruction]uint64
	in      []uint64
	outs    []uint64
	visited []bool
}

func (f *c12Flow) Run() {
	fn := f.Fn
	n := len(fn.Blocks)
	f.in = make([]uint64, n)
	f.outs = make([]uint64, n)
	f.visited = make([]bool, n)
	f.before = map[ssa.Instruction]uint64{}
	if n == 0 {
		return
	}
	var defers []*ssa.Defer
	allInstrs(fn, func(in ssa.Instruction) {
		if d, ok := in.(*ssa.Defer); ok {
			defers = append(defers, d)
		}
	})
	f.in[0] = f.Entry
	f.visited[0] = true
	computed := make([]bool, n)
	work := []int{0}
	for len(work) > 0 {
		bi := work[0]
		work = work[1:]
		b := fn.Blocks[bi]
		st := f.in[bi]
		for _, instr := range b.Instrs {
			f.before[instr] = st
			st = f.Instr(instr, false, st)
			if _, ok := instr.(*ssa.RunDefers); ok {
				for i := len(defers) - 1; i >= 0; i-- {
					st = f.Instr(defers[i], true, st)
				}
			}
		}
		if computed[bi] && st == f.outs[bi] {
			continue
		}
		computed[bi] = true
		f.outs[bi] = st
		for _, s := range b.Succs {
			es := st
			if f.Edge != nil {
				es = f.Edge(b, s, st)
			}
			ns := es
			if f.visited[s.Index] {
				ns = f.in[s.Index] | es
			}
			if !f.visited[s.Index] || ns != f.in[s.Index] || !computed[s.Index] {
				f.visited[s.Index] = true
				f.in[s.Index] = ns
				work = append(work, s.Index)
			}
		}
	}
}

func (f *c12Flow) Before(in ssa.Instruction) (uint64, bool) {
	v, ok := f.before[in]
	return v, ok
}

func (f *c12Flow) Out(b *ssa.BasicBlock) (uint64, bool) {
	return f.outs[b.Index], f.visited[b.Index]
}

// AtReturns calls cb with the state right before each reachable Return
// (deferred calls already executed).
func (f *c12Flow) AtReturns(cb func(ret *ssa.Return, st uint64)) {
	for _, ret := range c12Returns(f.Fn) {
		if st, ok := f.before[ret]; ok {
			cb(ret, st)
		}
	}
}

// c12ForStates iterates over the abstract states contained in st.
func c12ForStates(st uint64, f func(s int)) {
	for i := 0; i < 64; i++ {
		if st&(1<<uint(i)) != 0 {
			f(i)
		}
	}
}

// ------------------------------------------------------- error knowledge

// Knowledge about one error value E on a path: nilness × "is context.Canceled".
const (
	c12Unk = 0
	c12Yes = 1
	c12No  = 2
)

// c12IsCanceledVar: v is a load of the package-level variable context.Canceled.
func c12IsCanceledVar(v ssa.Value, bind c12Bind) bool {
	for _, r := range c12Roots(v, bind) {
		u, ok := r.(*ssa.UnOp)
		if !ok || u.Op != token.MUL {
			return false
		}
		g, ok := u.X.(*ssa.Global)
		if !ok || g.Name() != "Canceled" || g.Pkg == nil || g.Pkg.Pkg.Path() != "context" {
			return false
		}
	}
	return true
}

// c12ErrFact decodes the condition of the edge from->to as a fact about the
// error value E (identified by isE). Returns (nilness, canceled) refinements,
// c12Unk where the edge says nothing.
func c12ErrFact(from, to *ssa.BasicBlock, isE func(ssa.Value) bool, bind c12Bind) (nilness, canceled int) {
	if len(from.Instrs) == 0 || len(from.Succs) != 2 || from.Succs[0] == from.Succs[1] {
		return
	}
	ifi, ok := from.Instrs[len(from.Instrs)-1].(*ssa.If)
	if !ok {
		return
	}
	branch := from.Succs[0] == to
	if cmp, ok := decodeCond(ifi.Cond, branch); ok && (cmp.Op == token.EQL || cmp.Op == token.NEQ) {
		x, y := cmp.X, cmp.Y
		if !isE(x) {
			x, y = y, x
		}
		if isE(x) {
			if isNilConst(y) {
				if cmp.Op == token.EQL {
					return c12Yes, c12No
				}
				return c12No, c12Unk
			}
			if c12IsCanceledVar(y, bind) {
				if cmp.Op == token.EQL {
					return c12No, c12Yes
				}
				return c12Unk, c12No
			}
		}
		return
	}
	if call, truth, ok := boolCallCond(ifi.Cond, branch); ok && callIs(call, "errors", "", "Is") && len(call.Call.Args) == 2 {
		if isE(call.Call.Args[0]) && c12IsCanceledVar(call.Call.Args[1], bind) {
			if truth {
				return c12No, c12Yes
			}
			return c12Unk, c12No
		}
	}
	return
}

// c12Refine applies a fact to a (nilness, canceled) pair; ok=false if the path
// is infeasible.
func c12Refine(n, c, fn, fc int) (int, int, bool) {
	if fn != c12Unk {
		if n != c12Unk && n != fn {
			return n, c, false
		}
		n = fn
	}
	if fc != c12Unk {
		if c != c12Unk && c != fc {
			return n, c, false
		}
		c = fc
	}
	if n == c12Yes && c == c12Yes {
		return n, c, false
	}
	if n == c12Yes {
		c = c12No
	}
	return n, c, true
}

// ------------------------------------------------------------- join reach

// c12ReachesJoin: the memory/slice value v flows (slice, append, phi, local
// cell) into the variadic argument of an errors.Join call; returns the calls.
func c12ReachesJoin(v ssa.Value) []*ssa.Call {
	seen := map[ssa.Value]bool{}
	var out []*ssa.Call
	var walk func(v ssa.Value)
	walk = func(v ssa.Value) {
		if v == nil || seen[v] {
			return
		}
		seen[v] = true
		for _, r := range refs(v) {
			switch x := r.(type) {
			case *ssa.Slice:
				if x.X == v {
					walk(x)
				}
			case *ssa.Phi:
				walk(x)
			case *ssa.ChangeType:
				walk(x)
			case *ssa.Call:
				if builtinName(x) == "append" {
					walk(x)
				} else if callIs(x, "errors", "", "Join") {
					out = append(out, x)
				}
			case *ssa.Store:
				if x.Val == v {
					if cell := c12CellOf(x.Addr); cell != nil {
						c12CellLoads(cell, walk)
					}
				}
			}
		}
	}
	walk(v)
	return out
}

func c12CellLoads(cell *ssa.Alloc, f func(ssa.Value)) {
	seen := map[ssa.Value]bool{}
	var visit func(addr ssa.Value)
	visit = func(addr ssa.Value) {
		if seen[addr] {
			return
		}
		seen[addr] = true
		for _, r := range refs(addr) {
			switch x := r.(type) {
			case *ssa.UnOp:
				if x.Op == token.MUL && x.X == addr {
					f(x)
				}
			case *ssa.MakeClosure:
				if fn, ok := x.Fn.(*ssa.Function); ok {
					for i, b := range x.Bindings {
						if b == addr && i < len(fn.FreeVars) {
							visit(fn.FreeVars[i])
						}
					}
				}
			}
		}
	}
	visit(cell)
}

// c12StoreTarget: for `*addr = v` where addr is an element address, the base
// whose contents may reach a Join: the array cell (varargs) or the slice value.
func c12StoreBase(st *ssa.Store) ssa.Value {
	ia, ok := st.Addr.(*ssa.IndexAddr)
	if !ok {
		return nil
	}
	return ia.X
}

// c12PhiPlus decodes v as phi+k for the given loop phi.
func c12PhiPlus(v ssa.Value, phi *ssa.Phi) (int64, bool) {
	if v == ssa.Value(phi) {
		return 0, true
	}
	if bo, ok := v.(*ssa.BinOp); ok && (bo.Op == token.ADD || bo.Op == token.SUB) {
		if c, isC := c12ConstInt(bo.Y); isC {
			if k, ok := c12PhiPlus(bo.X, phi); ok {
				if bo.Op == token.SUB {
					c = -c
				}
				return k + c, true
			}
		}
		if c, isC := c12ConstInt(bo.X); isC && bo.Op == token.ADD {
			if k, ok := c12PhiPlus(bo.Y, phi); ok {
				return k + c, true
			}
		}
	}
	return 0, false
}
