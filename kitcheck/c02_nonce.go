package main

// C02: layout of the nonce builder — do the 32 bits of the segment number
// reach the nonce injectively?

import (
	"fmt"
	"go/constant"
	"go/token"
	"go/types"
	"sort"
	"strings"

	"golang.org/x/tools/go/ssa"
)

// c02ConstInt evaluates small constant integer expressions: constants,
// +/- of those, len() of a slice with known bounds.
func c02ConstInt(v ssa.Value, depth int) (int64, bool) {
	if depth > 6 || v == nil {
		return 0, false
	}
	switch x := v.(type) {
	case *ssa.Const:
		if x.Value != nil && x.Value.Kind() == constant.Int {
			if i, ok := constant.Int64Val(x.Value); ok {
				return i, true
			}
		}
	case *ssa.Convert:
		return c02ConstInt(x.X, depth+1)
	case *ssa.BinOp:
		a, ok1 := c02ConstInt(x.X, depth+1)
		b, ok2 := c02ConstInt(x.Y, depth+1)
		if ok1 && ok2 {
			switch x.Op {
			case token.ADD:
				return a + b, true
			case token.SUB:
				return a - b, true
			case token.MUL:
				return a * b, true
			}
		}
	case *ssa.Call:
		if builtinName(x) == "len" && len(x.Call.Args) == 1 {
			return c02SliceLen(x.Call.Args[0], depth+1)
		}
	}
	return 0, false
}

// c02SliceLen: statically known length of a slice value.
func c02SliceLen(v ssa.Value, depth int) (int64, bool) {
	if depth > 6 {
		return 0, false
	}
	switch x := v.(type) {
	case *ssa.Slice:
		lo := int64(0)
		if x.Low != nil {
			l, ok := c02ConstInt(x.Low, depth+1)
			if !ok {
				return 0, false
			}
			lo = l
		}
		if x.High != nil {
			h, ok := c02ConstInt(x.High, depth+1)
			if !ok {
				return 0, false
			}
			return h - lo, true
		}
		n, ok := c02SliceLen(x.X, depth+1)
		if !ok {
			return 0, false
		}
		return n - lo, true
	case *ssa.Alloc:
		if pt, ok := x.Type().Underlying().(*types.Pointer); ok {
			if at, ok := pt.Elem().Underlying().(*types.Array); ok {
				return at.Len(), true
			}
		}
	case *ssa.MakeSlice:
		return c02ConstInt(x.Len, depth+1)
	}
	return 0, false
}

type c02NonceWrite struct {
	in        ssa.Instruction
	lo, hi    int64 // [lo,hi) relative to the buffer; valid if known
	known     bool
	kind      int // see below
	shift     int64
	desc      string
	putOrder  string
	uncertain bool // a call that receives the buffer: it may or may not write to it
}

const (
	c02WCounterPut  = iota // binary.*.PutUint32(window, num)
	c02WCounterByte        // buf[c] = byte(num >> k)
	c02WFlag               // depends on the finality parameter
	c02WOther              // prefix copy, constants, …
	c02WNumOpaque          // depends on num in a way the rule cannot classify
)

// c02ShiftOfNum: val is byte(num >> k) (k may be 0; `& 0xff` and widening
// conversions are looked through). Returns k.
func c02ShiftOfNum(val ssa.Value, num ssa.Value) (int64, bool) {
	v := val
	strip := func() {
		for i := 0; i < 4; i++ {
			if bo, ok := v.(*ssa.BinOp); ok && bo.Op == token.AND {
				if k, ok := c02ConstInt(bo.Y, 0); ok && k == 0xff {
					v = bo.X
					continue
				}
				if k, ok := c02ConstInt(bo.X, 0); ok && k == 0xff {
					v = bo.Y
					continue
				}
			}
			break
		}
	}
	strip()
	cv, ok := v.(*ssa.Convert)
	if !ok {
		return 0, false
	}
	if b, ok := cv.Type().Underlying().(*types.Basic); !ok || (b.Kind() != types.Uint8 && b.Kind() != types.Byte) {
		return 0, false
	}
	v = cv.X
	strip()
	shift := int64(0)
	if bo, ok := v.(*ssa.BinOp); ok && bo.Op == token.SHR {
		k, ok := c02ConstInt(bo.Y, 0)
		if !ok {
			return 0, false
		}
		shift = k
		v = bo.X
	}
	// widening conversions of num (uint32 -> uint64/uint/int64) keep all 32 bits
	for i := 0; i < 3; i++ {
		c2, ok := v.(*ssa.Convert)
		if !ok {
			break
		}
		b, ok := c2.Type().Underlying().(*types.Basic)
		if !ok {
			return 0, false
		}
		switch b.Kind() {
		case types.Uint32, types.Uint64, types.Int64, types.Uint, types.Uintptr:
			v = c2.X
			continue
		}
		return 0, false
	}
	return shift, v == num
}

// c02NonceLayout classifies every write into the buffer returned by the nonce
// builder fn and decides injectivity of the segment number.
func c02NonceLayout(p *Prog, r *Report, callerName string, fn *ssa.Function, base ssa.Value, num, last *ssa.Parameter) {
	name := c02Name(p, fn)
	construct := callerName + " nonce counter layout in " + name
	if callerName == name {
		construct = callerName + " nonce counter layout (built in place)"
	}
	rule := "C02.T1-nonce-injective"
	if num == nil || last == nil {
		r.Undecide("%s: the segment number / finality flag do not reach the function that builds the nonce as plain parameters; cannot classify its layout", construct)
		return
	}
	numIdx, lastIdx := c02ParamIndex(fn, num), c02ParamIndex(fn, last)
	depends := func(v ssa.Value, idx int) bool { return c02ValueDeps(p, v, 2)[idx] }
	condDepends := func(b *ssa.BasicBlock, idx int) bool {
		for _, dc := range domConds(b) {
			if depends(dc.If.Cond, idx) {
				return true
			}
		}
		return false
	}
	switch base.(type) {
	case *ssa.Alloc, *ssa.MakeSlice:
	default:
		r.Undecide("%s: the nonce is not built in a buffer allocated by %s itself; cannot classify its layout", construct, name)
		return
	}

	type view struct {
		off      int64
		offKnown bool
		n        int64
		nKnown   bool
	}
	views := map[ssa.Value]view{}
	n0, ok0 := c02SliceLen(base, 0)
	views[base] = view{0, true, n0, ok0}
	var writes []c02NonceWrite
	queue := []ssa.Value{base}
	seen := map[ssa.Value]bool{base: true}
	for len(queue) > 0 {
		v := queue[0]
		queue = queue[1:]
		vw := views[v]
		for _, rr := range refs(v) {
			switch u := rr.(type) {
			case *ssa.Slice:
				if u.X != v || seen[u] {
					continue
				}
				nv := view{vw.off, vw.offKnown, 0, false}
				lo := int64(0)
				loKnown := true
				if u.Low != nil {
					lo, loKnown = c02ConstInt(u.Low, 0)
				}
				if loKnown {
					nv.off = vw.off + lo
				} else {
					nv.offKnown = false
				}
				if u.High != nil {
					if h, ok := c02ConstInt(u.High, 0); ok && loKnown {
						nv.n, nv.nKnown = h-lo, true
					}
				} else if vw.nKnown && loKnown {
					nv.n, nv.nKnown = vw.n-lo, true
				}
				views[u] = nv
				seen[u] = true
				queue = append(queue, u)
			case *ssa.IndexAddr:
				if u.X != v {
					continue
				}
				idx, idxKnown := c02ConstInt(u.Index, 0)
				for _, r2 := range refs(u) {
					st, ok := r2.(*ssa.Store)
					if !ok || st.Addr != ssa.Value(u) {
						continue
					}
					w := c02NonceWrite{in: st, known: vw.offKnown && idxKnown, lo: vw.off + idx, hi: vw.off + idx + 1}
					if k, ok := c02ShiftOfNum(st.Val, num); ok {
						w.kind, w.shift = c02WCounterByte, k
						w.desc = fmt.Sprintf("byte(%s>>%d)", num.Name(), k)
					} else if depends(st.Val, numIdx) || (!idxKnown && depends(u.Index, numIdx)) {
						w.kind = c02WNumOpaque
						w.desc = "a value computed from " + num.Name()
					} else if depends(st.Val, lastIdx) || condDepends(st.Block(), lastIdx) {
						w.kind = c02WFlag
						w.desc = "the finality byte"
					} else {
						w.kind = c02WOther
						w.desc = "a constant/other byte"
					}
					writes = append(writes, w)
				}
			case ssa.CallInstruction:
				cc := u.Common()
				argIdx := -1
				for i, a := range cc.Args {
					if a == v {
						argIdx = i
					}
				}
				if argIdx < 0 {
					continue
				}
				w := c02NonceWrite{in: u, known: vw.offKnown && vw.nKnown, lo: vw.off, hi: vw.off + vw.n}
				obj := calleeObj(u)
				switch {
				case obj != nil && obj.Pkg() != nil && obj.Pkg().Path() == "encoding/binary" && obj.Name() == "PutUint32" && len(cc.Args) >= 2 && argIdx == len(cc.Args)-2:
					val := cc.Args[len(cc.Args)-1]
					w.known = vw.offKnown
					w.hi = vw.off + 4
					switch {
					case val == ssa.Value(num):
						w.kind = c02WCounterPut
						w.desc = "PutUint32(" + num.Name() + ")"
					case depends(val, numIdx):
						w.kind = c02WNumOpaque
						w.desc = "PutUint32 of a value computed from " + num.Name()
					case depends(val, lastIdx):
						w.kind = c02WFlag
						w.desc = "PutUint32 of the finality flag"
					default:
						w.kind = c02WOther
						w.desc = "PutUint32 of another value"
					}
				case builtinName(u) == "copy" && argIdx == 0:
					src := cc.Args[1]
					if n, ok := c02SliceLen(src, 0); ok && vw.offKnown && (!vw.nKnown || n < vw.n) {
						w.known, w.hi = true, vw.off+n
					}
					switch {
					case depends(src, numIdx):
						w.kind = c02WNumOpaque
						w.desc = "copy of bytes computed from " + num.Name()
					case depends(src, lastIdx):
						w.kind = c02WFlag
						w.desc = "copy of bytes computed from the finality flag"
					default:
						w.kind = c02WOther
						w.desc = "copy (prefix)"
					}
				case builtinName(u) == "copy" || builtinName(u) == "len" || builtinName(u) == "cap":
					continue // read only
				case callIs(u, "crypto/cipher", "AEAD", "Open") || callIs(u, "crypto/cipher", "AEAD", "Seal"):
					if argIdx == 1 {
						continue // the nonce is only read
					}
					w.kind = c02WOther
					w.uncertain = true
					w.desc = "use as a buffer of " + cc.Method.Name()
				default:
					w.uncertain = true
					numDep, lastDep := false, false
					for i, a := range cc.Args {
						if i != argIdx && depends(a, numIdx) {
							numDep = true
						}
						if i != argIdx && depends(a, lastIdx) {
							lastDep = true
						}
					}
					switch {
					case numDep:
						w.kind = c02WNumOpaque
					case lastDep:
						w.kind = c02WFlag
					default:
						w.kind = c02WOther
					}
					w.desc = "call " + cc.Value.Name()
				}
				writes = append(writes, w)
			}
		}
	}

	var puts, bytes, flags, others, opaque []c02NonceWrite
	for _, w := range writes {
		switch w.kind {
		case c02WCounterPut:
			puts = append(puts, w)
		case c02WCounterByte:
			bytes = append(bytes, w)
		case c02WFlag:
			flags = append(flags, w)
		case c02WOther:
			others = append(others, w)
		case c02WNumOpaque:
			opaque = append(opaque, w)
		}
	}
	pos := p.Pos(fn.Pos())
	if len(opaque) > 0 {
		r.Undecide("%s: %s reaches the nonce through %s at %s; cannot classify whether all 32 bits arrive injectively", construct, num.Name(), opaque[0].desc, p.Pos(instrPos(opaque[0].in)))
		return
	}
	var counter []c02NonceWrite
	switch {
	case len(puts) == 1 && len(bytes) == 0:
		if !puts[0].known {
			r.Undecide("%s: the offset of the PutUint32 window is not constant; cannot classify", construct)
			return
		}
		counter = puts
	case len(puts) == 0 && len(bytes) > 0:
		var problems []string
		shifts := map[int64]int{}
		offs := map[int64]int{}
		for _, b := range bytes {
			if !b.known {
				r.Undecide("%s: a byte of %s is stored at a non-constant offset (%s); cannot classify", construct, num.Name(), p.Pos(instrPos(b.in)))
				return
			}
			shifts[b.shift]++
			offs[b.lo]++
		}
		var ks []int64
		for k := range shifts {
			ks = append(ks, k)
		}
		sort.Slice(ks, func(i, j int) bool { return ks[i] < ks[j] })
		for _, k := range ks {
			if k != 0 && k != 8 && k != 16 && k != 24 {
				problems = append(problems, fmt.Sprintf("byte(%s>>%d) is not one of the four bytes of the counter", num.Name(), k))
			} else if shifts[k] > 1 {
				problems = append(problems, fmt.Sprintf("byte(%s>>%d) is written %d times", num.Name(), k, shifts[k]))
			}
		}
		for _, k := range []int64{0, 8, 16, 24} {
			if shifts[k] == 0 {
				problems = append(problems, fmt.Sprintf("bits %d..%d of %s (byte(%s>>%d)) never reach the nonce", k, k+7, num.Name(), num.Name(), k))
			}
		}
		var os []int64
		for o := range offs {
			os = append(os, o)
		}
		sort.Slice(os, func(i, j int) bool { return os[i] < os[j] })
		for _, o := range os {
			if offs[o] > 1 {
				problems = append(problems, fmt.Sprintf("%d counter bytes are stored at the same offset %d (the later store wins)", offs[o], o))
			}
		}
		if len(problems) > 0 {
			r.Violation(rule, construct, p.Pos(instrPos(bytes[0].in)),
				"the hand-rolled counter does not carry the 32 bits of the segment number injectively: "+strings.Join(problems, "; ")+" — two different segment numbers then share a nonce, so those segments can be swapped or duplicated without detection")
			return
		}
		counter = bytes
	case len(puts) == 0 && len(bytes) == 0:
		if c02ValueDeps(p, base, 2)[numIdx] {
			r.Undecide("%s: the result depends on %s but no PutUint32/byte stores of it were recognised; cannot classify", construct, num.Name())
		}
		// otherwise T1-nonce-binding reports the missing dependence
		return
	default:
		r.Undecide("%s: %s is written into the nonce in more than one way (%d PutUint32, %d byte stores); cannot classify", construct, num.Name(), len(puts), len(bytes))
		return
	}
	// overlaps
	overlapsCounter := func(w c02NonceWrite) (hit []c02NonceWrite) {
		for _, c := range counter {
			if w.lo < c.hi && c.lo < w.hi {
				hit = append(hit, c)
			}
		}
		return
	}
	for _, f := range flags {
		if !f.known {
			r.Undecide("%s: %s is written at an offset/extent that is not constant (%s); cannot show it is disjoint from the counter", construct, f.desc, p.Pos(instrPos(f.in)))
			return
		}
		if hit := overlapsCounter(f); len(hit) > 0 {
			r.Violation(rule, construct, p.Pos(instrPos(f.in)),
				fmt.Sprintf("%s (offsets %d..%d) overlaps the counter window (offsets %d..%d): either a bit of the segment number or the finality bit is overwritten, so distinct (number, final) pairs share a nonce", f.desc, f.lo, f.hi-1, hit[0].lo, hit[0].hi-1))
			return
		}
	}
	for _, o := range others {
		before := true
		for _, c := range counter {
			if !instrDominates(o.in, c.in) {
				before = false
			}
		}
		if before {
			continue // written first, the counter is stored over it
		}
		if !o.known || (o.uncertain && len(overlapsCounter(o)) > 0) {
			r.Undecide("%s: %s at %s may run after the counter is stored and what it writes is not known; cannot show it leaves the counter intact", construct, o.desc, p.Pos(instrPos(o.in)))
			return
		}
		if hit := overlapsCounter(o); len(hit) > 0 {
			r.Violation(rule, construct, p.Pos(instrPos(o.in)),
				fmt.Sprintf("%s (offsets %d..%d) overwrites the counter window (offsets %d..%d) after it was stored: bits of the segment number are lost and different segments share a nonce", o.desc, o.lo, o.hi-1, hit[0].lo, hit[0].hi-1))
			return
		}
	}
	what := "binary PutUint32 of the segment number"
	if len(bytes) > 0 {
		what = "four byte stores byte(num>>{0,8,16,24}) at four distinct offsets"
	}
	r.OK(rule, construct, pos, what+"; window disjoint from the finality byte and not overwritten afterwards")
}

// ---------------------------------------------------------------------------
// Append-built nonces: prefix, counter and flag are appended one after the
// other (append / binary.*.AppendUint32), so the pieces cannot overlap; what
// remains to decide is that all 32 bits of the segment number are among them.

type c02AppendItem struct {
	in    ssa.Instruction
	val   ssa.Value // single byte value, or the appended slice, or the uint32 of AppendUint32
	isPut bool
	bytes bool // val is one byte
}

// c02IsAppendChain: v (after re-slicing without bounds) is the result of the
// builtin append or of encoding/binary's AppendUint32.
func c02IsAppendChain(v ssa.Value) bool {
	call, ok := v.(*ssa.Call)
	if !ok {
		return false
	}
	if builtinName(call) == "append" {
		return true
	}
	obj := calleeObj(call)
	if obj != nil && obj.Pkg() != nil && obj.Pkg().Path() == "slices" && obj.Name() == "Concat" {
		return true
	}
	return obj != nil && obj.Pkg() != nil && obj.Pkg().Path() == "encoding/binary" && obj.Name() == "AppendUint32"
}

// c02LiteralBytes: v is a slice literal []byte{a, b, …}: its elements in order.
func c02LiteralBytes(v ssa.Value, at ssa.Instruction) ([]c02AppendItem, bool) {
	sl, ok := v.(*ssa.Slice)
	if !ok || sl.Low != nil || sl.High != nil {
		return nil, false
	}
	al, ok := sl.X.(*ssa.Alloc)
	if !ok {
		return nil, false
	}
	pt, ok := al.Type().Underlying().(*types.Pointer)
	if !ok {
		return nil, false
	}
	arr, ok := pt.Elem().Underlying().(*types.Array)
	if !ok || !c02IsBasicKind(arr.Elem(), types.Uint8) {
		return nil, false
	}
	byIdx := map[int64]c02AppendItem{}
	for _, rr := range refs(al) {
		switch u := rr.(type) {
		case *ssa.IndexAddr:
			k, okk := c02ConstInt(u.Index, 0)
			for _, r2 := range refs(u) {
				st, ok := r2.(*ssa.Store)
				if !ok || st.Addr != ssa.Value(u) {
					return nil, false
				}
				if !okk {
					return nil, false
				}
				byIdx[k] = c02AppendItem{in: at, val: st.Val, bytes: true}
			}
		case *ssa.Slice:
			if u != sl {
				return nil, false
			}
		default:
			return nil, false
		}
	}
	var items []c02AppendItem
	for i := int64(0); i < arr.Len(); i++ {
		it, ok := byIdx[i]
		if !ok {
			// an element left at zero
			it = c02AppendItem{in: at, val: ssa.NewConst(constant.MakeInt64(0), arr.Elem()), bytes: true}
		}
		items = append(items, it)
	}
	return items, true
}

// c02AppendPaths enumerates, for the chain ending in v, the sequences of
// appended items from the empty base to v (one sequence per phi alternative).
func c02AppendPaths(v ssa.Value, tail []c02AppendItem, depth int, out *[][]c02AppendItem, why *string) {
	if depth > 12 {
		*why = "the append chain is longer than twelve steps"
		return
	}
	switch x := v.(type) {
	case *ssa.Phi:
		for _, e := range x.Edges {
			if e != ssa.Value(x) {
				c02AppendPaths(e, tail, depth+1, out, why)
			}
		}
		return
	case *ssa.Slice:
		// the empty start of the chain: make([]byte, 0, n) or buf[:0]
		if n, ok := c02SliceLen(x, 0); ok && n == 0 {
			*out = append(*out, append([]c02AppendItem{}, tail...))
			return
		}
		if x.Low == nil && x.High == nil {
			c02AppendPaths(x.X, tail, depth+1, out, why)
			return
		}
		*why = "the chain is re-sliced with bounds"
		return
	case *ssa.MakeSlice:
		if n, ok := c02ConstInt(x.Len, 0); ok && n == 0 {
			*out = append(*out, append([]c02AppendItem{}, tail...))
			return
		}
		*why = "the chain starts from a non-empty buffer"
		return
	case *ssa.Const:
		if x.IsNil() {
			*out = append(*out, append([]c02AppendItem{}, tail...))
			return
		}
	case *ssa.Call:
		if builtinName(x) == "append" && len(x.Call.Args) == 2 {
			var items []c02AppendItem
			src := x.Call.Args[1]
			single := false
			if sl, ok := src.(*ssa.Slice); ok {
				if al, ok := sl.X.(*ssa.Alloc); ok && strings.Contains(al.Comment, "varargs") {
					// append(b, x0, x1, …): the individual bytes, in index order
					single = true
					byIdx := map[int64]c02AppendItem{}
					var idxs []int64
					for _, rr := range refs(al) {
						ia, ok := rr.(*ssa.IndexAddr)
						if !ok {
							continue
						}
						k, okk := c02ConstInt(ia.Index, 0)
						for _, r2 := range refs(ia) {
							if st, ok := r2.(*ssa.Store); ok && st.Addr == ssa.Value(ia) && okk {
								byIdx[k] = c02AppendItem{in: x, val: st.Val, bytes: true}
								idxs = append(idxs, k)
							}
						}
					}
					sort.Slice(idxs, func(i, j int) bool { return idxs[i] < idxs[j] })
					for _, k := range idxs {
						items = append(items, byIdx[k])
					}
				}
			}
			if !single {
				items = []c02AppendItem{{in: x, val: src}}
			}
			c02AppendPaths(x.Call.Args[0], append(items, tail...), depth+1, out, why)
			return
		}
		if obj := calleeObj(x); obj != nil && obj.Pkg() != nil && obj.Pkg().Path() == "slices" && obj.Name() == "Concat" && len(x.Call.Args) == 1 {
			// slices.Concat(a, b, c): the pieces one after the other
			sl, ok := x.Call.Args[0].(*ssa.Slice)
			if !ok {
				*why = "slices.Concat is not called with a literal argument list"
				return
			}
			al, ok := sl.X.(*ssa.Alloc)
			if !ok {
				*why = "slices.Concat is not called with a literal argument list"
				return
			}
			elems := map[int64]ssa.Value{}
			var idxs []int64
			for _, rr := range refs(al) {
				ia, ok := rr.(*ssa.IndexAddr)
				if !ok {
					continue
				}
				k, okk := c02ConstInt(ia.Index, 0)
				for _, r2 := range refs(ia) {
					if st, ok := r2.(*ssa.Store); ok && st.Addr == ssa.Value(ia) && okk {
						elems[k] = st.Val
						idxs = append(idxs, k)
					}
				}
			}
			sort.Slice(idxs, func(i, j int) bool { return idxs[i] < idxs[j] })
			var items []c02AppendItem
			for _, k := range idxs {
				e := elems[k]
				switch {
				case c02IsAppendChain(c02SliceBase(e)):
					var sub [][]c02AppendItem
					c02AppendPaths(c02SliceBase(e), nil, depth+1, &sub, why)
					if *why != "" {
						return
					}
					if len(sub) != 1 {
						*why = "a piece handed to slices.Concat has several alternative constructions"
						return
					}
					items = append(items, sub[0]...)
				default:
					if lit, ok := c02LiteralBytes(e, x); ok {
						items = append(items, lit...)
					} else {
						items = append(items, c02AppendItem{in: x, val: e})
					}
				}
			}
			*out = append(*out, append(items, tail...))
			return
		}
		if obj := calleeObj(x); obj != nil && obj.Pkg() != nil && obj.Pkg().Path() == "encoding/binary" && obj.Name() == "AppendUint32" && len(x.Call.Args) >= 2 {
			n := len(x.Call.Args)
			it := c02AppendItem{in: x, val: x.Call.Args[n-1], isPut: true}
			c02AppendPaths(x.Call.Args[n-2], append([]c02AppendItem{it}, tail...), depth+1, out, why)
			return
		}
	}
	*why = fmt.Sprintf("the chain starts from a value that is not an empty buffer (%T)", v)
}

// c02NonceAppendLayout judges an append-built nonce in fn (num/last are the
// parameters of fn playing those roles).
func c02NonceAppendLayout(p *Prog, r *Report, callerName string, fn *ssa.Function, v ssa.Value, num, last *ssa.Parameter) {
	name := FuncName(p, fn)
	if l := c02Name(p, fn); l != "" {
		name = l
	}
	construct := callerName + " nonce counter layout in " + name
	if callerName == name {
		construct = callerName + " nonce counter layout (built in place)"
	}
	rule := "C02.T1-nonce-injective"
	if num == nil || last == nil {
		r.Undecide("%s: the segment number / finality flag do not reach the function that builds the nonce as plain parameters; cannot classify its layout", construct)
		return
	}
	var paths [][]c02AppendItem
	why := ""
	c02AppendPaths(v, nil, 0, &paths, &why)
	if why != "" || len(paths) == 0 {
		r.Undecide("%s: the nonce is built with append, but %s; cannot classify", construct, why)
		return
	}
	numIdx := c02ParamIndex(fn, num)
	for _, path := range paths {
		puts := 0
		shifts := map[int64]int{}
		for _, it := range path {
			switch {
			case it.isPut && it.val == ssa.Value(num):
				puts++
			case it.bytes:
				if k, ok := c02ShiftOfNum(it.val, num); ok {
					shifts[k]++
					continue
				}
				fallthrough
			default:
				if c02ValueDeps(p, it.val, 2)[numIdx] {
					r.Undecide("%s: %s reaches the nonce through an appended value at %s that is neither AppendUint32(%s) nor byte(%s>>k); cannot classify", construct, num.Name(), p.Pos(instrPos(it.in)), num.Name(), num.Name())
					return
				}
			}
		}
		if puts >= 1 {
			continue // all four bytes are appended as one unit
		}
		if len(shifts) == 0 {
			// the dependence rule reports a nonce that ignores the number
			continue
		}
		var problems []string
		for _, k := range []int64{0, 8, 16, 24} {
			if shifts[k] == 0 {
				problems = append(problems, fmt.Sprintf("bits %d..%d of %s (byte(%s>>%d)) are never appended", k, k+7, num.Name(), num.Name(), k))
			}
		}
		if len(problems) > 0 {
			r.Violation(rule, construct, p.Pos(instrPos(path[0].in)),
				"the appended counter does not carry the 32 bits of the segment number: "+strings.Join(problems, "; ")+" — two different segment numbers then share a nonce, so those segments can be swapped or duplicated without detection")
			return
		}
	}
	r.OK(rule, construct, p.Pos(fn.Pos()), "prefix, segment number (all 32 bits) and finality byte are appended one after the other: the pieces cannot overlap")
}
