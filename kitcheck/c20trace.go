package main

// C20 helpers, part 1: role resolution through types and value tracing over
// the functions of one package (backward "origins" of a value, forward "may
// flow to" of a value). Nothing here depends on unexported names.

import (
	"go/token"
	"go/types"
	"strings"

	"golang.org/x/tools/go/ssa"
)

// c20Pkg indexes the functions of the package under analysis.
type c20Pkg struct {
	Funcs []*ssa.Function
	In    map[*ssa.Function]bool
	// Sites: every call-like instruction (Call, Go, Defer) with a static callee in the package.
	Sites map[*ssa.Function][]ssa.CallInstruction
}

func newC20Pkg(funcs []*ssa.Function) *c20Pkg {
	k := &c20Pkg{Funcs: funcs, In: map[*ssa.Function]bool{}, Sites: map[*ssa.Function][]ssa.CallInstruction{}}
	for _, f := range funcs {
		k.In[f] = true
	}
	for _, f := range funcs {
		allInstrs(f, func(in ssa.Instruction) {
			if ci, ok := in.(ssa.CallInstruction); ok {
				if cal := staticCallee(ci); cal != nil && k.In[cal] {
					k.Sites[cal] = append(k.Sites[cal], ci)
				}
			}
		})
	}
	return k
}

// reach returns the package functions that may run as part of root's own
// execution (root included): static callees, deferred calls, and — an
// over-approximation — every package function or function literal whose
// value is created or mentioned in a reached function (closures handed to
// helpers, method values, tables of functions), as well as the
// implementations of package interfaces invoked there. Goroutines started
// with go are not part of it.
func (k *c20Pkg) reach(root *ssa.Function) map[*ssa.Function]bool {
	seen := map[*ssa.Function]bool{}
	var walk func(f *ssa.Function)
	walk = func(f *ssa.Function) {
		if f == nil {
			return
		}
		if c20IsBoundWrapper(f) {
			f = k.boundMethod(f)
		}
		if f == nil || seen[f] || !k.In[f] {
			return
		}
		seen[f] = true
		allInstrs(f, func(in ssa.Instruction) {
			if g, isGo := in.(*ssa.Go); isGo {
				// the goroutine is not part of this execution, but closures passed to it as arguments might be run by it only
				_ = g
				return
			}
			if ci, ok := in.(ssa.CallInstruction); ok && ci.Common().IsInvoke() {
				walk(k.soleImplementation(ci.Common()))
			}
			for _, op := range in.Operands(nil) {
				if op == nil || *op == nil {
					continue
				}
				switch v := (*op).(type) {
				case *ssa.Function:
					walk(origin(v))
				case *ssa.MakeClosure:
					if fn, ok := v.Fn.(*ssa.Function); ok {
						walk(origin(fn))
					}
				}
			}
		})
	}
	walk(root)
	return seen
}

// c20IsBoundWrapper: fn is the synthetic closure of a method value (p.m).
func c20IsBoundWrapper(fn *ssa.Function) bool {
	return fn != nil && strings.HasPrefix(fn.Synthetic, "bound method wrapper")
}

// boundMethod returns the declared method a bound-method wrapper calls.
func (k *c20Pkg) boundMethod(w *ssa.Function) *ssa.Function {
	if obj, ok := w.Object().(*types.Func); ok && w.Prog != nil {
		return origin(w.Prog.FuncValue(obj))
	}
	return nil
}

// c20FuncValue is a resolved function value: the package function and, for a
// method value, the bound receiver.
type c20FuncValue struct {
	fn   *ssa.Function
	recv ssa.Value
}

// funcValues resolves a function-typed value to the package functions it can
// be: function literals and named functions, method values, what is stored in
// a func-typed struct field (all stores of the package), the elements of a
// literal slice/array of functions. ok=false if some possibility is not a
// visible package function.
func (k *c20Pkg) funcValues(v ssa.Value, depth int) ([]c20FuncValue, bool) {
	if depth > 4 {
		return nil, false
	}
	src, open := k.origins(v)
	if open || len(src) == 0 {
		return nil, false
	}
	var out []c20FuncValue
	add := func(fv c20FuncValue) {
		for _, o := range out {
			if o.fn == fv.fn {
				return
			}
		}
		out = append(out, fv)
	}
	for _, o := range src {
		switch q := o.(type) {
		case *ssa.Function:
			fn := origin(q)
			if !k.In[fn] {
				return nil, false
			}
			add(c20FuncValue{fn: fn})
		case *ssa.MakeClosure:
			fn, _ := q.Fn.(*ssa.Function)
			if c20IsBoundWrapper(fn) {
				m := k.boundMethod(fn)
				if m == nil || !k.In[m] || len(q.Bindings) != 1 {
					return nil, false
				}
				add(c20FuncValue{fn: m, recv: q.Bindings[0]})
				continue
			}
			fn = origin(fn)
			if fn == nil || !k.In[fn] {
				return nil, false
			}
			add(c20FuncValue{fn: fn})
		case *ssa.UnOp:
			if q.Op != token.MUL {
				return nil, false
			}
			switch ad := q.X.(type) {
			case *ssa.FieldAddr:
				// a func-typed field: whatever the package stores there
				id := fieldIDOfAddr(ad)
				n := 0
				okAll := true
				for _, fn := range k.Funcs {
					allInstrs(fn, func(in ssa.Instruction) {
						st, isStore := in.(*ssa.Store)
						if !isStore {
							return
						}
						fa, isFA := st.Addr.(*ssa.FieldAddr)
						if !isFA || fieldIDOfAddr(fa) != id {
							return
						}
						if isNilConst(st.Val) {
							return
						}
						n++
						fvs, ok := k.funcValues(st.Val, depth+1)
						if !ok {
							okAll = false
							return
						}
						for _, fv := range fvs {
							add(fv)
						}
					})
				}
				if !okAll || n == 0 {
					return nil, false
				}
			case *ssa.IndexAddr:
				elems := c20LiteralElems(k, ad.X)
				if elems == nil {
					return nil, false
				}
				for _, e := range elems {
					fvs, ok := k.funcValues(e, depth+1)
					if !ok {
						return nil, false
					}
					for _, fv := range fvs {
						add(fv)
					}
				}
			default:
				return nil, false
			}
		default:
			return nil, false
		}
	}
	return out, true
}

// libraryFuncValue: the function value is, on every path, a function or a
// method value of another package (p.lock.Unlock, time.Now): a known call out
// of the package, not an unknown one.
func (k *c20Pkg) libraryFuncValue(v ssa.Value) bool {
	src, open := k.origins(v)
	if open || len(src) == 0 {
		return false
	}
	for _, o := range src {
		var fn *ssa.Function
		switch q := o.(type) {
		case *ssa.Function:
			fn = q
		case *ssa.MakeClosure:
			fn, _ = q.Fn.(*ssa.Function)
			if c20IsBoundWrapper(fn) {
				if obj, ok := fn.Object().(*types.Func); ok && fn.Prog != nil {
					fn = fn.Prog.FuncValue(obj)
				}
			}
		}
		if fn == nil || k.In[origin(fn)] || fn.Parent() != nil && k.In[origin(fn.Parent())] {
			return false
		}
	}
	return true
}

// c20LiteralElems: the elements of a fully known literal slice/array value
// (every element stored once at a constant index), or nil.
func c20LiteralElems(k *c20Pkg, v ssa.Value) []ssa.Value {
	src, open := k.origins(v)
	if open || len(src) != 1 {
		return nil
	}
	var arr *ssa.Alloc
	switch q := src[0].(type) {
	case *ssa.Slice:
		if q.Low != nil || q.High != nil || q.Max != nil {
			return nil
		}
		arr, _ = q.X.(*ssa.Alloc)
	case *ssa.Alloc:
		arr = q
	}
	if arr == nil {
		return nil
	}
	at, ok := deref(arr.Type()).Underlying().(*types.Array)
	if !ok {
		return nil
	}
	elems := make([]ssa.Value, at.Len())
	n := 0
	for _, r := range refs(arr) {
		switch q := r.(type) {
		case *ssa.IndexAddr:
			c, isC := q.Index.(*ssa.Const)
			if !isC || c.Value == nil {
				continue // a read at a variable index
			}
			for _, rr := range refs(q) {
				st, ok := rr.(*ssa.Store)
				if !ok || st.Addr != ssa.Value(q) {
					continue
				}
				i := int(c.Int64())
				if i < 0 || i >= len(elems) || elems[i] != nil {
					return nil
				}
				elems[i] = st.Val
				n++
			}
		case *ssa.Slice, *ssa.UnOp:
		default:
			return nil
		}
	}
	if n != len(elems) || n == 0 {
		return nil
	}
	return elems
}

// soleImplementation: cc invokes a method of an interface declared in this
// package that exactly one named type of the package implements; returns that
// type's method.
func (k *c20Pkg) soleImplementation(cc *ssa.CallCommon) *ssa.Function {
	if !cc.IsInvoke() || len(k.Funcs) == 0 {
		return nil
	}
	n, ok := cc.Value.Type().(*types.Named)
	if !ok {
		return nil
	}
	var tpkg *types.Package
	var prog *ssa.Program
	for _, f := range k.Funcs {
		if f.Pkg != nil {
			tpkg, prog = f.Pkg.Pkg, f.Prog
			break
		}
	}
	if tpkg == nil || n.Obj().Pkg() != tpkg {
		return nil
	}
	iface, ok := n.Underlying().(*types.Interface)
	if !ok {
		return nil
	}
	var found *ssa.Function
	cnt := 0
	for _, name := range tpkg.Scope().Names() {
		tn, ok := tpkg.Scope().Lookup(name).(*types.TypeName)
		if !ok || tn.IsAlias() {
			continue
		}
		t := tn.Type()
		if _, isI := t.Underlying().(*types.Interface); isI {
			continue
		}
		var impl types.Type
		if types.Implements(t, iface) {
			impl = t
		} else if pt := types.NewPointer(t); types.Implements(pt, iface) {
			impl = pt
		}
		if impl == nil {
			continue
		}
		cnt++
		sel := types.NewMethodSet(impl).Lookup(tpkg, cc.Method.Name())
		if sel == nil {
			return nil
		}
		if fn, ok := sel.Obj().(*types.Func); ok {
			found = origin(prog.FuncValue(fn))
		}
	}
	if cnt != 1 || found == nil || !k.In[found] {
		return nil
	}
	return found
}

// c20OnceDoArg: c is (*sync.Once).Do(f) with a statically known f.
func c20OnceDoArg(c ssa.CallInstruction) *ssa.Function {
	if !callIs(c, "sync", "Once", "Do") {
		return nil
	}
	args := c.Common().Args
	if len(args) != 2 {
		return nil
	}
	switch v := args[1].(type) {
	case *ssa.Function:
		return origin(v)
	case *ssa.MakeClosure:
		if f, ok := v.Fn.(*ssa.Function); ok {
			return origin(f)
		}
	}
	return nil
}

// cellAliases: the addresses (Alloc or FreeVar bound to it, transitively)
// that denote the same local variable cell.
func (k *c20Pkg) cellAliases(cell *ssa.Alloc) []ssa.Value {
	out := []ssa.Value{cell}
	for i := 0; i < len(out); i++ {
		for _, r := range refs(out[i]) {
			if mc, ok := r.(*ssa.MakeClosure); ok {
				fn, _ := mc.Fn.(*ssa.Function)
				if fn == nil {
					continue
				}
				for bi, b := range mc.Bindings {
					if b == out[i] && bi < len(fn.FreeVars) {
						out = append(out, fn.FreeVars[bi])
					}
				}
			}
		}
	}
	return out
}

// cellStores returns the values stored into the cell (through any alias).
func (k *c20Pkg) cellStores(cell *ssa.Alloc) []ssa.Value {
	var out []ssa.Value
	for _, a := range k.cellAliases(cell) {
		for _, r := range refs(a) {
			if st, ok := r.(*ssa.Store); ok && st.Addr == a {
				out = append(out, st.Val)
			}
		}
	}
	return out
}

// origins chases v backwards through phis, conversions, local variable cells
// (also captured ones), closure bindings, parameters (to the arguments of
// every call site in the package) and results of package functions (to the
// returned values). What remains are the "sources": field loads, element
// loads, calls out of the package, allocations, constants, parameters of
// functions without a call site in the package. open=true if some path could
// not be followed (the set is then a lower bound only).
func (k *c20Pkg) origins(v ssa.Value) (src []ssa.Value, open bool) {
	seen := map[ssa.Value]bool{}
	var walk func(v ssa.Value, depth int)
	walk = func(v ssa.Value, depth int) {
		if v == nil || seen[v] {
			return
		}
		seen[v] = true
		if depth > 24 {
			open = true
			return
		}
		switch x := v.(type) {
		case *ssa.Phi:
			for _, e := range x.Edges {
				walk(e, depth+1)
			}
			return
		case *ssa.ChangeType:
			walk(x.X, depth+1)
			return
		case *ssa.Convert:
			if _, ok := x.Type().Underlying().(*types.Chan); ok {
				walk(x.X, depth+1)
				return
			}
		case *ssa.ChangeInterface:
			walk(x.X, depth+1)
			return
		case *ssa.MakeInterface:
			walk(x.X, depth+1)
			return
		case *ssa.UnOp:
			if x.Op == token.MUL {
				if cell := cellOf(x.X); cell != nil && c20IsVarCell(cell) {
					st := k.cellStores(cell)
					if len(st) == 0 {
						src = append(src, v)
						return
					}
					for _, s := range st {
						walk(s, depth+1)
					}
					return
				}
			}
		case *ssa.FreeVar:
			if b := resolveFreeVar(x); b != nil {
				walk(b, depth+1)
				return
			}
			open = true
		case *ssa.Parameter:
			fn := x.Parent()
			idx := -1
			for i, pa := range fn.Params {
				if pa == x {
					idx = i
				}
			}
			sites := k.Sites[origin(fn)]
			if idx < 0 || len(sites) == 0 {
				src = append(src, v)
				return
			}
			if isExportedFunc(fn) {
				// callers outside the package may pass anything
				src = append(src, v)
			}
			for _, s := range sites {
				args := s.Common().Args
				if idx < len(args) {
					walk(args[idx], depth+1)
				} else {
					open = true
				}
			}
			return
		case *ssa.Extract:
			if call, ok := x.Tuple.(*ssa.Call); ok {
				if cal := staticCallee(call); cal != nil && k.In[cal] {
					if !k.walkResults(cal, x.Index, func(rv ssa.Value) { walk(rv, depth+1) }) {
						open = true
					}
					return
				}
			}
		case *ssa.Call:
			if cal := staticCallee(x); cal != nil && k.In[cal] && x.Call.Signature().Results().Len() == 1 {
				if !k.walkResults(cal, 0, func(rv ssa.Value) { walk(rv, depth+1) }) {
					open = true
				}
				return
			}
		}
		src = append(src, v)
	}
	walk(v, 0)
	return src, open
}

// c20IsVarCell: the Alloc is a variable cell (a `new T (name)` of a local
// variable), as opposed to a composite literal / explicit new.
func c20IsVarCell(a *ssa.Alloc) bool {
	switch a.Comment {
	case "complit", "new", "varargs", "slicelit", "makeslice":
		return false
	}
	return true
}

// walkResults calls f with the idx-th result of every return of fn.
func (k *c20Pkg) walkResults(fn *ssa.Function, idx int, f func(ssa.Value)) bool {
	n := 0
	allInstrs(fn, func(in ssa.Instruction) {
		if ret, ok := in.(*ssa.Return); ok && idx < len(ret.Results) {
			n++
			f(ret.Results[idx])
		}
	})
	return n > 0
}

// tri-state answer of a role question
type c20Tri int

const (
	c20No c20Tri = iota
	c20Yes
	c20Unknown
)

// allOrigins: do all origins of v satisfy pred?  Yes / No (none does) /
// Unknown (some do, or the trace is open).
func (k *c20Pkg) allOrigins(v ssa.Value, pred func(ssa.Value) bool) c20Tri {
	src, open := k.origins(v)
	yes, no := 0, 0
	for _, s := range src {
		if isNilConst(s) {
			continue // a nil channel/slice/context on some path is neutral (never ready, empty)
		}
		if pred(s) {
			yes++
		} else {
			no++
		}
	}
	switch {
	case yes > 0 && no == 0 && !open:
		return c20Yes
	case yes == 0 && !open:
		return c20No
	case yes == 0 && no > 0:
		return c20No
	}
	return c20Unknown
}

// c20IsFieldLoad: v is a load of field id (of any object of the type).
func c20IsFieldLoad(v ssa.Value, id FieldID) bool {
	switch x := v.(type) {
	case *ssa.UnOp:
		if x.Op == token.MUL {
			if fa, ok := x.X.(*ssa.FieldAddr); ok {
				return fieldIDOfAddr(fa) == id
			}
		}
	case *ssa.Field:
		return fieldIDOfField(x) == id
	}
	return false
}

// c20Flow is the result of a forward may-flow from seed values.
type c20Flow struct {
	Vals    map[ssa.Value]bool
	Cells   map[*ssa.Alloc]bool
	Fields  map[FieldID]bool
	Escapes []ssa.Instruction // handed to code outside the package / stored somewhere untracked
}

// flowsTo computes where the seed values may flow inside the package:
// through phis, conversions, local cells, struct fields (by type identity),
// arguments to package functions, closure bindings, results of package
// functions and the slice-growing builtin append.
func (k *c20Pkg) flowsTo(seeds ...ssa.Value) *c20Flow {
	fl := &c20Flow{Vals: map[ssa.Value]bool{}, Cells: map[*ssa.Alloc]bool{}, Fields: map[FieldID]bool{}}
	var work []ssa.Value
	addVal := func(v ssa.Value) {
		if v != nil && !fl.Vals[v] {
			fl.Vals[v] = true
			work = append(work, v)
		}
	}
	addCell := func(c *ssa.Alloc) {
		if fl.Cells[c] {
			return
		}
		fl.Cells[c] = true
		for _, a := range k.cellAliases(c) {
			for _, r := range refs(a) {
				if u, ok := r.(*ssa.UnOp); ok && u.Op == token.MUL && u.X == a {
					addVal(u)
				}
			}
		}
	}
	addField := func(id FieldID) {
		if fl.Fields[id] {
			return
		}
		fl.Fields[id] = true
		for _, f := range k.Funcs {
			allInstrs(f, func(in ssa.Instruction) {
				if v, ok := in.(ssa.Value); ok && c20IsFieldLoad(v, id) {
					addVal(v)
				}
			})
		}
	}
	for _, s := range seeds {
		addVal(s)
	}
	for len(work) > 0 {
		v := work[0]
		work = work[1:]
		for _, r := range refs(v) {
			switch x := r.(type) {
			case *ssa.Store:
				if x.Val != v {
					continue
				}
				switch a := x.Addr.(type) {
				case *ssa.Alloc:
					addCell(a)
				case *ssa.FreeVar:
					if c := cellOf(a); c != nil {
						addCell(c)
					} else {
						fl.Escapes = append(fl.Escapes, r)
					}
				case *ssa.FieldAddr:
					addField(fieldIDOfAddr(a))
				default:
					fl.Escapes = append(fl.Escapes, r)
				}
			case *ssa.Phi:
				addVal(x)
			case *ssa.ChangeType:
				addVal(x)
			case *ssa.ChangeInterface:
				addVal(x)
			case *ssa.MakeInterface:
				addVal(x)
			case *ssa.Convert:
				addVal(x)
			case *ssa.Slice:
				if x.X == v {
					addVal(x)
				}
			case *ssa.MakeClosure:
				fn, _ := x.Fn.(*ssa.Function)
				for bi, b := range x.Bindings {
					if b == v && fn != nil && bi < len(fn.FreeVars) {
						addVal(fn.FreeVars[bi])
					}
				}
			case *ssa.Return:
				fn := x.Parent()
				for ri, rv := range x.Results {
					if rv != v {
						continue
					}
					for _, s := range k.Sites[origin(fn)] {
						if call, ok := s.(*ssa.Call); ok {
							addVal(callResult(call, ri))
						}
					}
				}
			case ssa.CallInstruction:
				cc := x.Common()
				if b := builtinName(x); b != "" {
					if b == "append" && len(cc.Args) > 0 && cc.Args[0] == v {
						if val, ok := x.(ssa.Value); ok {
							addVal(val)
						}
					}
					continue
				}
				for ai, a := range cc.Args {
					if a != v {
						continue
					}
					if cal := staticCallee(x); cal != nil && k.In[cal] && ai < len(cal.Params) {
						addVal(cal.Params[ai])
					} else {
						fl.Escapes = append(fl.Escapes, r)
					}
				}
			}
		}
	}
	return fl
}

// c20Roles: the constructs of context.Pool the rules talk about, resolved
// through types (field names are not used). Fields are looked for in Pool
// itself and in the struct-typed fields of Pool declared in the same package
// or anonymously (fields grouped into a sub-struct, by value or by pointer).
type c20Roles struct {
	PoolType string  // "pkgpath.Pool"
	Lock     FieldID // the sync.RWMutex / sync.Mutex field
	LockID   string
	Members  FieldID // the field holding a slice of channels
	Closed   FieldID // the channel field (closed by Cancel)
	Ctx      FieldID // the embedded context.Context
	MemberT  types.Type
	Chans    []FieldID // all channel fields
	Flags    []FieldID // boolean fields (a "cancelled" flag may stand in for members == nil)
}

type c20Field struct {
	id     FieldID
	lockID string
	v      *types.Var
}

// resolveC20Roles resolves the roles or reports why it cannot.
func resolveC20Roles(p *Prog) (*c20Roles, string) {
	named := p.Named("context", "Pool")
	st, ok := named.Underlying().(*types.Struct)
	if !ok {
		return nil, "context.Pool is no longer a struct"
	}
	pkgPath := named.Obj().Pkg().Path()
	ro := &c20Roles{PoolType: p.ModPath + "/context.Pool"}
	var locks, slices, chans, ctxs, flags []c20Field
	var walk func(st *types.Struct, owner, prefix string, depth int)
	walk = func(st *types.Struct, owner, prefix string, depth int) {
		for i := 0; i < st.NumFields(); i++ {
			f := st.Field(i)
			t := f.Type()
			base := owner
			if base == "" {
				base = prefix
			}
			cf := c20Field{id: FieldID{owner, f.Name()}, lockID: base + "." + f.Name(), v: f}
			switch namedKey(t) {
			case "sync.RWMutex", "sync.Mutex":
				locks = append(locks, cf)
				continue
			case "context.Context":
				if f.Embedded() {
					ctxs = append(ctxs, cf)
				}
				continue
			}
			switch u := t.Underlying().(type) {
			case *types.Slice:
				if _, ok := u.Elem().Underlying().(*types.Chan); ok {
					slices = append(slices, cf)
				}
				continue
			case *types.Chan:
				chans = append(chans, cf)
				continue
			case *types.Basic:
				if u.Kind() == types.Bool {
					flags = append(flags, cf)
				}
				continue
			}
			// a sub-struct of this package (or an anonymous one), by value or by pointer
			inner := structOf(t)
			if inner == nil || depth >= 3 {
				continue
			}
			key := namedKey(t)
			if n, isNamed := deref(t).(*types.Named); isNamed && (n.Obj().Pkg() == nil || n.Obj().Pkg().Path() != pkgPath) {
				continue
			}
			walk(inner, key, cf.lockID, depth+1)
		}
	}
	walk(st, ro.PoolType, ro.PoolType, 0)
	if len(locks) != 1 {
		return nil, "context.Pool does not have exactly one sync.(RW)Mutex field"
	}
	if len(slices) != 1 {
		return nil, "context.Pool does not have exactly one field holding a slice of channels (the members); the representation changed"
	}
	if len(ctxs) != 1 {
		return nil, "context.Pool no longer embeds exactly one context.Context"
	}
	if len(chans) == 0 {
		return nil, "context.Pool has no channel field (the Cancel signal)"
	}
	ro.Lock = locks[0].id
	ro.LockID = locks[0].lockID
	ro.Members = slices[0].id
	ro.MemberT = slices[0].v.Type()
	ro.Ctx = ctxs[0].id
	for _, c := range chans {
		ro.Chans = append(ro.Chans, c.id)
	}
	for _, f := range flags {
		ro.Flags = append(ro.Flags, f.id)
	}
	if len(chans) == 1 {
		ro.Closed = chans[0].id
	}
	return ro, ""
}
