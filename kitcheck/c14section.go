package main

// C14 — role-based resolution of the guarded containers and the
// whole-effect (single critical section) rule with callee summaries.

import (
	"fmt"
	"go/types"
	"sort"

	"golang.org/x/tools/go/ssa"
)

// c14Container: one container implementation resolved through an exported anchor.
type c14Container struct {
	Anchor string // "concurrency/cmap.NewMap" ...
	Type   string // namedKey of the struct
	Lock   string // lock identity
	Fields []FieldID
}

// c14ResolveContainers finds the struct types behind the exported anchors
// (constructors returning an interface, or an exported struct type) and, in
// each, the one sync.(RW)Mutex field; every other field is container state
// guarded by it. Nothing depends on unexported type or field names.
func c14ResolveContainers(p *Prog) []c14Container {
	type anchor struct{ rel, name string }
	anchors := []anchor{
		{"concurrency/cmap", "NewMap"},
		{"concurrency/cmap", "NewAtomic"},
		{"concurrency/cmap", "AtomicValue"},
		{"concurrency/slice", "New"},
	}
	var out []c14Container
	seenType := map[string]bool{}
	for _, a := range anchors {
		pkg := p.Pkg(a.rel)
		obj := pkg.Types.Scope().Lookup(a.name)
		var named []*types.Named
		switch o := obj.(type) {
		case *types.TypeName:
			if n, ok := o.Type().(*types.Named); ok {
				named = append(named, n)
			}
		case *types.Func:
			fn := p.SSA.FuncValue(o)
			if fn == nil {
				undecided("anchor %s.%s has no SSA body", a.rel, a.name)
			}
			named = c14ConstructedTypes(p, fn, pkg.Types, map[*ssa.Function]bool{}, 0)
		default:
			undecided("anchor %s.%s no longer resolves", a.rel, a.name)
		}
		if len(named) == 0 {
			undecided("anchor %s.%s: the implementing struct type cannot be resolved", a.rel, a.name)
		}
		for _, n := range named {
			key := namedKey(n)
			if seenType[key] {
				continue
			}
			seenType[key] = true
			if _, ok := n.Underlying().(*types.Struct); !ok {
				undecided("anchor %s.%s: %s is not a struct", a.rel, a.name, key)
			}
			// roles are searched through nested sub-structs (by value, by
			// pointer, embedded): the mutex and the state may live in a
			// grouped sub-struct of the same package
			var locks []string
			var fields []FieldID
			c14Leaves(n, pkg.Types, map[string]bool{}, &locks, &fields)
			if len(locks) != 1 {
				undecided("container %s has %d mutex fields (nested structs included): the guarding lock cannot be resolved by role", key, len(locks))
			}
			if len(fields) == 0 {
				undecided("container %s has no state field", key)
			}
			out = append(out, c14Container{Anchor: a.rel + "." + a.name, Type: key, Lock: locks[0], Fields: fields})
		}
	}
	return out
}

// c14Leaves walks the fields of struct type n: a sync.(RW)Mutex field (or a
// pointer to one) is a lock, a field whose type is a named struct of the same
// package (by value or by pointer, embedded or not) is descended into — a
// pointer field additionally counts as state itself —, an anonymous struct is
// not resolved, everything else is state. Identities are (type that declares
// the field, field name), which is what the lockset engine and the access
// enumeration produce for x.sub.f.
func c14Leaves(n *types.Named, pkg *types.Package, seen map[string]bool, locks *[]string, fields *[]FieldID) {
	key := namedKey(n)
	if seen[key] {
		return
	}
	seen[key] = true
	st, ok := n.Underlying().(*types.Struct)
	if !ok {
		return
	}
	for i := 0; i < st.NumFields(); i++ {
		f := st.Field(i)
		ft := f.Type()
		isPtr := false
		if pt, ok := ft.Underlying().(*types.Pointer); ok {
			ft, isPtr = pt.Elem(), true
		}
		switch namedKey(ft) {
		case "sync.RWMutex", "sync.Mutex":
			*locks = append(*locks, key+"."+f.Name())
			continue
		}
		ft = types.Unalias(ft)
		if sub, ok := ft.(*types.Named); ok && sub.Obj().Pkg() == pkg {
			if _, isStruct := sub.Underlying().(*types.Struct); isStruct {
				if isPtr {
					*fields = append(*fields, FieldID{key, f.Name()})
				}
				c14Leaves(sub.Origin(), pkg, seen, locks, fields)
				continue
			}
		}
		if _, anon := ft.(*types.Struct); anon {
			undecided("container %s groups state in an anonymous struct field %s: roles are not resolved through unnamed structs", key, f.Name())
		}
		*fields = append(*fields, FieldID{key, f.Name()})
	}
}

// c14ConstructedTypes: named struct types (of package pkg) whose pointer a
// constructor converts to an interface or returns; follows same-package callees.
func c14ConstructedTypes(p *Prog, fn *ssa.Function, pkg *types.Package, seen map[*ssa.Function]bool, depth int) []*types.Named {
	if seen[fn] || depth > 3 {
		return nil
	}
	seen[fn] = true
	var out []*types.Named
	add := func(t types.Type) {
		t = deref(t)
		n, ok := t.(*types.Named)
		if !ok {
			return
		}
		n = n.Origin()
		if n.Obj().Pkg() != pkg {
			return
		}
		if _, ok := n.Underlying().(*types.Struct); !ok {
			return
		}
		for _, o := range out {
			if o == n {
				return
			}
		}
		out = append(out, n)
	}
	allInstrs(fn, func(in ssa.Instruction) {
		switch x := in.(type) {
		case *ssa.MakeInterface:
			add(x.X.Type())
		case *ssa.Return:
			for _, res := range x.Results {
				add(res.Type())
			}
		case *ssa.Call:
			if cal := staticCallee(x); cal != nil && p.funcSet[cal] && cal.Pkg != nil && cal.Pkg.Pkg == pkg {
				for _, n := range c14ConstructedTypes(p, cal, pkg, seen, depth+1) {
					add(n)
				}
			}
		}
	})
	return out
}

func c14SpecsOf(cs []c14Container) []GuardSpec {
	var specs []GuardSpec
	seen := map[FieldID]string{}
	for _, c := range cs {
		for _, f := range c.Fields {
			// two containers may share a grouped sub-struct
			if l, dup := seen[f]; dup {
				if l != c.Lock {
					undecided("field %s is guarded by %s in one container and by %s in another", f, l, c.Lock)
				}
				continue
			}
			seen[f] = c.Lock
			specs = append(specs, GuardSpec{Field: f, Lock: c.Lock})
		}
	}
	return specs
}

// c14SecSummary: what a function that runs its own critical section(s) on the
// lock does to the field.
type c14SecSummary struct {
	touches bool
	writes  bool
	// selfChecked: every write is preceded, under the same acquisition, by a
	// read of the contents (the re-check of the double-checked idiom lives in
	// the callee).
	selfChecked bool
}

type c14Sections struct {
	p     *Prog
	e     *LockEngine
	memo  map[string]*c14SecSummary
	stack map[string]bool
}

func (s *c14Sections) summary(fn *ssa.Function, spec *GuardSpec) *c14SecSummary {
	key := fmt.Sprintf("%p|%v", fn, spec.Field)
	if m, ok := s.memo[key]; ok {
		return m
	}
	if s.stack[key] {
		return &c14SecSummary{touches: true, writes: true}
	}
	s.stack[key] = true
	defer delete(s.stack, key)
	sum := &c14SecSummary{selfChecked: true}
	accs := s.accesses(fn, spec)
	sec := sectionIndex(s.e, fn, spec.Lock)
	for _, a := range accs {
		sum.touches = true
		if a.Kind != AccWrite && a.Kind != AccCall {
			continue
		}
		sum.writes = true
		if a.selfChecked {
			continue
		}
		ok := false
		for _, rd := range accs {
			if rd.Kind == AccRead && !rd.Header && !rd.viaCall && sec[rd.Instr] == sec[a.Instr] && instrDominates(rd.Instr, a.Instr) {
				ok = true
			}
		}
		if !ok {
			sum.selfChecked = false
		}
	}
	s.memo[key] = sum
	return sum
}

type c14Access struct {
	Access
	viaCall     bool
	selfChecked bool
}

// accesses: direct accesses of fn to the field plus calls to same-lock
// section-running siblings that touch it (one pseudo access per call).
func (s *c14Sections) accesses(fn *ssa.Function, spec *GuardSpec) []c14Access {
	var out []c14Access
	for _, a := range FieldAccesses(fn, func(id FieldID) bool { return id == spec.Field }) {
		if a.Fresh || !s.e.Reachable(a.Instr) {
			continue
		}
		out = append(out, c14Access{Access: a})
	}
	nDirect := len(out)
	acq := s.e.Acquirers(spec.Lock)
	allInstrs(fn, func(in ssa.Instruction) {
		call, ok := in.(*ssa.Call)
		if !ok || !s.e.Reachable(in) {
			return
		}
		cal := staticCallee(call)
		if cal == nil || !acq[cal] || cal == fn {
			return
		}
		// a callee entered with the lock already held runs in our section and
		// is examined on its own
		if s.e.At(in)[spec.Lock] != ModeNone {
			return
		}
		sum := s.summary(cal, spec)
		if !sum.touches {
			return
		}
		if nDirect == 0 && !hasOtherSectionCall(s.e, fn, call, acq) {
			return // a pure wrapper around one sibling call
		}
		kind := AccRead
		what := "call to " + cal.Name() + " (separate critical section, reads)"
		if sum.writes {
			kind = AccWrite
			what = "call to " + cal.Name() + " (separate critical section, writes"
			if sum.selfChecked {
				what += " after re-reading under its own acquisition"
			}
			what += ")"
		}
		out = append(out, c14Access{Access: Access{Fn: fn, Instr: in, ID: spec.Field, Kind: kind, What: what}, viaCall: true, selfChecked: sum.writes && sum.selfChecked})
	})
	return out
}

// laterSection computes, for every access, whether on some path an earlier
// access to the field is separated from it by a (re-)acquisition of the lock:
// bit0 = reachable with no earlier access, bit1 = earlier accesses only in the
// same section, bit2 = some earlier access, then the lock was acquired again
// (sticky: every access of a second or later section sees bit2).
func (s *c14Sections) laterSection(fn *ssa.Function, spec *GuardSpec, accs []c14Access) map[ssa.Instruction]uint64 {
	isAcc := map[ssa.Instruction]bool{}
	viaCall := map[ssa.Instruction]bool{}
	for _, a := range accs {
		isAcc[a.Instr] = true
		if a.viaCall {
			viaCall[a.Instr] = true
		}
	}
	acq := s.e.Acquirers(spec.Lock)
	res := map[ssa.Instruction]uint64{}
	ff := &FlagFlow{Fn: fn, Must: false, Entry: 1 << 0}
	ff.Transfer = func(in ssa.Instruction, st uint64) uint64 {
		if _, isDefer := in.(*ssa.Defer); isDefer && !ff.Replaying {
			return st
		}
		acquires := false
		if c, ok := in.(ssa.CallInstruction); ok {
			if id, kind, ok := s.e.lockOp(c); ok && id == spec.Lock && (kind == opLock || kind == opRLock) {
				acquires = true
			} else if cal := staticCallee(c); cal != nil && acq[cal] {
				acquires = true
			}
		}
		if acquires {
			// an acquisition moves "accessed in this section" to "accessed in an earlier section"
			st = mapStates(st, func(n int) int {
				if n == 1 {
					return 2
				}
				return n
			})
		}
		if isAcc[in] {
			res[in] |= st
			st = mapStates(st, func(n int) int {
				if n == 0 {
					return 1
				}
				return n
			})
		}
		return st
	}
	ff.Run()
	return res
}

// c14CheckSections is CheckSingleSection with (a) callee summaries: a call to
// a sibling that runs its own critical section counts as a read or as a write
// of that section, and as a self-checked write when the sibling re-reads the
// field under its own acquisition before writing; (b) "one section" decided
// by a path analysis (no re-acquisition between two accesses) rather than by
// counting acquisitions.
func c14CheckSections(p *Prog, e *LockEngine, r *Report, rule string, specs []GuardSpec) {
	s := &c14Sections{p: p, e: e, memo: map[string]*c14SecSummary{}, stack: map[string]bool{}}
	for _, fn := range p.Funcs {
		for i := range specs {
			spec := &specs[i]
			accs := s.accesses(fn, spec)
			if len(accs) == 0 {
				continue
			}
			id := spec.Field
			fname := FuncName(p, fn)
			construct := fname + " -> " + id.String()
			if _, ok := spec.Exempt[fname]; ok {
				continue
			}
			if e.Entry(fn)[spec.Lock] != ModeNone {
				r.OK(rule, construct, p.Pos(fn.Pos()), "runs inside the caller's critical section (entry lockset "+e.Entry(fn).String()+")")
				continue
			}
			later := s.laterSection(fn, spec, accs)
			multi := false
			for _, a := range accs {
				if later[a.Instr]&(1<<2) != 0 {
					multi = true
				}
			}
			if !multi {
				r.OK(rule, construct, p.Pos(fn.Pos()), fmt.Sprintf("%d accesses in a single critical section (no re-acquisition between any two of them)", len(accs)))
				continue
			}
			// several sections: the double-check idiom. Accesses that can only
			// be first are the observation; every access that can follow an
			// earlier section must be (or be preceded, under the same
			// acquisition, by) a fresh read, and only such sections may write.
			sec := sectionIndex(e, fn, spec.Lock)
			var bad []string
			nLater := 0
			for _, a := range accs {
				isLater := later[a.Instr]&(1<<2) != 0
				isWrite := a.Kind == AccWrite || a.Kind == AccCall
				if !isLater {
					if isWrite {
						bad = append(bad, fmt.Sprintf("%s at %s writes %s and a later critical section touches it again", a.What, p.Pos(instrPos(a.Instr)), id))
					}
					continue
				}
				nLater++
				if !isWrite {
					continue
				}
				if a.selfChecked {
					continue
				}
				ok := false
				for _, rd := range accs {
					if rd.Kind == AccRead && !rd.Header && !rd.viaCall && rd.Instr != a.Instr && sec[rd.Instr] == sec[a.Instr] && c14OneBit(sec[a.Instr]) && instrDominates(rd.Instr, a.Instr) {
						ok = true
					}
				}
				if !ok {
					bad = append(bad, fmt.Sprintf("%s at %s happens in a later critical section and is based on what an earlier section observed (no re-read under this acquisition)", a.What, p.Pos(instrPos(a.Instr))))
				}
			}
			// a later section that only reads combines two observations
			laterWrites := false
			for _, a := range accs {
				if later[a.Instr]&(1<<2) != 0 && (a.Kind == AccWrite || a.Kind == AccCall) {
					laterWrites = true
				}
			}
			if !laterWrites {
				bad = append(bad, fmt.Sprintf("%s is read again after the lock was released (the result combines two observations)", id))
			}
			sort.Strings(bad)
			if len(bad) > 0 {
				r.Violation(rule, construct, p.Pos(fn.Pos()), "method effect is split over several critical sections without the double-check idiom", bad...)
			} else {
				r.OK(rule, construct, p.Pos(fn.Pos()), fmt.Sprintf("several critical sections, double-checked (%d accesses in later sections, each write re-reads first)", nLater))
			}
		}
	}
}

func c14OneBit(b uint8) bool { return b != 0 && b&(b-1) == 0 }

// c14Locks returns a lock engine in which closures that are handed to a
// same-module function as a callback (`m.withRead(func() {...})`) start with
// the lockset the receiving function holds at every call of that parameter.
// The shared engine only knows entry locksets of functions that are called
// or deferred directly; a function value passed as an argument whose every
// use in the receiver is a call is just as well determined.
func c14Locks(c *Ctx, pkgs map[string]bool) *LockEngine {
	e := c.Locks()
	p := c.P
	hand := map[string]LS{}
	for _, fn := range p.Funcs {
		par := fn.Parent()
		if par == nil || fn.Pkg == nil || !pkgs[fn.Pkg.Pkg.Path()] {
			continue
		}
		var acc LS
		ok, n := true, 0
		allInstrs(par, func(in ssa.Instruction) {
			mc, isMC := in.(*ssa.MakeClosure)
			if !isMC || mc.Fn != fn {
				return
			}
			for _, ref := range refs(mc) {
				ci, isCall := ref.(ssa.CallInstruction)
				if !isCall {
					ok = false
					continue
				}
				cc := ci.Common()
				if cc.Value == ssa.Value(mc) && !cc.IsInvoke() {
					ok = false // called directly: the engine's own inference applies
					continue
				}
				g := staticCallee(ci)
				if g == nil || !p.funcSet[g] || len(g.Blocks) == 0 {
					ok = false
					continue
				}
				if _, isGo := ci.(*ssa.Go); isGo {
					ok = false
					continue
				}
				for ai, a := range cc.Args {
					if a != ssa.Value(mc) {
						continue
					}
					if ai >= len(g.Params) {
						ok = false
						continue
					}
					for _, use := range refs(g.Params[ai]) {
						call, isCall := use.(*ssa.Call)
						if !isCall || call.Call.Value != ssa.Value(g.Params[ai]) {
							ok = false
							continue
						}
						ls := e.At(call)
						if acc == nil {
							acc = ls.clone()
						} else {
							acc = meetLS(acc, ls)
						}
						n++
					}
				}
			}
		})
		if ok && n > 0 && len(acc) > 0 {
			hand[FuncName(p, fn)] = acc
		}
	}
	if len(hand) == 0 {
		return e
	}
	e2 := newKitLockEngine(p)
	for k, v := range hand {
		e2.Handoff[k] = v
	}
	e2.Run()
	var names []string
	for k, v := range hand {
		names = append(names, k+" "+v.String())
	}
	sort.Strings(names)
	c.R.Stats["callback_entry_locksets"] = names
	return e2
}

// c14UnattributedLockOps lists lock operations in the container packages whose
// mutex the lockset engine cannot identify (a mutex reached through a
// parameter, an interface such as sync.Locker, a bound method value): with
// such operations around, "the lock is not held" is not established.
func c14UnattributedLockOps(p *Prog, e *LockEngine, pkgs map[string]bool) []string {
	var out []string
	for _, fn := range p.Funcs {
		if fn.Pkg == nil || !pkgs[fn.Pkg.Pkg.Path()] {
			continue
		}
		allInstrs(fn, func(in ssa.Instruction) {
			ci, ok := in.(ssa.CallInstruction)
			if !ok {
				return
			}
			cc := ci.Common()
			name := ""
			if cc.IsInvoke() {
				name = cc.Method.Name()
			} else if obj := calleeObj(ci); obj != nil && obj.Pkg() != nil && obj.Pkg().Path() == "sync" {
				name = obj.Name()
			} else if mc, isMC := cc.Value.(*ssa.MakeClosure); isMC {
				// bound method value of a mutex: m.lock.Unlock taken as a value
				if f, ok := mc.Fn.(*ssa.Function); ok && f.Synthetic != "" && len(mc.Bindings) == 1 {
					switch namedKey(mc.Bindings[0].Type()) {
					case "sync.RWMutex", "sync.Mutex":
						name = "Lock"
					}
				}
			}
			switch name {
			case "Lock", "Unlock", "RLock", "RUnlock", "TryLock", "TryRLock":
			default:
				return
			}
			if _, _, ok := e.lockOp(ci); ok {
				return
			}
			out = append(out, name+" at "+p.Pos(instrPos(in))+" in "+FuncName(p, fn))
		})
	}
	sort.Strings(out)
	return out
}

// c14Forward copies the obligations of tmp into r; with unattributed lock
// operations in the packages a VIOLATION of the lock rules is only UNDECIDED.
func c14Forward(r, tmp *Report, unattributed []string) {
	for _, u := range tmp.Undecided {
		r.Undecide("%s", u)
	}
	for _, n := range tmp.Notes {
		r.Note("%s", n)
	}
	for _, o := range tmp.Obs {
		if o.Status == StViolation && len(unattributed) > 0 {
			r.Undecide("%s %s: %s — not established, because the mutex of %d lock operation(s) could not be identified (%s)", o.Rule, o.Construct, o.Message, len(unattributed), unattributed[0])
			continue
		}
		r.add(o)
	}
}

// c14DropImmutable removes from the guard table the fields that are only
// written while their object is being constructed (Fresh accesses) and whose
// referent is never mutated: reading such configuration needs no lock.
func c14DropImmutable(p *Prog, specs []GuardSpec) (kept []GuardSpec, dropped []string) {
	want := map[FieldID]bool{}
	for _, s := range specs {
		want[s.Field] = true
	}
	mutated := map[FieldID]bool{}
	for _, fn := range p.Funcs {
		for _, a := range FieldAccesses(fn, func(id FieldID) bool { return want[id] }) {
			if a.Fresh {
				continue
			}
			if a.Kind == AccWrite || a.Kind == AccCall {
				mutated[a.ID] = true
			}
		}
	}
	for _, s := range specs {
		if mutated[s.Field] {
			kept = append(kept, s)
		} else {
			dropped = append(dropped, s.Field.String())
		}
	}
	return kept, dropped
}

// c14AliasWrites: a guarded map/slice handed to a callee as an ARGUMENT is
// still the guarded state. When the targets of the call are visible (a static
// callee, or a callback parameter whose closures are passed at the call sites
// of the enclosing helper) and one of them writes through that parameter
// (map update, delete, clear, element store — directly or by passing it on),
// the call needs the lock in write mode. This keeps a `locked(fn)` wrapper
// that takes only the read lock for a writing callback from going unnoticed.
func c14AliasWrites(p *Prog, e *LockEngine, r *Report, rule string, specs []GuardSpec) {
	byField := map[FieldID]*GuardSpec{}
	for i := range specs {
		byField[specs[i].Field] = &specs[i]
	}
	sites := map[*ssa.Function][]ssa.CallInstruction{}
	for _, fn := range p.Funcs {
		allInstrs(fn, func(in ssa.Instruction) {
			if ci, ok := in.(ssa.CallInstruction); ok {
				if cal := staticCallee(ci); cal != nil {
					sites[cal] = append(sites[cal], ci)
				}
			}
		})
	}
	var writes func(fn *ssa.Function, idx, depth int) bool
	var valueWritten func(v ssa.Value, depth int, seen map[ssa.Value]bool) bool
	targetsOf := func(ci ssa.CallInstruction) []*ssa.Function {
		if cal := staticCallee(ci); cal != nil {
			return []*ssa.Function{cal}
		}
		cc := ci.Common()
		if cc.IsInvoke() {
			return nil
		}
		pa, ok := cc.Value.(*ssa.Parameter)
		if !ok {
			return nil
		}
		g := pa.Parent()
		pi := -1
		for i, q := range g.Params {
			if q == pa {
				pi = i
			}
		}
		var out []*ssa.Function
		for _, s := range sites[origin(g)] {
			args := s.Common().Args
			if pi < 0 || pi >= len(args) {
				return nil
			}
			switch a := args[pi].(type) {
			case *ssa.MakeClosure:
				if f, ok := a.Fn.(*ssa.Function); ok {
					out = append(out, origin(f))
				}
			case *ssa.Function:
				out = append(out, origin(a))
			default:
				return nil
			}
		}
		return out
	}
	valueWritten = func(v ssa.Value, depth int, seen map[ssa.Value]bool) bool {
		if seen[v] || depth > 4 {
			return false
		}
		seen[v] = true
		for _, ref := range refs(v) {
			switch x := ref.(type) {
			case *ssa.MapUpdate:
				if x.Map == v {
					return true
				}
			case *ssa.IndexAddr:
				if x.X == v {
					for _, rr := range refs(x) {
						if st, ok := rr.(*ssa.Store); ok && st.Addr == ssa.Value(x) {
							return true
						}
					}
				}
			case *ssa.Phi, *ssa.ChangeType:
				if valueWritten(x.(ssa.Value), depth, seen) {
					return true
				}
			case ssa.CallInstruction:
				switch builtinName(x) {
				case "delete", "clear":
					if args := x.Common().Args; len(args) > 0 && args[0] == v {
						return true
					}
					continue
				case "copy":
					if args := x.Common().Args; len(args) == 2 && args[0] == v {
						return true
					}
					continue
				case "":
				default:
					continue
				}
				for ai, a := range x.Common().Args {
					if a != v {
						continue
					}
					for _, t := range targetsOf(x) {
						if p.funcSet[t] && writes(t, ai, depth+1) {
							return true
						}
					}
				}
			}
		}
		return false
	}
	writes = func(fn *ssa.Function, idx, depth int) bool {
		if idx >= len(fn.Params) || len(fn.Blocks) == 0 {
			return false
		}
		return valueWritten(fn.Params[idx], depth, map[ssa.Value]bool{})
	}
	for _, fn := range p.Funcs {
		allInstrs(fn, func(in ssa.Instruction) {
			ci, ok := in.(ssa.CallInstruction)
			if !ok || builtinName(ci) != "" || !e.Reachable(in) {
				return
			}
			for ai, a := range ci.Common().Args {
				id, _, isField := fieldOfValue(a)
				spec := byField[id]
				if !isField || spec == nil {
					continue
				}
				if _, isAddr := a.(*ssa.FieldAddr); isAddr {
					continue
				}
				if fa, ok := a.(*ssa.UnOp); ok {
					if base, ok := fa.X.(*ssa.FieldAddr); ok && isFreshBase(base.X) {
						continue
					}
				}
				for _, t := range targetsOf(ci) {
					if !p.funcSet[t] || !writes(t, ai, 0) {
						continue
					}
					construct := FuncName(p, fn) + " -> " + id.String() + " (written by callee " + t.Name() + ")"
					if held := e.At(in)[spec.Lock]; held < ModeW {
						r.Violation(rule, construct, p.Pos(instrPos(in)), fmt.Sprintf("%s is handed to %s, which writes it, while %s is held in mode %s (needs W)", id, FuncName(p, t), shortID(spec.Lock), held))
					} else {
						r.OK(rule, construct, p.Pos(instrPos(in)), "the callee writes the guarded state under the write lock")
					}
				}
			}
		})
	}
}
