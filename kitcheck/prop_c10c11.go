package main

import (
	"fmt"
	"go/token"
	"go/types"
	"strings"

	"golang.org/x/tools/go/ssa"
)

// C10 (Batcher) and C11 (Broadcaster) share one rule set: both fan a value out
// to per-subscriber buffers while holding the component lock.

type fanoutCfg struct {
	Prop      string
	Rel       string // package rel path
	Type      string // Batcher | Broadcaster
	Entry     string // per-subscriber entry type (eventCh)
	Fanout    string // method that fans out
	Subscribe string // unexported subscribe method
}

func init() {
	register("C10", func(c *Ctx) {
		checkFanout(c, fanoutCfg{"C10", "events/batcher", "Batcher", "eventCh", "Batcher.execute", "Batcher.subscribe"})
	})
	register("C11", func(c *Ctx) {
		checkFanout(c, fanoutCfg{"C11", "events/broadcaster", "Broadcaster", "eventCh", "Broadcaster.Broadcast", "Broadcaster.subscribe"})
	})
}

func checkFanout(c *Ctx, cfg fanoutCfg) {
	r, p := c.R, c.P
	pre := cfg.Prop
	pkg := p.ModPath + "/" + cfg.Rel
	lockID := pkg + "." + cfg.Type + ".lock"
	wgID := pkg + "." + cfg.Type + ".wg"
	closeCh := "field:" + pkg + "." + cfg.Type + ".closeCh"
	bufCh := "field:" + pkg + "." + cfg.Entry + ".ch"
	e := c.Locks()
	fns := p.FuncsOfPkg(cfg.Rel)
	wg := NewWaitGraph(p, e, fns)

	if cfg.Prop == "C10" {
		r.Explanation = "Decides structural necessary conditions of C10 on events/batcher: (M1) eventChs/currentID only under Batcher.lock; (M2) every send into a subscriber buffer made under the lock sits in a select with a channel the subscriber's forwarder closes BEFORE it takes the lock on its way out (otherwise a subscriber leaving with a full buffer wedges the delivery, every later one and Close); (M3) closeCh — the way out of the fan-out select — can be closed without the lock and without first waiting for the queue processor that may be stuck in that select; (M4) forwarder goroutines are tracked by the wait group, every wait in them has a shutdown case (subscriber context or closeCh), each closes its subscriber channel and deregisters under the lock on every exit, Close waits for them on every path; (M5) Batch enqueues the key through Processor.Enqueue with due time clock.Now()+interval, execute delivers the item's value to every entry of eventChs, and nothing is sent once closed. NOT decided: the per-key debounce law and delivery order over all timelines (C06 covers the queue's own necessary conditions)."
	} else {
		r.Explanation = "Decides structural necessary conditions of C11 on events/broadcaster: (M1) eventChs/currentID only under Broadcaster.lock and the whole fan-out loop of Broadcast runs in one critical section (necessary for one common order); (M2) every send into a subscriber buffer under the lock selects on a channel the forwarder closes before taking the lock; (M3) closeCh can be closed without the lock a blocked Broadcast holds; (M4) forwarders tracked, shutdown case in every wait, deregistration under the lock on every exit, Close waits for them; (M5) Broadcast delivers its argument to every entry of eventChs and sends nothing once closed; forwarders pass on exactly what they received. NOT decided: exactly-once and common order as runtime facts over all histories."
	}
	r.Assumptions = append(r.Assumptions, "type-based lock and channel identity: all subscribers' buffers are one abstract channel", "subscriber contexts and caller-owned channels can always fire/are drained by their owners")
	r.Rule(pre+".M1-guard", "eventChs/currentID only under the component lock", 3)
	r.Rule(pre+".M6-unique-id", "subscriber ids come from a counter that only grows, incremented in the critical section that registers the subscriber", 1)
	if cfg.Prop == "C10" {
		r.Rule("C10.Q2-atomic-exit", "queue processor: no unlock between 'queue empty' and release of the running token (shared with C06)", 2)
		r.Rule("C10.Q3-execute", "queue processor: Pop in the critical section that re-checked the head (shared with C06)", 2)
		r.Rule("C10.Q6-enqueue", "queue processor: Enqueue replaces by key and always calls process() (shared with C06)", 3)
		r.Rule("C10.Q5-not-early", "queue processor: execute only when due (shared with C06)", 2)
		r.Rule("C10.Q8-signals", "queue processor: token channel capacities and reset handling (shared with C06)", 4)
	}
	r.Rule(pre+".M2-departure-release", "sends into subscriber buffers under the lock select on a channel closed by the departing forwarder before it takes the lock", 1)
	r.Rule(pre+".M3-close-escape", "closeCh can be closed without the lock held by a blocked fan-out and without waiting for it", 1)
	r.Rule(pre+".M4-forwarders", "forwarders tracked by the wait group, with shutdown cases, deregistering under the lock; Close marks closed, passes the lock barrier, then waits", 6)
	r.Rule(pre+".M5-delivery", "the value is offered to every subscriber entry; nothing sent once closed", 2)

	guards := []GuardSpec{{Field: FieldID{pkg + "." + cfg.Type, "eventChs"}, Lock: lockID}}
	if c18HasField(structOf(p.Named(cfg.Rel, cfg.Type)), "currentID") {
		guards = append(guards, GuardSpec{Field: FieldID{pkg + "." + cfg.Type, "currentID"}, Lock: lockID})
	}
	CheckGuardedBy(p, e, r, pre+".M1-guard", guards)

	sub := p.Func(cfg.Rel, cfg.Subscribe)
	fan := p.Func(cfg.Rel, cfg.Fanout)

	// ---- forwarder and its exit path
	var fwd *ssa.Function
	for _, g := range goroutinesOf([]*ssa.Function{sub}) {
		if g.Body != nil && g.Body.Parent() == sub {
			fwd = g.Body
		}
	}
	if fwd == nil {
		r.Violation(pre+".M4-forwarders", cfg.Rel+"."+cfg.Subscribe+" forwarder", p.Pos(sub.Pos()), "subscribe no longer starts a forwarder goroutine")
		return
	}
	// entry fields assigned in subscribe: field name -> channel identity
	entryFields := map[string]string{}
	allInstrs(sub, func(in ssa.Instruction) {
		if st, ok := in.(*ssa.Store); ok {
			if fa, ok := st.Addr.(*ssa.FieldAddr); ok && fieldIDOfAddr(fa).Type == pkg+"."+cfg.Entry {
				if _, isCh := st.Val.Type().Underlying().(*types.Chan); isCh {
					entryFields[fieldIDOfAddr(fa).Field] = chanIdent(st.Val)
				}
			}
		}
	})
	// channels the forwarder closes before acquiring the lock on exit (in any of its functions)
	closedBeforeLock := map[string]bool{}
	takesLockOnExit := false
	bodies := append([]*ssa.Function{fwd}, fwd.AnonFuncs...)
	for _, f := range bodies {
		var lockInstr ssa.Instruction
		allInstrs(f, func(in ssa.Instruction) {
			if call, ok := in.(*ssa.Call); ok {
				if id, kind, ok := e.lockOp(call); ok && id == lockID && kind == opLock && lockInstr == nil {
					lockInstr = in
				}
			}
		})
		if lockInstr == nil {
			continue
		}
		takesLockOnExit = true
		for _, cl := range closeSites(f) {
			if instrDominates(cl.Instr, lockInstr) {
				closedBeforeLock[cl.Chan] = true
			}
		}
	}
	var releaseFields []string
	for fld, id := range entryFields {
		if closedBeforeLock[id] {
			releaseFields = append(releaseFields, "field:"+pkg+"."+cfg.Entry+"."+fld)
		}
	}
	// ---- M2: sends into the buffer under the lock
	nSend := 0
	for _, fn := range fns {
		allInstrs(fn, func(in ssa.Instruction) {
			switch x := in.(type) {
			case *ssa.Send:
				if chanIdent(x.Chan) == bufCh && e.At(in)[lockID] != ModeNone {
					nSend++
					r.Violation(pre+".M2-departure-release", FuncName(p, fn)+" send to subscriber buffer", p.Pos(x.Pos()), "unconditional send into a subscriber buffer while holding the lock: a stalled or departed subscriber blocks it forever")
				}
			case *ssa.Select:
				si := decodeSelect(x)
				sends := false
				for _, cs := range si.Cases {
					if cs.Dir == types.SendOnly && cs.Chan == bufCh {
						sends = true
					}
				}
				if !sends || e.At(in)[lockID] == ModeNone {
					return
				}
				nSend++
				ok := !takesLockOnExit
				for _, cs := range si.Cases {
					for _, rf := range releaseFields {
						if cs.Dir == types.RecvOnly && cs.Chan == rf {
							ok = true
						}
					}
				}
				if !x.Blocking {
					ok = true // non-blocking offer cannot wedge
				}
				r.Check(ok, pre+".M2-departure-release", FuncName(p, fn)+" send to subscriber buffer", p.Pos(x.Pos()),
					"the send can be abandoned when the subscriber's forwarder leaves (it closes a per-subscriber channel before taking the lock)",
					"the fan-out sends into a subscriber's buffer while holding "+shortID(lockID)+"; the forwarder that drains this buffer needs the same lock to deregister when its context ends, and closes no per-subscriber channel before that which this select listens to: a subscriber leaving with a full buffer wedges this delivery, every later one and Close")
			}
		})
	}
	if nSend == 0 {
		r.Violation(pre+".M5-delivery", cfg.Rel+"."+cfg.Fanout+" delivers", p.Pos(fan.Pos()), "no send into subscriber buffers under the lock found (values are not delivered, or delivered outside the lock so subscribers see different orders)")
	}

	// ---- M3
	if wg.CheckEscapeClosable(r, pre+".M3-close-escape", closeCh) == 0 {
		r.Violation(pre+".M3-close-escape", "close sites of "+shortCh(closeCh), p.Pos(fan.Pos()), "the fan-out select no longer has the closeCh case: Close cannot release a delivery blocked on a stalled subscriber")
	}
	// LW-2 on Close's wg.Wait and generic LW-1
	wg.CheckLW2(r, pre+".M4-forwarders")
	wg.CheckLW1(r, pre+".M3-close-escape")

	// ---- M4
	CheckTracked(p, r, pre+".M4-forwarders", []*ssa.Function{sub}, wgID, nil)
	CheckShutdownCases(p, e, r, pre+".M4-forwarders", []*ssa.Function{fwd}, []string{closeCh, "done:"}, true)
	// Close waits on every path
	closeFn := p.Func(cfg.Rel, cfg.Type+".Close")
	ffc := &FlagFlow{Fn: closeFn, Must: true, Transfer: func(in ssa.Instruction, st uint64) uint64 {
		if ci, ok := in.(ssa.CallInstruction); ok && callIs(ci, "sync", "WaitGroup", "Wait") && wgIdent(ci.Common().Args[0]) == wgID {
			return st | 1
		}
		if ci, ok := in.(ssa.CallInstruction); ok && builtinName(ci) == "close" && chanIdent(ci.Common().Args[0]) == closeCh {
			return st | 2
		}
		return st
	}}
	ffc.Run()
	okWait := true
	ffc.AtReturns(func(ret *ssa.Return, st uint64) {
		if st&1 == 0 {
			okWait = false
		}
	})
	// barrier: subscribe() tests closed and does wg.Add under the lock; Close must pass through the
	// lock after setting closed and before it starts waiting, or an in-flight subscribe adds a
	// forwarder to the wait group after Wait has returned
	const (
		fCAS     = 4
		fBarrier = 8
	)
	var ffb *FlagFlow
	ffb = &FlagFlow{Fn: closeFn, Must: true, Transfer: func(in ssa.Instruction, st uint64) uint64 {
		if _, isDefer := in.(*ssa.Defer); isDefer && !ffb.Replaying {
			return st // registration of a deferred call, not its execution
		}
		if ci, ok := in.(ssa.CallInstruction); ok {
			if obj := calleeObj(ci); obj != nil && (obj.Name() == "CompareAndSwap" || obj.Name() == "Store" || obj.Name() == "Swap") {
				args := ci.Common().Args
				if len(args) > 0 {
					if id, _, ok := fieldOfValue(args[0]); ok && id.Field == "closed" {
						return st | fCAS
					}
				}
			}
			if call, ok := in.(*ssa.Call); ok {
				if id, kind, ok := e.lockOp(call); ok && id == lockID && kind == opLock && st&fCAS != 0 {
					return st | fBarrier
				}
			}
			if callIs(ci, "sync", "WaitGroup", "Wait") && wgIdent(ci.Common().Args[0]) == wgID {
				if st&fBarrier != 0 {
					return st | 16
				}
				return st | 32
			}
		}
		return st
	}}
	ffb.Run()
	okBarrier := true
	ffb.AtReturns(func(ret *ssa.Return, st uint64) {
		if st&16 == 0 || st&32 != 0 {
			okBarrier = false
		}
	})
	r.Check(okBarrier, pre+".M4-forwarders", cfg.Rel+"."+cfg.Type+".Close barrier", p.Pos(closeFn.Pos()), "Close passes through the lock after marking closed and before waiting for the forwarders",
		"Close starts waiting for the forwarders without first passing through the component lock after setting the closed flag: a Subscribe that already passed its closed check but has not yet done wg.Add is not waited for — Close returns, and its forwarder then starts, delivers, and closes the subscriber channel after Close returned")
	r.Check(okWait, pre+".M4-forwarders", cfg.Rel+"."+cfg.Type+".Close waits", p.Pos(closeFn.Pos()), "Close waits for the forwarders on every path", "Close can return without waiting for the forwarder goroutines: values may still be delivered and subscriber channels closed after Close returned")
	// closeCh closed only under the closed CAS (at most once)
	for _, u := range wg.byCh[closeCh] {
		if u.Kind != "close" {
			continue
		}
		cas := false
		for _, dc := range domConds(u.Instr.Block()) {
			if call, val, ok := boolCallCond(dc.If.Cond, dc.Branch); ok && val && calleeObj(call) != nil && calleeObj(call).Name() == "CompareAndSwap" {
				cas = true
			}
		}
		r.Check(cas, pre+".M4-forwarders", FuncName(p, u.Fn)+" close(closeCh) once", p.Pos(instrPos(u.Instr)), "closeCh closed only by the winner of the closed CAS", "closeCh can be closed twice (second Close panics)")
	}
	// deregistration: the forwarder's exit removes its entry under the lock (a store to eventChs under the lock in a function deferred by the forwarder)
	dereg := false
	for _, f := range bodies {
		for _, a := range FieldAccesses(f, func(id FieldID) bool { return id.Field == "eventChs" && id.Type == pkg+"."+cfg.Type }) {
			if a.Kind == AccWrite && e.At(a.Instr)[lockID] == ModeW {
				dereg = true
			}
		}
	}
	deferred := false
	allInstrs(fwd, func(in ssa.Instruction) {
		if d, ok := in.(*ssa.Defer); ok {
			if f := staticCallee(d); f != nil && f.Parent() == fwd && d.Block() == fwd.Blocks[0] {
				deferred = true
			}
		}
	})
	r.Check(dereg && deferred, pre+".M4-forwarders", FuncName(p, fwd)+" deregisters", p.Pos(fwd.Pos()), "forwarder removes its entry under the lock in a function deferred at its start", "a departing forwarder does not remove its entry from eventChs under the lock on every exit: later deliveries keep sending into a buffer nobody drains")

	// ---- M5 delivery: fan-out loop ranges over eventChs; send value is the function's argument (or its field); closed check dominates
	c10Delivery(c, cfg, fan, pkg, lockID, bufCh)
	if cfg.Prop == "C10" {
		c10Batch(c, pkg)
		c10QueueRules(c)
	}
	c10UniqueID(c, cfg, sub, pkg, lockID)
	c10Forward(c, cfg, fwd, sub, entryFields)
}

// c10Delivery: the fan-out iterates over all of eventChs within one critical
// section and the loop has no exit other than exhaustion; sends are skipped when closed.
func c10Delivery(c *Ctx, cfg fanoutCfg, fan *ssa.Function, pkg, lockID, bufCh string) {
	r, p, e := c.R, c.P, c.Locks()
	pre := cfg.Prop
	construct := cfg.Rel + "." + cfg.Fanout + " loop"
	// find range-over-slice loop on eventChs: index compare against len(load eventChs)
	var header *ssa.BasicBlock
	allInstrs(fan, func(in ssa.Instruction) {
		ifi, ok := in.(*ssa.If)
		if !ok {
			return
		}
		if cmp, ok := decodeCond(ifi.Cond, true); ok {
			for _, v := range []ssa.Value{cmp.X, cmp.Y} {
				if call, ok := v.(*ssa.Call); ok && builtinName(call) == "len" {
					if id, _, ok := fieldOfValue(call.Call.Args[0]); ok && id.Field == "eventChs" {
						header = ifi.Block()
					}
				}
			}
		}
	})
	if header == nil {
		r.Violation(pre+".M5-delivery", construct, p.Pos(fan.Pos()), "the fan-out no longer iterates over every entry of eventChs")
		return
	}
	inLoop := map[*ssa.BasicBlock]bool{}
	for _, b := range fan.Blocks {
		if reachableFrom(header, nil)[b] && reachableFrom(b, nil)[header] {
			inLoop[b] = true
		}
	}
	why := ""
	for b := range inLoop {
		for _, s := range b.Succs {
			if !inLoop[s] && b != header && !endsInPanic(s) {
				why = "the fan-out loop can be left early at " + p.Pos(instrPos(b.Instrs[len(b.Instrs)-1])) + ": the remaining subscribers never receive the value"
			}
		}
		// lock never released inside the loop
		for _, in := range b.Instrs {
			if call, ok := in.(*ssa.Call); ok {
				if id, kind, ok := e.lockOp(call); ok && id == lockID && (kind == opUnlock || kind == opRUnlock) {
					why = "the lock is released inside the fan-out loop: concurrent fan-outs interleave and subscribers see different orders"
				}
			}
		}
	}
	// the send sits in the loop
	hasSend := false
	for b := range inLoop {
		for _, in := range b.Instrs {
			if sel, ok := in.(*ssa.Select); ok {
				for _, st := range sel.States {
					if st.Dir == types.SendOnly && chanIdent(st.Chan) == bufCh {
						hasSend = true
						// value sent: must derive from the fan-out's parameter
						if !c10FromParam(st.Send, fan) {
							why = "the value sent to subscribers is not the value passed to " + cfg.Fanout
						}
					}
				}
			}
		}
	}
	if !hasSend && why == "" {
		why = "no send into the subscriber buffers inside the loop over eventChs"
	}
	r.Check(why == "", pre+".M5-delivery", construct, p.Pos(instrPos(header.Instrs[len(header.Instrs)-1])), "every entry of eventChs is offered the argument's value within one critical section", why)
	// closed check: loop dominated by closed.Load()==false edge
	closedOK := false
	for _, dc := range domConds(header) {
		if call, val, ok := boolCallCond(dc.If.Cond, dc.Branch); ok && !val && calleeObj(call) != nil && calleeObj(call).Name() == "Load" {
			if id, _, ok := fieldOfValue(call.Call.Args[0]); ok && id.Field == "closed" {
				closedOK = true
			}
		}
	}
	r.Check(closedOK, pre+".M5-delivery", cfg.Rel+"."+cfg.Fanout+" closed-check", p.Pos(fan.Pos()), "fan-out skipped once closed", "the fan-out no longer checks the closed flag under the lock: values can be sent after Close returned")
}

// c10FromParam: v is a parameter of fn or a field loaded from one.
func c10FromParam(v ssa.Value, fn *ssa.Function) bool {
	for depth := 0; depth < 6 && v != nil; depth++ {
		switch x := v.(type) {
		case *ssa.Parameter:
			return x.Parent() == fn
		case *ssa.UnOp:
			v = x.X
		case *ssa.FieldAddr:
			v = x.X
		case *ssa.Field:
			v = x.X
		case *ssa.ChangeType:
			v = x.X
		default:
			return false
		}
	}
	return false
}

// c10Batch: Batch enqueues through Processor.Enqueue an item whose due time is clock.Now().Add(interval).
func c10Batch(c *Ctx, pkg string) {
	r, p := c.R, c.P
	fn := p.Func("events/batcher", "Batcher.Batch")
	okEnq, okTTL := false, false
	allInstrs(fn, func(in ssa.Instruction) {
		if call, ok := in.(*ssa.Call); ok {
			if obj := calleeObj(call); obj != nil && obj.Name() == "Enqueue" && obj.Pkg() != nil && strings.HasSuffix(obj.Pkg().Path(), "/events/queue") {
				okEnq = true
			}
		}
		if st, ok := in.(*ssa.Store); ok {
			if fa, ok := st.Addr.(*ssa.FieldAddr); ok && fieldIDOfAddr(fa).Field == "ttl" {
				// value = clock.Now().Add(interval)
				if add, ok := st.Val.(*ssa.Call); ok && callIs(add, "time", "Time", "Add") {
					now, isNow := add.Call.Args[0].(*ssa.Call)
					id, _, isF := fieldOfValue(add.Call.Args[1])
					if isNow && calleeObj(now) != nil && calleeObj(now).Name() == "Now" && isF && id.Field == "interval" {
						okTTL = true
					}
				}
			}
		}
	})
	r.Check(okEnq && okTTL, "C10.M5-delivery", "events/batcher.Batcher.Batch enqueue", p.Pos(fn.Pos()), "Batch enqueues (replacing) the key with due time clock.Now()+interval", "Batch no longer enqueues the key through the queue processor with due time clock.Now()+interval (debounce interval wrong or value never delivered)")
	// ScheduledTime returns ttl, Key returns key
	for _, spec := range [][2]string{{"item.ScheduledTime", "ttl"}, {"item.Key", "key"}} {
		f := p.Func("events/batcher", spec[0])
		ok := false
		allInstrs(f, func(in ssa.Instruction) {
			if ret, isRet := in.(*ssa.Return); isRet && len(ret.Results) == 1 {
				if id, _, isF := fieldOfValue(ret.Results[0]); isF && id.Field == spec[1] {
					ok = true
				}
			}
		})
		r.Check(ok, "C10.M5-delivery", "events/batcher."+spec[0], p.Pos(f.Pos()), "returns item."+spec[1], spec[0]+" no longer returns item."+spec[1])
	}
}

// c10Forward: the forwarder passes exactly the value received from its buffer
// to the subscriber's channel, and closes the subscriber channel only in
// batcher (statement: every subscriber channel has been closed).
func c10Forward(c *Ctx, cfg fanoutCfg, fwd, sub *ssa.Function, entryFields map[string]string) {
	r, p := c.R, c.P
	pre := cfg.Prop
	buf := entryFields["ch"]
	ok := false
	why := "the forwarder does not pass the value it received from its buffer to the subscriber's channel"
	allInstrs(fwd, func(in ssa.Instruction) {
		sel, isSel := in.(*ssa.Select)
		if !isSel {
			return
		}
		for _, st := range sel.States {
			if st.Dir != types.SendOnly {
				continue
			}
			// sent value = extract of an outer select's recv on buf
			if ex, isEx := st.Send.(*ssa.Extract); isEx {
				if outer, isSel := ex.Tuple.(*ssa.Select); isSel {
					k := ex.Index - 2
					ri := 0
					for _, os := range outer.States {
						if os.Dir == types.RecvOnly {
							if ri == k && chanIdent(os.Chan) == buf {
								ok = true
							}
							ri++
						}
					}
				}
			}
		}
	})
	r.Check(ok, pre+".M5-delivery", FuncName(p, fwd)+" forwards", p.Pos(fwd.Pos()), "forwarder passes on exactly what it received from its buffer", why)
	if cfg.Prop == "C10" {
		// close(ch) of the subscriber channel on every exit: in the deferred function
		closes := false
		for _, f := range fwd.AnonFuncs {
			for _, cl := range closeSites(f) {
				if strings.HasPrefix(cl.Chan, "param:") {
					closes = true
				}
			}
		}
		r.Check(closes, pre+".M4-forwarders", FuncName(p, fwd)+" closes subscriber channel", p.Pos(fwd.Pos()), "subscriber channel closed in the forwarder's deferred exit", "the forwarder no longer closes the subscriber's channel on exit (statement: after Close every subscriber channel has been closed)")
	}
	_ = fmt.Sprint
	_ = token.ADD
}

func endsInPanic(b *ssa.BasicBlock) bool {
	if len(b.Instrs) == 0 {
		return false
	}
	_, ok := b.Instrs[len(b.Instrs)-1].(*ssa.Panic)
	return ok
}

// c10QueueRules runs the queue.Processor rules of C06 that the batcher's
// delivery guarantee rests on, under C10 rule ids.
func c10QueueRules(c *Ctx) {
	old := c06Prefix
	c06Prefix = "C10."
	defer func() { c06Prefix = old }()
	q := c.P.ModPath + "/events/queue"
	lockID := q + ".Processor.lock"
	loop := c.P.Func("events/queue", "Processor.processLoop")
	c06AtomicExit(c, loop, lockID, "field:"+q+".Processor.processorRunningCh")
	c06Execute(c, lockID)
	c06Enqueue(c, lockID)
	c06NotEarly(c, loop)
	c06Signals(c, loop)
}

// c10UniqueID: the id stored in a subscriber entry is the value of a counter
// field of the component that is incremented (by a positive constant) in the
// same function under the lock and never assigned otherwise; the
// deregistration compares entries with that id.
func c10UniqueID(c *Ctx, cfg fanoutCfg, sub *ssa.Function, pkg, lockID string) {
	r, p, e := c.R, c.P, c.Locks()
	construct := cfg.Rel + "." + cfg.Subscribe + " subscriber id"
	var idStore *ssa.Store
	allInstrs(sub, func(in ssa.Instruction) {
		if st, ok := in.(*ssa.Store); ok {
			if fa, ok := st.Addr.(*ssa.FieldAddr); ok && fieldIDOfAddr(fa).Type == pkg+"."+cfg.Entry && fieldIDOfAddr(fa).Field == "id" {
				idStore = st
			}
		}
	})
	if idStore == nil {
		r.Violation(cfg.Prop+".M6-unique-id", construct, p.Pos(sub.Pos()), "subscriber entries no longer carry an id: a departing forwarder cannot identify its own entry")
		return
	}
	// trace the stored value to a load of a component field (through a local cell)
	src := idStore.Val
	for i := 0; i < 4; i++ {
		if u, ok := src.(*ssa.UnOp); ok && u.Op == token.MUL {
			if cell := cellOf(u.X); cell != nil {
				var only ssa.Value
				n := 0
				for _, rr := range refs(cell) {
					if st, ok := rr.(*ssa.Store); ok && st.Addr == ssa.Value(cell) {
						only, n = st.Val, n+1
					}
				}
				if n == 1 {
					src = only
					continue
				}
			}
		}
		break
	}
	id, _, ok := fieldOfValue(src)
	why := ""
	if !ok || id.Type != pkg+"."+cfg.Type {
		why = "the subscriber id is not taken from a counter field of the " + cfg.Type + " (e.g. len(eventChs), which repeats after a departure): a newcomer can get the id of a live subscriber, and when it leaves its forwarder removes the wrong entry — that subscriber stays subscribed but never receives another value"
	} else {
		// every store to that field (outside constructors): field = field + positive const, under the lock
		inc := false
		for _, fn := range p.FuncsOfPkg(cfg.Rel) {
			allInstrs(fn, func(in ssa.Instruction) {
				st, ok := in.(*ssa.Store)
				if !ok {
					return
				}
				fa, ok := st.Addr.(*ssa.FieldAddr)
				if !ok || fieldIDOfAddr(fa) != id || isFreshBase(fa.X) {
					return
				}
				if refDelta(st, id) == 1 && e.At(st)[lockID] == ModeW && fn == sub {
					inc = true
				} else {
					why = "the id counter " + id.String() + " is assigned at " + p.Pos(st.Pos()) + " other than by +1 under the lock in " + cfg.Subscribe + ": ids can repeat"
				}
			})
		}
		if !inc && why == "" {
			why = "the id counter " + id.String() + " is not incremented when a subscriber registers: all subscribers share one id"
		}
	}
	r.Check(why == "", cfg.Prop+".M6-unique-id", construct, p.Pos(idStore.Pos()), "ids come from a monotonically increasing counter", why)
}
