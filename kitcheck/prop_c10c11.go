package main

import (
	"fmt"
	"go/token"
	"go/types"
	"os"
	"sort"
	"strings"

	"golang.org/x/tools/go/ssa"
)

// C10 (Batcher) and C11 (Broadcaster) share one rule set: both fan a value out
// to per-subscriber buffers while holding the component lock.
//
// Like C06, the rules are stated over events along the inlined paths of the
// exported entry points (Subscribe, Broadcast / the callback handed to
// queue.NewProcessor, Close) and of the forwarder goroutines (evx.go), and the
// constructs are resolved by role from the exported component type: its mutex,
// wait group, atomic flag, close channel, the slice of per-subscriber entries,
// the entry's buffer / release channels and id.

type fanoutCfg struct {
	Prop string
	Rel  string // package rel path
	Type string // Batcher | Broadcaster (exported)
}

func init() {
	register("C10", func(c *Ctx) { checkFanout(c, fanoutCfg{"C10", "events/batcher", "Batcher"}) })
	register("C11", func(c *Ctx) { checkFanout(c, fanoutCfg{"C11", "events/broadcaster", "Broadcaster"}) })
}

type fanRoles struct {
	cfg     fanoutCfg
	p       *Prog
	pkg     string
	compT   string
	lockID  string
	wgID    string
	closeCh string
	closed  FieldID
	subs    FieldID
	entryT  string
	bufCh   string // field:<entryT>.<buffer field>
	t       *evFrames
	subFn   *ssa.Function
	fanRoot *ssa.Function
	closeFn *ssa.Function
	fns     []*ssa.Function
}

func (ro *fanRoles) inPkg(fn *ssa.Function) bool {
	return fn != nil && fn.Pkg != nil && fn.Pkg.Pkg.Path() == ro.pkg
}

func fanResolve(c *Ctx, cfg fanoutCfg) *fanRoles {
	p := c.P
	ro := &fanRoles{cfg: cfg, p: p, pkg: p.ModPath + "/" + cfg.Rel}
	ro.compT = ro.pkg + "." + cfg.Type
	st := structOf(p.Named(cfg.Rel, cfg.Type))
	if st == nil {
		undecided("%s is not a struct", cfg.Type)
	}
	one := func(cur *string, name, what string) {
		if *cur != "" {
			undecided("%s has more than one %s field (%s, %s): role not resolvable", cfg.Type, what, *cur, name)
		}
		*cur = name
	}
	var lock, wg, closed, subs string
	var chans []string
	// fields of the component and of the sub-structs it groups its state into
	// (the subscriber entry type is a unit of its own)
	isEntry := func(t types.Type) (string, bool) {
		var elem types.Type
		switch u := t.Underlying().(type) {
		case *types.Slice:
			elem = u.Elem()
		case *types.Map:
			elem = u.Elem()
		default:
			return "", false
		}
		es := structOf(elem)
		ek := namedKey(elem)
		if es == nil || !strings.HasPrefix(ek, ro.pkg+".") {
			return "", false
		}
		for j := 0; j < es.NumFields(); j++ {
			if _, ok := es.Field(j).Type().Underlying().(*types.Chan); ok {
				return ek, true
			}
		}
		return "", false
	}
	for _, f := range evFieldsDeep(ro.pkg, p.Named(cfg.Rel, cfg.Type), nil) {
		id := f.ID.Type + "." + f.ID.Field
		nk := namedKey(f.Type)
		switch {
		case nk == "sync.Mutex" || nk == "sync.RWMutex":
			one(&lock, id, "mutex")
		case nk == "sync.WaitGroup":
			one(&wg, id, "WaitGroup")
		case nk == "sync/atomic.Bool":
			one(&closed, id, "atomic.Bool")
		default:
			if _, isCh := f.Type.Underlying().(*types.Chan); isCh {
				chans = append(chans, id)
			} else if ek, ok := isEntry(f.Type); ok {
				one(&subs, id, "subscriber-entries")
				ro.entryT = ek
			}
		}
	}
	for what, v := range map[string]string{"mutex": lock, "WaitGroup": wg, "atomic.Bool flag": closed, "subscriber-entries": subs} {
		if v == "" {
			undecided("%s has no %s field: role not resolvable", cfg.Type, what)
		}
	}
	split := func(id string) FieldID {
		i := strings.LastIndex(id, ".")
		return FieldID{id[:i], id[i+1:]}
	}
	ro.lockID = lock
	ro.wgID = wg
	ro.closed = split(closed)
	ro.subs = split(subs)
	ro.fns = p.FuncsOfPkg(cfg.Rel)
	ro.subFn = p.Func(cfg.Rel, cfg.Type+".Subscribe")
	ro.closeFn = p.Func(cfg.Rel, cfg.Type+".Close")
	// close channel: the channel field of the component that is closed
	closedCh := map[string]bool{}
	for _, fn := range ro.fns {
		for _, cl := range closeSites(fn) {
			closedCh[cl.Chan] = true
		}
	}
	for _, name := range chans {
		id := "field:" + name
		if closedCh[id] || len(chans) == 1 {
			one(&ro.closeCh, id, "close channel")
		}
	}
	if ro.closeCh == "" {
		undecided("%s has no channel field that is closed: the shutdown channel is not resolvable", cfg.Type)
	}
	// buffer channel of an entry: the entry field that is sent to
	sent := map[string]bool{}
	for _, fn := range ro.fns {
		allInstrs(fn, func(in ssa.Instruction) {
			switch x := in.(type) {
			case *ssa.Send:
				sent[chanIdent(x.Chan)] = true
			case *ssa.Select:
				for _, s := range x.States {
					if s.Dir == types.SendOnly {
						sent[chanIdent(s.Chan)] = true
					}
				}
			}
		})
	}
	es := structOf(p.evNamedByKey(ro.entryT))
	var bufByType string
	for j := 0; es != nil && j < es.NumFields(); j++ {
		f := es.Field(j)
		ch, ok := f.Type().Underlying().(*types.Chan)
		if !ok {
			continue
		}
		id := "field:" + ro.entryT + "." + f.Name()
		if sent[id] {
			one(&ro.bufCh, id, "subscriber-buffer")
		}
		if s, isStruct := ch.Elem().Underlying().(*types.Struct); !isStruct || s.NumFields() > 0 {
			bufByType = id
		}
	}
	if ro.bufCh == "" {
		ro.bufCh = bufByType // nothing sends into an entry any more: reported by M5
	}
	if ro.bufCh == "" {
		undecided("the buffer channel of %s is not resolvable", shortID(ro.entryT))
	}
	// fan-out root
	if cfg.Prop == "C11" {
		ro.fanRoot = p.Func(cfg.Rel, cfg.Type+".Broadcast")
	} else {
		for _, fn := range ro.fns {
			allInstrs(fn, func(in ssa.Instruction) {
				call, ok := in.(*ssa.Call)
				if !ok {
					return
				}
				obj := calleeObj(call)
				if obj == nil || obj.Name() != "NewProcessor" || obj.Pkg() == nil || !strings.HasSuffix(obj.Pkg().Path(), "/events/queue") || len(call.Call.Args) != 1 {
					return
				}
				if f := evFuncOfValue(p, call.Call.Args[0]); f != nil {
					ro.fanRoot = f
				}
			})
		}
		if ro.fanRoot == nil {
			undecided("the callback handed to queue.NewProcessor is not a statically known function")
		}
	}
	ro.t = newEvFrames(p, func(fn *ssa.Function) bool { return ro.inPkg(fn) })
	return ro
}

// evNamedByKey finds the named type with the given "pkgpath.Name" key.
func (p *Prog) evNamedByKey(key string) types.Type {
	i := strings.LastIndex(key, ".")
	if i < 0 {
		return nil
	}
	pkg := p.All[key[:i]]
	if pkg == nil {
		return nil
	}
	tn, ok := pkg.Types.Scope().Lookup(key[i+1:]).(*types.TypeName)
	if !ok {
		return nil
	}
	return tn.Type()
}

// evFuncOfValue: the function a function-typed value denotes (plain function,
// closure, bound method value).
func evFuncOfValue(p *Prog, v ssa.Value) *ssa.Function {
	switch x := v.(type) {
	case *ssa.Function:
		return origin(x)
	case *ssa.MakeClosure:
		fn, _ := x.Fn.(*ssa.Function)
		if fn == nil {
			return nil
		}
		if strings.HasSuffix(fn.Name(), "$bound") {
			if m, ok := fn.Object().(*types.Func); ok {
				if f := p.SSA.FuncValue(m); f != nil {
					return origin(f)
				}
			}
		}
		return origin(fn)
	case *ssa.ChangeType:
		return evFuncOfValue(p, x.X)
	}
	return nil
}

// ---- what the Subscribe exploration finds

type fanSubState struct {
	held      bool
	added     bool
	notClosed bool // the closed flag was read false while holding the lock (and the lock not released since)
}

type fanSubFacts struct {
	fwd         []*evFrame
	fwdSnap     map[*evFrame]*EvSnapshot // what the spawning path knew at the go statement
	entryStores map[string]evVal         // entry field -> value stored at registration
	idSrc       evVal
	idStore     *ssa.Store
	idField     string
	untracked   string
	unchecked   string
	nGo         int
	unknown     string
}

func fanSubscribe(c *Ctx, ro *fanRoles) *fanSubFacts {
	p := c.P
	e := c.Locks()
	ff := &fanSubFacts{entryStores: map[string]evVal{}, fwdSnap: map[*evFrame]*EvSnapshot{}}
	x := NewEvExplorer[fanSubState](ro.t)
	seen := map[*evFrame]bool{}
	x.Instr = func(cx *EvCtx[fanSubState], in ssa.Instruction, s fanSubState) (fanSubState, bool) {
		switch v := in.(type) {
		case *ssa.Store:
			if fa, ok := v.Addr.(*ssa.FieldAddr); ok && fieldIDOfAddr(fa).Type == ro.entryT {
				name := fieldIDOfAddr(fa).Field
				ff.entryStores[name] = cx.Resolve(v.Val)
				if b, ok := v.Val.Type().Underlying().(*types.Basic); ok && b.Info()&types.IsInteger != 0 {
					ff.idSrc, ff.idStore, ff.idField = cx.Resolve(v.Val), v, name
				}
			}
		case *ssa.Go:
			ff.nGo++
			gf := ro.t.GoFrame(cx.F, v)
			if gf == nil {
				ff.untracked = "a goroutine with a dynamic body is started at " + p.Pos(v.Pos())
				return s, true
			}
			if !seen[gf] {
				seen[gf] = true
				ff.fwd = append(ff.fwd, gf)
				ff.fwdSnap[gf] = cx.Snapshot()
			}
			if !s.notClosed {
				ff.unchecked = "a subscriber is registered and its forwarder started at " + p.Pos(v.Pos()) + " without the closed flag having been read false under " + shortID(ro.lockID) + " (held since): a Subscribe racing with or following Close adds a forwarder that Close does not wait for, which can deliver and close the subscriber channel after Close returned"
			}
			if !s.added {
				ff.untracked = "the forwarder goroutine is started at " + p.Pos(v.Pos()) + " without a preceding wg.Add on " + shortID(ro.wgID) + ": Close can return while it is still running"
			} else if !s.held {
				ff.untracked = "the forwarder goroutine is added to the wait group at " + p.Pos(v.Pos()) + " without holding " + shortID(ro.lockID) + ": Close's lock barrier does not order it before wg.Wait"
			}
			s.added = false
		case ssa.CallInstruction:
			if id, kind, ok := evLockOp(cx, e, v); ok && id == ro.lockID {
				s.held = kind == opLock || kind == opRLock
				if !s.held {
					s.notClosed = false
				}
				return s, true
			}
			if callIs(v, "sync", "WaitGroup", "Add") && evWgArg(cx, v) == ro.wgID {
				s.added = true
			}
		}
		return s, true
	}
	x.Branch = func(cx *EvCtx[fanSubState], ifi *ssa.If, taken bool, s fanSubState) (fanSubState, bool) {
		key, neg := cx.CondKey(ifi.Cond)
		if call, ok := key.V.(*ssa.Call); ok && evFlagOp(call, ro.closed) == "Load" {
			s.notClosed = (taken == neg) && s.held
		}
		return s, true
	}
	x.Explore(ro.t.Root(ro.subFn), fanSubState{})
	if x.Incomplete != "" {
		undecided("Subscribe exploration: %s", x.Incomplete)
	}
	ff.unknown = x.UnknownCalls(nil)
	return ff
}

// chanRole names a channel value by role: the channel stored into field f of
// the subscriber entry at registration — whether it is reached as the local
// it was made into, as a parameter, or by loading the field from the entry — is
// "entry:f" (type-based identity: all subscribers' entries are one abstract
// entry); any other channel is named by its value identity.
func (ro *fanRoles) chanRole(sf *fanSubFacts, k evVal) string {
	if id, _, ok := fieldOfValue(k.V); ok && id.Type == ro.entryT {
		return "entry:" + id.Field
	}
	var fields []string
	for f, v := range sf.entryStores {
		if v == k {
			fields = append(fields, f)
		}
	}
	if len(fields) > 0 {
		sort.Strings(fields)
		return "entry:" + fields[0]
	}
	return fmt.Sprintf("val:%d.%d", evFrameID(k.F), ro.t.vid(k.V))
}

// ---- what the forwarder exploration finds

type fanFwdState struct {
	held         bool
	lockTaken    bool
	closedMask   uint16
	closedAtLock uint16
	dereg        bool
	done         bool
	closedAtDone uint16 // channels closed when wg.Done ran
}

type fanFwdFacts struct {
	chanKeys        []string // channels (by role / value identity), by index
	closedBeforeAll uint16   // closed before the first lock acquisition on every exit
	takesLock       bool
	allTakeLock     bool
	dereg           bool
	allDone         bool
	nExits          int
	outMask         uint16 // channels (index in chanKeys) the forwarder sends the values to
	allCloseOut     bool
	forwardOK       bool
	forwardBad      string
	visited         []*ssa.Function
	exitWithoutLock string
	unknown         string
	doneBeforeClose string    // an exit on which wg.Done ran before the subscriber channel was closed
	waits           []fanWait // the blocking operations of the forwarder
}

// fanWait is a blocking operation executed by a forwarder, with the channels
// of its receive cases resolved along the path that reached it.
type fanWait struct {
	in      ssa.Instruction
	desc    string
	missing string // shutdown cases it lacks ("" = none)
}

func fanForwarders(c *Ctx, ro *fanRoles, sf *fanSubFacts) *fanFwdFacts {
	p := c.P
	e := c.Locks()
	ff := &fanFwdFacts{closedBeforeAll: 0xffff, allTakeLock: true, allDone: true, allCloseOut: true}
	role := func(k evVal) string { return ro.chanRole(sf, k) }
	idx := func(k string) uint16 {
		for i, kk := range ff.chanKeys {
			if kk == k {
				return 1 << uint(i)
			}
		}
		if len(ff.chanKeys) >= 16 {
			undecided("forwarder closes too many distinct channels")
		}
		ff.chanKeys = append(ff.chanKeys, k)
		return 1 << uint(len(ff.chanKeys)-1)
	}
	bufKey := ""
	if i := strings.LastIndex(ro.bufCh, "."); i >= 0 {
		bufKey = "entry:" + ro.bufCh[i+1:]
	}
	var outKeys []string
	x := NewEvExplorer[fanFwdState](ro.t)
	subRoot := ro.t.Root(ro.subFn)
	checkForward := func(cx *EvCtx[fanFwdState], ch, val ssa.Value, at ssa.Instruction) {
		if !evDerivesFromParam(cx, cx.F, ch, subRoot) {
			return // not the channel handed to Subscribe
		}
		outKeys = append(outKeys, role(cx.Resolve(ch)))
		v := cx.Resolve(val)
		ok := false
		switch src := v.V.(type) {
		case *ssa.Extract:
			if sel, isSel := src.Tuple.(*ssa.Select); isSel && src.Index >= 2 {
				ri := 0
				for _, os := range sel.States {
					if os.Dir == types.RecvOnly {
						if ri == src.Index-2 && role(cx.ResolveIn(v.F, os.Chan)) == bufKey {
							ok = true
						}
						ri++
					}
				}
			}
			if u, isRecv := src.Tuple.(*ssa.UnOp); isRecv && u.Op == token.ARROW && src.Index == 0 && role(cx.ResolveIn(v.F, u.X)) == bufKey {
				ok = true
			}
		case *ssa.UnOp:
			if src.Op == token.ARROW && role(cx.ResolveIn(v.F, src.X)) == bufKey {
				ok = true
			}
		}
		if ok {
			ff.forwardOK = true
		} else if ff.forwardBad == "" {
			ff.forwardBad = "the forwarder sends at " + p.Pos(instrPos(at)) + " a value that is not the one it received from its buffer"
		}
	}
	waitSeen := map[ssa.Instruction]int{}
	addWait := func(in ssa.Instruction, desc, missing string) {
		if i, ok := waitSeen[in]; ok {
			if missing != "" {
				ff.waits[i].missing = missing
			}
			return
		}
		waitSeen[in] = len(ff.waits)
		ff.waits = append(ff.waits, fanWait{in, desc, missing})
	}
	x.Instr = func(cx *EvCtx[fanFwdState], in ssa.Instruction, s fanFwdState) (fanFwdState, bool) {
		switch v := in.(type) {
		case *ssa.Send:
			checkForward(cx, v.Chan, v.X, in)
			addWait(in, "send on "+shortCh(chanIdent(cx.Resolve(v.Chan).V)), "all (unconditional send)")
		case *ssa.UnOp:
			if v.Op == token.ARROW {
				addWait(in, "receive on "+shortCh(chanIdent(cx.Resolve(v.X).V)), "all (unconditional receive)")
			}
		case *ssa.Select:
			for _, st := range v.States {
				if st.Dir == types.SendOnly {
					checkForward(cx, st.Chan, st.Send, in)
				}
			}
			if v.Blocking {
				hasClose, hasDone := false, false
				var cs []string
				for _, st := range v.States {
					id := chanIdent(cx.Resolve(st.Chan).V)
					cs = append(cs, shortCh(id))
					if st.Dir == types.RecvOnly && id == ro.closeCh {
						hasClose = true
					}
					if st.Dir == types.RecvOnly && strings.HasPrefix(id, "done:") {
						hasDone = true
					}
				}
				sort.Strings(cs)
				missing := ""
				if !hasClose {
					missing += " " + shortCh(ro.closeCh)
				}
				if !hasDone {
					missing += " done:"
				}
				addWait(in, "select{"+strings.Join(cs, ",")+"}", missing)
			}
		case *ssa.Store:
			if fa, ok := v.Addr.(*ssa.FieldAddr); ok && fieldIDOfAddr(fa) == ro.subs && s.held {
				s.dereg = true
			}
		case *ssa.MapUpdate:
			if id, _, ok := fieldOfValue(cx.Resolve(v.Map).V); ok && id == ro.subs && s.held {
				s.dereg = true
			}
		case *ssa.Go:
		case ssa.CallInstruction:
			if id, kind, ok := evLockOp(cx, e, v); ok && id == ro.lockID {
				if kind == opLock || kind == opRLock {
					s.held = true
					if !s.lockTaken {
						s.lockTaken = true
						s.closedAtLock = s.closedMask
					}
				} else {
					s.held = false
				}
				return s, true
			}
			if builtinName(v) == "close" && len(v.Common().Args) == 1 {
				s.closedMask |= idx(role(cx.Resolve(v.Common().Args[0])))
			}
			if builtinName(v) == "delete" && len(v.Common().Args) == 2 {
				if id, _, ok := fieldOfValue(cx.Resolve(v.Common().Args[0]).V); ok && id == ro.subs && s.held {
					s.dereg = true
				}
			}
			if callIs(v, "sync", "WaitGroup", "Done") && evWgArg(cx, v) == ro.wgID {
				if !s.done {
					s.closedAtDone = s.closedMask
				}
				s.done = true
			}
		}
		return s, true
	}
	type ex struct {
		s   fanFwdState
		ret *ssa.Return
	}
	var exits []ex
	for _, f := range sf.fwd {
		for _, e := range x.ExploreFrom(f, fanFwdState{}, sf.fwdSnap[f]) {
			exits = append(exits, ex{e.P.abs, e.Ret})
		}
	}
	if x.Incomplete != "" {
		undecided("forwarder exploration: %s", x.Incomplete)
	}
	for _, k := range outKeys {
		ff.outMask |= idx(k)
	}
	ff.nExits = len(exits)
	for _, e := range exits {
		if e.s.lockTaken {
			ff.takesLock = true
			ff.closedBeforeAll &= e.s.closedAtLock
		} else {
			ff.allTakeLock = false
			ff.closedBeforeAll = 0
			ff.exitWithoutLock = p.Pos(instrPos(e.ret))
		}
		if e.s.dereg {
			ff.dereg = true
		}
		if !e.s.done {
			ff.allDone = false
		}
		if e.s.closedMask&ff.outMask == 0 {
			ff.allCloseOut = false
		} else if e.s.done && e.s.closedAtDone&ff.outMask == 0 {
			ff.doneBeforeClose = p.Pos(instrPos(e.ret))
		}
	}
	if len(exits) == 0 {
		ff.closedBeforeAll, ff.allTakeLock, ff.allDone, ff.allCloseOut = 0, false, false, false
	}
	ff.visited = x.Visited()
	ff.unknown = x.UnknownCalls(nil)
	return ff
}

func checkFanout(c *Ctx, cfg fanoutCfg) {
	r, p := c.R, c.P
	pre := cfg.Prop
	if cfg.Prop == "C10" {
		r.Explanation = "Decides structural necessary conditions of C10 on events/batcher, over the events along the inlined paths of Subscribe, the queue callback, Close and the forwarder goroutines (constructs resolved by role): (M1) the subscriber list and the id counter only under the Batcher mutex; (M2) every send into a subscriber buffer made under the lock sits in a select with a channel the subscriber's forwarder closes BEFORE it takes the lock on its way out (otherwise a subscriber leaving with a full buffer wedges the delivery, every later one and Close); (M3) the close channel — the way out of the fan-out select — is closed by Close without the lock and without first waiting for the queue processor that may be stuck in that select; (M4) subscribers are registered only after the closed flag was read false under the lock, forwarder goroutines are added to the wait group under the lock before they start and call Done on every exit, every wait in them has a shutdown case (subscriber context and close channel), each closes its subscriber channel (before it calls Done) and takes the lock to deregister on every exit, Close marks closed, passes the lock barrier, then waits on every path; (M5) Batch enqueues the key through Processor.Enqueue with due time clock.Now()+interval on every path on which the batcher was not seen closed, the callback offers the item's value to every entry of the subscriber list in one critical section of the exclusively held lock during which the list is not modified, by a blocking send (no default, no timeout: the only alternatives are the subscriber's release channel and the close channel), and nothing is sent unless the closed flag was read false; the forwarder passes on exactly what it received; (M6) subscriber ids come from a counter field that is only ever incremented by one under the lock; (Q2/Q3/Q5/Q6/Q7/Q8) the necessary conditions of the queue processor the delivery rests on (atomic exit and token once, pop only after the identity re-check, not early, Enqueue's insert/token attempt/reset, heap order, signal channels), evaluated as in C06 under C10 rule ids; closeCh is closed only by the call of Close that won the closed flag. NOT decided: the per-key debounce law, exactly-once and delivery order over all timelines."
	} else {
		r.Explanation = "Decides structural necessary conditions of C11 on events/broadcaster, over the events along the inlined paths of Subscribe, Broadcast, Close and the forwarder goroutines (constructs resolved by role): (M1) the subscriber list and the id counter only under the Broadcaster mutex and the whole fan-out loop of Broadcast runs in one critical section (necessary for one common order); (M2) every send into a subscriber buffer under the lock selects on a channel the forwarder closes before taking the lock; (M3) the close channel is closed by Close without the lock a blocked Broadcast holds; (M4) subscribers registered only after the closed flag was read false under the lock, forwarders tracked (Add under the lock before go, Done on every exit), shutdown case in every wait, lock-protected deregistration on every exit, Close marks closed, passes the lock barrier and waits; (M5) Broadcast delivers its argument to every entry of the subscriber list, which is not modified inside the loop, holding the lock exclusively (not in read mode) and by a blocking send whose only alternatives are the subscriber's release channel and the close channel, and sends nothing unless the closed flag was read false; forwarders pass on exactly what they received; closeCh is closed only by the call of Close that won the closed flag; (M6) subscriber ids come from a counter field that is only ever incremented by one under the lock. NOT decided: exactly-once and common order as runtime facts over all histories."
	}
	r.Assumptions = append(r.Assumptions, "type-based lock and channel identity: all subscribers' buffers are one abstract channel", "subscriber contexts and caller-owned channels can always fire/are drained by their owners", "calls are followed through static calls, defer and go of same-package functions and through function values whose target is visible in the package (closure parameters, locals and captured cells, bound method values, literal slices of steps up to 8 entries, func-typed fields assigned once, single-implementation unexported interfaces, sync.Once.Do); other dynamic calls are not followed and turn absence claims into UNDECIDED")
	r.Rule(pre+".M1-guard", "subscriber list / id counter only under the component lock", 3)
	r.Rule(pre+".M6-unique-id", "subscriber ids come from a counter that only grows, incremented under the lock", 1)
	if cfg.Prop == "C10" {
		r.Rule("C10.Q2-atomic-exit", "queue processor: no unlock between 'queue empty' and release of the running token (shared with C06)", 2)
		r.Rule("C10.Q3-execute", "queue processor: Pop in the critical section that re-checked the head (shared with C06)", 2)
		r.Rule("C10.Q6-enqueue", "queue processor: Enqueue replaces by key, always tries to start the loop, stays silent towards a running loop only if the head is unchanged (shared with C06)", 4)
		r.Rule("C10.Q5-not-early", "queue processor: execute only when due (shared with C06)", 2)
		r.Rule("C10.Q7-order", "queue processor: heap ordered by the scheduled instant (shared with C06)", 1)
		r.Rule("C10.Q8-signals", "queue processor: token channel capacities and reset handling (shared with C06)", 4)
	}
	r.Rule(pre+".M2-departure-release", "sends into subscriber buffers under the lock select on a channel closed by the departing forwarder before it takes the lock", 1)
	r.Rule(pre+".M3-close-escape", "the close channel can be closed without the lock held by a blocked fan-out and without waiting for it", 1)
	r.Rule(pre+".M4-forwarders", "forwarders tracked by the wait group, with shutdown cases, deregistering under the lock; Close marks closed, passes the lock barrier, then waits", 6)
	r.Rule(pre+".M5-delivery", "the value is offered to every subscriber entry by a blocking send whose only ways out are departure and Close, under the exclusively held lock; nothing sent once closed", 3)

	ro := fanResolve(c, cfg)
	e := c.Locks()
	wg := NewWaitGraph(p, e, ro.fns)
	comp := cfg.Rel + "." + cfg.Type

	sf := fanSubscribe(c, ro)

	// ---- M1 / M6
	guards := []GuardSpec{{Field: ro.subs, Lock: ro.lockID}}
	var counter FieldID
	if !sf.idSrc.IsZero() {
		src := sf.idSrc.V
		if os.Getenv("KC_DEBUG") != "" {
			fmt.Fprintf(os.Stderr, "idSrc: %T %v in %v\n", src, src, sf.idSrc.F)
		}
		if bo, ok := src.(*ssa.BinOp); ok && (bo.Op == token.ADD || bo.Op == token.SUB) {
			// counter ± constant
			if _, isK := bo.Y.(*ssa.Const); isK {
				src = ro.t.Resolve(sf.idSrc.F, bo.X).V
			} else if _, isK := bo.X.(*ssa.Const); isK && bo.Op == token.ADD {
				src = ro.t.Resolve(sf.idSrc.F, bo.Y).V
			}
		}
		if cv, ok := src.(*ssa.Convert); ok {
			src = ro.t.Resolve(sf.idSrc.F, cv.X).V
		}
		if id, _, ok := fieldOfValue(src); ok && strings.HasPrefix(id.Type, ro.pkg+".") && id.Type != ro.entryT {
			counter = id
			guards = append(guards, GuardSpec{Field: id, Lock: ro.lockID})
		}
	}
	held, inc := evHeld(p, e, ro.t, append(evExportedRoots(ro.fns), ro.fanRoot), ro.lockID)
	if inc != "" {
		r.Undecide("M1: %s", inc)
	}
	heldAt := func(in ssa.Instruction) bool {
		if e.At(in)[ro.lockID] != ModeNone {
			return true
		}
		hs, ok := held[in]
		return ok && hs&evSeenUnheld == 0
	}
	evGuarded(p, e, r, pre+".M1-guard", ro.fns, held, guards)
	fanUniqueID(c, ro, sf, counter, heldAt)

	// ---- forwarders
	if len(sf.fwd) == 0 {
		evAbsent(r, sf.unknown, pre+".M4-forwarders", comp+" forwarder", p.Pos(ro.subFn.Pos()), "Subscribe no longer starts a forwarder goroutine on any path (all same-package callees followed)")
		return
	}
	fw := fanForwarders(c, ro, sf)
	fwdPos := p.Pos(sf.fwd[0].fn.Pos())

	// entry fields whose channel the forwarder closes before it takes the lock, on every exit
	var releaseFields []string
	for fld := range sf.entryStores {
		for i, ck := range fw.chanKeys {
			if ck == "entry:"+fld && fw.closedBeforeAll&(1<<uint(i)) != 0 {
				releaseFields = append(releaseFields, "field:"+ro.entryT+"."+fld)
			}
		}
	}
	sort.Strings(releaseFields)

	// ---- M2 / M5: the fan-out
	nSend, nEscape := fanDelivery(c, ro, releaseFields, fw.takesLock, fw.unknown, heldAt)

	// ---- M3 and Close
	fanClose(c, ro, wg, nSend, nEscape)
	wg.CheckLW2(r, pre+".M4-forwarders")
	wg.CheckLW1(r, pre+".M3-close-escape")

	// ---- M4
	// a missing event is only positively missing when every call on the way was followed
	check := func(ok bool, unknown, construct, okMsg, badMsg string) {
		if !ok && unknown != "" {
			r.Undecide("%s: %s — but not every call could be followed (%s)", construct, badMsg, unknown)
			return
		}
		r.Check(ok, pre+".M4-forwarders", construct, fwdPos, okMsg, badMsg)
	}
	check(sf.untracked == "", sf.unknown, comp+" forwarder tracked (Add)", "wg.Add under the lock before the forwarder starts", sf.untracked)
	check(sf.unchecked == "", sf.unknown, comp+" Subscribe closed-check", "subscribers are registered only after the closed flag was read false under the lock", sf.unchecked)
	check(fw.allDone, fw.unknown, comp+" forwarder tracked (Done)", "wg.Done on every exit of the forwarder", "a forwarder can exit without wg.Done: Close waits forever")
	for _, w := range fw.waits {
		construct := FuncName(p, w.in.Parent()) + " " + w.desc
		if w.missing == "" {
			r.OK(pre+".M4-forwarders", construct, p.Pos(instrPos(w.in)), "wait has a shutdown case")
		} else {
			r.Violation(pre+".M4-forwarders", construct, p.Pos(instrPos(w.in)), "a goroutine that Close waits for can block here without the shutdown case(s)"+w.missing+": Close (or a departing subscriber's deregistration) may never complete")
		}
	}
	why := ""
	switch {
	case (!fw.takesLock || !fw.dereg) && fw.unknown != "":
		r.Undecide("%s forwarder deregisters: no lock-protected removal from the subscriber list found, but not every call could be followed (%s)", comp, fw.unknown)
	case !fw.takesLock || !fw.dereg:
		why = "a departing forwarder never removes its entry from the subscriber list under the lock (all same-package callees followed): later deliveries keep sending into a buffer nobody drains"
	case !fw.allTakeLock:
		why = "a forwarder can exit at " + fw.exitWithoutLock + " without running the lock-protected deregistration: its entry stays in the subscriber list and later deliveries keep sending into a buffer nobody drains"
	}
	r.Check(why == "", pre+".M4-forwarders", comp+" forwarder deregisters", fwdPos, "every exit of the forwarder passes through the lock-protected removal of its entry", why)
	if cfg.Prop == "C10" {
		check(fw.doneBeforeClose == "", "", comp+" forwarder closes subscriber channel before Done", "the subscriber channel is closed before the forwarder reports Done to the wait group", "a forwarder (exit at "+fw.doneBeforeClose+") calls wg.Done before it has closed the subscriber's channel: Close's wg.Wait can return while subscriber channels are still open (statement: after Close returns every subscriber channel has been closed)")
		check(fw.allCloseOut, fw.unknown, comp+" forwarder closes subscriber channel", "subscriber channel closed on every exit of the forwarder", "the forwarder can exit without closing the subscriber's channel (statement: after Close every subscriber channel has been closed)")
	}

	// ---- M5
	if fw.forwardBad != "" || !fw.forwardOK {
		bad := fw.forwardBad
		if bad == "" {
			bad = "the forwarder never passes a value received from its buffer to the subscriber's channel (all same-package callees followed)"
		}
		r.Violation(pre+".M5-delivery", comp+" forwarder forwards", fwdPos, bad)
	} else {
		r.OK(pre+".M5-delivery", comp+" forwarder forwards", fwdPos, "forwarder passes on exactly what it received from its buffer")
	}
	if cfg.Prop == "C10" {
		c10Batch(c, ro)
		c10QueueRules(c)
	}
}

// ---------------------------------------------------------------- Close: M3, barrier, waits, close-once

type fanCloseState struct {
	held      bool
	marked    bool // closed flag set
	barrier   bool // lock acquired after marking
	waitOK    bool
	waitEarly bool
	blocked   uint8 // index+1 into reasons: something that may wait for a blocked fan-out happened
	won       uint8
}

func fanClose(c *Ctx, ro *fanRoles, wg *WaitGraph, nSend, nEscape int) {
	r, p := c.R, c.P
	e := c.Locks()
	pre := ro.cfg.Prop
	comp := ro.cfg.Rel + "." + ro.cfg.Type
	x := NewEvExplorer[fanCloseState](ro.t)
	var reasons []string
	reason := func(s string) uint8 {
		for i, r := range reasons {
			if r == s {
				return uint8(i + 1)
			}
		}
		reasons = append(reasons, s)
		return uint8(len(reasons))
	}
	nClose, okSite := 0, false
	var badSites []string
	twice := ""
	var firstClose token.Pos
	x.Instr = func(cx *EvCtx[fanCloseState], in ssa.Instruction, s fanCloseState) (fanCloseState, bool) {
		ci, ok := in.(ssa.CallInstruction)
		if !ok {
			return s, true
		}
		if _, isGo := in.(*ssa.Go); isGo {
			return s, true
		}
		if id, kind, ok := evLockOp(cx, e, ci); ok && id == ro.lockID {
			if kind == opLock || kind == opRLock {
				s.held = true
				if s.marked {
					s.barrier = true
				}
				if s.blocked == 0 {
					s.blocked = reason("it comes after acquiring " + shortID(ro.lockID) + " (at " + p.Pos(instrPos(in)) + "), which the blocked fan-out holds")
				}
			} else {
				s.held = false
			}
			return s, true
		}
		switch evFlagOp(ci, ro.closed) {
		case "CompareAndSwap", "Store", "Swap":
			s.marked = true
		}
		if callIs(ci, "sync", "Once", "Do") && s.won == 0 {
			s.won = 1 // what runs inside once.Do runs at most once
		}
		if callIs(ci, "sync", "WaitGroup", "Wait") && evWgArg(cx, ci) == ro.wgID {
			if s.barrier {
				s.waitOK = true
			} else {
				s.waitEarly = true
			}
			if s.blocked == 0 {
				s.blocked = reason("it comes after wg.Wait() (at " + p.Pos(instrPos(in)) + ")")
			}
			return s, true
		}
		if builtinName(ci) == "close" && len(ci.Common().Args) == 1 && chanIdent(cx.Resolve(ci.Common().Args[0]).V) == ro.closeCh {
			nClose++
			if !firstClose.IsValid() {
				firstClose = instrPos(in)
			}
			at := p.Pos(instrPos(in))
			switch {
			case s.held:
				badSites = append(badSites, "close at "+at+" runs with "+shortID(ro.lockID)+" held, which the blocked fan-out holds")
			case s.blocked != 0:
				badSites = append(badSites, "close at "+at+": "+reasons[s.blocked-1])
			default:
				okSite = true
			}
			if s.won != 1 {
				twice = "the close channel can be closed at " + at + " by a call of Close that did not win the closed flag: a second Close panics"
			}
			return s, true
		}
		// calls into other module code that may block on the goroutine stuck in the fan-out
		if !cx.Inlined {
			if cal := staticCallee(ci); cal != nil && p.funcSet[cal] && s.blocked == 0 {
				var ks []string
				for k := range wg.mayBlock[cal] {
					ks = append(ks, k)
				}
				sort.Strings(ks)
				for _, k := range ks {
					if k == "wg.Wait" || strings.HasPrefix(k, "send:") || strings.HasPrefix(k, "recv:") || k == "lock:"+ro.lockID {
						s.blocked = reason("it comes after the call to " + FuncName(p, cal) + " (at " + p.Pos(instrPos(in)) + "), which may block (" + k + ") on the goroutine stuck in the fan-out select")
						break
					}
				}
			}
		}
		return s, true
	}
	x.Branch = func(cx *EvCtx[fanCloseState], ifi *ssa.If, taken bool, s fanCloseState) (fanCloseState, bool) {
		key, neg := cx.CondKey(ifi.Cond)
		if won, ok := evFlagWon(key, taken != neg, ro.closed); ok {
			s.won = 2
			if won {
				s.won = 1
			}
		}
		return s, true
	}
	exits := x.Explore(ro.t.Root(ro.closeFn), fanCloseState{})
	if x.Incomplete != "" {
		r.Undecide("Close exploration: %s", x.Incomplete)
		return
	}
	okWait, okBarrier := len(exits) > 0, len(exits) > 0
	for _, ex := range exits {
		s := ex.P.abs
		if !s.waitOK && !s.waitEarly {
			okWait = false
		}
		if !s.waitOK || s.waitEarly {
			okBarrier = false
		}
	}
	pos := p.Pos(ro.closeFn.Pos())
	// M3
	construct := "close sites of " + shortCh(ro.closeCh)
	switch {
	case nSend > 0 && nEscape == 0:
		r.Violation(pre+".M3-close-escape", construct, pos, "the fan-out select no longer has the close-channel case: Close cannot release a delivery blocked on a stalled subscriber")
	case nClose == 0:
		evAbsent(r, x.UnknownCalls(nil), pre+".M3-close-escape", construct, pos, "a select under a lock relies on "+shortCh(ro.closeCh)+" to be released but Close never closes it (all same-package callees followed)")
	case okSite:
		r.OK(pre+".M3-close-escape", construct, p.Pos(firstClose), "Close closes the channel without the lock held by the blocked select and without waiting for it")
	default:
		sort.Strings(badSites)
		r.Violation(pre+".M3-close-escape", construct, p.Pos(firstClose), shortCh(ro.closeCh)+" is the way out of a select that runs with a lock held, but it can only be closed after acquiring that lock / after waiting for the goroutine stuck in that select: both sides wait forever", badSites...)
	}
	r.Check(okBarrier, pre+".M4-forwarders", comp+".Close barrier", pos, "Close passes through the lock after marking closed and before waiting for the forwarders",
		"Close starts waiting for the forwarders without first passing through the component lock after setting the closed flag: a Subscribe that already passed its closed check but has not yet done wg.Add is not waited for — Close returns, and its forwarder then starts, delivers, and closes the subscriber channel after Close returned")
	r.Check(okWait, pre+".M4-forwarders", comp+".Close waits", pos, "Close waits for the forwarders on every path", "Close can return without waiting for the forwarder goroutines: values may still be delivered and subscriber channels closed after Close returned")
	// close sites outside Close's call tree
	visited := map[*ssa.Function]bool{}
	for _, fn := range x.Visited() {
		visited[fn] = true
	}
	for _, u := range wg.byCh[ro.closeCh] {
		if u.Kind != "close" || visited[u.Fn] {
			continue
		}
		cas := false
		for _, dc := range domConds(u.Instr.Block()) {
			if call, val, ok := boolCallCond(dc.If.Cond, dc.Branch); ok && val && calleeObj(call) != nil && calleeObj(call).Name() == "CompareAndSwap" {
				cas = true
			}
		}
		if !cas {
			twice = "the close channel is also closed at " + p.Pos(instrPos(u.Instr)) + " in " + FuncName(p, u.Fn) + " without winning the closed flag: a later Close panics"
		}
	}
	if nClose > 0 {
		r.Check(twice == "", pre+".M4-forwarders", comp+".Close close(closeCh) once", p.Pos(firstClose), "the close channel is closed only by the winner of the closed flag", twice)
	}
}

// ---------------------------------------------------------------- M5 delivery

type fanDelState struct {
	held      bool
	shared    bool // held in read mode only (RWMutex.RLock)
	notClosed bool
}

// fanDelivery: the fan-out iterates over all of the subscriber list within one
// critical section and the loop has no exit other than exhaustion; sends happen
// only after the closed flag was read false under the lock; the value sent is
// the fan-out's argument.
func fanDelivery(c *Ctx, ro *fanRoles, releaseFields []string, takesLock bool, fwdUnknown string, heldAt func(ssa.Instruction) bool) (nUnderLock, nEscape int) {
	r, p := c.R, c.P
	e := c.Locks()
	pre := ro.cfg.Prop
	comp := ro.cfg.Rel + "." + ro.cfg.Type
	root := ro.t.Root(ro.fanRoot)
	x := NewEvExplorer[fanDelState](ro.t)
	var header *ssa.BasicBlock
	nSend := 0
	whySend, whyClosed, unkSend := "", "", ""
	fromRoot := func(cx *EvCtx[fanDelState], v ssa.Value) bool {
		cur := cx.Resolve(v)
		for i := 0; i < 8; i++ {
			switch y := cur.V.(type) {
			case *ssa.Parameter:
				return cur.F == root
			case *ssa.UnOp:
				if y.Op != token.MUL {
					return false
				}
				cur = cx.ResolveIn(cur.F, y.X)
			case *ssa.FieldAddr:
				cur = cx.ResolveIn(cur.F, y.X)
			case *ssa.Field:
				cur = cx.ResolveIn(cur.F, y.X)
			default:
				return false
			}
		}
		return false
	}
	// where (through which call sites) the sends and unlocks of the fan-out path happen
	chainOf := func(cx *EvCtx[fanDelState], in ssa.Instruction) []ssa.Instruction {
		out := []ssa.Instruction{in}
		for f := cx.F; f != nil && f.site != nil; f = f.parent {
			out = append(out, f.site.(ssa.Instruction))
		}
		return out
	}
	var sendChains, unlockChains, listWriteChains [][]ssa.Instruction
	m2seen := map[ssa.Instruction]bool{}
	m2rule := pre + ".M2-departure-release"
	m2 := func(cx *EvCtx[fanDelState], in ssa.Instruction, s fanDelState) {
		if !s.held || m2seen[in] {
			return
		}
		m2seen[in] = true
		nUnderLock++
		construct := FuncName(p, in.Parent()) + " send to subscriber buffer"
		sel, isSel := in.(*ssa.Select)
		if !isSel {
			r.Violation(m2rule, construct, p.Pos(instrPos(in)), "unconditional send into a subscriber buffer while holding the lock: a stalled or departed subscriber blocks it forever")
			return
		}
		// M5: the offer must not be lossy: no default, and every alternative is a departure / shutdown signal
		lossy, unkCase := "", ""
		if !sel.Blocking {
			lossy = "the send into the subscriber's buffer is non-blocking (the select has a default): a subscriber with a full buffer silently loses the value while prompt subscribers get it (not exactly-once, subscribers see different sequences)"
		}
		for _, st := range sel.States {
			id := chanIdent(cx.Resolve(st.Chan).V)
			if st.Dir == types.SendOnly {
				if id != ro.bufCh && lossy == "" {
					unkCase = "the select also sends on " + shortCh(id)
				}
				continue
			}
			isRelease := id == ro.closeCh
			for _, rf := range releaseFields {
				if id == rf {
					isRelease = true
				}
			}
			if strings.HasPrefix(id, "field:"+ro.entryT+".") {
				isRelease = true // a per-subscriber channel (judged by M2)
			}
			switch {
			case isRelease:
			case strings.HasPrefix(id, "timer:") || strings.HasPrefix(id, "call:After"):
				lossy = "the send into the subscriber's buffer can be abandoned on a timeout (" + shortCh(id) + "): a slow subscriber silently loses the value"
			default:
				unkCase = "the select can abandon the send on " + shortCh(id) + ", which is neither the subscriber's release channel nor the close channel"
			}
		}
		construct5 := FuncName(p, in.Parent()) + " offer is not lossy"
		switch {
		case lossy != "":
			r.Violation(pre+".M5-delivery", construct5, p.Pos(instrPos(in)), lossy)
		case unkCase != "":
			r.Undecide("%s: %s — whether the value can be lost for a subscriber that stays subscribed is not decided", construct5, unkCase)
		default:
			r.OK(pre+".M5-delivery", construct5, p.Pos(instrPos(in)), "blocking send; the only ways out are the subscriber's departure and Close")
		}
		ok := !takesLock
		for _, st := range sel.States {
			if st.Dir != types.RecvOnly {
				continue
			}
			id := chanIdent(cx.Resolve(st.Chan).V)
			for _, rf := range releaseFields {
				if id == rf {
					ok = true
				}
			}
			if id == ro.closeCh {
				nEscape++
			}
		}
		if !sel.Blocking {
			ok = true // non-blocking offer cannot wedge
			nEscape++
		}
		if !ok && fwdUnknown != "" {
			r.Undecide("%s: no per-subscriber channel closed by the forwarder before it takes the lock was found that this select listens to — but not every call of the forwarder could be followed (%s)", construct, fwdUnknown)
			return
		}
		r.Check(ok, m2rule, construct, p.Pos(instrPos(in)),
			"the send can be abandoned when the subscriber's forwarder leaves (it closes a per-subscriber channel before taking the lock)",
			"the fan-out sends into a subscriber's buffer while holding "+shortID(ro.lockID)+"; the forwarder that drains this buffer needs the same lock to deregister when its context ends, and closes no per-subscriber channel before that which this select listens to: a subscriber leaving with a full buffer wedges this delivery, every later one and Close")
	}
	onSend := func(cx *EvCtx[fanDelState], ch, val ssa.Value, in ssa.Instruction, s fanDelState) {
		if chanIdent(cx.Resolve(ch).V) != ro.bufCh {
			return
		}
		nSend++
		sendChains = append(sendChains, chainOf(cx, in))
		m2(cx, in, s)
		if s.held && s.shared && whySend == "" {
			whySend = "the value is sent into a subscriber buffer at " + p.Pos(instrPos(in)) + " while " + shortID(ro.lockID) + " is held in read (shared) mode only: two concurrent fan-outs interleave their per-subscriber loops and subscribers see different orders"
		}
		if !s.held && whySend == "" {
			whySend = "the value is sent into a subscriber buffer at " + p.Pos(instrPos(in)) + " without holding " + shortID(ro.lockID) + ": concurrent fan-outs interleave and subscribers see different orders"
		}
		if !fromRoot(cx, val) {
			if evDerivesFromParam(cx, cx.F, val, root) {
				if unkSend == "" {
					unkSend = "the value sent to subscribers at " + p.Pos(instrPos(in)) + " is computed from the argument of " + FuncName(p, ro.fanRoot) + " in a way that is not a plain selection of it"
				}
			} else if whySend == "" {
				whySend = "the value sent to subscribers at " + p.Pos(instrPos(in)) + " is not the value passed to " + FuncName(p, ro.fanRoot)
			}
		}
		if !s.notClosed && whyClosed == "" {
			whyClosed = "a value can be sent into a subscriber buffer at " + p.Pos(instrPos(in)) + " without the closed flag having been read false: values can be sent after Close returned"
		}
	}
	x.Instr = func(cx *EvCtx[fanDelState], in ssa.Instruction, s fanDelState) (fanDelState, bool) {
		switch v := in.(type) {
		case *ssa.Send:
			onSend(cx, v.Chan, v.X, in, s)
		case *ssa.Select:
			for _, st := range v.States {
				if st.Dir == types.SendOnly {
					onSend(cx, st.Chan, st.Send, in, s)
				}
			}
		case *ssa.Store:
			if fa, ok := v.Addr.(*ssa.FieldAddr); ok && fieldIDOfAddr(fa) == ro.subs {
				listWriteChains = append(listWriteChains, chainOf(cx, in))
			}
		case *ssa.MapUpdate:
			if id, _, ok := fieldOfValue(cx.Resolve(v.Map).V); ok && id == ro.subs {
				listWriteChains = append(listWriteChains, chainOf(cx, in))
			}
		case *ssa.Go:
		case ssa.CallInstruction:
			if builtinName(v) == "delete" && len(v.Common().Args) == 2 {
				if id, _, ok := fieldOfValue(cx.Resolve(v.Common().Args[0]).V); ok && id == ro.subs {
					listWriteChains = append(listWriteChains, chainOf(cx, in))
				}
			}
			if id, kind, ok := evLockOp(cx, e, v); ok && id == ro.lockID {
				s.held = kind == opLock || kind == opRLock
				s.shared = kind == opRLock
				if !s.held {
					unlockChains = append(unlockChains, chainOf(cx, in))
				}
			}
		}
		return s, true
	}
	x.Branch = func(cx *EvCtx[fanDelState], ifi *ssa.If, taken bool, s fanDelState) (fanDelState, bool) {
		key, neg := cx.CondKey(ifi.Cond)
		val := taken != neg
		switch kv := key.V.(type) {
		case *ssa.Call:
			if evFlagOp(kv, ro.closed) == "Load" {
				s.notClosed = !val
			}
		case *ssa.BinOp:
			for _, o := range []ssa.Value{kv.X, kv.Y} {
				if call, ok := cx.ResolveIn(key.F, o).V.(*ssa.Call); ok && builtinName(call) == "len" {
					if id, _, ok := fieldOfValue(cx.ResolveIn(key.F, call.Call.Args[0]).V); ok && id == ro.subs && kv.Parent() == ifi.Parent() {
						header = ifi.Block()
					}
				}
			}
		}
		return s, true
	}
	x.Explore(root, fanDelState{})
	if x.Incomplete != "" {
		r.Undecide("fan-out exploration: %s", x.Incomplete)
		return
	}
	// sends into subscriber buffers under the lock elsewhere in the package
	visited := map[*ssa.Function]bool{}
	for _, fn := range x.Visited() {
		visited[fn] = true
	}
	for _, fn := range ro.fns {
		if visited[fn] {
			continue
		}
		allInstrs(fn, func(in ssa.Instruction) {
			bad := false
			switch v := in.(type) {
			case *ssa.Send:
				bad = chanIdent(v.Chan) == ro.bufCh
			case *ssa.Select:
				for _, st := range v.States {
					if st.Dir == types.SendOnly && chanIdent(st.Chan) == ro.bufCh && v.Blocking {
						bad = true
					}
				}
			}
			if bad && heldAt(in) {
				nUnderLock++
				r.Undecide("%s sends into a subscriber buffer under the lock at %s, outside the fan-out path: departure release not analysed there", FuncName(p, fn), p.Pos(instrPos(in)))
			}
		})
	}
	construct := comp + " fan-out loop"
	pos := p.Pos(ro.fanRoot.Pos())
	if nSend == 0 {
		evAbsent(r, x.UnknownCalls(nil), pre+".M5-delivery", construct, pos, "the fan-out no longer sends into the subscriber buffers on any path (all same-package callees followed)")
		return
	}
	if whySend == "" && unkSend != "" {
		r.Undecide("%s fan-out sends: %s", comp, unkSend)
	} else {
		r.Check(whySend == "", pre+".M5-delivery", comp+" fan-out sends", pos, "the fan-out's argument is sent into the subscriber buffers while holding the lock", whySend)
	}
	if header == nil {
		r.Undecide("%s: the loop over the subscriber list is not an index loop bounded by len(%s) (form not recognised)", construct, ro.subs)
	} else {
		fan := header.Parent()
		inLoop := map[*ssa.BasicBlock]bool{}
		fromH := reachableFrom(header, nil)
		for _, b := range fan.Blocks {
			if fromH[b] && reachableFrom(b, nil)[header] {
				inLoop[b] = true
			}
		}
		why := ""
		hasSend := false
		scan := func(f *ssa.Function, in ssa.Instruction) {
			switch v := in.(type) {
			case *ssa.Select:
				for _, st := range v.States {
					if st.Dir == types.SendOnly {
						hasSend = true
					}
				}
			case *ssa.Send:
				hasSend = true
			case *ssa.Call:
				if id, kind, ok := e.lockOp(v); ok && id == ro.lockID && (kind == opUnlock || kind == opRUnlock) {
					why = "the lock is released inside the fan-out loop (in " + FuncName(p, f) + "): concurrent fan-outs interleave and subscribers see different orders"
				}
			}
		}
		var blocks []*ssa.BasicBlock
		for _, b := range fan.Blocks {
			if inLoop[b] {
				blocks = append(blocks, b)
			}
		}
		for _, b := range blocks {
			for _, s := range b.Succs {
				if !inLoop[s] && b != header && !endsInPanic(s) {
					why = "the fan-out loop can be left early at " + p.Pos(instrPos(b.Instrs[len(b.Instrs)-1])) + ": the remaining subscribers never receive the value"
				}
			}
			for _, in := range b.Instrs {
				scan(fan, in)
				if call, ok := in.(*ssa.Call); ok {
					if cal := staticCallee(call); cal != nil && ro.inPkg(cal) {
						for _, f := range evCalleeClosure(p, cal) {
							allInstrs(f, func(j ssa.Instruction) { scan(f, j) })
						}
					}
				}
			}
		}
		// also through function values: the explored sends / unlocks whose call chain passes through the loop
		through := func(chains [][]ssa.Instruction) ssa.Instruction {
			for _, ch := range chains {
				for _, in := range ch {
					if in.Parent() == fan && inLoop[in.Block()] {
						return ch[0]
					}
				}
			}
			return nil
		}
		if through(sendChains) != nil {
			hasSend = true
		}
		if u := through(unlockChains); u != nil && why == "" {
			why = "the lock is released inside the fan-out loop (at " + p.Pos(instrPos(u)) + "): concurrent fan-outs interleave and subscribers see different orders"
		}
		if w := through(listWriteChains); w != nil && why == "" {
			why = "the subscriber list is modified (at " + p.Pos(instrPos(w)) + ") inside the loop that iterates over it: the entries after the modified position shift under the loop, so for this value a subscriber that stays subscribed is skipped and another is offered it twice"
		}
		if !hasSend && why == "" {
			why = "no send into the subscriber buffers inside the loop over the subscriber list"
		}
		r.Check(why == "", pre+".M5-delivery", construct, p.Pos(instrPos(header.Instrs[len(header.Instrs)-1])), "every entry of the subscriber list is offered the argument's value within one critical section", why)
	}
	r.Check(whyClosed == "", pre+".M5-delivery", comp+" fan-out closed-check", pos, "fan-out skipped once closed", whyClosed)
	return
}

func endsInPanic(b *ssa.BasicBlock) bool {
	if len(b.Instrs) == 0 {
		return false
	}
	_, ok := b.Instrs[len(b.Instrs)-1].(*ssa.Panic)
	return ok
}

// ---------------------------------------------------------------- C10: Batch

// c10Batch: Batch enqueues through Processor.Enqueue an item whose due time
// (the field its ScheduledTime method returns) is clock.Now().Add(interval) and
// whose key (the field its Key method returns) is Batch's key.
func c10Batch(c *Ctx, ro *fanRoles) {
	r, p := c.R, c.P
	fn := p.Func(ro.cfg.Rel, ro.cfg.Type+".Batch")
	root := ro.t.Root(fn)
	type none struct {
		enq      bool // the key was enqueued on this path
		isClosed bool // the closed flag was read true on this path
	}
	x := NewEvExplorer[none](ro.t)
	x.Branch = func(cx *EvCtx[none], ifi *ssa.If, taken bool, s none) (none, bool) {
		key, neg := cx.CondKey(ifi.Cond)
		if call, ok := key.V.(*ssa.Call); ok && evFlagOp(call, ro.closed) == "Load" && taken != neg {
			s.isClosed = true
		}
		return s, true
	}
	nEnq := 0
	whyTTL, whyKey := "", ""
	retField := func(t types.Type, method string) (FieldID, *ssa.Function) {
		ms := p.SSA.MethodSets.MethodSet(t)
		for i := 0; i < ms.Len(); i++ {
			if ms.At(i).Obj().Name() != method {
				continue
			}
			mo, _ := ms.At(i).Obj().(*types.Func)
			if mo == nil {
				continue
			}
			f := p.SSA.FuncValue(mo.Origin())
			if f == nil {
				continue
			}
			f = origin(f)
			var out FieldID
			n := 0
			allInstrs(f, func(in ssa.Instruction) {
				if ret, ok := in.(*ssa.Return); ok && len(ret.Results) == 1 && in.Block() != f.Recover {
					if id, _, ok := fieldOfValue(ret.Results[0]); ok {
						out = id
						n++
					} else {
						n += 2
					}
				}
			})
			if n == 1 {
				return out, f
			}
			return FieldID{}, f
		}
		return FieldID{}, nil
	}
	var schedFn, keyFn *ssa.Function
	x.Instr = func(cx *EvCtx[none], in ssa.Instruction, s none) (none, bool) {
		call, ok := in.(*ssa.Call)
		if !ok {
			return s, true
		}
		obj := calleeObj(call)
		if obj == nil || obj.Name() != "Enqueue" || obj.Pkg() == nil || !strings.HasSuffix(obj.Pkg().Path(), "/events/queue") || len(call.Call.Args) != 2 {
			return s, true
		}
		nEnq++
		s.enq = true
		item := cx.Resolve(call.Call.Args[1])
		alloc, ok := item.V.(*ssa.Alloc)
		if !ok {
			whyTTL = "the item handed to Enqueue at " + p.Pos(call.Pos()) + " is not a fresh item built by Batch"
			return s, true
		}
		var due, key FieldID
		due, schedFn = retField(alloc.Type(), "ScheduledTime")
		key, keyFn = retField(alloc.Type(), "Key")
		stored := map[string]evVal{}
		for _, rf := range refs(alloc) {
			fa, ok := rf.(*ssa.FieldAddr)
			if !ok {
				continue
			}
			for _, rr := range refs(fa) {
				if st, ok := rr.(*ssa.Store); ok && st.Addr == ssa.Value(fa) {
					stored[fieldIDOfAddr(fa).Field] = cx.ResolveIn(item.F, st.Val)
				}
			}
		}
		// due = clock.Now().Add(<Duration field of the component>)
		okTTL := false
		if v, ok := stored[due.Field]; ok && due.Field != "" {
			if add, ok := v.V.(*ssa.Call); ok && callIs(add, "time", "Time", "Add") && len(add.Call.Args) == 2 {
				now := cx.ResolveIn(v.F, add.Call.Args[0])
				d := cx.ResolveIn(v.F, add.Call.Args[1])
				id, _, isF := fieldOfValue(d.V)
				if evCalleeName(now.V) == "Now" && isF && strings.HasPrefix(id.Type, ro.pkg+".") && namedKey(d.V.Type()) == "time.Duration" {
					okTTL = true
				}
			}
		}
		if !okTTL {
			whyTTL = "Batch no longer enqueues the key with due time clock.Now()+interval (the value its ScheduledTime() returns): debounce interval wrong or value never delivered"
		}
		okKey := false
		if v, ok := stored[key.Field]; ok && key.Field != "" {
			if pa, ok := v.V.(*ssa.Parameter); ok && v.F == root && len(fn.Params) > 1 && pa == fn.Params[1] {
				okKey = true
			}
		}
		if !okKey {
			whyKey = "the item Batch enqueues does not carry Batch's key as the key its Key() method returns: replace-by-key (the debounce) no longer works"
		}
		return s, true
	}
	skip := ""
	for _, ex := range x.Explore(root, none{}) {
		if !ex.P.abs.enq && !ex.P.abs.isClosed {
			skip = p.Pos(instrPos(ex.Ret))
		}
	}
	if x.Incomplete != "" {
		r.Undecide("Batch exploration: %s", x.Incomplete)
		return
	}
	pos := p.Pos(fn.Pos())
	defer func() {
		if nEnq > 0 {
			r.Check(skip == "", "C10.M5-delivery", "events/batcher.Batcher.Batch enqueues on every path", pos, "every path through Batch hands the key to the queue processor (unless the batcher was seen closed)", "Batch can return at "+skip+" without handing the key to the queue processor although the batcher was not seen closed: the value is dropped (a subscriber that is or becomes subscribed within the interval never gets it, and a pending older value for the key is not replaced)")
		}
	}()
	if nEnq == 0 {
		evAbsent(r, x.UnknownCalls(nil), "C10.M5-delivery", "events/batcher.Batcher.Batch enqueue", pos, "Batch no longer enqueues the key through the queue processor (all same-package callees followed)")
		return
	}
	r.Check(whyTTL == "", "C10.M5-delivery", "events/batcher.Batcher.Batch enqueue", pos, "Batch enqueues (replacing) the key with due time clock.Now()+interval", whyTTL)
	if schedFn != nil && keyFn != nil {
		r.Check(whyKey == "", "C10.M5-delivery", "events/batcher.Batcher.Batch item key", pos, "the enqueued item's Key() is Batch's key", whyKey)
	}
}

// c10QueueRules runs the queue.Processor rules of C06 that the batcher's
// delivery guarantee rests on, under C10 rule ids.
func c10QueueRules(c *Ctx) {
	old := c06Prefix
	c06Prefix = "C10."
	defer func() { c06Prefix = old }()
	ro := c06Resolve(c)
	c06AtomicExit(c, ro)
	c06Execute(c, ro)
	c06Enqueue(c, ro)
	c06NotEarly(c, ro)
	c06Signals(c, ro)
	c06Order(c, ro)
}

// ---------------------------------------------------------------- M6

// fanUniqueID: the id stored in a subscriber entry is the value of a counter
// field of the component that is only ever incremented (by one) under the lock.
func fanUniqueID(c *Ctx, ro *fanRoles, sf *fanSubFacts, counter FieldID, heldAt func(ssa.Instruction) bool) {
	r, p := c.R, c.P
	comp := ro.cfg.Rel + "." + ro.cfg.Type
	construct := comp + " subscriber id"
	rule := ro.cfg.Prop + ".M6-unique-id"
	if sf.idStore == nil {
		r.Violation(rule, construct, p.Pos(ro.subFn.Pos()), "subscriber entries no longer carry an id: a departing forwarder cannot identify its own entry")
		return
	}
	why := ""
	if counter.Field == "" {
		why = "the subscriber id is not taken from a counter field of the " + ro.cfg.Type + " (e.g. len of the subscriber list, which repeats after a departure): a newcomer can get the id of a live subscriber, and when it leaves its forwarder removes the wrong entry — that subscriber stays subscribed but never receives another value"
	} else {
		inc := false
		for _, fn := range ro.fns {
			allInstrs(fn, func(in ssa.Instruction) {
				st, ok := in.(*ssa.Store)
				if !ok {
					return
				}
				fa, ok := st.Addr.(*ssa.FieldAddr)
				if !ok || fieldIDOfAddr(fa) != counter || isFreshBase(fa.X) {
					return
				}
				if refDelta(st, counter) == 1 && heldAt(st) {
					inc = true
				} else {
					why = "the id counter " + counter.String() + " is assigned at " + p.Pos(st.Pos()) + " other than by +1 under the lock: ids can repeat"
				}
			})
		}
		if !inc && why == "" {
			why = "the id counter " + counter.String() + " is not incremented when a subscriber registers: all subscribers share one id"
		}
	}
	r.Check(why == "", rule, construct, p.Pos(sf.idStore.Pos()), "ids come from a monotonically increasing counter", why)
}

var _ = fmt.Sprint
