package main

// C18 helper: an interprocedural, lightly path-sensitive control-flow graph of
// the writer. Same-module callees that matter (they touch the file system or
// the writer's state) are expanded at their call sites, one frame per call
// site, so that the rules see `Write` the same way whether its steps are
// written inline, in extracted methods, in local closures or in bound method
// values. The nil-ness of a callee's error result is carried back to the
// caller (a return of a value of unknown nil-ness is split into a nil and a
// non-nil continuation), and the caller's `if err != nil` on that result only
// follows the feasible branch.

import (
	"fmt"
	"go/constant"
	"go/token"
	"go/types"
	"sort"
	"strings"

	"golang.org/x/tools/go/ssa"
)

type c18Frame struct {
	id     int
	fn     *ssa.Function
	parent *c18Frame
	site   *ssa.Call // the call in parent.fn that this frame expands (nil for the root)
	env    c18Env
	chain  []*ssa.Call
	depth  int
	// unrolled walks over literal slices: the current value of the index phi of each enclosing walk;
	// base = the frame this is an iteration of (nil for an ordinary frame)
	iter map[*ssa.Phi]int64
	base *c18Frame
}

// rootF: the ordinary frame an iteration frame belongs to.
func (fr *c18Frame) rootF() *c18Frame {
	if fr.base != nil {
		return fr.base
	}
	return fr
}

// c18WalkInfo describes a counted loop over a literal slice (`for _, x := range []T{a, b}`,
// `for i := 0; i < len(lit)-1; i++ { … lit[i] … }`) that the graph unrolls.
type c18WalkInfo struct {
	phi    *ssa.Phi
	init   int64 // value of the phi on entry
	ifi    *ssa.If
	blocks map[*ssa.BasicBlock]bool // the loop
}

const c18MaxUnroll = 8

func (fr *c18Frame) path(p *Prog) string {
	if fr.parent == nil {
		return FuncName(p, fr.fn)
	}
	return fr.parent.path(p) + ">" + FuncName(p, fr.fn)
}

type c18Node struct {
	id   int
	fr   *c18Frame
	in   ssa.Instruction // nil for exit nodes
	post bool            // continuation of an expanded call after the callee returned
	// knowledge about the error result of an expanded call of this frame, valid until the end of the block
	tagCall *ssa.Call
	tagNil  bool
	// exit nodes (root frame only): "nil" / "err"; ret = the return they belong to
	exit      string
	ret       *c18Node
	uncertain bool // exit whose feasibility is not established (returned value of unknown provenance)
	succs     []*c18Edge
	preds     []*c18Edge
}

type c18Edge struct {
	from, to *c18Node
	branch   int // If: 0 = true edge, 1 = false edge; otherwise -1
	// fact established along the edge: in frame factFr the value factVal is nil / non-nil
	hasFact bool
	factFr  *c18Frame
	factVal ssa.Value
	factNil bool
}

type c18Graph struct {
	p       *Prog
	tt      *c18Terms
	root    *c18Frame
	entry   *c18Node
	nodes   []*c18Node
	frames  []*c18Frame
	index   map[string]*c18Node
	frameOf map[string]*c18Frame
	// calls to relevant in-module functions that could not be expanded
	unknown  []string
	relevant func(*ssa.Function) bool
	cw       map[*ssa.Function]map[*ssa.Alloc]bool
	// function-typed construction-time fields of the state type and the function they hold
	funcFields map[string]*ssa.Function
	// interface-typed construction-time fields and the one concrete type they hold
	ifaceFields map[string]types.Type
	walks       map[*ssa.Function]map[*ssa.BasicBlock]*c18WalkInfo
}

// target: the function a call instruction runs: the static callee, or the one function a
// construction-time func field holds. dynamic = a call whose target is not known (interface
// method calls excluded: see dynamicNote).
func (g *c18Graph) target(fr *c18Frame, ci ssa.CallInstruction) (f *ssa.Function, dynamic bool) {
	if f := staticCallee(ci); f != nil {
		return f, false
	}
	cc := ci.Common()
	if cc.IsInvoke() {
		if id, _, ok := fieldOfValue(cc.Value); ok {
			if t := g.ifaceFields[id.String()]; t != nil && cc.Method != nil {
				if m := g.p.SSA.LookupMethod(t, cc.Method.Pkg(), cc.Method.Name()); m != nil {
					return m, false
				}
			}
		}
		return nil, false
	}
	if _, isBuiltin := cc.Value.(*ssa.Builtin); isBuiltin {
		return nil, false
	}
	if t := g.resolveFunc(fr, cc.Value, 0); t != nil {
		return t, false
	}
	return nil, true
}

// resolveFunc: the one function a function-typed value denotes in frame fr: a function or closure
// literal, a construction-time func field, a parameter bound to such a value at the call site of the
// frame (callback helpers like withLock(func(){…})), an element of a literal slice at a known
// index (unrolled walk), or a local variable cell holding one of these.
func (g *c18Graph) resolveFunc(fr *c18Frame, v ssa.Value, depth int) *ssa.Function {
	if depth > 6 || fr == nil {
		return nil
	}
	switch x := v.(type) {
	case *ssa.Function:
		return origin(x)
	case *ssa.MakeClosure:
		f, _ := x.Fn.(*ssa.Function)
		return f
	case *ssa.ChangeType:
		return g.resolveFunc(fr, x.X, depth+1)
	case *ssa.Parameter:
		if fr.site == nil || fr.parent == nil {
			return nil
		}
		args := fr.site.Call.Args
		if fr.site.Call.IsInvoke() {
			args = append([]ssa.Value{fr.site.Call.Value}, args...)
		}
		for i, pa := range fr.fn.Params {
			if pa == x && i < len(args) {
				return g.resolveFunc(fr.parent, args[i], depth+1)
			}
		}
	case *ssa.FreeVar:
		if b := resolveFreeVar(x); b != nil {
			return g.resolveFunc(fr, b, depth+1)
		}
	case *ssa.UnOp:
		if x.Op != token.MUL {
			return nil
		}
		if id, _, ok := fieldOfValue(x); ok {
			if t := g.funcFields[id.String()]; t != nil {
				return t
			}
		}
		if el := c18LiteralElem(x, fr.iter); el != nil {
			return g.resolveFunc(fr, el, depth+1)
		}
		if fv, ok := x.X.(*ssa.FreeVar); ok {
			if cell, ok := resolveFreeVar(fv).(*ssa.Alloc); ok {
				return g.resolveFunc(fr, c18CellValue(cell), depth+1)
			}
		}
		if cell, ok := x.X.(*ssa.Alloc); ok {
			return g.resolveFunc(fr, c18CellValue(cell), depth+1)
		}
		if r := c18Root(x); r != ssa.Value(x) {
			return g.resolveFunc(fr, r, depth+1)
		}
	}
	return nil
}

// c18CellValue: the one value ever stored into a local variable cell (nil if none or several).
func c18CellValue(cell *ssa.Alloc) ssa.Value {
	var val ssa.Value
	for _, r := range refs(cell) {
		if st, ok := r.(*ssa.Store); ok && st.Addr == ssa.Value(cell) {
			if val != nil {
				return nil
			}
			val = st.Val
		}
	}
	return val
}

// c18ConstIndex evaluates an index expression under the bindings of the unrolled walks.
func c18ConstIndex(v ssa.Value, iter map[*ssa.Phi]int64) (int64, bool) {
	switch x := v.(type) {
	case *ssa.Const:
		if x.Value != nil {
			return x.Int64(), true
		}
	case *ssa.Phi:
		k, ok := iter[x]
		return k, ok
	case *ssa.BinOp:
		if x.Op == token.ADD {
			a, ok1 := c18ConstIndex(x.X, iter)
			b, ok2 := c18ConstIndex(x.Y, iter)
			return a + b, ok1 && ok2
		}
	}
	return 0, false
}

// c18LiteralElem: v = lit[i] where lit is a slice literal and i is known: the element value.
func c18LiteralElem(v ssa.Value, iter map[*ssa.Phi]int64) ssa.Value {
	u, ok := v.(*ssa.UnOp)
	if !ok || u.Op != token.MUL {
		return nil
	}
	ia, ok := u.X.(*ssa.IndexAddr)
	if !ok {
		return nil
	}
	els, ok := c18Varargs(ia.X)
	if !ok {
		return nil
	}
	k, ok := c18ConstExpr(ia.Index, iter)
	if !ok || k < 0 || int(k) >= len(els) {
		return nil
	}
	return els[k]
}

// c18ConstExpr evaluates an integer expression under the bindings of the unrolled loops; len of a
// literal slice is its number of elements.
func c18ConstExpr(v ssa.Value, iter map[*ssa.Phi]int64) (int64, bool) {
	switch x := v.(type) {
	case *ssa.Const:
		if x.Value != nil && x.Value.Kind() == constant.Int {
			return x.Int64(), true
		}
	case *ssa.Phi:
		k, ok := iter[x]
		return k, ok
	case *ssa.BinOp:
		a, ok1 := c18ConstExpr(x.X, iter)
		b, ok2 := c18ConstExpr(x.Y, iter)
		if !ok1 || !ok2 {
			return 0, false
		}
		switch x.Op {
		case token.ADD:
			return a + b, true
		case token.SUB:
			return a - b, true
		case token.MUL:
			return a * b, true
		}
	case *ssa.Call:
		if builtinName(x) == "len" && len(x.Call.Args) == 1 {
			if els, ok := c18Varargs(x.Call.Args[0]); ok {
				return int64(len(els)), true
			}
		}
	}
	return 0, false
}

// c18EvalCond evaluates an integer comparison under the bindings.
func c18EvalCond(cond ssa.Value, iter map[*ssa.Phi]int64) (truth, ok bool) {
	cmp, ok := decodeCond(cond, true)
	if !ok {
		return false, false
	}
	a, ok1 := c18ConstExpr(cmp.X, iter)
	b, ok2 := c18ConstExpr(cmp.Y, iter)
	if !ok1 || !ok2 {
		return false, false
	}
	switch cmp.Op {
	case token.LSS:
		return a < b, true
	case token.LEQ:
		return a <= b, true
	case token.GTR:
		return a > b, true
	case token.GEQ:
		return a >= b, true
	case token.EQL:
		return a == b, true
	case token.NEQ:
		return a != b, true
	}
	return false, false
}

// walksOf: the counted loops over literal slices in fn, by header block.
func (g *c18Graph) walksOf(fn *ssa.Function) map[*ssa.BasicBlock]*c18WalkInfo {
	if w, ok := g.walks[fn]; ok {
		return w
	}
	out := map[*ssa.BasicBlock]*c18WalkInfo{}
	for _, b := range fn.Blocks {
		if len(b.Instrs) == 0 {
			continue
		}
		ifi, ok := b.Instrs[len(b.Instrs)-1].(*ssa.If)
		if !ok {
			continue
		}
		for _, in := range b.Instrs {
			phi, ok := in.(*ssa.Phi)
			if !ok {
				break
			}
			// edges: one constant start value, every other edge phi+1
			init, hasInit, hasStep, good := int64(0), false, false, true
			for _, e := range phi.Edges {
				if k, ok := e.(*ssa.Const); ok && k.Value != nil && k.Value.Kind() == constant.Int {
					if hasInit && k.Int64() != init {
						good = false
					}
					init, hasInit = k.Int64(), true
					continue
				}
				if bo, ok := e.(*ssa.BinOp); ok && bo.Op == token.ADD && bo.X == ssa.Value(phi) {
					if k, ok := bo.Y.(*ssa.Const); ok && k.Value != nil && k.Int64() == 1 {
						hasStep = true
						continue
					}
				}
				good = false
			}
			if !good || !hasInit || !hasStep {
				continue
			}
			// the test must be decidable from the index, and the loop must index a small literal slice by it
			probe := map[*ssa.Phi]int64{phi: init}
			if _, ok := c18EvalCond(ifi.Cond, probe); !ok {
				continue
			}
			blocks := c18LoopBlocks(b)
			uses := false
			for lb := range blocks {
				for _, li := range lb.Instrs {
					if ia, ok := li.(*ssa.IndexAddr); ok {
						if els, ok := c18Varargs(ia.X); ok && len(els) <= c18MaxUnroll {
							if _, ok := c18ConstExpr(ia.Index, probe); ok {
								uses = true
							}
						}
					}
				}
			}
			if uses {
				out[b] = &c18WalkInfo{phi: phi, init: init, ifi: ifi, blocks: blocks}
			}
		}
	}
	g.walks[fn] = out
	return out
}

// iterFrame: the frame of one iteration of an unrolled walk.
func (g *c18Graph) iterFrame(fr *c18Frame, iter map[*ssa.Phi]int64) *c18Frame {
	base := fr.rootF()
	if len(iter) == 0 {
		return base
	}
	var ks []string
	for ph, k := range iter {
		ks = append(ks, fmt.Sprintf("%p=%d", ph, k))
	}
	sort.Strings(ks)
	key := fmt.Sprintf("iter|%d|%s", base.id, strings.Join(ks, ","))
	if c, ok := g.frameOf[key]; ok {
		return c
	}
	c := &c18Frame{id: len(g.frames), fn: base.fn, parent: base.parent, site: base.site, env: base.env, chain: base.chain, depth: base.depth, iter: iter, base: base}
	g.frames = append(g.frames, c)
	g.frameOf[key] = c
	return c
}

// enterBlock: the frame in which block b is executed when control arrives from frame fr.
func (g *c18Graph) enterBlock(fr *c18Frame, b *ssa.BasicBlock) *c18Frame {
	walks := g.walksOf(fr.fn)
	iter := map[*ssa.Phi]int64{}
	changed := false
	for ph, v := range fr.iter {
		// an index stays bound only inside its loop
		inside := false
		for _, w := range walks {
			if w.phi == ph && w.blocks[b] {
				inside = true
			}
		}
		if inside {
			iter[ph] = v
		} else {
			changed = true
		}
	}
	if w := walks[b]; w != nil {
		if cur, ok := iter[w.phi]; ok {
			iter[w.phi] = cur + 1 // back edge
		} else {
			iter[w.phi] = w.init
		}
		changed = true
	}
	if !changed {
		return fr
	}
	return g.iterFrame(fr, iter)
}

func (g *c18Graph) closureWrites(fn *ssa.Function) map[*ssa.Alloc]bool {
	if m, ok := g.cw[fn]; ok {
		return m
	}
	m := c18ClosureWrites(fn)
	g.cw[fn] = m
	return m
}

const c18MaxDepth = 6

func c18BuildGraph(p *Prog, tt *c18Terms, fn *ssa.Function, relevant func(*ssa.Function) bool, funcFields map[string]*ssa.Function, ifaceFields map[string]types.Type) *c18Graph {
	g := &c18Graph{walks: map[*ssa.Function]map[*ssa.BasicBlock]*c18WalkInfo{}, funcFields: funcFields, ifaceFields: ifaceFields, p: p, tt: tt, index: map[string]*c18Node{}, frameOf: map[string]*c18Frame{}, relevant: relevant, cw: map[*ssa.Function]map[*ssa.Alloc]bool{}}
	g.root = &c18Frame{fn: fn, env: c18Env{}}
	g.frames = append(g.frames, g.root)
	if len(fn.Blocks) == 0 {
		return g
	}
	g.entry = g.node(g.root, fn.Blocks[0].Instrs[0], false, nil, false)
	// expand
	for i := 0; i < len(g.nodes); i++ {
		g.expand(g.nodes[i])
		if len(g.nodes) > 20000 {
			g.unknown = append(g.unknown, "control-flow graph too large")
			break
		}
	}
	return g
}

func (g *c18Graph) node(fr *c18Frame, in ssa.Instruction, post bool, tagCall *ssa.Call, tagNil bool) *c18Node {
	key := fmt.Sprintf("%d|%p|%v|%p|%v", fr.id, in, post, tagCall, tagNil)
	if n, ok := g.index[key]; ok {
		return n
	}
	n := &c18Node{id: len(g.nodes), fr: fr, in: in, post: post, tagCall: tagCall, tagNil: tagNil}
	g.index[key] = n
	g.nodes = append(g.nodes, n)
	return n
}

func (g *c18Graph) exitNode(ret *c18Node, kind string) *c18Node {
	key := fmt.Sprintf("exit|%d|%s", ret.id, kind)
	if n, ok := g.index[key]; ok {
		return n
	}
	n := &c18Node{id: len(g.nodes), fr: ret.fr, exit: kind, ret: ret}
	g.index[key] = n
	g.nodes = append(g.nodes, n)
	return n
}

func (g *c18Graph) edge(from, to *c18Node, branch int) *c18Edge {
	e := &c18Edge{from: from, to: to, branch: branch}
	from.succs = append(from.succs, e)
	to.preds = append(to.preds, e)
	return e
}

// callee returns the function a call expands to, or nil. Synthetic bound-method
// wrappers and thunks are looked through.
func (g *c18Graph) callee(fr *c18Frame, call *ssa.Call) *ssa.Function {
	f, _ := g.target(fr, call)
	if f == nil || len(f.Blocks) == 0 {
		return nil
	}
	if g.p.InModule(f) {
		return f
	}
	if f.Synthetic != "" && (strings.Contains(f.Synthetic, "bound") || strings.Contains(f.Synthetic, "thunk") || strings.Contains(f.Synthetic, "wrapper")) {
		return f
	}
	return nil
}

// argRelevant: a function-typed argument of the call denotes a function that matters (callback helper).
func (g *c18Graph) argRelevant(fr *c18Frame, call *ssa.Call) bool {
	for _, a := range call.Call.Args {
		if _, isFn := a.Type().Underlying().(*types.Signature); !isFn {
			continue
		}
		if t := g.resolveFunc(fr, a, 0); t != nil && len(t.Blocks) > 0 && g.isRelevant(t) {
			return true
		}
	}
	return false
}

func (g *c18Graph) isRelevant(f *ssa.Function) bool {
	if f.Synthetic != "" && !g.p.InModule(f) {
		// wrapper: relevant if what it calls is
		rel := false
		allInstrs(f, func(in ssa.Instruction) {
			if c, ok := in.(*ssa.Call); ok {
				if t := staticCallee(c); t != nil && g.p.InModule(t) && g.relevant(t) {
					rel = true
				}
			}
		})
		return rel
	}
	return g.relevant(f)
}

func (g *c18Graph) childFrame(fr *c18Frame, call *ssa.Call, f *ssa.Function) *c18Frame {
	key := fmt.Sprintf("%d|%p", fr.id, call)
	if c, ok := g.frameOf[key]; ok {
		return c
	}
	env := c18Env{}
	for k, v := range fr.env {
		env[k] = v
	}
	g.tt.enter(fr)
	args := call.Call.Args
	if call.Call.IsInvoke() {
		args = append([]ssa.Value{call.Call.Value}, args...)
	}
	for i, pa := range f.Params {
		if i < len(args) {
			env[pa] = g.tt.Term(args[i])
		}
	}
	g.tt.leave()
	c := &c18Frame{id: len(g.frames), fn: f, parent: fr, site: call, env: env, depth: fr.depth + 1}
	c.chain = append(append([]*ssa.Call{}, fr.chain...), call)
	g.frames = append(g.frames, c)
	g.frameOf[key] = c
	return c
}

func (g *c18Graph) inChain(fr *c18Frame, f *ssa.Function) bool {
	for x := fr; x != nil; x = x.parent {
		if x.fn == f {
			return true
		}
	}
	return false
}

// retKind: "nil" / "nonnil" / "unknown" for the (last) result of the return at node n.
func (g *c18Graph) retKind(n *c18Node) (kind string, val ssa.Value) {
	ret := n.in.(*ssa.Return)
	if len(ret.Results) == 0 {
		return "void", nil
	}
	v := ret.Results[len(ret.Results)-1]
	if !c18IsErrorType(v) {
		return "void", nil
	}
	kind = c18ReturnErrKind(ret, g.closureWrites(n.fr.fn))
	val = c18RetRoot(ret, g.closureWrites(n.fr.fn))
	if kind == "unknown" && n.tagCall != nil && val != nil && val == c18ErrValue(n.tagCall) {
		if n.tagNil {
			kind = "nil"
		} else {
			kind = "nonnil"
		}
	}
	return kind, val
}

func (g *c18Graph) expand(n *c18Node) {
	if n.in == nil {
		return
	}
	fr := n.fr
	blk := n.in.Block()
	next := func(from *c18Node, tagCall *ssa.Call, tagNil bool) {
		i := instrIndex(from.in)
		if i+1 < len(blk.Instrs) {
			g.edge(from, g.node(fr, blk.Instrs[i+1], false, tagCall, tagNil), -1)
		}
	}
	switch in := n.in.(type) {
	case *ssa.Call:
		if n.post {
			next(n, n.tagCall, n.tagNil)
			return
		}
		if f := g.callee(fr, in); f != nil && (g.isRelevant(f) || g.argRelevant(fr, in)) {
			if g.inChain(fr, f) || fr.depth >= c18MaxDepth {
				g.unknown = append(g.unknown, "call to "+FuncName(g.p, f)+" (recursive or nested too deeply to expand)")
			} else {
				c := g.childFrame(fr, in, f)
				g.edge(n, g.node(c, f.Blocks[0].Instrs[0], false, nil, false), -1)
				return
			}
		}
		next(n, n.tagCall, n.tagNil)
	case *ssa.Jump:
		g.edge(n, g.node(g.enterBlock(fr, blk.Succs[0]), blk.Succs[0].Instrs[0], false, n.tagCall, n.tagNil), -1)
	case *ssa.If:
		// header test of an unrolled loop: the index is known, only one branch is feasible
		only := -1
		var w *c18WalkInfo
		if x := g.walksOf(fr.fn)[blk]; x != nil && x.ifi == in {
			if k, ok := fr.iter[x.phi]; ok {
				w = x
				if truth, ok := c18EvalCond(in.Cond, fr.iter); ok && k <= c18MaxUnroll+2 {
					only = 1
					if truth {
						only = 0
					}
				} else {
					g.unknown = append(g.unknown, "a counted loop over a literal slice that could not be unrolled")
					return
				}
			}
		}
		for b := 0; b < 2; b++ {
			if only >= 0 && b != only {
				continue
			}
			cmp, ok := decodeCond(in.Cond, b == 0)
			var val ssa.Value
			isNil := false
			if ok && (cmp.Op == token.EQL || cmp.Op == token.NEQ) {
				switch {
				case c18IsZeroConst(cmp.Y):
					val = c18Root(cmp.X)
				case c18IsZeroConst(cmp.X):
					val = c18Root(cmp.Y)
				}
				isNil = cmp.Op == token.EQL
			}
			tc, tn := n.tagCall, n.tagNil
			if val != nil && n.tagCall != nil && val == c18ErrValue(n.tagCall) {
				if isNil != n.tagNil {
					continue // infeasible: the callee returned the other kind on this path
				}
				tc, tn = nil, false // consumed
			}
			tf := fr
			if w != nil && !w.blocks[blk.Succs[b]] {
				// leaving the unrolled loop: its index is no longer bound
				rest := map[*ssa.Phi]int64{}
				for ph, v := range fr.iter {
					if ph != w.phi {
						rest[ph] = v
					}
				}
				tf = g.iterFrame(fr, rest)
			}
			tf = g.enterBlock(tf, blk.Succs[b])
			e := g.edge(n, g.node(tf, blk.Succs[b].Instrs[0], false, tc, tn), b)
			if val != nil {
				e.hasFact, e.factFr, e.factVal, e.factNil = true, fr, val, isNil
			}
		}
	case *ssa.Return:
		kind, val := g.retKind(n)
		kinds := []string{kind}
		split := false
		if kind == "unknown" {
			kinds, split = []string{"nil", "nonnil"}, true
		}
		for _, k := range kinds {
			var to *c18Node
			if fr.parent == nil {
				ek := "err"
				if k == "nil" || k == "void" {
					ek = "nil"
				}
				to = g.exitNode(n, ek)
				if split && !c18IsCallResult(val) {
					to.uncertain = true
				}
			} else {
				switch k {
				case "nil", "nonnil":
					to = g.node(fr.parent, fr.site, true, fr.site, k == "nil")
				default:
					to = g.node(fr.parent, fr.site, true, nil, false)
				}
			}
			e := g.edge(n, to, -1)
			if split && val != nil {
				e.hasFact, e.factFr, e.factVal, e.factNil = true, fr, val, k == "nil"
			}
		}
	case *ssa.Panic:
	default:
		next(n, n.tagCall, n.tagNil)
	}
}

func c18IsErrorType(v ssa.Value) bool {
	return v.Type().String() == "error"
}

func c18IsCallResult(v ssa.Value) bool {
	switch x := v.(type) {
	case *ssa.Call:
		return true
	case *ssa.Extract:
		_, ok := x.Tuple.(*ssa.Call)
		return ok
	}
	return false
}

// c18RetRoot: the value (chased through variable cells) a return yields as its last result.
func c18RetRoot(ret *ssa.Return, closureWrites map[*ssa.Alloc]bool) ssa.Value {
	if len(ret.Results) == 0 {
		return nil
	}
	v := ret.Results[len(ret.Results)-1]
	if u, ok := v.(*ssa.UnOp); ok && u.Op == token.MUL {
		if cell, ok := u.X.(*ssa.Alloc); ok {
			if closureWrites[cell] {
				return nil
			}
			blk := ret.Block()
			for i := len(blk.Instrs) - 1; i >= 0; i-- {
				if st, ok := blk.Instrs[i].(*ssa.Store); ok && st.Addr == cell {
					return c18Root(st.Val)
				}
			}
			return c18Root(v)
		}
	}
	return c18Root(v)
}

// nodesOf: the (pre-call) nodes of an instruction in a frame.
func (g *c18Graph) nodesOf(fr *c18Frame, in ssa.Instruction) []*c18Node {
	var out []*c18Node
	for _, n := range g.nodes {
		if n.fr == fr && n.in == in && !n.post {
			out = append(out, n)
		}
	}
	return out
}

// reach: nodes reachable from the successors of the given nodes.
func (g *c18Graph) reach(from []*c18Node) map[*c18Node]bool {
	seen := map[*c18Node]bool{}
	var work []*c18Node
	for _, n := range from {
		for _, e := range n.succs {
			work = append(work, e.to)
		}
	}
	for len(work) > 0 {
		n := work[len(work)-1]
		work = work[:len(work)-1]
		if seen[n] {
			continue
		}
		seen[n] = true
		for _, e := range n.succs {
			work = append(work, e.to)
		}
	}
	return seen
}

// reachBack: nodes from which n is reachable (n excluded unless on a cycle).
func (g *c18Graph) reachBack(n *c18Node) map[*c18Node]bool {
	seen := map[*c18Node]bool{}
	var work []*c18Node
	for _, e := range n.preds {
		work = append(work, e.from)
	}
	for len(work) > 0 {
		x := work[len(work)-1]
		work = work[:len(work)-1]
		if seen[x] {
			continue
		}
		seen[x] = true
		for _, e := range x.preds {
			work = append(work, e.from)
		}
	}
	return seen
}

// c18Flow: forward bit-vector dataflow over the graph.
type c18Flow struct {
	g        *c18Graph
	Must     bool
	Entry    uint64
	Transfer func(n *c18Node, st uint64) uint64
	Edge     func(e *c18Edge, st uint64) uint64
	in       map[*c18Node]uint64
	seen     map[*c18Node]bool
}

func (f *c18Flow) Run() {
	f.in = map[*c18Node]uint64{}
	f.seen = map[*c18Node]bool{}
	if f.g.entry == nil {
		return
	}
	f.in[f.g.entry] = f.Entry
	f.seen[f.g.entry] = true
	work := []*c18Node{f.g.entry}
	queued := map[*c18Node]bool{f.g.entry: true}
	for len(work) > 0 {
		n := work[0]
		work = work[1:]
		queued[n] = false
		st := f.in[n]
		if f.Transfer != nil {
			st = f.Transfer(n, st)
		}
		for _, e := range n.succs {
			es := st
			if f.Edge != nil {
				es = f.Edge(e, st)
			}
			var ns uint64
			switch {
			case !f.seen[e.to]:
				ns = es
			case f.Must:
				ns = f.in[e.to] & es
			default:
				ns = f.in[e.to] | es
			}
			if !f.seen[e.to] || ns != f.in[e.to] {
				f.seen[e.to] = true
				f.in[e.to] = ns
				if !queued[e.to] {
					queued[e.to] = true
					work = append(work, e.to)
				}
			}
		}
	}
}

// Before: the state before node n, and whether n is reachable.
func (f *c18Flow) Before(n *c18Node) (uint64, bool) { return f.in[n], f.seen[n] }

// Out: the state after n's own transfer.
func (f *c18Flow) Out(n *c18Node) uint64 {
	st := f.in[n]
	if f.Transfer != nil {
		st = f.Transfer(n, st)
	}
	return st
}

// BeforeAll combines the states before several nodes (the instances of one instruction).
func (f *c18Flow) BeforeAll(ns []*c18Node) (uint64, bool) {
	var st uint64
	first := true
	for _, n := range ns {
		s, ok := f.Before(n)
		if !ok {
			continue
		}
		switch {
		case first:
			st, first = s, false
		case f.Must:
			st &= s
		default:
			st |= s
		}
	}
	return st, !first
}

// c18IsZeroConst: the nil constant, or the empty string constant ("no value" sentinel of a string field).
func c18IsZeroConst(v ssa.Value) bool {
	c, ok := v.(*ssa.Const)
	if !ok {
		return false
	}
	if c.IsNil() {
		return true
	}
	return c.Value != nil && c.Value.Kind() == constant.String && constant.StringVal(c.Value) == ""
}
